package c14

import "verif/harness/kit"

const ruleCommon = "requests are built by client.Runtime.Submit and travel through the wire double (Request.Write -> http.ReadRequest); plain and context-aware authenticator variants are both run and must both satisfy the oracle; " +
	"callbacks answer (principal,nil) | (nil,nil) | (nil,error) | (nil,error with status) | (principal,error) and the authenticator must return exactly that pair; secrets mix a hostile table (':' blanks tabs '+' '%' '&' '=' non-ASCII invalid UTF-8 NUL CR/LF base64 look-alikes 'Bearer x') with random runes/bytes under the position's restriction (header values: no control bytes, no outer blanks; user without ':'); distinct by hash of the whole case"

// Props lists the generated checks of C14.
func Props() []kit.Runner {
	return []kit.Runner{
		kit.Prop[BasicCase]{ID: "C14", Name: "basic", Quick: 10000, Thorough: 100000, Gen: GenBasic, Check: CheckBasic, Classify: ClassifyBasic,
			Rule: "client.BasicAuth(user,password) | no credential | Bearer | another scheme in Authorization, against BasicAuth/BasicAuthRealm[Ctx] with realm given/empty/default, handed the *http.Request or a ScopedAuthRequest; oracle: callback gets exactly user and password, applies=false iff no basic credential, FailedBasicAuth = realm on absent or rejected credentials and empty otherwise; " +
				"non-trivial = a credential is sent and user or password contains a byte outside [A-Za-z0-9-_.~]; " + ruleCommon},
		kit.Prop[KeyCase]{ID: "C14", Name: "apikey", Quick: 10000, Thorough: 100000, Gen: GenKey, Check: CheckKey, Classify: ClassifyKey,
			Rule: "client.APIKeyAuth(name,in,value) in header or query (names in any case, query names needing escapes; server 'in' spelled in any case; header name spelled in another case on the server), key sent in the right place | not at all | in the other location | under another name, against APIKeyAuth[Ctx]; oracle: callback gets exactly the value, applies=false iff no key at the declared place; " +
				"non-trivial = the key is sent at the declared place and contains a byte outside [A-Za-z0-9-_.~] or the header name case differs between the sides; " + ruleCommon},
		kit.Prop[BearerCase]{ID: "C14", Name: "bearer", Quick: 10000, Thorough: 100000, Gen: GenBearer, Check: CheckBearer, Classify: ClassifyBearer,
			Rule: "every subset of token placements {Authorization: Bearer (client.BearerToken) | Basic | scheme without token | other scheme, access_token query parameter, access_token in an urlencoded or multipart body (POST/PUT/PATCH), JSON body, form without the field, look-alike decoy parameters}, each with its own token, with 0-3 required scopes, against BearerAuth[Ctx]; oracle: token taken header > query > form body, callback gets exactly it and the scopes, OAuth2SchemeName = scheme name on a hit and empty otherwise, applies=false iff no placement carries a token; " +
				"non-trivial = at least two simultaneous placements or the selected token contains a byte outside [A-Za-z0-9-_.~]; " + ruleCommon},
		kit.Prop[DefaultCase]{ID: "C14", Name: "default", Quick: 10000, Thorough: 100000, Gen: GenDefault, Check: CheckDefault, Classify: ClassifyDefault,
			Rule: "Runtime.DefaultAuthentication in {basic, bearer, apikey header, apikey query, Compose(apikey header, nil, bearer), Compose(apikey query, basic)} x operation AuthInfo in {none, any of those, PassThroughAuth} x Authorization pre-set by the parameter writer {no, another scheme}; the server runs basic, bearer and both API key authenticators; oracle: they recover exactly the effective credential (the operation's own, else nothing of the default when Authorization is pre-set, else the default) and a pre-set Authorization arrives untouched; " +
				"non-trivial = default-vs-explicit conflict (own writer or pre-set header) or an applied default with a byte outside [A-Za-z0-9-_.~]; " + ruleCommon},
		kit.Prop[StackCase]{ID: "C14", Name: "stack", Quick: 800, Thorough: 5000, Gen: GenStack, Check: CheckStack, Classify: ClassifyStack,
			Rule: "one secured operation of a description (basic | apiKey header/query | oauth2 with 0-3 declared scopes; requirement on the operation or global) served by Context.RoutesHandler with the security.* authenticator registered for the scheme, credential sent by the operation's writer, by the default credential, or not at all; oracle: callback gets exactly the credential and the operation's required scopes, handler runs when the callback accepts with a principal and never when it rejects or nothing is sent; " +
				"non-trivial = a credential is sent and it contains a byte outside [A-Za-z0-9-_.~] or scopes are declared; " + ruleCommon},
	}
}
