package c14

import (
	"context"
	"encoding/json"
	"fmt"
	"net/http"
	"reflect"
	"strings"

	"github.com/go-openapi/loads"
	"github.com/go-openapi/runtime"
	"github.com/go-openapi/runtime/client"
	"github.com/go-openapi/runtime/middleware"
	"github.com/go-openapi/runtime/middleware/untyped"
	"github.com/go-openapi/runtime/security"
	"github.com/go-openapi/strfmt"
	"pgregory.net/rapid"

	"verif/harness/kit"
)

// StackCase drives one secured operation of a description through the whole server stack
// (Context.RoutesHandler -> router -> security middleware -> authenticator registered for the scheme), so that
// the required scopes are the ones the description declares for the operation.
type StackCase struct {
	Base     string   `json:"base"`
	Method   string   `json:"method"`
	Kind     string   `json:"kind"`           // basic | apikey-header | apikey-query | oauth2
	Name     string   `json:"name,omitempty"` // API key name
	User     kit.BStr `json:"user,omitempty"`
	Secret   kit.BStr `json:"secret"`
	Scopes   []string `json:"scopes"` // oauth2: the scopes the operation requires
	Global   bool     `json:"global,omitempty"`
	Via      string   `json:"via"` // op | default | none
	Ctx      bool     `json:"ctx,omitempty"`
	Callback string   `json:"callback"`
	// FormToken (oauth2): the token travels as access_token in a form body ("urlencoded" | "multipart") next to a
	// required form field "note" that the operation declares; the handler receives that field as sent. (r8)
	FormToken string `json:"form_token,omitempty"`
	// FormPad: bytes of a further, undeclared form field (an attachment pasted into a text field): the token is found
	// however long the form is
	FormPad int `json:"form_pad,omitempty"`
}

const formNote = "note of the caller; with = and & in it"

type m = map[string]interface{}

func (c StackCase) spec() m {
	var def m
	switch c.Kind {
	case "basic":
		def = m{"type": "basic"}
	case "apikey-header":
		def = m{"type": "apiKey", "name": c.Name, "in": "header"}
	case "apikey-query":
		def = m{"type": "apiKey", "name": c.Name, "in": "query"}
	default:
		declared := m{}
		for _, s := range c.Scopes {
			declared[s] = "scope"
		}
		def = m{"type": "oauth2", "flow": "accessCode", "authorizationUrl": "http://example.test/a", "tokenUrl": "http://example.test/t", "scopes": declared}
	}
	scopes := []string{}
	if c.Kind == "oauth2" {
		scopes = append(scopes, c.Scopes...)
	}
	req := []m{{"scheme": scopes}}
	op := m{"operationId": "secured", "produces": []string{"application/json"}, "responses": m{"200": m{"description": "ok"}}}
	if c.FormToken != "" {
		op["consumes"] = []string{map[string]string{"urlencoded": "application/x-www-form-urlencoded", "multipart": "multipart/form-data"}[c.FormToken]}
		op["parameters"] = []m{{"name": "note", "in": "formData", "type": "string", "required": true}, {"name": "access_token", "in": "formData", "type": "string"}}
	}
	doc := m{"swagger": "2.0", "info": m{"title": "c14", "version": "1"}, "securityDefinitions": m{"scheme": def},
		"paths": m{"/secured": m{strings.ToLower(c.Method): op}}}
	if c.Base != "" {
		doc["basePath"] = c.Base
	}
	if c.Global {
		doc["security"] = req
	} else {
		op["security"] = req
	}
	return doc
}

func (c StackCase) writer() runtime.ClientAuthInfoWriter {
	switch c.Kind {
	case "basic":
		return client.BasicAuth(string(c.User), string(c.Secret))
	case "apikey-header":
		return client.APIKeyAuth(c.Name, "header", string(c.Secret))
	case "apikey-query":
		return client.APIKeyAuth(c.Name, "query", string(c.Secret))
	}
	return client.BearerToken(string(c.Secret))
}

// CheckStack: the callback of the authenticator registered for the scheme receives exactly the transmitted
// credential and the operation's declared scopes, and the operation's handler runs exactly when the callback
// accepted with a principal.
func CheckStack(c StackCase) *kit.Violation {
	raw, err := json.Marshal(c.spec())
	if err != nil {
		return kit.Failf("HARNESS: the description cannot be marshalled: %v", err)
	}
	s := &seen{}
	handlerRan := 0
	gotNote := ""
	var handler http.Handler
	if v := kit.Guard("loads.Analyzed/untyped.NewAPI/middleware.NewContext", func() {
		doc, lerr := loads.Analyzed(json.RawMessage(raw), "")
		if lerr != nil {
			err = lerr
			return
		}
		api := untyped.NewAPI(doc)
		record := func(args ...string) (interface{}, error) {
			s.calls = append(s.calls, args)
			return cbResult(c.Callback)
		}
		var auth runtime.Authenticator
		switch {
		case c.Kind == "basic" && c.Ctx:
			auth = security.BasicAuthCtx(func(ctx context.Context, u, p string) (context.Context, interface{}, error) {
				pr, e := record(u, p)
				return ctx, pr, e
			})
		case c.Kind == "basic":
			auth = security.BasicAuth(func(u, p string) (interface{}, error) { return record(u, p) })
		case strings.HasPrefix(c.Kind, "apikey-") && c.Ctx:
			auth = security.APIKeyAuthCtx(c.Name, strings.TrimPrefix(c.Kind, "apikey-"), func(ctx context.Context, tok string) (context.Context, interface{}, error) {
				pr, e := record(tok)
				return ctx, pr, e
			})
		case strings.HasPrefix(c.Kind, "apikey-"):
			auth = security.APIKeyAuth(c.Name, strings.TrimPrefix(c.Kind, "apikey-"), func(tok string) (interface{}, error) { return record(tok) })
		case c.Ctx:
			auth = security.BearerAuthCtx("scheme", func(ctx context.Context, tok string, scopes []string) (context.Context, interface{}, error) {
				s.scopes = append(s.scopes, scopes)
				pr, e := record(tok)
				return ctx, pr, e
			})
		default:
			auth = security.BearerAuth("scheme", func(tok string, scopes []string) (interface{}, error) {
				s.scopes = append(s.scopes, scopes)
				return record(tok)
			})
		}
		api.RegisterAuth("scheme", auth)
		api.RegisterConsumer("application/x-www-form-urlencoded", runtime.DiscardConsumer)
		api.RegisterConsumer("multipart/form-data", runtime.DiscardConsumer)
		api.RegisterOperation(c.Method, "/secured", runtime.OperationHandlerFunc(func(data interface{}) (interface{}, error) {
			handlerRan++
			if mp, ok := data.(map[string]interface{}); ok {
				gotNote, _ = mp["note"].(string)
			}
			return map[string]interface{}{"ok": true}, nil
		}))
		handler = middleware.NewContext(doc, api, nil).RoutesHandler(nil)
	}); v != nil {
		return v
	}
	if err != nil {
		return kit.Failf("SPEC the generated description is not accepted: %v\n%s", err, raw)
	}

	w := &wire{h: handler}
	rt := client.New("example.test", c.Base, []string{"http"})
	rt.Transport = checkedWire{w}
	op := &runtime.ClientOperation{ID: "secured", Method: c.Method, PathPattern: "/secured", ProducesMediaTypes: []string{"application/json"}, ConsumesMediaTypes: []string{"application/json"}}
	switch c.Via {
	case "op":
		op.AuthInfo = c.writer()
	case "default":
		rt.DefaultAuthentication = c.writer()
	}
	op.Params = runtime.ClientRequestWriterFunc(func(runtime.ClientRequest, strfmt.Registry) error { return nil })
	if c.FormToken != "" {
		op.AuthInfo, rt.DefaultAuthentication = nil, nil
		op.ConsumesMediaTypes = []string{map[string]string{"urlencoded": "application/x-www-form-urlencoded", "multipart": "multipart/form-data"}[c.FormToken]}
		op.Params = runtime.ClientRequestWriterFunc(func(req runtime.ClientRequest, _ strfmt.Registry) error {
			if err := req.SetFormParam("note", formNote); err != nil {
				return err
			}
			if c.FormPad > 0 {
				if err := req.SetFormParam("attachment", strings.Repeat("p", c.FormPad)); err != nil {
					return err
				}
			}
			if c.Via == "none" {
				return nil
			}
			return req.SetFormParam("access_token", string(c.Secret))
		})
	}
	code := 0
	op.Reader = runtime.ClientResponseReaderFunc(func(rs runtime.ClientResponse, _ runtime.Consumer) (interface{}, error) {
		code = rs.Code()
		return nil, nil
	})
	var serr error
	if v := kit.Guard("Runtime.Submit -> RoutesHandler", func() { _, serr = rt.Submit(op) }); v != nil {
		return v
	}
	what := fmt.Sprintf("STACK %s base=%q kind=%s name=%q user=%q secret=%q scopes=%q global=%v via=%s ctx=%v callback=%s token-in-form-body=%q", c.Method, c.Base, c.Kind, c.Name, c.User, c.Secret, c.Scopes, c.Global, c.Via, c.Ctx, c.Callback, c.FormToken)
	if serr != nil {
		return kit.Failf("%s: Submit returned an error: %v", what, serr)
	}
	if w.served != 1 {
		return kit.Failf("%s: %d requests reached the server, want 1", what, w.served)
	}
	if c.Via == "none" {
		if len(s.calls) != 0 || handlerRan != 0 || code/100 == 2 {
			return kit.Failf("%s: no credential was sent: want no callback call, no handler run, a non-2xx status; got calls=%q handler-runs=%d status=%d", what, s.calls, handlerRan, code)
		}
		return nil
	}
	wantArgs := []string{string(c.Secret)}
	if c.Kind == "basic" {
		wantArgs = []string{string(c.User), string(c.Secret)}
	}
	if len(s.calls) != 1 || !reflect.DeepEqual(s.calls[0], wantArgs) {
		return kit.Failf("%s: want one callback call with exactly %q, got %q (status %d)", what, wantArgs, s.calls, code)
	}
	if c.Kind == "oauth2" && (len(s.scopes) != 1 || !sameScopes(s.scopes[0], c.Scopes)) {
		return kit.Failf("%s: the callback must receive the operation's required scopes %q, got %q", what, c.Scopes, s.scopes)
	}
	// accept with a principal -> the handler runs; any error -> it does not. An acceptance with a nil principal is
	// left to C02 (the statement of C14 does not say what it means for the operation).
	_, cbErr := cbResult(c.Callback)
	switch {
	case c.Callback == cbAccept && (handlerRan != 1 || code != http.StatusOK):
		return kit.Failf("%s: the callback accepted with a principal: want one handler run and status 200, got %d runs, status %d", what, handlerRan, code)
	case c.Callback == cbAccept && c.FormToken != "" && gotNote != formNote:
		return kit.Failf("%s: the token travelled in the %s form body; the handler received the form field note=%q, the caller sent %q", what, c.FormToken, gotNote, formNote)
	case cbErr != nil && (handlerRan != 0 || code/100 == 2):
		return kit.Failf("%s: the callback rejected: want no handler run and a non-2xx status, got %d runs, status %d", what, handlerRan, code)
	}
	return nil
}

// GenStack draws a stack case.
func GenStack(t *rapid.T) StackCase {
	c := StackCase{
		Base:     rapid.SampledFrom([]string{"", "/", "/api", "/v1/x"}).Draw(t, "base"),
		Method:   rapid.SampledFrom([]string{"GET", "POST", "PUT", "DELETE", "PATCH"}).Draw(t, "method"),
		Kind:     rapid.SampledFrom([]string{"basic", "apikey-header", "apikey-query", "oauth2", "oauth2"}).Draw(t, "kind"),
		Global:   rapid.Bool().Draw(t, "global"),
		Via:      rapid.SampledFrom([]string{"op", "op", "op", "default", "default", "none"}).Draw(t, "via"),
		Ctx:      rapid.Bool().Draw(t, "ctx"),
		Callback: rapid.SampledFrom(callbackKinds).Draw(t, "callback"),
		Scopes:   []string{},
	}
	switch c.Kind {
	case "basic":
		c.User = kit.BStr(strings.ReplaceAll(genSecret(t, "user"), ":", ""))
		c.Secret = kit.BStr(genSecret(t, "pass"))
	case "apikey-header":
		c.Name = rapid.SampledFrom([]string{"X-API-Key", "x-api-key", "Api_Key", "X-Auth-Token"}).Draw(t, "name")
		c.Secret = kit.BStr(nonEmpty(headerSafe(genSecret(t, "key")), "k"))
	case "apikey-query":
		c.Name = rapid.SampledFrom([]string{"api_key", "API_KEY", "api key", "k&x", "ü"}).Draw(t, "name")
		c.Secret = kit.BStr(nonEmpty(genSecret(t, "key"), "k"))
	default:
		c.Secret = kit.BStr(nonEmpty(headerSafe(genSecret(t, "token")), "t"))
		if rapid.IntRange(0, 2).Draw(t, "token-in-form-body") == 0 {
			c.FormToken = rapid.SampledFrom([]string{"urlencoded", "multipart"}).Draw(t, "form-kind")
			c.Method = rapid.SampledFrom([]string{"POST", "PUT", "PATCH"}).Draw(t, "form-method")
			c.Secret = kit.BStr(nonEmpty(genSecret(t, "form-token"), "t"))
			c.FormPad = rapid.SampledFrom([]int{0, 0, 70000, 1 << 20}).Draw(t, "form-pad")
		}
		seenScope := map[string]bool{}
		for _, s := range genScopes(t) {
			if !seenScope[s] {
				seenScope[s] = true
				c.Scopes = append(c.Scopes, validUTF8(s))
			}
		}
	}
	return c
}

// ClassifyStack: non-trivial = a credential is sent and it contains a transformed byte, or scopes are declared.
func ClassifyStack(c StackCase) (bool, []string) {
	l := map[string]bool{"kind=" + c.Kind: true, "via=" + c.Via: true, "callback=" + c.Callback: true}
	if c.Global {
		l["security: global"] = true
	} else {
		l["security: on the operation"] = true
	}
	if c.Ctx {
		l["context-aware authenticator"] = true
	}
	if c.Kind == "oauth2" {
		l[fmt.Sprintf("scopes=%d", len(c.Scopes))] = true
	}
	if c.FormToken != "" {
		l["token in a "+c.FormToken+" form body next to a declared form field"] = true
		if c.FormPad > 0 {
			l["form body beyond 64 KiB"] = true
		}
	}
	nt := c.Via != "none" && (transformed(string(c.Secret)) || transformed(string(c.User)) || len(c.Scopes) > 0)
	return nt, sorted(l)
}
