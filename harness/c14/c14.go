// Package c14 decides property C14 (credentials written by the client are exactly those the server checks):
// the client's BasicAuth / APIKeyAuth / BearerToken / Compose writers and the transport-wide default credential
// are driven through client.Runtime.Submit, the request travels over a wire-fidelity transport, and on the far
// side the security.* authenticators (plain and context-aware variants) are run on what arrived. The oracle is
// written from the statement: the application callback receives exactly the transmitted secret (and the required
// scopes), the authenticator returns (applies, principal, error) = (true, the callback's, the callback's) when a
// credential of its kind is present and (false, nil, nil) otherwise, bearer tokens are taken header > query >
// form body, and the default credential is applied iff the operation has none and no Authorization header is set.
package c14

import (
	"context"
	"errors"
	"fmt"
	"net/http"
	"net/url"
	"reflect"
	"strings"

	oaerrors "github.com/go-openapi/errors"
	"github.com/go-openapi/runtime"
	"github.com/go-openapi/runtime/client"
	"github.com/go-openapi/runtime/security"
	"github.com/go-openapi/strfmt"

	"verif/harness/kit"
)

// Application callbacks --------------------------------------------------------------------------------

type principal struct{ id string }

var (
	princAccepted = &principal{"accepted"}
	princOnError  = &principal{"returned together with an error"}
	errPlain      = errors.New("rejected by the application")
	errStatus     = oaerrors.New(http.StatusForbidden, "forbidden by the application")
)

// Callback kinds: what the application's callback answers.
const (
	cbAccept        = "accept"                // (principal, nil)
	cbAcceptNil     = "accept-nil"            // (nil, nil)
	cbReject        = "reject"                // (nil, plain error)
	cbRejectStatus  = "reject-status"         // (nil, error carrying a status)
	cbRejectWithPri = "reject-with-principal" // (principal, error)
)

var callbackKinds = []string{cbAccept, cbAccept, cbAccept, cbAcceptNil, cbReject, cbRejectStatus, cbRejectWithPri}

func cbResult(kind string) (interface{}, error) {
	switch kind {
	case cbAccept:
		return princAccepted, nil
	case cbAcceptNil:
		return nil, nil
	case cbReject:
		return nil, errPlain
	case cbRejectStatus:
		return nil, errStatus
	case cbRejectWithPri:
		return princOnError, errPlain
	}
	panic("HARNESS: unknown callback kind " + kind)
}

type ctxMarker struct{}

// seen is what one authenticator run on the server side produced.
type seen struct {
	runs    int
	applies bool
	princ   interface{}
	err     error
	calls   [][]string // arguments of every callback invocation
	scopes  [][]string // scopes argument of every callback invocation (bearer)
	mute    bool       // a follow-up call on the same authenticator is running: nothing is recorded
	nilCtx  bool       // a context-aware callback was handed a nil context
	failed  string     // security.FailedBasicAuth after the run
	oauth   string     // security.OAuth2SchemeName after the run
	inCb    []string   // bearer, context-aware variant: security.OAuth2SchemeNameCtx of the context the callback was handed
}

func (s *seen) String() string {
	return fmt.Sprintf("applies=%v principal=%s err=%v callback-calls=%q scopes=%q FailedBasicAuth=%q OAuth2SchemeName=%q",
		s.applies, princString(s.princ), s.err, s.calls, s.scopes, s.failed, s.oauth)
}

func princString(p interface{}) string {
	if pp, ok := p.(*principal); ok && pp != nil {
		return "<" + pp.id + ">"
	}
	return fmt.Sprintf("%#v", p)
}

// sameResult: the authenticator hands back exactly what the callback returned - its error and its principal, also when
// the callback returns both (an account that is known and suspended, say). Up to round 5 a withheld principal (nil)
// was accepted next to an error; the tolerance was withdrawn in round 6 (DESIGN.md section 6): "never a principal
// other than the callback's" leaves no room for one the authenticator chose itself, nil included, and every
// authenticator of the unchanged tree passes the callback's pair through.
func sameResult(gotP interface{}, gotE error, kind string) bool {
	wantP, wantE := cbResult(kind)
	return gotE == wantE && gotP == wantP
}

// Transport --------------------------------------------------------------------------------------------

func validHeader(h http.Header) error {
	// what http.Transport checks before it writes a request (a custom RoundTripper bypasses that check)
	for k, vv := range h {
		if k == "" {
			return fmt.Errorf("net/http: invalid header field name %q", k)
		}
		for i := 0; i < len(k); i++ {
			c := k[i]
			if !(c >= '0' && c <= '9' || c >= 'a' && c <= 'z' || c >= 'A' && c <= 'Z' || strings.IndexByte("!#$%&'*+-.^_`|~", c) >= 0) {
				return fmt.Errorf("net/http: invalid header field name %q", k)
			}
		}
		for _, v := range vv {
			for i := 0; i < len(v); i++ {
				if c := v[i]; c < 0x20 && c != '\t' || c == 0x7f {
					return fmt.Errorf("net/http: invalid header field value for %q", k)
				}
			}
		}
	}
	return nil
}

type checkedWire struct{ *wire }

func (w checkedWire) RoundTrip(r *http.Request) (*http.Response, error) {
	if err := validHeader(r.Header); err != nil {
		return nil, err
	}
	return w.wire.RoundTrip(r)
}

// exchange submits the operation through a fresh client runtime whose transport is the wire double; serve is
// run on the request as the server parsed it.
// debugTransport: the exchanges of the current case run with Runtime.Debug on (requests and responses are dumped to a
// logger, here a silent one). What goes over the wire does not depend on it.
var debugTransport bool

type silentLogger struct{}

func (silentLogger) Printf(string, ...interface{}) {}
func (silentLogger) Debugf(string, ...interface{}) {}

func exchange(op *runtime.ClientOperation, def runtime.ClientAuthInfoWriter, serve func(r *http.Request)) *kit.Violation {
	return exchangeAfter(nil, op, def, serve)
}

// exchangeAfter is exchange on a transport that has, if earlier is non-nil, already sent one plain request with
// that earlier default credential configured.
func exchangeAfter(earlier runtime.ClientAuthInfoWriter, op *runtime.ClientOperation, def runtime.ClientAuthInfoWriter, serve func(r *http.Request)) *kit.Violation {
	return exchangeAfterBase("/", earlier, op, def, serve)
}

// exchangeAfterBase is exchangeAfter on a transport with the given base path (which may fix query parameters).
func exchangeAfterBase(base string, earlier runtime.ClientAuthInfoWriter, op *runtime.ClientOperation, def runtime.ClientAuthInfoWriter, serve func(r *http.Request)) *kit.Violation {
	warming := earlier != nil
	w := &wire{h: http.HandlerFunc(func(rw http.ResponseWriter, r *http.Request) {
		if !warming {
			serve(r)
		}
		rw.Header().Set("Content-Type", "application/json")
		rw.WriteHeader(http.StatusOK)
		_, _ = rw.Write([]byte("{}\n"))
	})}
	rt := client.New("example.test", base, []string{"http"})
	rt.Transport = checkedWire{w}
	if debugTransport {
		rt.SetLogger(silentLogger{})
		rt.SetDebug(true)
	}
	if op.Params == nil {
		op.Params = runtime.ClientRequestWriterFunc(func(runtime.ClientRequest, strfmt.Registry) error { return nil })
	}
	op.Reader = runtime.ClientResponseReaderFunc(func(runtime.ClientResponse, runtime.Consumer) (interface{}, error) { return nil, nil })
	if earlier != nil {
		rt.DefaultAuthentication = earlier
		warm := &runtime.ClientOperation{ID: "earlier", Method: "GET", PathPattern: "/earlier",
			Params: runtime.ClientRequestWriterFunc(func(runtime.ClientRequest, strfmt.Registry) error { return nil }),
			Reader: runtime.ClientResponseReaderFunc(func(runtime.ClientResponse, runtime.Consumer) (interface{}, error) { return nil, nil })}
		if earlierWithSameOp {
			warm = op // the caller keeps its operation value and submits it again
		}
		var werr error
		if v := kit.Guard("Runtime.Submit (earlier request)", func() { _, werr = rt.Submit(warm) }); v != nil {
			return v
		}
		if werr != nil {
			return kit.Failf("SUBMIT: the earlier request failed: %v", werr)
		}
		warming = false
		w.served = 0
	}
	rt.DefaultAuthentication = def
	var err error
	var via runtime.ClientTransport = rt
	if tracedTransport {
		// the application wraps its transport for tracing and gives its operations a context: credentials are none of
		// the wrapper's business (r9)
		via = rt.WithOpenTracing()
		op.Context = context.Background()
	}
	if v := kit.Guard("Runtime.Submit -> authenticator", func() { _, err = via.Submit(op) }); v != nil {
		return v
	}
	if err != nil {
		return kit.Failf("SUBMIT: Submit returned an error: %v", err)
	}
	if w.served != 1 {
		return kit.Failf("SUBMIT: %d requests reached the server, want 1", w.served)
	}
	return nil
}

func rawHeader(name, value string) runtime.ClientAuthInfoWriter {
	return runtime.ClientAuthInfoWriterFunc(func(r runtime.ClientRequest, _ strfmt.Registry) error {
		return r.SetHeaderParam(name, value)
	})
}

// authParam is what the authenticator is handed: the request itself or the scoped wrapper the middleware uses.
func authParam(r *http.Request, scoped bool, scopes []string) interface{} {
	if scoped {
		return &security.ScopedAuthRequest{Request: r, RequiredScopes: scopes}
	}
	return r
}

// Basic ------------------------------------------------------------------------------------------------

// BasicCase: a basic credential (or none, or another scheme) against BasicAuth[Realm][Ctx].
type BasicCase struct {
	Debug    bool     `json:"debug,omitempty"` // the transport runs with Runtime.Debug on
	User     kit.BStr `json:"user"`
	Pass     kit.BStr `json:"pass"`
	Realm    string   `json:"realm"`
	NoRealm  bool     `json:"no_realm,omitempty"` // use BasicAuth/BasicAuthCtx (no realm argument)
	Send     string   `json:"send"`               // basic | none | bearer | other
	Other    kit.BStr `json:"other,omitempty"`    // bearer token or raw Authorization value
	Callback string   `json:"callback"`
	Scoped   bool     `json:"scoped,omitempty"`
	Method   string   `json:"method"`
	// Earlier: the request has already been through another basic authenticator (realm earlierRealm, rejecting
	// everything), as happens when an operation lists two basic schemes as alternatives.
	Earlier bool `json:"earlier,omitempty"`
}

const earlierRealm = "the earlier realm"

func (c BasicCase) wantRealm() string {
	if c.NoRealm || c.Realm == "" {
		return security.DefaultRealmName
	}
	return c.Realm
}

func runBasic(c BasicCase, ctxVariant bool) (*seen, *kit.Violation) {
	s := &seen{}
	var auth runtime.Authenticator
	plain := func(u, p string) (interface{}, error) {
		s.calls = append(s.calls, []string{u, p})
		return cbResult(c.Callback)
	}
	withCtx := func(ctx context.Context, u, p string) (context.Context, interface{}, error) {
		if ctx == nil {
			s.nilCtx = true
			ctx = context.Background()
		}
		s.calls = append(s.calls, []string{u, p})
		pr, err := cbResult(c.Callback)
		return context.WithValue(ctx, ctxMarker{}, "app"), pr, err
	}
	if v := kit.Guard("security.BasicAuth*", func() {
		switch {
		case c.NoRealm && ctxVariant:
			auth = security.BasicAuthCtx(withCtx)
		case c.NoRealm:
			auth = security.BasicAuth(plain)
		case ctxVariant:
			auth = security.BasicAuthRealmCtx(c.Realm, withCtx)
		default:
			auth = security.BasicAuthRealm(c.Realm, plain)
		}
	}); v != nil {
		return nil, v
	}
	op := &runtime.ClientOperation{ID: "basic", Method: c.Method, PathPattern: "/secured"}
	switch c.Send {
	case "basic":
		op.AuthInfo = client.BasicAuth(string(c.User), string(c.Pass))
	case "bearer":
		op.AuthInfo = client.BearerToken(string(c.Other))
	case "other":
		op.AuthInfo = rawHeader("Authorization", string(c.Other))
	}
	v := exchange(op, nil, func(r *http.Request) {
		s.runs++
		if c.Earlier {
			_, _, _ = security.BasicAuthRealm(earlierRealm, func(string, string) (interface{}, error) {
				return nil, errors.New("rejected by the earlier authenticator")
			}).Authenticate(authParam(r, c.Scoped, []string{"ignored"}))
		}
		s.applies, s.princ, s.err = auth.Authenticate(authParam(r, c.Scoped, []string{"ignored"}))
		s.failed = security.FailedBasicAuth(r)
		s.oauth = security.OAuth2SchemeName(r)
	})
	return s, v
}

// CheckBasic judges both variants of the basic authenticator on the request the client built.
func CheckBasic(c BasicCase) *kit.Violation {
	debugTransport = c.Debug
	defer func() { debugTransport = false }()
	for _, ctxVariant := range []bool{false, true} {
		s, v := runBasic(c, ctxVariant)
		if v != nil {
			return v
		}
		what := fmt.Sprintf("BASIC ctx-variant=%v send=%s user=%q pass=%q other=%q realm=%q no-realm=%v callback=%s scoped=%v after-another-basic-authenticator=%v", ctxVariant, c.Send, c.User, c.Pass, c.Other, c.Realm, c.NoRealm, c.Callback, c.Scoped, c.Earlier)
		if s.nilCtx {
			return kit.Failf("%s: the context-aware callback was handed a nil context", what)
		}
		if c.Send == "basic" {
			_, cbErr := cbResult(c.Callback)
			wantFailed := ""
			if cbErr != nil {
				wantFailed = c.wantRealm()
			} else if c.Earlier {
				wantFailed = s.failed // a success leaves the earlier authenticator's marker alone or clears it: not this property's business
			}
			if !s.applies || len(s.calls) != 1 || !reflect.DeepEqual(s.calls[0], []string{string(c.User), string(c.Pass)}) ||
				!sameResult(s.princ, s.err, c.Callback) || s.failed != wantFailed {
				wp, we := cbResult(c.Callback)
				return kit.Failf("%s: want applies=true, one callback call with exactly the transmitted user and password, principal=%s err=%v, FailedBasicAuth=%q; got %s",
					what, princString(wp), we, wantFailed, s)
			}
			continue
		}
		if s.applies || s.princ != nil || s.err != nil || len(s.calls) != 0 || s.failed != c.wantRealm() {
			return kit.Failf("%s: the request carries no basic credential: want applies=false, nil, nil, no callback call, FailedBasicAuth=%q; got %s", what, c.wantRealm(), s)
		}
	}
	return nil
}

// API key ----------------------------------------------------------------------------------------------

// KeyCase: an API key in a header or the query against APIKeyAuth[Ctx].
type KeyCase struct {
	Debug      bool     `json:"debug,omitempty"` // the transport runs with Runtime.Debug on
	In         string   `json:"in"`              // header | query: where the description puts the key
	ServerIn   string   `json:"server_in"`       // the spelling handed to security.APIKeyAuth ("header", "Header", "QUERY", …)
	Name       string   `json:"name"`            // the name the client writes
	ServerName string   `json:"server_name"`     // the name the server reads (headers: may differ in case)
	Value      kit.BStr `json:"value"`
	Send       string   `json:"send"` // right | none | other-location | other-name
	Callback   string   `json:"callback"`
	Scoped     bool     `json:"scoped,omitempty"`
	Method     string   `json:"method"`
	// Static: the base path ("base") or the path pattern ("pattern") fixes a query parameter of the key's name
	// (value "anonymous"); the credential the caller attaches takes precedence.
	Static string `json:"static,omitempty"`
	// AfterBearer: the request carries a form body ("urlencoded" | "multipart") with a field named like the key and
	// has been through a bearer authenticator (which found nothing) before the key authenticator sees it, as happens
	// for an operation that lists oauth2 and apiKey requirements.
	AfterBearer string `json:"after_bearer,omitempty"`
}

func runKey(c KeyCase, ctxVariant bool) (*seen, *kit.Violation) {
	s := &seen{}
	var auth runtime.Authenticator
	if v := kit.Guard("security.APIKeyAuth*", func() {
		if ctxVariant {
			auth = security.APIKeyAuthCtx(c.ServerName, c.ServerIn, func(ctx context.Context, tok string) (context.Context, interface{}, error) {
				if ctx == nil {
					s.nilCtx = true
					ctx = context.Background()
				}
				s.calls = append(s.calls, []string{tok})
				pr, err := cbResult(c.Callback)
				return context.WithValue(ctx, ctxMarker{}, "app"), pr, err
			})
		} else {
			auth = security.APIKeyAuth(c.ServerName, c.ServerIn, func(tok string) (interface{}, error) {
				s.calls = append(s.calls, []string{tok})
				return cbResult(c.Callback)
			})
		}
	}); v != nil {
		return nil, v
	}
	op := &runtime.ClientOperation{ID: "key", Method: c.Method, PathPattern: "/secured"}
	other := map[string]string{"header": "query", "query": "header"}[c.In]
	switch c.Send {
	case "right":
		op.AuthInfo = client.APIKeyAuth(c.Name, c.In, string(c.Value))
	case "other-location":
		op.AuthInfo = client.APIKeyAuth(c.Name, other, string(c.Value))
	case "other-name":
		op.AuthInfo = client.APIKeyAuth(c.Name+"-2", c.In, string(c.Value))
	}
	if c.Send != "none" && op.AuthInfo == nil {
		return nil, kit.Failf("KEY client.APIKeyAuth(%q, %q, …) returned no writer", c.Name, c.In)
	}
	base := "/"
	switch c.Static {
	case "base":
		base = "/?" + url.QueryEscape(c.Name) + "=anonymous"
	case "pattern":
		op.PathPattern = "/secured?" + url.QueryEscape(c.Name) + "=anonymous"
	}
	if c.AfterBearer != "" {
		op.ConsumesMediaTypes = []string{map[string]string{"urlencoded": "application/x-www-form-urlencoded", "multipart": "multipart/form-data"}[c.AfterBearer]}
		op.Params = runtime.ClientRequestWriterFunc(func(req runtime.ClientRequest, _ strfmt.Registry) error {
			return req.SetFormParam(c.Name, "from-the-body")
		})
	}
	bearerFound := false
	v := exchangeAfterBase(base, nil, op, nil, func(r *http.Request) {
		s.runs++
		if c.AfterBearer != "" {
			applies, _, _ := security.BearerAuth("oa", func(string, []string) (interface{}, error) {
				return nil, errors.New("rejected by the bearer authenticator")
			}).Authenticate(&security.ScopedAuthRequest{Request: r, RequiredScopes: []string{"read"}})
			bearerFound = applies
		}
		s.applies, s.princ, s.err = auth.Authenticate(authParam(r, c.Scoped, nil))
		s.failed = security.FailedBasicAuth(r)
		s.oauth = security.OAuth2SchemeName(r)
	})
	if v == nil && bearerFound {
		return nil, kit.Failf("harness: the bearer authenticator found a token on a request that carries none")
	}
	return s, v
}

// CheckKey judges both variants of the API key authenticator.
func CheckKey(c KeyCase) *kit.Violation {
	debugTransport = c.Debug
	defer func() { debugTransport = false }()
	for _, ctxVariant := range []bool{false, true} {
		s, v := runKey(c, ctxVariant)
		if v != nil {
			return v
		}
		what := fmt.Sprintf("APIKEY ctx-variant=%v in=%s(server %q) name=%q(server %q) value=%q send=%s callback=%s scoped=%v static-query-parameter-of-that-name=%q form-body-field-of-that-name-after-a-bearer-authenticator=%q", ctxVariant, c.In, c.ServerIn, c.Name, c.ServerName, c.Value, c.Send, c.Callback, c.Scoped, c.Static, c.AfterBearer)
		if s.nilCtx {
			return kit.Failf("%s: the context-aware callback was handed a nil context", what)
		}
		if c.Send == "right" {
			if !s.applies || len(s.calls) != 1 || !reflect.DeepEqual(s.calls[0], []string{string(c.Value)}) || !sameResult(s.princ, s.err, c.Callback) {
				wp, we := cbResult(c.Callback)
				return kit.Failf("%s: want applies=true, one callback call with exactly the transmitted key, principal=%s err=%v; got %s", what, princString(wp), we, s)
			}
			continue
		}
		if s.applies || s.princ != nil || s.err != nil || len(s.calls) != 0 {
			return kit.Failf("%s: the request carries no such key: want applies=false, nil, nil, no callback call; got %s", what, s)
		}
	}
	return nil
}

// Bearer -----------------------------------------------------------------------------------------------

// BearerCase: any combination of token placements against BearerAuth[Ctx].
type BearerCase struct {
	Debug    bool     `json:"debug,omitempty"` // the transport runs with Runtime.Debug on
	Scheme   string   `json:"scheme"`          // the security scheme name handed to BearerAuth
	Scopes   []string `json:"scopes"`          // the operation's required scopes
	Header   string   `json:"header"`          // "" | bearer | basic | scheme-only | other
	HdrTok   kit.BStr `json:"hdr_tok,omitempty"`
	Query    bool     `json:"query,omitempty"`
	QueryTok kit.BStr `json:"query_tok,omitempty"`
	Decoy    bool     `json:"decoy,omitempty"` // also send look-alike parameters (Access_Token, access-token, token)
	Body     string   `json:"body"`            // "" | urlencoded | multipart | json | urlencoded-without | multipart-without
	BodyTok  kit.BStr `json:"body_tok,omitempty"`
	Method   string   `json:"method"`
	Callback string   `json:"callback"`
	// UpperCT: the media type of the form body's Content-Type reaches the server spelled with capitals
	// ("Application/X-WWW-Form-Urlencoded", "Multipart/Form-Data; boundary=..."): media types are case-insensitive. (r6)
	UpperCT bool `json:"upper_ct,omitempty"`
}

// capitalised spells the media type of a Content-Type value with capitals and leaves its parameters alone.
func capitalised(ct string) string {
	mt, rest := ct, ""
	if i := strings.IndexByte(ct, ';'); i >= 0 {
		mt, rest = ct[:i], ct[i:]
	}
	parts := strings.SplitN(mt, "/", 2)
	if len(parts) != 2 || parts[0] == "" {
		return ct
	}
	return strings.ToUpper(parts[0][:1]) + parts[0][1:] + "/" + strings.ToUpper(parts[1]) + rest
}

// want is the token the statement's precedence selects: Authorization header, else access_token query
// parameter, else form body.
func (c BearerCase) want() (string, string) {
	switch {
	case c.Header == "bearer":
		return string(c.HdrTok), "header"
	case c.Query && c.QueryTok != "": // an access_token parameter without a value carries no token (r9)
		return string(c.QueryTok), "query"
	case c.Body == "urlencoded" || c.Body == "multipart":
		return string(c.BodyTok), "body"
	}
	return "", ""
}

func runBearer(c BearerCase, ctxVariant bool) (*seen, *kit.Violation) {
	s := &seen{}
	var auth runtime.Authenticator
	if v := kit.Guard("security.BearerAuth*", func() {
		if ctxVariant {
			auth = security.BearerAuthCtx(c.Scheme, func(ctx context.Context, tok string, scopes []string) (context.Context, interface{}, error) {
				if ctx == nil {
					s.nilCtx = true
					ctx = context.Background()
				}
				if s.mute {
					pr, err := cbResult(c.Callback)
					return ctx, pr, err
				}
				s.calls = append(s.calls, []string{tok})
				s.scopes = append(s.scopes, scopes)
				s.inCb = append(s.inCb, security.OAuth2SchemeNameCtx(ctx))
				pr, err := cbResult(c.Callback)
				return context.WithValue(ctx, ctxMarker{}, "app"), pr, err
			})
		} else {
			auth = security.BearerAuth(c.Scheme, func(tok string, scopes []string) (interface{}, error) {
				if s.mute {
					return cbResult(c.Callback)
				}
				s.calls = append(s.calls, []string{tok})
				s.scopes = append(s.scopes, scopes)
				return cbResult(c.Callback)
			})
		}
	}); v != nil {
		return nil, v
	}
	op := &runtime.ClientOperation{ID: "bearer", Method: c.Method, PathPattern: "/secured"}
	switch c.Body {
	case "urlencoded", "urlencoded-without":
		op.ConsumesMediaTypes = []string{"application/x-www-form-urlencoded"}
	case "multipart", "multipart-without":
		op.ConsumesMediaTypes = []string{"multipart/form-data"}
	default:
		op.ConsumesMediaTypes = []string{"application/json"}
	}
	op.Params = runtime.ClientRequestWriterFunc(func(req runtime.ClientRequest, _ strfmt.Registry) error {
		if c.Query {
			if err := req.SetQueryParam("access_token", string(c.QueryTok)); err != nil {
				return err
			}
		}
		if c.Decoy {
			_ = req.SetQueryParam("Access_Token", "decoy-query-1")
			_ = req.SetQueryParam("access-token", "decoy-query-2")
			_ = req.SetQueryParam("token", "decoy-query-3")
			_ = req.SetHeaderParam("Access_token", "decoy-header")
		}
		switch c.Body {
		case "urlencoded", "multipart":
			if c.Decoy {
				_ = req.SetFormParam("Access_Token", "decoy-body")
			}
			return req.SetFormParam("access_token", string(c.BodyTok))
		case "urlencoded-without", "multipart-without":
			return req.SetFormParam("other_field", string(c.BodyTok))
		case "json":
			return req.SetBodyParam(map[string]string{"access_token": string(c.BodyTok)})
		}
		return nil
	})
	switch c.Header {
	case "bearer":
		op.AuthInfo = client.BearerToken(string(c.HdrTok))
	case "basic":
		op.AuthInfo = client.BasicAuth("user", string(c.HdrTok))
	case "scheme-only":
		op.AuthInfo = client.BearerToken("") // "Authorization: Bearer" without a token
	case "other":
		op.AuthInfo = rawHeader("Authorization", string(c.HdrTok))
	}
	v := exchange(op, nil, func(r *http.Request) {
		s.runs++
		if c.UpperCT && r.Header.Get("Content-Type") != "" {
			r.Header.Set("Content-Type", capitalised(r.Header.Get("Content-Type")))
		}
		s.applies, s.princ, s.err = auth.Authenticate(authParam(r, true, c.Scopes))
		s.failed = security.FailedBasicAuth(r)
		s.oauth = security.OAuth2SchemeName(r)
		// the same authenticator serves another operation afterwards: what the first callback was handed (it may keep
		// it: an audit record, a goroutine still at work) stays what it was (r10)
		s.mute = true
		_, _, _ = auth.Authenticate(authParam(r, true, []string{"later:op"}))
		s.mute = false
	})
	return s, v
}

// CheckBearer judges both variants of the bearer authenticator.
func CheckBearer(c BearerCase) *kit.Violation {
	debugTransport = c.Debug
	defer func() { debugTransport = false }()
	want, from := c.want()
	for _, ctxVariant := range []bool{false, true} {
		s, v := runBearer(c, ctxVariant)
		if v != nil {
			return v
		}
		what := fmt.Sprintf("BEARER ctx-variant=%v %s header=%s/%q query=%v/%q body=%s/%q(content type in capitals=%v) decoy=%v scheme=%q scopes=%q callback=%s", ctxVariant, c.Method, c.Header, c.HdrTok, c.Query, c.QueryTok, c.Body, c.BodyTok, c.UpperCT, c.Decoy, c.Scheme, c.Scopes, c.Callback)
		if s.nilCtx {
			return kit.Failf("%s: the context-aware callback was handed a nil context", what)
		}
		if from == "" {
			if s.applies || s.princ != nil || s.err != nil || len(s.calls) != 0 || s.oauth != "" {
				return kit.Failf("%s: the request carries no bearer token: want applies=false, nil, nil, no callback call, no OAuth2SchemeName; got %s", what, s)
			}
			continue
		}
		if !s.applies || len(s.calls) != 1 || s.calls[0][0] != want || !sameScopes(s.scopes[0], c.Scopes) || !sameResult(s.princ, s.err, c.Callback) || s.oauth != c.Scheme {
			wp, we := cbResult(c.Callback)
			return kit.Failf("%s: want applies=true, one callback call with the %s token %q and scopes %q, principal=%s err=%v, OAuth2SchemeName=%q; got %s",
				what, from, want, c.Scopes, princString(wp), we, c.Scheme, s)
		}
		// OAuth2SchemeNameCtx reads the scheme from a context: the one place an application holds that context is its
		// context-aware callback (one callback serving several oauth2 schemes tells them apart this way)
		if ctxVariant && (len(s.inCb) != 1 || s.inCb[0] != c.Scheme) {
			return kit.Failf("%s: inside the callback OAuth2SchemeNameCtx(ctx) reads %q, the authenticator was built for scheme %q", what, s.inCb, c.Scheme)
		}
	}
	return nil
}

func sameScopes(got, want []string) bool {
	if len(got) == 0 && len(want) == 0 {
		return true
	}
	return reflect.DeepEqual(got, want)
}

// Default credential -----------------------------------------------------------------------------------

// Cred is a client credential writer.
type Cred struct {
	Kind   string   `json:"kind"` // basic | bearer | apikey-header | apikey-query | compose (apikey-header + bearer) | passthrough
	User   kit.BStr `json:"user,omitempty"`
	Secret kit.BStr `json:"secret,omitempty"` // password, token or key
	Key    kit.BStr `json:"key,omitempty"`    // compose: the API key (Secret is the bearer token)
}

const (
	keyHeader = "X-Api-Key"
	keyQuery  = "api_key"
)

func (c Cred) writer() runtime.ClientAuthInfoWriter {
	switch c.Kind {
	case "basic":
		return client.BasicAuth(string(c.User), string(c.Secret))
	case "bearer":
		return client.BearerToken(string(c.Secret))
	case "apikey-header":
		return client.APIKeyAuth(keyHeader, "header", string(c.Secret))
	case "apikey-query":
		return client.APIKeyAuth(keyQuery, "query", string(c.Secret))
	case "compose":
		return client.Compose(client.APIKeyAuth(keyHeader, "header", string(c.Key)), nil, client.BearerToken(string(c.Secret)))
	case "compose-query":
		return client.Compose(client.APIKeyAuth(keyQuery, "query", string(c.Key)), client.BasicAuth(string(c.User), string(c.Secret)))
	case "passthrough":
		return client.PassThroughAuth
	}
	panic("HARNESS: unknown credential kind " + c.Kind)
}

// recovered is what the four server authenticators got out of a request: "" = not applicable.
type recovered struct {
	Basic     []string // user, password
	Bearer    string
	KeyHeader string
	KeyQuery  string
}

func (c Cred) recovered() recovered {
	var r recovered
	switch c.Kind {
	case "basic":
		r.Basic = []string{string(c.User), string(c.Secret)}
	case "bearer":
		r.Bearer = string(c.Secret)
	case "apikey-header":
		r.KeyHeader = string(c.Secret)
	case "apikey-query":
		r.KeyQuery = string(c.Secret)
	case "compose":
		r.KeyHeader, r.Bearer = string(c.Key), string(c.Secret)
	case "compose-query":
		r.KeyQuery, r.Basic = string(c.Key), []string{string(c.User), string(c.Secret)}
	}
	return r
}

func (c Cred) writesAuthorization() bool {
	return c.Kind == "basic" || c.Kind == "bearer" || c.Kind == "compose" || c.Kind == "compose-query"
}

// DefaultCase: a transport-wide default credential vs the operation's own writer vs an Authorization header the
// parameter writer has already set.
type DefaultCase struct {
	Debug   bool     `json:"debug,omitempty"` // the transport runs with Runtime.Debug on
	Default Cred     `json:"default"`
	Op      *Cred    `json:"op,omitempty"`
	Preset  kit.BStr `json:"preset,omitempty"` // Authorization value set by the parameter writer ("" = not set); never a Basic/Bearer credential
	// PresetName is the spelling of the header name the parameter writer uses ("" = "Authorization"): header names are
	// case-insensitive, "authorization" pre-sets the same header
	PresetName string `json:"preset_name,omitempty"`
	Method     string `json:"method"`
	// Rotated: the same transport has already sent a request under another default credential (a token that has
	// been rotated since): the default that counts is the one configured when the request is made.
	Rotated *Cred `json:"rotated,omitempty"`
	// SameOp: that earlier request was made with the very *ClientOperation value of this one (a caller that builds
	// its operation once and submits it again). (r6)
	SameOp bool `json:"same_op,omitempty"`
	// Traced: the request is submitted through Runtime.WithOpenTracing() with a context on the operation. (r9)
	Traced bool `json:"traced,omitempty"`
}

// earlierWithSameOp: see DefaultCase.SameOp (set for the duration of one case, like debugTransport).
var earlierWithSameOp bool

// tracedTransport: see DefaultCase.Traced.
var tracedTransport bool

// CheckDefault: the default credential is applied iff the operation has no writer of its own and no
// Authorization header is already set; what the server authenticators recover is exactly the effective credential.
func CheckDefault(c DefaultCase) *kit.Violation {
	debugTransport, earlierWithSameOp, tracedTransport = c.Debug, c.SameOp, c.Traced
	defer func() { debugTransport, earlierWithSameOp, tracedTransport = false, false, false }()
	var got recovered
	var authz []string
	calls := 0
	basic := security.BasicAuth(func(u, p string) (interface{}, error) { calls++; got.Basic = []string{u, p}; return princAccepted, nil })
	bearer := security.BearerAuth("oauth", func(tok string, _ []string) (interface{}, error) {
		calls++
		got.Bearer = tok
		return princAccepted, nil
	})
	kh := security.APIKeyAuth(keyHeader, "header", func(tok string) (interface{}, error) { calls++; got.KeyHeader = tok; return princAccepted, nil })
	kq := security.APIKeyAuth(keyQuery, "query", func(tok string) (interface{}, error) { calls++; got.KeyQuery = tok; return princAccepted, nil })

	op := &runtime.ClientOperation{ID: "default", Method: c.Method, PathPattern: "/secured"}
	if c.Op != nil {
		op.AuthInfo = c.Op.writer()
	}
	if c.Preset != "" {
		op.Params = runtime.ClientRequestWriterFunc(func(req runtime.ClientRequest, _ strfmt.Registry) error {
			name := c.PresetName
			if name == "" {
				name = "Authorization"
			}
			return req.SetHeaderParam(name, string(c.Preset))
		})
	}
	applied := map[string]bool{}
	var earlier runtime.ClientAuthInfoWriter
	if c.Rotated != nil {
		earlier = c.Rotated.writer()
	}
	if v := exchangeAfter(earlier, op, c.Default.writer(), func(r *http.Request) {
		authz = r.Header.Values("Authorization")
		for _, na := range []struct {
			name string
			a    runtime.Authenticator
		}{{"basic", basic}, {"bearer", bearer}, {"key-header", kh}, {"key-query", kq}} {
			ok, _, _ := na.a.Authenticate(&security.ScopedAuthRequest{Request: r})
			applied[na.name] = ok
		}
	}); v != nil {
		return v
	}

	what := fmt.Sprintf("DEFAULT default=%+v op=%s preset=%q earlier-default=%s (same operation value submitted before: %v)", c.Default, credString(c.Op), c.Preset, credString(c.Rotated), c.SameOp)
	var want recovered
	wantAuthz := "" // "" = not judged
	switch {
	case c.Op != nil:
		want = c.Op.recovered()
		if c.Preset != "" && !c.Op.writesAuthorization() {
			wantAuthz = string(c.Preset)
		}
		if c.Preset != "" && c.Op.writesAuthorization() {
			// the statement does not say which of the operation's own credential and a pre-set header wins; only the
			// default credential is judged: it must not appear
			if reflect.DeepEqual(got.Basic, c.Default.recovered().Basic) && got.Basic != nil || got.Bearer != "" && got.Bearer == c.Default.recovered().Bearer {
				return kit.Failf("%s: the default credential was applied although the operation has its own writer; server recovered %+v, Authorization %q", what, got, authz)
			}
			got.Basic, got.Bearer, want.Basic, want.Bearer = nil, "", nil, ""
		}
	case c.Preset != "":
		wantAuthz = string(c.Preset)
	default:
		want = c.Default.recovered()
	}
	if !reflect.DeepEqual(got, want) {
		return kit.Failf("%s: the server authenticators must recover %+v, they recovered %+v (Authorization header %q)", what, want, got, authz)
	}
	if wantAuthz != "" && (len(authz) != 1 || authz[0] != wantAuthz) {
		return kit.Failf("%s: the Authorization header set by the parameter writer must arrive untouched, the server saw %q", what, authz)
	}
	for _, name := range []string{"basic", "bearer", "key-header", "key-query"} {
		ok := applied[name]
		has := map[string]bool{"basic": want.Basic != nil, "bearer": want.Bearer != "", "key-header": want.KeyHeader != "", "key-query": want.KeyQuery != ""}[name]
		if c.Op != nil && c.Preset != "" && c.Op.writesAuthorization() && (name == "basic" || name == "bearer") {
			continue
		}
		if ok != has {
			return kit.Failf("%s: authenticator %s reports applies=%v, want %v (recovered %+v)", what, name, ok, has, got)
		}
	}
	return nil
}

func credString(c *Cred) string {
	if c == nil {
		return "none"
	}
	return fmt.Sprintf("%+v", *c)
}
