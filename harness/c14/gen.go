package c14

import (
	"sort"
	"strings"
	"unicode/utf8"

	"pgregory.net/rapid"

	"verif/harness/kit"
)

// hostile constants mixed into every secret.
var hostile = []string{
	"abc", "a b", "Bearer x", "Basic abc", "bearer", "tok\ttab", "ü", "€uro", "😀", "a=b&c", "a+b", "%41", "%", "\xff", "\xff\x00", "=", "==", "a,b", ":", "::", "p:w", ":lead", "trail:",
	" ", " lead", "trail ", "\t", "\x00", "\r\n", "\n", "a\r\nX-Injected: 1", "/", "?", "#", "&", ";", "\"", "'", "\\", "<>", "{}", "dXNlcjpwYXNz", "YQ==", "-", "_", ".", "~",
	"access_token=x", "Bearer", "Bearer ", "null", " ", " ", "é", "a;b", "+", "++", "%2B", "%20", "%00",
}

var plain = []string{"a", "admin", "secret", "token123", "Z9", "user", "pw"}

func genSecret(t *rapid.T, label string) string {
	switch rapid.IntRange(0, 9).Draw(t, label+"-cls") {
	case 0, 1, 2, 3:
		return rapid.SampledFrom(hostile).Draw(t, label+"-h")
	case 4, 5:
		n := rapid.IntRange(2, 3).Draw(t, label+"-n")
		var b strings.Builder
		for i := 0; i < n; i++ {
			if rapid.Bool().Draw(t, label+"-p") {
				b.WriteString(rapid.SampledFrom(plain).Draw(t, label+"-pl"))
			} else {
				b.WriteString(rapid.SampledFrom(hostile).Draw(t, label+"-h"))
			}
		}
		return b.String()
	case 6, 7:
		return rapid.StringN(0, 10, -1).Draw(t, label+"-u")
	case 8:
		return string(rapid.SliceOfN(rapid.Byte(), 0, 6).Draw(t, label+"-b"))
	default:
		return rapid.SampledFrom(plain).Draw(t, label+"-pl")
	}
}

// headerSafe applies the documented restriction of header values: no control bytes (a tab inside is allowed),
// no blanks at the ends (the HTTP grammar strips them). Bytes >= 0x80 stay.
func headerSafe(s string) string {
	b := make([]byte, 0, len(s))
	for i := 0; i < len(s); i++ {
		if c := s[i]; c < 0x20 && c != '\t' || c == 0x7f {
			continue
		}
		b = append(b, s[i])
	}
	return strings.Trim(string(b), " \t")
}

func nonEmpty(s, dflt string) string {
	if s == "" {
		return dflt
	}
	return s
}

var methodsAny = []string{"GET", "POST", "PUT", "DELETE", "PATCH", "HEAD", "OPTIONS"}

// otherAuthorization: Authorization values of schemes other than the one under test (never a well-formed
// credential of that scheme).
var otherForBasic = []string{"Digest username=\"u\", realm=\"r\"", "Token abc", "Negotiate YII=", "Basic", "BasicX dXNlcjpwYXNz", "Bas", "basi", "x", "Bearer dXNlcjpwYXNz", "OAuth a:b"}
var otherForBearer = []string{"Digest username=\"u\"", "Token abc", "Basic dXNlcjpwYXNz", "BearerX tok", "Bearertok", "Bear", "Bearer", "MAC id=\"h\"", "x", "Bearer,tok"}

// GenBasic draws a basic-auth case.
func GenBasic(t *rapid.T) BasicCase {
	c := BasicCase{
		User:     kit.BStr(strings.ReplaceAll(genSecret(t, "user"), ":", "")),
		Pass:     kit.BStr(genSecret(t, "pass")),
		Realm:    rapid.SampledFrom([]string{"", "API", "my realm", `r "q"`, "ü", "a,b", `back\slash`}).Draw(t, "realm"),
		NoRealm:  rapid.IntRange(0, 3).Draw(t, "norealm") == 0,
		Send:     rapid.SampledFrom([]string{"basic", "basic", "basic", "basic", "none", "bearer", "other"}).Draw(t, "send"),
		Callback: rapid.SampledFrom(callbackKinds).Draw(t, "callback"),
		Scoped:   rapid.Bool().Draw(t, "scoped"),
		Method:   rapid.SampledFrom(methodsAny).Draw(t, "method"),
	}
	c.Earlier = rapid.IntRange(0, 3).Draw(t, "after-another-basic-authenticator") == 0
	switch c.Send {
	case "bearer":
		c.Other = kit.BStr(nonEmpty(headerSafe(genSecret(t, "other")), "tok"))
	case "other":
		c.Other = kit.BStr(rapid.SampledFrom(otherForBasic).Draw(t, "other"))
	}
	c.Debug = rapid.IntRange(0, 3).Draw(t, "debug-transport") == 0
	return c
}

func variantsOf(name string) []string {
	return []string{name, strings.ToLower(name), strings.ToUpper(name), strings.Title(strings.ToLower(name))} //nolint:staticcheck
}

// GenKey draws an API key case.
func GenKey(t *rapid.T) KeyCase {
	c := KeyCase{
		In:       rapid.SampledFrom([]string{"header", "query"}).Draw(t, "in"),
		Send:     rapid.SampledFrom([]string{"right", "right", "right", "right", "none", "other-location", "other-name"}).Draw(t, "send"),
		Callback: rapid.SampledFrom(callbackKinds).Draw(t, "callback"),
		Scoped:   rapid.Bool().Draw(t, "scoped"),
		Method:   rapid.SampledFrom(methodsAny).Draw(t, "method"),
	}
	c.ServerIn = rapid.SampledFrom(variantsOf(c.In)).Draw(t, "server-in")
	if c.In == "header" {
		c.Name = rapid.SampledFrom([]string{"X-API-Key", "x-api-key", "X-Api-KEY", "api_key", "Key", "X.Dot", "a!b", "x-1", "APIKEY", "X-Auth-Token"}).Draw(t, "name")
		c.ServerName = rapid.SampledFrom(variantsOf(c.Name)).Draw(t, "server-name")
		c.Value = kit.BStr(nonEmpty(headerSafe(genSecret(t, "value")), "k"))
	} else {
		c.Name = rapid.SampledFrom([]string{"api_key", "API_KEY", "api key", "k&x", "ü", "a+b", "a=b", "%41", "key[]", "access_token", "k"}).Draw(t, "name")
		c.ServerName = c.Name // query names are case-sensitive
		c.Value = kit.BStr(nonEmpty(genSecret(t, "value"), "k"))
	}
	if c.In == "query" && c.Send == "right" && rapid.IntRange(0, 3).Draw(t, "static-parameter") == 0 {
		c.Static = rapid.SampledFrom([]string{"base", "pattern"}).Draw(t, "static")
	}
	if c.Name != "access_token" && (c.Send == "right" || c.Send == "none") && rapid.IntRange(0, 3).Draw(t, "after-bearer") == 0 {
		c.AfterBearer = rapid.SampledFrom([]string{"urlencoded", "urlencoded", "multipart"}).Draw(t, "form")
		c.Method = rapid.SampledFrom([]string{"POST", "PUT", "PATCH"}).Draw(t, "form-method")
	}
	if c.Send == "other-location" {
		// the same key sent in the other location must be expressible there
		if c.In == "query" {
			c.Name = rapid.SampledFrom([]string{"api_key", "API_KEY", "k", "access_token"}).Draw(t, "name2")
			c.ServerName = c.Name
			c.Value = kit.BStr(nonEmpty(headerSafe(string(c.Value)), "k"))
		}
	}
	c.Debug = rapid.IntRange(0, 3).Draw(t, "debug-transport") == 0
	return c
}

func validUTF8(s string) string {
	if utf8.ValidString(s) {
		return s
	}
	return strings.ToValidUTF8(s, "?")
}

var scopePool = []string{"read", "write", "write:pets", "a b", "ü", "", "https://example.test/auth/x.read", "admin", "*", "a,b"}

func genScopes(t *rapid.T) []string {
	n := rapid.IntRange(0, 3).Draw(t, "nscopes")
	out := []string{}
	for i := 0; i < n; i++ {
		out = append(out, rapid.SampledFrom(scopePool).Draw(t, "scope"))
	}
	return out
}

// GenBearer draws a bearer case: every subset of {Authorization: Bearer | other scheme, access_token query,
// access_token in an urlencoded or multipart body}, each with its own token.
func GenBearer(t *rapid.T) BearerCase {
	c := BearerCase{
		Scheme:   rapid.SampledFrom([]string{"oauth", "petstore_auth", "", "o a", "ü"}).Draw(t, "scheme"),
		Scopes:   genScopes(t),
		Header:   rapid.SampledFrom([]string{"", "", "bearer", "bearer", "bearer", "basic", "scheme-only", "other"}).Draw(t, "header"),
		Query:    rapid.Bool().Draw(t, "query"),
		Decoy:    rapid.IntRange(0, 3).Draw(t, "decoy") == 0,
		Body:     rapid.SampledFrom([]string{"", "", "urlencoded", "urlencoded", "multipart", "multipart", "json", "urlencoded-without", "multipart-without"}).Draw(t, "body"),
		Callback: rapid.SampledFrom(callbackKinds).Draw(t, "callback"),
	}
	switch c.Header {
	case "bearer":
		c.HdrTok = kit.BStr(nonEmpty(headerSafe(genSecret(t, "hdr-tok")), "h"))
	case "basic":
		c.HdrTok = kit.BStr(genSecret(t, "hdr-pass"))
	case "other":
		c.HdrTok = kit.BStr(rapid.SampledFrom(otherForBearer).Draw(t, "hdr-other"))
	}
	if c.Query {
		c.QueryTok = kit.BStr(nonEmpty(genSecret(t, "query-tok"), "q"))
		// (not next to a multipart body: there net/http's FormValue lists the query value first, so a valueless query
		// parameter shadows the form field on the unchanged tree as well - noted in DESIGN.md section 5b, not judged)
		if !strings.HasPrefix(c.Body, "multipart") && rapid.IntRange(0, 3).Draw(t, "query-parameter-without-value") == 0 {
			c.QueryTok = ""
		}
	}
	if c.Body != "" {
		c.BodyTok = kit.BStr(nonEmpty(genSecret(t, "body-tok"), "b"))
		// a form body is defined for the methods whose request body has defined semantics (RFC 6750 2.2) and that
		// net/http parses form bodies for: POST, PUT, PATCH
		c.Method = rapid.SampledFrom([]string{"POST", "PUT", "PATCH"}).Draw(t, "method")
	} else {
		c.Method = rapid.SampledFrom(methodsAny).Draw(t, "method")
	}
	c.Debug = rapid.IntRange(0, 3).Draw(t, "debug-transport") == 0
	c.UpperCT = c.Body != "" && rapid.IntRange(0, 2).Draw(t, "content-type-capitals") == 0
	return c
}

func genCred(t *rapid.T, tag string, allowPassthrough bool) Cred {
	kinds := []string{"basic", "bearer", "apikey-header", "apikey-query", "compose", "compose-query"}
	if allowPassthrough {
		kinds = append(kinds, "passthrough")
	}
	c := Cred{Kind: rapid.SampledFrom(kinds).Draw(t, tag+"-kind")}
	// default and per-operation secrets are told apart by their first byte
	switch c.Kind {
	case "basic":
		c.User = kit.BStr(tag + strings.ReplaceAll(genSecret(t, tag+"-user"), ":", ""))
		c.Secret = kit.BStr(tag + genSecret(t, tag+"-pass"))
	case "bearer", "apikey-header":
		c.Secret = kit.BStr(headerSafe(tag + genSecret(t, tag+"-secret")))
	case "apikey-query":
		c.Secret = kit.BStr(tag + genSecret(t, tag+"-secret"))
	case "compose":
		c.Secret = kit.BStr(headerSafe(tag + genSecret(t, tag+"-secret")))
		c.Key = kit.BStr(headerSafe(tag + "k" + genSecret(t, tag+"-key")))
	case "compose-query":
		c.User = kit.BStr(tag + strings.ReplaceAll(genSecret(t, tag+"-user"), ":", ""))
		c.Secret = kit.BStr(tag + genSecret(t, tag+"-pass"))
		c.Key = kit.BStr(tag + "k" + genSecret(t, tag+"-key"))
	}
	return c
}

// GenDefault draws a default-credential case.
func GenDefault(t *rapid.T) DefaultCase {
	c := DefaultCase{Default: genCred(t, "D", false), Method: rapid.SampledFrom(methodsAny).Draw(t, "method")}
	if rapid.IntRange(0, 2).Draw(t, "has-op") == 0 {
		op := genCred(t, "O", true)
		c.Op = &op
	}
	if rapid.IntRange(0, 2).Draw(t, "has-preset") == 0 {
		scheme := rapid.SampledFrom([]string{"Preset", "Digest", "Token", "MAC", "BearerX", "Negotiate", "x"}).Draw(t, "preset-scheme")
		c.Preset = kit.BStr(headerSafe(scheme + " " + genSecret(t, "preset")))
		c.PresetName = rapid.SampledFrom([]string{"", "", "authorization", "AUTHORIZATION", "AuthoriZation"}).Draw(t, "preset-name")
	}
	if rapid.IntRange(0, 2).Draw(t, "rotated") == 0 {
		r := genCred(t, "R", false)
		c.Rotated = &r
		c.SameOp = rapid.Bool().Draw(t, "earlier-request-with-the-same-operation-value")
	}
	c.Debug = rapid.IntRange(0, 3).Draw(t, "debug-transport") == 0
	c.Traced = rapid.IntRange(0, 3).Draw(t, "traced-transport") == 0
	return c
}

// Classification ---------------------------------------------------------------------------------------

func transformed(s string) bool {
	for i := 0; i < len(s); i++ {
		c := s[i]
		if !(c >= 'a' && c <= 'z' || c >= 'A' && c <= 'Z' || c >= '0' && c <= '9' || c == '-' || c == '_' || c == '.' || c == '~') {
			return true
		}
	}
	return false
}

func secretLabels(labels map[string]bool, where, s string) {
	if !utf8.ValidString(s) {
		labels[where+": invalid UTF-8"] = true
	} else if transformed(s) && len(s) != len([]rune(s)) {
		labels[where+": non-ASCII"] = true
	}
	for _, cl := range []struct{ chars, name string }{{":", "colon"}, {" \t", "blank"}, {"+%&=", "+ % & ="}, {"\r\n\x00", "CR/LF/NUL"}} {
		if strings.ContainsAny(s, cl.chars) {
			labels[where+": "+cl.name] = true
		}
	}
	if s == "" {
		labels[where+": empty"] = true
	}
}

func sorted(labels map[string]bool) []string {
	out := make([]string, 0, len(labels))
	for l := range labels {
		out = append(out, l)
	}
	sort.Strings(out)
	return out
}

// ClassifyBasic: non-trivial = a credential is sent and user or password contains a byte outside the unreserved set.
func ClassifyBasic(c BasicCase) (bool, []string) {
	l := map[string]bool{"send=" + c.Send: true, "callback=" + c.Callback: true}
	if c.NoRealm {
		l["realm: default function"] = true
	} else if c.Realm == "" {
		l["realm: empty"] = true
	} else {
		l["realm: given"] = true
	}
	if c.Scoped {
		l["param: ScopedAuthRequest"] = true
	} else {
		l["param: *http.Request"] = true
	}
	nt := false
	if c.Earlier {
		l["after another basic authenticator with its own realm"] = true
		nt = true
	}
	if c.Send == "basic" {
		secretLabels(l, "user", string(c.User))
		secretLabels(l, "password", string(c.Pass))
		nt = transformed(string(c.User)) || transformed(string(c.Pass))
	}
	return nt, sorted(l)
}

// ClassifyKey: non-trivial = the key is sent where the server looks and contains a transformed byte, or the
// header name is spelled differently on the two sides.
func ClassifyKey(c KeyCase) (bool, []string) {
	l := map[string]bool{"in=" + c.In: true, "send=" + c.Send: true, "callback=" + c.Callback: true}
	if c.ServerIn != c.In {
		l["server 'in' spelled in another case"] = true
	}
	if c.ServerName != c.Name {
		l["header name spelled in another case on the server"] = true
	}
	if transformed(c.Name) {
		l["name needing escape/non-token"] = true
	}
	nt := false
	if c.Static != "" {
		l["query key next to a static query parameter of the same name in the "+c.Static] = true
		nt = true
	}
	if c.AfterBearer != "" {
		l["after a bearer authenticator, "+c.AfterBearer+" body field named like the key, send="+c.Send] = true
		nt = true
	}
	if c.Send == "right" {
		secretLabels(l, "value", string(c.Value))
		nt = nt || transformed(string(c.Value)) || c.ServerName != c.Name
	}
	return nt, sorted(l)
}

// ClassifyBearer: non-trivial = at least two simultaneous placements, or the selected token contains a
// transformed byte.
func ClassifyBearer(c BearerCase) (bool, []string) {
	l := map[string]bool{"header=" + nonEmpty(c.Header, "none"): true, "body=" + nonEmpty(c.Body, "none"): true, "callback=" + c.Callback: true, "method=" + c.Method: true}
	n := 0
	if c.Header == "bearer" {
		n++
	}
	if c.Query && c.QueryTok == "" {
		l["access_token query parameter without a value"] = true
	}
	if c.Query && c.QueryTok != "" {
		n++
		l["query token"] = true
	}
	if c.Body == "urlencoded" || c.Body == "multipart" {
		n++
	}
	l["token placements="+string(rune('0'+n))] = true
	if c.Header != "" && c.Header != "bearer" && (c.Query || c.Body == "urlencoded" || c.Body == "multipart") {
		l["other scheme in Authorization + token elsewhere"] = true
	}
	if c.Decoy {
		l["decoy parameters"] = true
	}
	if c.UpperCT && (c.Body == "urlencoded" || c.Body == "multipart") {
		l["form body announced with its media type in capitals"] = true
	}
	if len(c.Scopes) == 0 {
		l["scopes: none"] = true
	} else {
		l["scopes: some"] = true
	}
	want, from := c.want()
	l["selected from "+nonEmpty(from, "nowhere")] = true
	if from != "" {
		secretLabels(l, "token", want)
	}
	return n >= 2 || from != "" && transformed(want), sorted(l)
}

// ClassifyDefault: non-trivial = a default-vs-explicit conflict (the operation has its own writer or an
// Authorization header is pre-set), or the applied default contains a transformed byte.
func ClassifyDefault(c DefaultCase) (bool, []string) {
	l := map[string]bool{"default=" + c.Default.Kind: true}
	if c.Traced {
		l["submitted through the tracing wrapper of the transport"] = true
	}
	if c.Rotated != nil && c.SameOp {
		l["the same operation value was submitted before under another default credential"] = true
	}
	if c.Op != nil {
		l["op="+c.Op.Kind] = true
	} else {
		l["op=none"] = true
	}
	switch {
	case c.Op != nil && c.Preset != "":
		l["default vs op vs preset"] = true
	case c.Op != nil:
		l["default vs op"] = true
	case c.Preset != "":
		l["default vs preset"] = true
	default:
		l["default applied"] = true
	}
	conflict := c.Op != nil || c.Preset != ""
	return conflict || transformed(string(c.Default.Secret)+string(c.Default.User)+string(c.Default.Key)), sorted(l)
}
