package c20

import (
	"encoding/json"
	"fmt"
	"net/http"
	"net/http/httptest"
	"net/url"
	"path"
	"strings"

	"github.com/go-openapi/loads"
	"github.com/go-openapi/runtime"
	"github.com/go-openapi/runtime/middleware"
	"github.com/go-openapi/runtime/middleware/untyped"

	"verif/harness/kit"
)

type M = map[string]interface{}

// APICase installs the UI and the spec through one of the three Context.APIHandler flavours over a generated
// API whose operations sit next to the document paths.
type APICase struct {
	Flavour   string   `json:"flavour"` // redoc | rapidoc | swaggerui
	APIBase   string   `json:"apiBase"`
	InfoTitle string   `json:"infoTitle"`
	Ops       []string `json:"ops"` // GET operations: literal templates below the API base path
	HasUIBase bool     `json:"hasUIBase,omitempty"`
	UIBase    string   `json:"uiBase,omitempty"`  // WithUIBasePath
	UIPath    string   `json:"uiPath,omitempty"`  // WithUIPath when non-empty
	SpecURL   string   `json:"specURL,omitempty"` // WithUISpecURL when non-empty
	Title     string   `json:"title,omitempty"`   // WithUITitle when non-empty
	Template  int      `json:"template,omitempty"`
	// SharedOpts: a handler for another API is built first from all options but the last, out of the same backing array
	SharedOpts bool  `json:"shared_opts,omitempty"`
	Reqs       []Req `json:"reqs,omitempty"` // further requests around the document paths
}

func (c APICase) Document() []byte {
	paths := M{}
	for i, p := range c.Ops {
		paths[p] = M{"get": M{"operationId": fmt.Sprintf("op%d", i), "responses": M{"200": M{"description": "ok"}}}}
	}
	doc := M{"swagger": "2.0", "info": M{"title": c.InfoTitle, "version": "1"}, "paths": paths}
	if c.APIBase != "" {
		doc["basePath"] = c.APIBase
	}
	raw, err := json.Marshal(doc)
	if err != nil {
		panic(err)
	}
	return raw
}

// UIDoc is where the documentation page is installed: {UI base path, by default the API's}/{UI path, by default docs}.
func (c APICase) UIDoc() string {
	base := c.APIBase
	if c.HasUIBase {
		base = c.UIBase
	}
	if !strings.HasPrefix(base, "/") {
		base = "/" + base
	}
	return path.Join(base, orDefault(c.UIPath, defaultDocs))
}

// SpecDoc is where the spec must be served: the path of the spec URL when it is an absolute URL or path
// (/swagger.json when the option is not given). ok is false for a relative reference.
func (c APICase) SpecDoc() (string, bool) {
	return specLocation(orDefault(c.SpecURL, defaultSpecURL))
}

func (c APICase) title() string {
	return orDefault(orDefault(c.Title, c.InfoTitle), defaultTitle)
}

func (c APICase) opPath(tpl string) string {
	return path.Join("/", orDefault(c.APIBase, "/"), tpl)
}

func (c APICase) brief() string {
	sd, abs := c.SpecDoc()
	return fmt.Sprintf("APIHandler[%s]{api base:%q info.title:%q ops:%q WithUIBasePath:%q(given:%v) WithUIPath:%q WithUISpecURL:%q WithUITitle:%q template:%d} page at %q, spec at %q (absolute reference:%v)",
		c.Flavour, c.APIBase, c.InfoTitle, c.Ops, c.UIBase, c.HasUIBase, c.UIPath, c.SpecURL, c.Title, c.Template, c.UIDoc(), sd, abs)
}

func specRefSlot(flavour string, template int) string {
	switch {
	case template == 1:
		return "SpecURL in href"
	case template == 2:
		return "SpecURL in spec-url"
	case flavour == "swaggerui":
		return "SpecURL in the JS url"
	}
	return "SpecURL in spec-url"
}

// CheckAPI decides the API-handler part of the property for one configuration.
func (c APICase) decoded() APICase {
	c.UIBase, c.UIPath = unraw(c.UIBase), unraw(c.UIPath)
	c.Reqs = unrawReqs(c.Reqs)
	return c
}

func CheckAPI(c APICase) *kit.Violation {
	c = c.decoded()
	if c.Template < 0 || c.Template >= len(Templates) {
		return kit.Failf("HARNESS: unknown template %d", c.Template)
	}
	raw := c.Document()
	doc, err := loads.Analyzed(json.RawMessage(raw), "")
	if err != nil {
		return kit.Failf("HARNESS: description does not load: %v\n%s", err, raw)
	}
	specBytes := string(doc.Raw())
	hits := map[string]int{}
	var h http.Handler
	if v := kit.Guard("NewContext/APIHandler", func() {
		api := untyped.NewAPI(doc)
		for _, p := range c.Ops {
			p := p
			api.RegisterOperation("get", p, runtime.OperationHandlerFunc(func(interface{}) (interface{}, error) {
				hits[p]++
				return "reached " + p, nil
			}))
		}
		ctx := middleware.NewContext(doc, api, nil)
		opts := make([]middleware.UIOption, 0, 8) // an option list with room to grow, as one built with append has
		if c.HasUIBase {
			opts = append(opts, middleware.WithUIBasePath(c.UIBase))
		}
		if c.UIPath != "" {
			opts = append(opts, middleware.WithUIPath(c.UIPath))
		}
		if c.SpecURL != "" {
			opts = append(opts, middleware.WithUISpecURL(c.SpecURL))
		}
		if c.Title != "" {
			opts = append(opts, middleware.WithUITitle(c.Title))
		}
		if c.Template != 0 {
			opts = append(opts, middleware.WithTemplate(Templates[c.Template]))
		}
		if c.SharedOpts && len(opts) > 0 {
			// the application first installs documentation for another API from the options the two have in common (a
			// prefix of the list, sharing its backing array), then this one from the whole list (r7)
			common := opts[:len(opts)-1]
			other := middleware.NewContext(doc, api, nil)
			switch c.Flavour {
			case "redoc":
				_ = other.APIHandler(nil, common...)
			case "rapidoc":
				_ = other.APIHandlerRapiDoc(nil, common...)
			default:
				_ = other.APIHandlerSwaggerUI(nil, common...)
			}
		}
		switch c.Flavour {
		case "redoc":
			h = ctx.APIHandler(nil, opts...)
		case "rapidoc":
			h = ctx.APIHandlerRapiDoc(nil, opts...)
		default:
			h = ctx.APIHandlerSwaggerUI(nil, opts...)
		}
	}); v != nil {
		return kit.Failf("%s\n%s", v.Msg, c.brief())
	}
	get := func(q Req) (*httptest.ResponseRecorder, *kit.Violation) {
		rec := httptest.NewRecorder()
		req := newRequest(q)
		if v := kit.Guard(fmt.Sprintf("serving %s %q", q.Method, q.Path), func() { h.ServeHTTP(rec, req) }); v != nil {
			return nil, kit.Failf("%s\n%s", v.Msg, c.brief())
		}
		return rec, nil
	}
	isPage := func(rec *httptest.ResponseRecorder) bool {
		return rec.Code == http.StatusOK && strings.HasPrefix(rec.Result().Header.Get("Content-Type"), "text/html")
	}
	isSpec := func(rec *httptest.ResponseRecorder) bool {
		return rec.Code == http.StatusOK && rec.Result().Header.Get("Content-Type") == "application/json" && rec.Body.String() == specBytes
	}

	uiDoc := c.UIDoc()
	specDoc, absolute := c.SpecDoc()

	// 1. the page is served at its document path, with escaped option values
	rec, v := get(Req{Method: "GET", Path: uiDoc})
	if v != nil {
		return v
	}
	if uiDoc == specDoc && absolute {
		// both documents claim one path: the statement does not say which wins; the operations are still judged
		if !isPage(rec) && !isSpec(rec) {
			return kit.Failf("NOT-ANSWERED GET %q is the page's and the spec's path, but the answer is %d %q\n%s", uiDoc, rec.Code, rec.Result().Header.Get("Content-Type"), c.brief())
		}
	} else if !absolute && isSpec(rec) {
		// a relative spec reference: where the document lives is outside the statement, and here it lives on the
		// page's own path; as above, the statement does not say which of the two wins
	} else {
		if !isPage(rec) {
			return kit.Failf("NOT-ANSWERED GET %q is the page's document path, but the answer is %d %q\n%s", uiDoc, rec.Code, rec.Result().Header.Get("Content-Type"), c.brief())
		}
		page := rec.Body.String()
		sl := slots(c.Flavour, c.Template, c.title(), c.SpecURL, nil)
		if v := checkPage(page, sl, []string{c.title(), c.SpecURL}); v != nil {
			return kit.Failf("%s\n%s\npage: %s", v.Msg, c.brief(), clip(page))
		}
		// 2. the location the page references serves the spec
		if absolute {
			var ref string
			for _, s := range sl {
				if s.name == specRefSlot(c.Flavour, c.Template) {
					m := s.re.FindStringSubmatch(page)
					ref, _ = decode(s.ctx, m[1])
				}
			}
			pageURL := &url.URL{Scheme: "http", Host: "h.test", Path: uiDoc}
			u, err := url.Parse(ref)
			if err != nil {
				return kit.Failf("SPEC-REFERENCE the page references %q, which is not a URL: %v\n%s", ref, err, c.brief())
			}
			target := pageURL.ResolveReference(u)
			rec, v := get(Req{Method: "GET", Path: target.Path, Query: target.RawQuery})
			if v != nil {
				return v
			}
			if !isSpec(rec) {
				return kit.Failf("SPEC-REFERENCE the page at %q references %q; GET %q on the same handler answers %d %q %q, want the spec document as application/json\n%s",
					uiDoc, ref, target.Path, rec.Code, rec.Result().Header.Get("Content-Type"), clipN(rec.Body.String(), 200), c.brief())
			}
			if path.Clean(target.Path) != specDoc {
				return kit.Failf("HARNESS: referenced %q but the option locates the spec at %q\n%s", target.Path, specDoc, c.brief())
			}
		}
	}

	// 3. operations that are not on an exact document path reach their handler
	for _, p := range c.Ops {
		if c.APIBase != "" && !strings.HasPrefix(c.APIBase, "/") {
			break // where the router puts the operations of a description whose basePath lacks its slash is not this property's matter (r10)
		}
		full := c.opPath(p)
		if full == uiDoc || (absolute && full == specDoc) {
			continue
		}
		before := hits[p]
		rec, v := get(Req{Method: "GET", Path: full})
		if v != nil {
			return v
		}
		if !absolute && isSpec(rec) {
			continue // relative spec reference: where the document lives is outside the statement
		}
		if hits[p] != before+1 || rec.Code != http.StatusOK {
			return kit.Failf("OPERATION-UNREACHABLE GET %q (operation %q) answered %d %q %q and its handler ran %d times\n%s",
				full, p, rec.Code, rec.Result().Header.Get("Content-Type"), clipN(rec.Body.String(), 200), hits[p]-before, c.brief())
		}
	}

	// 4. requests around the document paths: answered iff they clean to a document path
	for _, q := range c.Reqs {
		rec, v := get(q)
		if v != nil {
			return v
		}
		cl := path.Clean(q.Path)
		what := fmt.Sprintf("%s %q", q.Method, q.Path)
		switch {
		case cl == uiDoc && absolute && cl == specDoc:
			if !isPage(rec) && !isSpec(rec) {
				return kit.Failf("NOT-ANSWERED %s cleans to the document paths, answer %d\n%s", what, rec.Code, c.brief())
			}
		case absolute && cl == specDoc:
			if !isSpec(rec) {
				return kit.Failf("NOT-ANSWERED %s cleans to the spec path, but the answer is %d %q %q\n%s", what, rec.Code, rec.Result().Header.Get("Content-Type"), clipN(rec.Body.String(), 200), c.brief())
			}
		case cl == uiDoc:
			if !isPage(rec) && !(isSpec(rec) && !absolute) {
				return kit.Failf("NOT-ANSWERED %s cleans to the page's path, but the answer is %d %q\n%s", what, rec.Code, rec.Result().Header.Get("Content-Type"), c.brief())
			}
		default:
			if isPage(rec) {
				return kit.Failf("INTERCEPTED %s does not clean to a document path, yet the documentation page was served\n%s", what, c.brief())
			}
			if absolute && isSpec(rec) {
				return kit.Failf("INTERCEPTED %s does not clean to a document path, yet the spec document was served\n%s", what, c.brief())
			}
		}
	}
	return nil
}

func clipN(s string, n int) string {
	if len(s) > n {
		return s[:n] + "…"
	}
	return s
}
