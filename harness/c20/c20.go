// Package c20 decides property C20: the spec and documentation-UI middlewares (Spec, Redoc, RapiDoc, SwaggerUI,
// SwaggerUIOAuth2Callback and the three Context.APIHandler flavours) answer only requests whose cleaned path
// equals their configured document path, serve the exact spec bytes / a page in which option values are escaped,
// pass everything else to the next handler untouched, and - through the API handler - the page references the
// very location at which the spec is served while the API's operations stay reachable.
//
// Oracles: path.Join/path.Clean of the configured parts (standard library) for "whose path is it", standard
// decoders (html.UnescapeString, a literal JavaScript string decoder, percent-decoding) at the other end of the
// escaping round trip, and a recording next handler.
package c20

import (
	"fmt"
	"html"
	"net/http"
	"net/http/httptest"
	"net/url"
	"path"
	"reflect"
	"regexp"
	"sort"
	"strconv"
	"strings"

	"github.com/go-openapi/runtime/middleware"

	"verif/harness/kit"
)

// Req is one request sent to the handler under test.
type Req struct {
	Method string `json:"method"`
	Path   string `json:"path"` // becomes URL.Path verbatim (not cleaned)
	Query  string `json:"query,omitempty"`
	// Accept: the Accept header ("" = "text/html, application/json", "-" = none). The documents are answered at their
	// paths whatever representation a client says it prefers.
	Accept string `json:"accept,omitempty"`
	// Headers: further request headers ("Name: value") that conditional-request or range machinery would look at
	Headers []string `json:"headers,omitempty"`
}

// MWCase configures one middleware directly and sends a few requests through it.
type MWCase struct {
	Kind        string            `json:"kind"` // spec | redoc | rapidoc | swaggerui | oauth2
	BasePath    string            `json:"basePath"`
	Path        string            `json:"path"`                  // UI: Path option; spec: WithSpecPath value
	HasSpecPath bool              `json:"hasSpecPath,omitempty"` // spec: WithSpecPath is passed
	Document    string            `json:"document,omitempty"`    // spec: WithSpecDocument value
	HasDocument bool              `json:"hasDocument,omitempty"`
	SpecBytes   kit.BStr          `json:"specBytes,omitempty"`
	SpecURL     string            `json:"specURL,omitempty"`
	Title       string            `json:"title,omitempty"`
	Template    int               `json:"template,omitempty"` // index into Templates; 0 = the middleware's own
	URLs        map[string]string `json:"urls,omitempty"`     // RedocURL, RapiDocURL, SwaggerURL, SwaggerPresetURL, SwaggerStylesURL, Favicon32, Favicon16, OAuthCallbackURL
	Next        bool              `json:"next"`
	Reqs        []Req             `json:"reqs"`
}

// Templates are the custom templates a case can select. They only use the fields common to every option type.
var Templates = []string{
	"",
	`<!doctype html><html><head><title>{{ .Title }}</title></head><body>
<p id="title">{{ .Title }}</p>
<p id="spec">{{ .SpecURL }}</p>
<a id="link" href="{{ .SpecURL }}">spec</a>
<span id="attr" data-v="{{ .Title }}" data-s='{{ .SpecURL }}'></span>
</body></html>`,
	`<html><head><title>{{ .Title }}</title>
<script>var cfg = {title: '{{ .Title }}', url: "{{ .SpecURL }}", raw: {{ .Title }}};</script>
</head><body><custom-doc spec-url="{{ .SpecURL }}"></custom-doc></body></html>`,
}

const (
	defaultTitle   = "API Documentation"
	defaultSpecURL = "/swagger.json"
	defaultDocs    = "docs"
	defaultSpecDoc = "swagger.json"
	nextStatus     = 299
	nextBody       = "answered by the next handler"
)

func orDefault(v, d string) string {
	if v == "" {
		return d
	}
	return v
}

// DocPath is the configured document path of the middleware: path.Join of the configured parts.
func (c MWCase) DocPath() string {
	base := orDefault(c.BasePath, "/")
	switch c.Kind {
	case "spec":
		p := ""
		if c.HasSpecPath {
			p = c.Path
		}
		d := defaultSpecDoc
		if c.HasDocument && c.Document != "" {
			d = c.Document
		}
		return path.Join(base, p, d)
	case "oauth2":
		if cb := c.URLs["OAuthCallbackURL"]; cb != "" {
			return cb // an explicit callback location is the document path as given
		}
		return path.Join(base, orDefault(c.Path, defaultDocs), "oauth2-callback")
	}
	return path.Join(base, orDefault(c.Path, defaultDocs))
}

// Escaping round trip -----------------------------------------------------------------------------

const metachars = `<>"'&`

func hostile(v string) bool { return strings.ContainsAny(v, metachars) }

// jsUnquote decodes the inside of a JavaScript string literal.
func jsUnquote(s string) (string, bool) {
	var b strings.Builder
	for i := 0; i < len(s); i++ {
		ch := s[i]
		if ch != '\\' {
			b.WriteByte(ch)
			continue
		}
		i++
		if i >= len(s) {
			return "", false
		}
		switch s[i] {
		case 'n':
			b.WriteByte('\n')
		case 'r':
			b.WriteByte('\r')
		case 't':
			b.WriteByte('\t')
		case 'b':
			b.WriteByte('\b')
		case 'f':
			b.WriteByte('\f')
		case 'v':
			b.WriteByte('\v')
		case '0':
			b.WriteByte(0)
		case 'x':
			if i+2 >= len(s) {
				return "", false
			}
			n, err := strconv.ParseUint(s[i+1:i+3], 16, 8)
			if err != nil {
				return "", false
			}
			b.WriteRune(rune(n))
			i += 2
		case 'u':
			if i+4 >= len(s) {
				return "", false
			}
			n, err := strconv.ParseUint(s[i+1:i+5], 16, 16)
			if err != nil {
				return "", false
			}
			b.WriteRune(rune(n))
			i += 4
		default:
			b.WriteByte(s[i])
		}
	}
	return b.String(), true
}

func isHex(c byte) bool {
	return c >= '0' && c <= '9' || c >= 'a' && c <= 'f' || c >= 'A' && c <= 'F'
}

// pctDecode decodes every well-formed %XX and leaves anything else alone. Two URL texts with the same decoding
// denote the same location (the page may carry the URL percent-normalised).
func pctDecode(s string) string {
	var b strings.Builder
	for i := 0; i < len(s); i++ {
		if s[i] == '%' && i+2 < len(s) && isHex(s[i+1]) && isHex(s[i+2]) {
			n, _ := strconv.ParseUint(s[i+1:i+3], 16, 8)
			b.WriteByte(byte(n))
			i += 2
			continue
		}
		b.WriteByte(s[i])
	}
	return b.String()
}

// slot is one place of a page where an option value is rendered.
type slot struct {
	name  string
	re    *regexp.Regexp
	ctx   string   // html (text, RCDATA, plain attribute) | urlattr | js | jsval
	wants []string // expected value per match, in page order; "\x00" = do not judge the value
}

const skip = "\x00"

var (
	reTitle     = regexp.MustCompile(`(?s)<title>(.*?)</title>`)
	reRedocSpec = regexp.MustCompile(`<redoc spec-url='([^']*)'></redoc>`)
	reScriptSrc = regexp.MustCompile(`<script src="([^"]*)"> </script>`)
	reRapiSrc   = regexp.MustCompile(`<script type="module" src="([^"]*)"></script>`)
	reRapiSpec  = regexp.MustCompile(`<rapi-doc spec-url="([^"]*)"></rapi-doc>`)
	reStyles    = regexp.MustCompile(`<link rel="stylesheet" type="text/css" href="([^"]*)" >`)
	reFav32     = regexp.MustCompile(`<link rel="icon" type="image/png" href="([^"]*)" sizes="32x32" />`)
	reFav16     = regexp.MustCompile(`<link rel="icon" type="image/png" href="([^"]*)" sizes="16x16" />`)
	reJSURL     = regexp.MustCompile(`\n\s*url: '((?:[^'\\\n]|\\.)*)',`)
	reJSRedir   = regexp.MustCompile(`oauth2RedirectUrl: '((?:[^'\\\n]|\\.)*)'`)

	reT1Title = regexp.MustCompile(`(?s)<p id="title">(.*?)</p>`)
	reT1Spec  = regexp.MustCompile(`(?s)<p id="spec">(.*?)</p>`)
	reT1Link  = regexp.MustCompile(`<a id="link" href="([^"]*)">spec</a>`)
	reT1AttrV = regexp.MustCompile(`<span id="attr" data-v="([^"]*)" data-s='[^']*'></span>`)
	reT1AttrS = regexp.MustCompile(`<span id="attr" data-v="[^"]*" data-s='([^']*)'></span>`)
	reT2Title = regexp.MustCompile(`var cfg = \{title: '((?:[^'\\\n]|\\.)*)', url: "`)
	reT2URL   = regexp.MustCompile(`', url: "((?:[^"\\\n]|\\.)*)", raw: `)
	reT2Raw   = regexp.MustCompile(`", raw: "((?:[^"\\\n]|\\.)*)"\};</script>`)
	reT2Spec  = regexp.MustCompile(`<custom-doc spec-url="([^"]*)"></custom-doc>`)
)

func want(v string) string {
	if v == "" {
		return skip
	}
	return v
}

// slots lists where the page of the given kind/template must carry which value.
func slots(kind string, template int, title, specURL string, urls map[string]string) []slot {
	title = orDefault(title, defaultTitle)
	specURL = orDefault(specURL, defaultSpecURL)
	switch template {
	case 1:
		return []slot{
			{"Title in <title>", reTitle, "html", []string{title}},
			{"Title in text", reT1Title, "html", []string{title}},
			{"SpecURL in text", reT1Spec, "html", []string{specURL}},
			{"SpecURL in href", reT1Link, "urlattr", []string{specURL}},
			{"Title in data attribute", reT1AttrV, "html", []string{title}},
			{"SpecURL in data attribute", reT1AttrS, "html", []string{specURL}},
		}
	case 2:
		return []slot{
			{"Title in <title>", reTitle, "html", []string{title}},
			{"Title in a JS string", reT2Title, "js", []string{title}},
			{"SpecURL in a JS string", reT2URL, "js", []string{specURL}},
			{"Title as a JS value", reT2Raw, "js", []string{title}},
			{"SpecURL in spec-url", reT2Spec, "urlattr", []string{specURL}},
		}
	}
	switch kind {
	case "redoc":
		return []slot{
			{"Title in <title>", reTitle, "html", []string{title}},
			{"SpecURL in spec-url", reRedocSpec, "urlattr", []string{specURL}},
			{"RedocURL in script src", reScriptSrc, "urlattr", []string{want(urls["RedocURL"])}},
		}
	case "rapidoc":
		return []slot{
			{"Title in <title>", reTitle, "html", []string{title}},
			{"RapiDocURL in script src", reRapiSrc, "urlattr", []string{want(urls["RapiDocURL"])}},
			{"SpecURL in spec-url", reRapiSpec, "urlattr", []string{specURL}},
		}
	case "swaggerui":
		return []slot{
			{"Title in <title>", reTitle, "html", []string{title}},
			{"SwaggerStylesURL in href", reStyles, "urlattr", []string{want(urls["SwaggerStylesURL"])}},
			{"Favicon32 in href", reFav32, "urlattr", []string{want(urls["Favicon32"])}},
			{"Favicon16 in href", reFav16, "urlattr", []string{want(urls["Favicon16"])}},
			{"SwaggerURL/SwaggerPresetURL in script src", reScriptSrc, "urlattr", []string{want(urls["SwaggerURL"]), want(urls["SwaggerPresetURL"])}},
			{"SpecURL in the JS url", reJSURL, "js", []string{specURL}},
			{"OAuthCallbackURL in the JS oauth2RedirectUrl", reJSRedir, "js", []string{want(urls["OAuthCallbackURL"])}},
		}
	case "oauth2":
		return []slot{{"Title in <title>", reTitle, "html", []string{title}}}
	}
	return nil
}

// decode reverses the escaping of a slot's context with a standard decoder.
func decode(ctx, raw string) (string, bool) {
	switch ctx {
	case "html", "urlattr":
		return html.UnescapeString(raw), true
	case "js":
		return jsUnquote(raw)
	}
	return raw, true
}

var reCharRef = regexp.MustCompile(`^&(?:[a-zA-Z][a-zA-Z0-9]*|#[0-9]+|#[xX][0-9a-fA-F]+);`)

// escapedOnly reports whether the raw text found at a slot carries its value only in escaped form for the
// slot's context: in HTML text, RCDATA and quoted attributes no < > " ' and no & that does not start a character
// reference; in a JavaScript string nothing that could end the string's script element or open a comment (the
// delimiting quote is already excluded by the way the slot is cut out of the page).
func escapedOnly(ctx, raw string) (string, bool) {
	switch ctx {
	case "html", "urlattr":
		if i := strings.IndexAny(raw, `<>"'`); i >= 0 {
			return raw[i : i+1], false
		}
		for i := 0; i < len(raw); i++ {
			if raw[i] == '&' && !reCharRef.MatchString(raw[i:]) {
				return "&", false
			}
		}
	case "js":
		low := strings.ToLower(raw)
		for _, bad := range []string{"</", "<!--", "-->"} {
			if strings.Contains(low, bad) {
				return bad, false
			}
		}
	}
	return "", true
}

// checkPage judges one rendered page: every slot is present the expected number of times, carries its value only
// escaped, decodes to the option value, and no option value with a metacharacter occurs anywhere else.
func checkPage(page string, sl []slot, values []string) *kit.Violation {
	var cut [][2]int
	for _, s := range sl {
		ms := s.re.FindAllStringSubmatchIndex(page, -1)
		if len(ms) != len(s.wants) {
			return kit.Failf("PAGE-STRUCTURE %s: found %d times, want %d (an option value broke out of its place?)", s.name, len(ms), len(s.wants))
		}
		for i, m := range ms {
			raw := page[m[2]:m[3]]
			cut = append(cut, [2]int{m[2], m[3]})
			if bad, ok := escapedOnly(s.ctx, raw); !ok {
				return kit.Failf("PAGE-UNESCAPED %s: rendered %q, which contains a bare %q", s.name, raw, bad)
			}
			if s.wants[i] == skip {
				continue
			}
			got, ok := decode(s.ctx, raw)
			if !ok {
				return kit.Failf("PAGE-DECODE %s: %q is not a well-formed %s literal", s.name, raw, s.ctx)
			}
			if s.ctx == "urlattr" {
				if pctDecode(got) != pctDecode(s.wants[i]) {
					return kit.Failf("PAGE-VALUE %s: rendered %q, which un-escapes to %q and denotes %q; the option is %q", s.name, raw, got, pctDecode(got), s.wants[i])
				}
			} else if got != s.wants[i] {
				return kit.Failf("PAGE-VALUE %s: rendered %q, which un-escapes to %q; the option is %q", s.name, raw, got, s.wants[i])
			}
		}
	}
	// the rest of the page, with the slots cut out
	sort.Slice(cut, func(i, j int) bool { return cut[i][0] < cut[j][0] })
	var rest strings.Builder
	pos := 0
	for _, c := range cut {
		if c[0] > pos {
			rest.WriteString(page[pos:c[0]])
		}
		rest.WriteString("\x00")
		if c[1] > pos {
			pos = c[1]
		}
	}
	rest.WriteString(page[pos:])
	for _, v := range values {
		if hostile(v) && strings.Contains(rest.String(), v) {
			return kit.Failf("PAGE-UNESCAPED the option value %q occurs verbatim in the page outside the places that render it", v)
		}
	}
	return nil
}

// Recording next handler --------------------------------------------------------------------------

type snapshot struct {
	Method, URL, Path, RawPath, RawQuery, Host, RequestURI, Proto string
	Header                                                        http.Header
	Body                                                          interface{}
	ContentLength                                                 int64
}

func snap(r *http.Request) snapshot {
	return snapshot{r.Method, r.URL.String(), r.URL.Path, r.URL.RawPath, r.URL.RawQuery, r.Host, r.RequestURI, r.Proto, r.Header.Clone(), r.Body, r.ContentLength}
}

type recorder struct {
	calls   int
	req     *http.Request
	seen    snapshot
	hdrSeen http.Header // response header as the next handler found it on entry
}

func (n *recorder) ServeHTTP(w http.ResponseWriter, r *http.Request) {
	n.calls++
	n.req = r
	n.seen = snap(r)
	n.hdrSeen = w.Header().Clone()
	// no Content-Type is set here: like a file server or a sniffing handler, it relies on finding none
	w.Header().Set("X-Next", "1")
	w.WriteHeader(nextStatus)
	_, _ = w.Write([]byte(nextBody))
}

func newRequest(q Req) *http.Request {
	r := httptest.NewRequest(q.Method, "http://h.test/", nil)
	r.URL.Path = q.Path
	r.URL.RawPath = ""
	r.URL.RawQuery = q.Query
	r.RequestURI = r.URL.RequestURI()
	switch q.Accept {
	case "":
		r.Header.Set("Accept", "text/html, application/json")
	case "-":
	default:
		r.Header.Set("Accept", q.Accept)
	}
	for _, h := range q.Headers {
		if i := strings.Index(h, ": "); i > 0 {
			r.Header.Add(h[:i], h[i+2:])
		}
	}
	r.Header.Set("X-Probe", "c20")
	return r
}

// build constructs the middleware of the case around next.
func (c MWCase) build(next http.Handler) http.Handler {
	tpl := Templates[c.Template]
	switch c.Kind {
	case "spec":
		var opts []middleware.SpecOption
		if c.HasSpecPath {
			opts = append(opts, middleware.WithSpecPath(c.Path))
		}
		if c.HasDocument {
			opts = append(opts, middleware.WithSpecDocument(c.Document))
		}
		return middleware.Spec(c.BasePath, []byte(c.SpecBytes), next, opts...)
	case "redoc":
		return middleware.Redoc(middleware.RedocOpts{BasePath: c.BasePath, Path: c.Path, SpecURL: c.SpecURL, Title: c.Title, Template: tpl, RedocURL: c.URLs["RedocURL"]}, next)
	case "rapidoc":
		return middleware.RapiDoc(middleware.RapiDocOpts{BasePath: c.BasePath, Path: c.Path, SpecURL: c.SpecURL, Title: c.Title, Template: tpl, RapiDocURL: c.URLs["RapiDocURL"]}, next)
	}
	o := middleware.SwaggerUIOpts{BasePath: c.BasePath, Path: c.Path, SpecURL: c.SpecURL, Title: c.Title, Template: tpl,
		OAuthCallbackURL: c.URLs["OAuthCallbackURL"], SwaggerURL: c.URLs["SwaggerURL"], SwaggerPresetURL: c.URLs["SwaggerPresetURL"],
		SwaggerStylesURL: c.URLs["SwaggerStylesURL"], Favicon32: c.URLs["Favicon32"], Favicon16: c.URLs["Favicon16"]}
	if c.Kind == "oauth2" {
		return middleware.SwaggerUIOAuth2Callback(o, next)
	}
	return middleware.SwaggerUI(o, next)
}

func (c MWCase) values() []string {
	vs := []string{c.Title, c.SpecURL}
	for _, k := range urlKeys {
		vs = append(vs, c.URLs[k])
	}
	return vs
}

var urlKeys = []string{"RedocURL", "RapiDocURL", "SwaggerURL", "SwaggerPresetURL", "SwaggerStylesURL", "Favicon32", "Favicon16", "OAuthCallbackURL"}

func (c MWCase) brief() string {
	return fmt.Sprintf("%s{BasePath:%q Path:%q(spec path given:%v) Document:%q(given:%v) SpecURL:%q Title:%q Template:%d URLs:%q next:%v} document path %q",
		c.Kind, c.BasePath, c.Path, c.HasSpecPath, c.Document, c.HasDocument, c.SpecURL, c.Title, c.Template, c.URLs, c.Next, c.DocPath())
}

// CheckMW decides the middleware part of the property for one configuration and its requests.
// rawFF stands for the single byte 0xFF in the option texts and request paths of a case (a case travels as JSON, which
// cannot carry a string that is not UTF-8); decoded() puts the byte back before anything is built.
const rawFF = "⟦ff⟧"

func unraw(s string) string { return strings.ReplaceAll(s, rawFF, "\xff") }

func unrawReqs(in []Req) []Req {
	out := make([]Req, len(in))
	for i, q := range in {
		q.Path = unraw(q.Path)
		out[i] = q
	}
	return out
}

func (c MWCase) decoded() MWCase {
	c.BasePath, c.Path, c.Document = unraw(c.BasePath), unraw(c.Path), unraw(c.Document)
	c.Reqs = unrawReqs(c.Reqs)
	return c
}

func CheckMW(c MWCase) *kit.Violation {
	c = c.decoded()
	if c.Template < 0 || c.Template >= len(Templates) {
		return kit.Failf("HARNESS: unknown template %d", c.Template)
	}
	next := &recorder{}
	var nh http.Handler
	if c.Next {
		nh = next
	}
	var h http.Handler
	if v := kit.Guard("constructing the middleware", func() { h = c.build(nh) }); v != nil {
		return kit.Failf("%s\n%s", v.Msg, c.brief())
	}
	// other documentation middlewares are constructed afterwards (an application installs several): what they render
	// must not show up in, or replace, the page of the middleware under test
	if v := kit.Guard("constructing further middlewares", func() {
		for _, kind := range []string{"redoc", "swaggerui", "oauth2", "rapidoc"} {
			d := MWCase{Kind: kind, Template: 0, BasePath: "/other", Path: "elsewhere-" + kind, Title: "another page " + kind + strings.Repeat(" filler", 40),
				SpecURL: "/other/" + kind + ".json", SpecBytes: kit.BStr("{}")}
			_ = d.build(nil)
		}
	}); v != nil {
		return kit.Failf("%s\n%s", v.Msg, c.brief())
	}
	doc := c.DocPath()
	pageChecked := false
	firstPage := ""
	for _, q := range c.Reqs {
		*next = recorder{}
		req := newRequest(q)
		before := snap(req)
		rec := httptest.NewRecorder()
		what := fmt.Sprintf("%s %q", q.Method, q.Path)
		if v := kit.Guard("serving "+what, func() { h.ServeHTTP(rec, req) }); v != nil {
			return kit.Failf("%s\n%s", v.Msg, c.brief())
		}
		after := snap(req)
		if !reflect.DeepEqual(before, after) {
			return kit.Failf("REQUEST-MODIFIED by the middleware while serving %s: before %+v after %+v\n%s", what, before, after, c.brief())
		}
		mine := path.Clean(q.Path) == doc
		body := rec.Body.String()
		ct := rec.Result().Header.Get("Content-Type")
		if mine {
			if next.calls != 0 {
				return kit.Failf("NOT-ANSWERED %s cleans to the document path but was handed to the next handler\n%s", what, c.brief())
			}
			if rec.Code != http.StatusOK {
				return kit.Failf("NOT-ANSWERED %s cleans to the document path but the status is %d\n%s", what, rec.Code, c.brief())
			}
			if c.Kind == "spec" {
				if ct != "application/json" {
					return kit.Failf("SPEC-TYPE %s: Content-Type %q, want application/json\n%s", what, ct, c.brief())
				}
				if body != string(c.SpecBytes) {
					return kit.Failf("SPEC-BYTES %s: served %q, want the exact document %q\n%s", what, body, string(c.SpecBytes), c.brief())
				}
				continue
			}
			if !strings.HasPrefix(ct, "text/html") {
				return kit.Failf("PAGE-TYPE %s: Content-Type %q, want text/html\n%s", what, ct, c.brief())
			}
			if !pageChecked {
				pageChecked = true
				firstPage = body
				if v := checkPage(body, slots(c.Kind, c.Template, c.Title, c.SpecURL, c.URLs), c.values()); v != nil {
					return kit.Failf("%s\n%s\npage: %s", v.Msg, c.brief(), clip(body))
				}
			} else if body != firstPage {
				// every request for the document path gets the page, not only the first one (r7)
				return kit.Failf("PAGE-DIFFERS %s: this request for the document path got %d bytes %q, the first one got the page of %d bytes\n%s", what, len(body), clip(body), len(firstPage), c.brief())
			}
			continue
		}
		// not the document path: handed over untouched, or 404
		if c.Next {
			if next.calls != 1 {
				return kit.Failf("INTERCEPTED %s does not clean to the document path, yet the next handler was called %d times (status %d)\n%s", what, next.calls, rec.Code, c.brief())
			}
			if next.req != req {
				return kit.Failf("REQUEST-REPLACED %s: the next handler received a different *http.Request\n%s", what, c.brief())
			}
			if !reflect.DeepEqual(next.seen, before) {
				return kit.Failf("REQUEST-MODIFIED %s: the next handler saw %+v, sent %+v\n%s", what, next.seen, before, c.brief())
			}
			if rec.Code != nextStatus || body != nextBody {
				return kit.Failf("RESPONSE-ALTERED %s: the next handler's answer arrived as %d %q\n%s", what, rec.Code, body, c.brief())
			}
			if len(next.hdrSeen) != 0 {
				return kit.Failf("RESPONSE-PREPARED %s is not the middleware's business, yet the next handler found response headers already set: %v\n%s", what, next.hdrSeen, c.brief())
			}
			// the composed answer equals what the next handler produces on its own
			alone := httptest.NewRecorder()
			(&recorder{}).ServeHTTP(alone, newRequest(q))
			if !reflect.DeepEqual(rec.Result().Header, alone.Result().Header) {
				return kit.Failf("RESPONSE-ALTERED %s: response headers %v, the next handler alone answers with %v\n%s", what, rec.Result().Header, alone.Result().Header, c.brief())
			}
			continue
		}
		if rec.Code != http.StatusNotFound {
			return kit.Failf("INTERCEPTED %s does not clean to the document path and there is no next handler: status %d, want 404\n%s", what, rec.Code, c.brief())
		}
	}
	return nil
}

func clip(s string) string {
	if len(s) > 1500 {
		return s[:1500] + "…"
	}
	return s
}

// specLocation returns the path at which a spec URL given as an absolute URL or absolute path locates the
// document, and false for relative or unparsable references.
func specLocation(specURL string) (string, bool) {
	u, err := url.Parse(specURL)
	if err != nil {
		return "", false
	}
	if u.Host != "" {
		// an absolute URL, or a network-path reference ("//host/dir/doc.json"): the path on that host
		return path.Clean("/" + u.Path), true
	}
	if !u.IsAbs() && u.Host == "" && strings.HasPrefix(u.Path, "/") {
		return path.Clean(u.Path), true
	}
	return "", false
}
