package c20

import (
	"path"
	"regexp"
	"sort"
	"strings"

	"pgregory.net/rapid"

	"verif/harness/kit"
)

// Generators --------------------------------------------------------------------------------------

var (
	segs     = []string{"docs", "api", "v1", "ui", "d.x", "swagger.json", "spec", "Docs", "a b", "ü", "d" + rawFF + "cs"} // the last one: a byte that is not UTF-8
	methods  = []string{"GET", "GET", "GET", "POST", "HEAD", "PUT", "DELETE", "OPTIONS", "PATCH"}
	metaTail = []string{`"`, `<script>alert(1)</script>`, `' onload='y`, `&b`, `</title><b>`, `{{.Title}}`, `\`, "`", `"><script>`, `&amp;`, `<!--`, "\n<x>", `+`, `</script><i>`, `'`, `<`, `>`, `&`, `&#34;`, ` x="y"`, `';alert(1);'`, `<`, `-->`}
	plain    = []string{"Title", "My API", "ü", "a+b", "{{.Title}}", "x\\y", "tab\there"}
)

// genValue draws an option text: plain, or a marker followed by hostile text. The marker never occurs in a
// template, so a verbatim occurrence of the value in a page can only come from the value itself.
func genValue(t *rapid.T, label, marker string) string {
	switch rapid.IntRange(0, 9).Draw(t, label+"-class") {
	case 0, 1:
		return ""
	case 2, 3:
		return rapid.SampledFrom(plain).Draw(t, label+"-plain")
	case 4:
		n := rapid.IntRange(1, 6).Draw(t, label+"-n")
		s := marker
		for i := 0; i < n; i++ {
			s += rapid.SampledFrom([]string{"<", ">", `"`, "'", "&", "a", " ", "/", "=", ";", "\\", "-", "!", "amp;", "#34;", "{", "}", "%", "+", "\n", "ü"}).Draw(t, label+"-ch")
		}
		return s
	}
	return marker + rapid.SampledFrom(metaTail).Draw(t, label+"-tail")
}

// genURL draws a URL-valued option (script, style, icon locations): http(s) or path references only, since any
// other scheme is not a location a page could load.
func genURL(t *rapid.T, label, marker string) string {
	switch rapid.IntRange(0, 9).Draw(t, label+"-class") {
	case 0, 1, 2:
		return ""
	case 3:
		return "https://cdn.test/" + marker + ".js"
	case 4:
		return "https://cdn.test/" + marker + ".js?a=1&b=<2>"
	case 5:
		return "/" + marker + rapid.SampledFrom([]string{`"b.js`, `'y`, `<s>`, ` space.js`, `%zz`, `%2Fq`, `ü`, `&x=1`, `"><script>alert(1)</script>`, `'+alert(1)+'`}).Draw(t, label+"-tail")
	case 6:
		return "http://h.test:8080/" + marker + "/x.css"
	}
	return "/static/" + marker + rapid.SampledFrom([]string{".js", ".css", ".png", "?v=1&w=2"}).Draw(t, label+"-ext")
}

var specURLs = []string{"", "", "/swagger.json", "/dir/sub/doc.json", "https://h.test/dir/doc.json", `https://h.test/dir/doc.json?x=1&y=<2>`,
	`/zqS"b.json`, `/zqS'y`, `/zqS<b>.json`, "swagger.json", "dir/doc.json", "../doc.json", "/a//b.json", "/a/../b.json", "http://h.test:8080/spec/openapi.json?x=1",
	"/api/swagger.json", "/api/docs.json", "/zqS&amp;.json", `/zqS.json?q="'`, "/docs", "/docs/swagger.json", `/zqS%22.json`, "/ü.json", `/zqS\x.json`, `/zqS\\"; alert(1); //`}

func genBase(t *rapid.T, label string) string {
	n := rapid.IntRange(0, 2).Draw(t, label+"-n")
	var s []string
	for i := 0; i < n; i++ {
		s = append(s, rapid.SampledFrom(segs).Draw(t, label))
	}
	p := strings.Join(s, "/")
	switch rapid.IntRange(0, 7).Draw(t, label+"-shape") {
	case 0: // no leading slash
	case 1:
		p = "/" + p + "/"
	case 2:
		p = "//" + p
	case 3:
		if p != "" {
			p = "/./" + p + "/../" + path.Base(p)
		} else {
			p = "/"
		}
	default:
		p = "/" + p
	}
	return p
}

func genRel(t *rapid.T, label string) string {
	switch rapid.IntRange(0, 9).Draw(t, label+"-class") {
	case 0, 1, 2:
		return ""
	case 3:
		return "/" + rapid.SampledFrom(segs).Draw(t, label)
	case 4:
		return rapid.SampledFrom(segs).Draw(t, label) + "/"
	case 5:
		return rapid.SampledFrom(segs).Draw(t, label) + "/" + rapid.SampledFrom(segs).Draw(t, label+"2")
	case 6:
		return "../" + rapid.SampledFrom(segs).Draw(t, label)
	case 7:
		// texts that name the directory itself: under an empty or root base path the document lives at "/"
		return rapid.SampledFrom([]string{"/", ".", "./", "docs/..", "docs/../../"}).Draw(t, label+"-root")
	}
	return rapid.SampledFrom(segs).Draw(t, label)
}

// genReqPath draws a request path around a document path: exact, differing only by cleaning, prefixes,
// extensions, other.
func genReqPath(t *rapid.T, doc string) string {
	if !strings.HasPrefix(doc, "/") {
		if rapid.IntRange(0, 3).Draw(t, "rel-doc") == 0 {
			doc = "/" + doc
		} else {
			doc = path.Clean("/" + doc)
		}
	}
	dir, base := path.Split(doc)
	switch rapid.IntRange(0, 19).Draw(t, "reqclass") {
	case 0, 1, 2, 3:
		return doc
	case 4:
		return doc + "/"
	case 5:
		return doc + "/."
	case 6:
		// what http.StripPrefix leaves of "/v1docs" behind the prefix "/v1": a path without its slash ("" for "/") (r10)
		return strings.TrimPrefix(doc, "/")
	case 7:
		return dir + "x/../" + base
	case 8:
		return "/" + doc
	case 9:
		return strings.Replace(doc, "/", "//", 1+rapid.IntRange(0, 1).Draw(t, "dbl"))
	case 10:
		return doc + "x"
	case 11:
		return doc + "/x"
	case 12:
		return doc + ".json"
	case 13:
		return path.Clean(dir)
	case 14:
		if len(doc) > 1 {
			return doc[:len(doc)-1]
		}
		return "/"
	case 15:
		if doc != strings.ToUpper(doc) {
			return strings.ToUpper(doc)
		}
		return strings.ToLower(doc)
	case 16:
		return doc + "/.."
	case 17:
		return "/./" + strings.TrimPrefix(doc, "/") + "/x/.."
	case 18:
		return "/"
	}
	return "/" + rapid.SampledFrom(segs).Draw(t, "free") + rapid.SampledFrom([]string{"", "/", "/docs", "/swagger.json"}).Draw(t, "free2")
}

func genReqs(t *rapid.T, docs []string, min, max int) []Req {
	n := rapid.IntRange(min, max).Draw(t, "nreq")
	var out []Req
	for i := 0; i < n; i++ {
		d := docs[rapid.IntRange(0, len(docs)-1).Draw(t, "whichdoc")]
		q := Req{Method: rapid.SampledFrom(methods).Draw(t, "method"), Path: genReqPath(t, d)}
		if rapid.IntRange(0, 5).Draw(t, "hasquery") == 0 {
			q.Query = rapid.SampledFrom([]string{"x=1", "a=b&c=d", "%2F", "url=/docs"}).Draw(t, "query")
		}
		if rapid.IntRange(0, 3).Draw(t, "accept") == 0 {
			q.Accept = rapid.SampledFrom([]string{"-", "*/*", "application/yaml", "text/plain", "application/json;q=0, */*;q=0", "application/vnd.oai.openapi+json", "image/png"}).Draw(t, "accept-value")
		}
		if rapid.IntRange(0, 5).Draw(t, "conditional-headers") == 0 {
			q.Headers = append(q.Headers, rapid.SampledFrom([]string{"Range: bytes=0-14", "If-None-Match: *", `If-Match: "x"`, "If-Modified-Since: Wed, 21 Oct 2015 07:28:00 GMT", "Range: bytes=999999-"}).Draw(t, "conditional"))
		}
		out = append(out, q)
	}
	return out
}

var oauthCallbacks = []string{"", "", "", "/cb", "/docs/oauth2-callback", "/cb/", "https://h.test/cb", `/zqO"cb`, "/a/../cb", "cb", `/zqO'<cb>`, `/zqO\cb`}

// GenMW draws a middleware configuration and 3-6 requests around its document path.
func GenMW(t *rapid.T) MWCase {
	c := MWCase{Kind: rapid.SampledFrom([]string{"spec", "redoc", "rapidoc", "swaggerui", "swaggerui", "oauth2"}).Draw(t, "kind")}
	c.BasePath = genBase(t, "base")
	if rapid.IntRange(0, 4).Draw(t, "emptybase") == 0 {
		c.BasePath = ""
	}
	c.Next = rapid.IntRange(0, 3).Draw(t, "next") != 0
	if c.Kind == "spec" {
		c.HasSpecPath = rapid.Bool().Draw(t, "hasspecpath")
		if c.HasSpecPath {
			c.Path = genRel(t, "specpath")
		}
		c.HasDocument = rapid.Bool().Draw(t, "hasdoc")
		if c.HasDocument {
			c.Document = rapid.SampledFrom([]string{"", "swagger.json", "openapi.json", "doc", "spec/v1.json", "/abs.json", "d.x", "a b.json", "../up.json", "doc.json/", "spec.txt", "api.html", "petstore.xml", "swagger.js", "openapi.yaml"}).Draw(t, "doc")
		}
		c.SpecBytes = kit.BStr(rapid.SampledFrom([]string{`{"swagger":"2.0"}`, "", "not json <html>", "{\n  \"a\": 1\n}\n", "\xff\xfe\x00binary", `{"title":"</script>"}`}).Draw(t, "specbytes"))
	} else {
		c.Path = genRel(t, "uipath")
		c.SpecURL = rapid.SampledFrom(specURLs).Draw(t, "specurl")
		c.Title = genValue(t, "title", "zqT")
		c.Template = rapid.SampledFrom([]int{0, 0, 0, 1, 2}).Draw(t, "template")
		c.URLs = map[string]string{}
		set := func(k, marker string) {
			if v := genURL(t, k, marker); v != "" {
				c.URLs[k] = v
			}
		}
		switch c.Kind {
		case "redoc":
			set("RedocURL", "zqR")
		case "rapidoc":
			set("RapiDocURL", "zqR")
		default:
			set("SwaggerURL", "zqU")
			set("SwaggerPresetURL", "zqP")
			set("SwaggerStylesURL", "zqY")
			set("Favicon32", "zqF")
			set("Favicon16", "zqG")
			if cb := rapid.SampledFrom(oauthCallbacks).Draw(t, "callback"); cb != "" {
				c.URLs["OAuthCallbackURL"] = cb
			}
		}
		if len(c.URLs) == 0 {
			c.URLs = nil
		}
	}
	c.Reqs = genReqs(t, []string{c.DocPath()}, 3, 6)
	return c
}

var (
	apiBases = []string{"", "/", "/api", "/api/v1", "/api/", "/docs", "api", "api/"} // the last two: a description whose basePath lacks its slash (r10)
	opPool   = []string{"/docs", "/docs/x", "/swagger.json", "/swagger.jsonx", "/d", "/docs.json/y", "/swagger.json/z", "/doc", "/x", "/docsx", "/ui/docs/more", "/dir/doc.json", "/dir/sub/doc.jsonl", "/docs/oauth2-callback", "/oauth2-callback"}
	// spec locations for the API handler: well-formed references only
	apiSpecURLs = []string{"", "", "/swagger.json", "/dir/sub/doc.json", "https://h.test/dir/doc.json", "http://h.test:8080/spec/openapi.json?x=1", "/api/swagger.json",
		"/api/docs.json", "/api/v1/docs/swagger.json", `https://h.test/dir/doc.json?x=1&y=<2>`, `/zqS"b.json`, `/zqS'y`, `/zqS<b>.json`, "/a//b.json", "/a/../b.json",
		"/docs/swagger.json", "/docs", "/api/docs", "swagger.json", "dir/doc.json", "/ü.json", "/doc.json?q='\"", "/zqS&amp;.json", "/docs.json",
		"/specs/petstore.json#tag/pets", "https://h.test/specs/petstore.json#", "//h.test:8080/specs/petstore.json", "/dir/doc.json?x=1#frag",
		"/specs/spec.txt", "/specs/api.html", "/swagger.js", "https://h.test/dir/petstore.xml"} // names whose extension means another media type to a file server (r6)
)

var reTemplate = regexp.MustCompile(`^(/[a-z0-9._~-]+)+$`)

// genSpecDirClass switches on the class "spec location that names a directory (trailing slash)". The API handler
// used to serve the spec at <dir>/swagger.json while the page referenced <dir>/ (finding F39, repaired in /repo,
// canary regress/C20/f39-spec-url-names-a-directory.json); the class is generated since.
const genSpecDirClass = true

var specDirURLs = []string{"/specs/", "/a/b/", "https://h.test/dir/", "/api/spec/", "/dir/sub/", "/specs//", "https://h.test/apidocs//", "/a/b.json///?x=1"}

// relTo returns p as a template below base, or "" when p is not below it.
func relTo(base, p string) string {
	b := path.Clean("/" + base)
	if b == "/" {
		return p
	}
	if strings.HasPrefix(p, b+"/") {
		return p[len(b):]
	}
	return ""
}

// GenAPI draws an API-handler configuration: flavour, API base path, WithUI... options, operations next to the
// document paths, and requests around the document paths.
func GenAPI(t *rapid.T) APICase {
	c := APICase{Flavour: rapid.SampledFrom([]string{"redoc", "rapidoc", "swaggerui"}).Draw(t, "flavour")}
	c.APIBase = rapid.SampledFrom(apiBases).Draw(t, "apibase")
	c.InfoTitle = genValue(t, "infotitle", "zqI")
	if rapid.IntRange(0, 3).Draw(t, "hasuibase") == 0 {
		c.HasUIBase = true
		c.UIBase = rapid.SampledFrom([]string{"", "/", "/ui", "/api", "/api/", "/docs/v1"}).Draw(t, "uibase")
	}
	c.UIPath = rapid.SampledFrom([]string{"", "", "docs", "ui/docs", "/docs", "swagger.json", "d.x/", "../docs", "redoc", "/", "//", "oauth"}).Draw(t, "uipath")
	c.SpecURL = rapid.SampledFrom(apiSpecURLs).Draw(t, "specurl")
	if genSpecDirClass && rapid.IntRange(0, 9).Draw(t, "specdir") == 0 {
		c.SpecURL = rapid.SampledFrom(specDirURLs).Draw(t, "specdirurl")
	}
	c.Title = genValue(t, "title", "zqT")
	c.Template = rapid.SampledFrom([]int{0, 0, 0, 1, 2}).Draw(t, "template")
	c.SharedOpts = rapid.IntRange(0, 2).Draw(t, "option-list-shared-with-another-handler") == 0

	docs := []string{c.UIDoc()}
	if sd, ok := c.SpecDoc(); ok {
		docs = append(docs, sd)
	}
	seen := map[string]bool{}
	add := func(tpl string) {
		// operation templates stay within the description generator's domain (DESIGN.md section 3): literal
		// segments over [a-z0-9._~-], no trailing slash
		if !reTemplate.MatchString(tpl) || seen[tpl] {
			return
		}
		seen[tpl] = true
		c.Ops = append(c.Ops, tpl)
	}
	n := rapid.IntRange(1, 4).Draw(t, "nops")
	for i := 0; i < n; i++ {
		if rapid.Bool().Draw(t, "neardoc") {
			d := docs[rapid.IntRange(0, len(docs)-1).Draw(t, "neardoc-which")]
			if rel := relTo(c.APIBase, d+rapid.SampledFrom([]string{"", "/x", "x", ".json", "/docs"}).Draw(t, "neardoc-suffix")); rel != "" {
				add(rel)
				continue
			}
		}
		add(rapid.SampledFrom(opPool).Draw(t, "op"))
	}
	if len(c.Ops) == 0 {
		add("/x")
	}
	c.Reqs = genReqs(t, docs, 2, 5)
	return c
}

// Classification ----------------------------------------------------------------------------------

func reqLabels(labels map[string]bool, reqs []Req, docs []string) (cleanedOnly bool) {
	for _, q := range reqs {
		cl := path.Clean(q.Path)
		hit := false
		for _, d := range docs {
			if cl == d {
				hit = true
				if q.Path == d {
					labels["request: exact document path"] = true
				} else {
					labels["request: differs from the document path only by cleaning"] = true
					cleanedOnly = true
				}
			}
		}
		if !hit {
			near := false
			for _, d := range docs {
				if strings.HasPrefix(cl, d) || strings.HasPrefix(d, cl) || strings.EqualFold(cl, d) {
					near = true
				}
			}
			if near {
				labels["request: prefix/extension/case variant of the document path"] = true
			} else {
				labels["request: elsewhere"] = true
			}
		}
		if q.Method != "GET" {
			labels["request: method other than GET"] = true
		}
		if q.Query != "" {
			labels["request: with query"] = true
		}
	}
	return cleanedOnly
}

func keys(m map[string]bool) []string {
	var out []string
	for k := range m {
		out = append(out, k)
	}
	sort.Strings(out)
	return out
}

// ClassifyMW: non-trivial = an option contains a metacharacter, or a request differs from the document path only
// by cleaning.
func ClassifyMW(c MWCase) (bool, []string) {
	labels := map[string]bool{"kind: " + c.Kind: true}
	nt := false
	for _, v := range c.values() {
		if hostile(v) {
			nt = true
			labels["option with a metacharacter"] = true
		}
	}
	if hostile(c.Title) {
		labels["title with a metacharacter"] = true
	}
	if hostile(c.SpecURL) {
		labels["spec URL with a metacharacter"] = true
	}
	if c.Template != 0 {
		labels["custom template"] = true
	}
	doc := c.DocPath()
	if !strings.HasPrefix(doc, "/") || doc != path.Clean(doc) {
		labels["document path unreachable (relative or unclean)"] = true
	}
	switch {
	case c.BasePath == "":
		labels["base path: empty"] = true
	case !strings.HasPrefix(c.BasePath, "/"):
		labels["base path: no leading slash"] = true
	case c.BasePath != path.Clean(c.BasePath):
		labels["base path: trailing slash / doubled slash / dot segments"] = true
	default:
		labels["base path: clean"] = true
	}
	if c.Next {
		labels["with next handler"] = true
	} else {
		labels["without next handler"] = true
	}
	if c.Kind == "spec" {
		if c.HasSpecPath {
			labels["spec: WithSpecPath"] = true
		}
		if c.HasDocument {
			labels["spec: WithSpecDocument"] = true
		}
	} else {
		u := c.SpecURL
		switch {
		case u == "":
			labels["spec URL: default"] = true
		case strings.Contains(u, "://"):
			labels["spec URL: absolute URL"] = true
		case strings.HasPrefix(u, "/"):
			labels["spec URL: absolute path"] = true
		default:
			labels["spec URL: relative"] = true
		}
		if c.URLs["OAuthCallbackURL"] != "" {
			labels["explicit OAuth callback URL"] = true
		}
	}
	if reqLabels(labels, c.Reqs, []string{doc}) {
		nt = true
	}
	return nt, keys(labels)
}

// ClassifyAPI: non-trivial = an option contains a metacharacter, or a request differs from a document path only
// by cleaning, or an operation path has a document path as a prefix.
func ClassifyAPI(c APICase) (bool, []string) {
	labels := map[string]bool{"flavour: " + c.Flavour: true}
	nt := false
	if hostile(c.title()) || hostile(c.SpecURL) {
		nt = true
		labels["option with a metacharacter"] = true
	}
	if c.Title == "" && hostile(c.InfoTitle) {
		labels["title from info.title with a metacharacter"] = true
	}
	if c.Template != 0 {
		labels["custom template"] = true
	}
	if c.HasUIBase {
		labels["WithUIBasePath"] = true
	}
	if c.UIPath != "" {
		labels["WithUIPath"] = true
	}
	uiDoc := c.UIDoc()
	docs := []string{uiDoc}
	specDoc, abs := c.SpecDoc()
	switch {
	case c.SpecURL == "":
		labels["spec URL: default"] = true
	case !abs:
		labels["spec URL: relative (reference round trip not judged)"] = true
	case strings.Contains(c.SpecURL, "://"):
		labels["spec URL: absolute URL"] = true
	default:
		labels["spec URL: absolute path"] = true
	}
	if abs {
		docs = append(docs, specDoc)
		if specDoc == uiDoc {
			labels["page and spec on one path"] = true
		}
		if path.Dir(specDoc) != "/" {
			labels["spec URL with directories"] = true
		}
		if c.SpecURL != "" && specDoc != strings.SplitN(strings.SplitN(c.SpecURL, "?", 2)[0], "://h.test", 2)[0] && !strings.Contains(c.SpecURL, "://") {
			labels["spec URL path not clean"] = true
		}
	}
	for _, p := range c.Ops {
		full := c.opPath(p)
		for _, d := range docs {
			switch {
			case full == d:
				labels["operation on an exact document path (shadowed)"] = true
			case strings.HasPrefix(full, d):
				labels["operation path has a document path as prefix"] = true
				nt = true
			case strings.HasPrefix(d, full):
				labels["operation path is a prefix of a document path"] = true
			}
		}
	}
	if reqLabels(labels, c.Reqs, docs) {
		nt = true
	}
	return nt, keys(labels)
}

const ruleMW = "Spec / Redoc / RapiDoc / SwaggerUI / SwaggerUIOAuth2Callback configured directly: base path (empty, clean, without leading slash, trailing or doubled slashes, dot segments), UI path or WithSpecPath/WithSpecDocument, spec URL (default, absolute URL, absolute path, relative, with < > \" ' &), title and asset URLs with HTML/JS metacharacters, own or custom template, explicit OAuth callback URL, with or without a recording next handler " +
	"x 3-6 requests (exact document path, trailing slash, dot segments, doubled slashes, prefixes, extensions, case variants, elsewhere; 9 methods; query strings); " +
	"oracle = cleaned request path equals path.Join of the configured parts <=> answered (spec: 200, application/json, byte-equal document; UI: 200, text/html, every option value found at its place, decoding with html.UnescapeString / a JS string decoder / percent-decoding to the option, and no value with a metacharacter verbatim in the page), otherwise the next handler gets the same *http.Request unchanged and its answer arrives unaltered, or 404 without one; " +
	"non-trivial = an option contains one of < > \" ' &, or a request differs from the document path only by cleaning; distinct by hash of the whole case"

const ruleAPI = "Context.APIHandler / APIHandlerRapiDoc / APIHandlerSwaggerUI over a generated API (base path, info.title with metacharacters, 1-4 GET operations next to the document paths) with WithUIBasePath / WithUIPath / WithUISpecURL (default, absolute URL, absolute path with directories / metacharacters / unclean segments, relative) / WithUITitle / WithTemplate " +
	"x requests around both document paths; oracle = the page is served at {UI base}/{UI path} with escaped option values; for an absolute spec URL or path the reference extracted from the page, resolved against the page URL and fetched from the same handler, returns the spec bytes as application/json; every declared operation not on an exact document path reaches its handler; a request is answered with a document iff it cleans to that document's path; " +
	"non-trivial = an option contains a metacharacter, or a request differs from a document path only by cleaning, or an operation path has a document path as a prefix; distinct by hash of the whole case"

// Props lists the generated checks of C20.
func Props() []kit.Runner {
	return []kit.Runner{
		kit.Prop[MWCase]{ID: "C20", Name: "middleware", Rule: ruleMW, Quick: 20000, Thorough: 100000,
			Gen: GenMW, Check: CheckMW, Classify: ClassifyMW},
		kit.Prop[APICase]{ID: "C20", Name: "apihandler", Rule: ruleAPI, Quick: 2000, Thorough: 8000,
			Gen: GenAPI, Check: CheckAPI, Classify: ClassifyAPI},
	}
}
