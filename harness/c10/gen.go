package c10

import (
	"fmt"
	"net/url"
	"strings"

	"pgregory.net/rapid"

	"verif/harness/kit"
)

// literal segments: mostly unreserved characters; the last ones need escaping on the wire (a blank, a non-ASCII letter) or
// are reserved characters that may stand in a path as they are
var patLitVocab = []string{"a", "api", "v1", "x-y", "v.1", "~u", "a_b", "..a", "a..", "...", "0", "Pets", "my api", "ü", "a:b", "a@b", "(1)", "a;b=c", "a|b", "x^2", "`q`", "a\\b", "\"q\"", "<b>"}

// a base path is URL text: it may also spell its own text with percent-escapes
var litVocab = append(append([]string{}, patLitVocab...), "50%25", "my%20api")

// hostile path values (DESIGN.md section 3) plus values that spell placeholders and URL syntax
var hostileVals = []string{"", "", "a", "x y", "a/b", "a?b", "a#b", "100%", "%2F", "%25", "%zz", "..", ".", "...", "{p0}", "{p1}", "{p2}", "{p3}", "{q0}", "{q1}",
	"x{p1}y", "{p0}{p1}", "{", "}", "{}", "a+b", "+", ":", "*", ";x=1", "=", "ü", "€", "😀", "\xff", "\xc3", "a//b", "/", "//", "/..", "../..", "http://evil", "//evil.test/x",
	"a\\b", "?", "#", "?x=1", "#frag", "&", "a&b=c", " ", " a ", "\t", "\n", "\r\n", "\x00", "\x7f", "@", "user:pw@host", "[::1]", "a:b", "%", "%%", "%7Bp1%7D", "\"", "<x>", "|", "^", "`", "'"}

var hosts = []string{"host.test:8080", "localhost", "example.com", "[::1]:8443", "127.0.0.1:80", "a.b-c.test"}

func genVal(t *rapid.T) string {
	switch rapid.IntRange(0, 9).Draw(t, "valsrc") {
	case 0, 1, 2, 3, 4, 5:
		return rapid.SampledFrom(hostileVals).Draw(t, "hostile")
	case 6, 7:
		return rapid.StringN(0, 6, -1).Draw(t, "runes")
	default:
		n := rapid.IntRange(0, 4).Draw(t, "nbytes")
		b := make([]byte, n)
		for i := range b {
			if rapid.Bool().Draw(t, "syntaxbyte") {
				b[i] = rapid.SampledFrom([]byte("/?#%{}.:@ +&=;")).Draw(t, "sb")
			} else {
				b[i] = rapid.Byte().Draw(t, "anyb")
			}
		}
		return string(b)
	}
}

func genBase(t *rapid.T) string {
	n := rapid.IntRange(0, 2).Draw(t, "nbase")
	var segs []string
	for i := 0; i < n; i++ {
		segs = append(segs, rapid.SampledFrom(litVocab).Draw(t, "baselit"))
	}
	b := strings.Join(segs, "/")
	if rapid.IntRange(0, 3).Draw(t, "baselead") != 0 {
		b = "/" + b
	}
	if n > 0 && rapid.Bool().Draw(t, "basetrail") {
		b += "/"
	}
	return b
}

// genPattern draws the pattern path and the SetPathParam calls for its placeholders (in pattern order).
func genPattern(t *rapid.T, maxSeg int) (string, []PV) {
	n := rapid.IntRange(1, maxSeg).Draw(t, "npat")
	var segs []string
	var params []PV
	next := 0
	ph := func() string {
		if next > 0 && rapid.IntRange(0, 11).Draw(t, "again") == 0 {
			// the same placeholder once more: every occurrence must be replaced
			return "{" + params[rapid.IntRange(0, next-1).Draw(t, "which")].Name + "}"
		}
		name := fmt.Sprintf("p%d", next)
		next++
		params = append(params, PV{Name: name, Val: kit.BStr(genVal(t))})
		return "{" + name + "}"
	}
	for i := 0; i < n && next <= 4; i++ {
		switch rapid.IntRange(0, 9).Draw(t, "segkind") {
		case 0, 1, 2, 3:
			segs = append(segs, rapid.SampledFrom(patLitVocab).Draw(t, "patlit"))
		case 4, 5, 6, 7, 8:
			segs = append(segs, ph())
		default: // in-segment placeholders
			switch rapid.IntRange(0, 3).Draw(t, "mixed") {
			case 0:
				segs = append(segs, "v"+ph())
			case 1:
				segs = append(segs, ph()+".json")
			case 2:
				segs = append(segs, ph()+"."+ph())
			default:
				segs = append(segs, ph()+ph())
			}
		}
	}
	p := strings.Join(segs, "/")
	if rapid.IntRange(0, 5).Draw(t, "patlead") != 0 {
		p = "/" + p
	}
	if rapid.IntRange(0, 2).Draw(t, "pattrail") == 0 {
		p += "/"
	}
	return p, params
}

var qkeys = []string{"x", "y", "z", "k k", "ü", "a&b", "x=", "p0", "{p0}"}
var qvals = []string{"", "1", "2", "a b", "a&b", "a=b", "ü", "+", "%2F", "#", "?", "{p0}", "\xff", "/", "http://cb.example.com//hook", "/a/../b", "logs/2024/", "./x", "a//b"}

// genLevel draws a set of keys with 1-2 values each; keys come from a tiny vocabulary so that levels collide.
func genLevel(t *rapid.T, label string, maxKeys int) [][]string {
	n := rapid.IntRange(0, maxKeys).Draw(t, label+"n")
	seen := map[string]bool{}
	var out [][]string
	for i := 0; i < n; i++ {
		k := rapid.SampledFrom(qkeys).Draw(t, label+"k")
		if rapid.IntRange(0, 9).Draw(t, label+"oddk") == 0 {
			k = rapid.StringN(0, 3, -1).Draw(t, label+"kr")
		}
		if seen[k] {
			continue
		}
		seen[k] = true
		kv := []string{k}
		for j := rapid.IntRange(1, 2).Draw(t, label+"nv"); j > 0; j-- {
			v := rapid.SampledFrom(qvals).Draw(t, label+"v")
			if rapid.IntRange(0, 9).Draw(t, label+"oddv") == 0 {
				v = rapid.StringN(0, 4, -1).Draw(t, label+"vr")
			}
			kv = append(kv, v)
		}
		out = append(out, kv)
	}
	return out
}

// staticQuery writes a level as the text after '?': url.Values encoding, or a hand-made spelling of the same
// pairs (given order, %20 for a blank, a bare key for an empty value).
func staticQuery(t *rapid.T, label string, level [][]string) string {
	if len(level) == 0 {
		return ""
	}
	if rapid.IntRange(0, 2).Draw(t, label+"spell") != 0 {
		q := url.Values{}
		for _, kv := range level {
			q[kv[0]] = kv[1:]
		}
		return q.Encode()
	}
	// the hand-made spelling leaves the characters a query may carry unescaped ("/", ":", ".", "~", "@"): a static
	// query such as callback=http://host/hook is written that way in real base paths
	esc := func(s string) string {
		e := strings.ReplaceAll(url.QueryEscape(s), "+", "%20")
		for _, raw := range []string{"/", ":", "@"} {
			e = strings.ReplaceAll(e, url.QueryEscape(raw), raw)
		}
		return e
	}
	var parts []string
	for _, kv := range level {
		for _, v := range kv[1:] {
			if v == "" && kv[0] != "" {
				parts = append(parts, esc(kv[0]))
			} else {
				parts = append(parts, esc(kv[0])+"="+esc(v))
			}
		}
	}
	return strings.Join(parts, "&")
}

func callerQuery(t *rapid.T, level [][]string) []QV {
	var out []QV
	for _, kv := range level {
		q := QV{Key: kit.BStr(kv[0]), ByAuth: rapid.IntRange(0, 3).Draw(t, "set-by-auth-writer") == 0}
		for _, v := range kv[1:] {
			q.Vals = append(q.Vals, kit.BStr(v))
		}
		if rapid.IntRange(0, 7).Draw(t, "no-values") == 0 {
			q.Vals = nil // SetQueryParam(name) without values: what generated code does for an empty array
		}
		out = append(out, q)
	}
	return out
}

var rtSchemeLists = [][]string{nil, nil, {"http"}, {"https"}, {"http", "https"}, {"https", "http"}, {"ws", "https", "http"}, {"ws", "wss"}, {"ws"}, {"http", "ws", "https"}, {"wss", "ws", "http"}}
var opSchemeLists = [][]string{nil, {"http"}, {"https"}, {"http", "https"}, {"https", "http"}, {"ws", "http", "https"}, {"ws", "wss"}}

func genSchemes(t *rapid.T, c *Case) {
	c.RtSchemes = rapid.SampledFrom(rtSchemeLists).Draw(t, "rtschemes")
	c.OpSchemes = rapid.SampledFrom(opSchemeLists).Draw(t, "opschemes")
	c.Signer = rapid.IntRange(0, 3).Draw(t, "signing-auth-writer") == 0
	if rapid.IntRange(0, 5).Draw(t, "base-path-reassigned") == 0 {
		c.EarlierBase = "-" + rapid.SampledFrom([]string{"", "/", "/v1", "/v1?rev=1", "old/", "/a/b?x=y"}).Draw(t, "earlier-base")
	}
	for i, n := 0, rapid.SampledFrom([]int{0, 0, 0, 1, 2}).Draw(t, "earlier-operations"); i < n; i++ {
		c.Earlier = append(c.Earlier, rapid.SampledFrom(opSchemeLists).Draw(t, "earlier-schemes"))
	}
	if rapid.IntRange(0, 9).Draw(t, "freeschemes") == 0 {
		gen := rapid.SliceOfN(rapid.SampledFrom([]string{"http", "https", "ws", "wss", "h2c"}), 0, 4)
		c.RtSchemes = gen.Draw(t, "rtfree")
		c.OpSchemes = gen.Draw(t, "opfree")
	}
}

func genOrders(t *rapid.T, c *Case) {
	// extra SetPathParam calls for names the pattern does not have
	for i := rapid.IntRange(0, 2).Draw(t, "nextra"); i > 0 && rapid.IntRange(0, 2).Draw(t, "extra") == 0; i-- {
		c.Params = append(c.Params, PV{Name: fmt.Sprintf("q%d", i-1), Val: kit.BStr(genVal(t))})
	}
	n := len(c.Params)
	if n < 2 {
		return
	}
	// the calls themselves in a drawn order; then the reverse and one more permutation as alternatives
	c.Params = rapid.Permutation(c.Params).Draw(t, "setorder")
	rev := make([]int, n)
	for i := range rev {
		rev[i] = n - 1 - i
	}
	c.Orders = append(c.Orders, rev)
	if n > 2 {
		c.Orders = append(c.Orders, rapid.Permutation(identity(n)).Draw(t, "perm"))
	}
}

// GenPath: the product of base paths, patterns and hostile values; light on queries.
func GenPath(t *rapid.T) Case {
	c := Case{Host: rapid.SampledFrom(hosts).Draw(t, "host"), Base: genBase(t)}
	c.Pattern, c.Params = genPattern(t, 4)
	genOrders(t, &c)
	if rapid.IntRange(0, 3).Draw(t, "withq") == 0 {
		c.BaseQuery = staticQuery(t, "bq", genLevel(t, "bq", 2))
		c.PatQuery = staticQuery(t, "pq", genLevel(t, "pq", 2))
		c.Query = callerQuery(t, genLevel(t, "cq", 2))
	}
	genSchemes(t, &c)
	return c
}

// GenQuery: a short path and three query levels over a tiny key vocabulary.
func GenQuery(t *rapid.T) Case {
	c := Case{Host: rapid.SampledFrom(hosts).Draw(t, "host"), Base: genBase(t)}
	c.Pattern, c.Params = genPattern(t, 2)
	genOrders(t, &c)
	c.BaseQuery = staticQuery(t, "bq", genLevel(t, "bq", 4))
	c.PatQuery = staticQuery(t, "pq", genLevel(t, "pq", 4))
	c.Query = callerQuery(t, genLevel(t, "cq", 4))
	genSchemes(t, &c)
	return c
}

const rule = "base paths (empty, '/', 1-2 literal segments, with/without leading and trailing slash, with a static query) x patterns (1-4 segments: literals, {name}, " +
	"in-segment placeholders, with/without leading and trailing slash, embedded static query) x values (hostile table: '/', '?', '#', '%', '..', empty, non-ASCII, invalid UTF-8, " +
	"control bytes, texts that spell this operation's placeholders; random runes and bytes) x SetPathParam orders (drawn, reversed, permuted; names the pattern lacks) " +
	"x caller query sets (from the parameter writer or from the operation's auth writer) colliding with the static ones x scheme lists on transport and operation x hosts; " +
	"oracle = model from the statement judged on URL.EscapedPath/RawQuery/Scheme/Host with net/url as decoder (segment count and literals, PathUnescape(segment) = value, " +
	"trailing slash iff the pattern has one, same URL for every order and rebuild, URL text reads back identically, query = caller over pattern over base by key, https among several else first else http); " +
	"non-trivial = a value needs escaping or spells a placeholder, or a query key occurs at >=2 levels, or >=2 schemes are offered; distinct by hash of the whole case"

// Props lists the generated checks of C10.
func Props() []kit.Runner {
	return []kit.Runner{
		kit.Prop[Case]{ID: "C10", Name: "path", Rule: rule + "; generator weighted to the path side", Quick: 150000, Thorough: 300000,
			Gen: GenPath, Check: Check, Classify: Classify, Exclude: Exclude},
		kit.Prop[Case]{ID: "C10", Name: "query", Rule: rule + "; generator weighted to three colliding query levels", Quick: 100000, Thorough: 200000,
			Gen: GenQuery, Check: Check, Classify: Classify, Exclude: Exclude},
	}
}
