// Package c10 decides property C10 (client URLs: escaped substitution, preserved shape, stated query
// precedence, scheme choice) by building requests with client.Runtime.CreateHttpRequest and judging the URL
// against a model written from the property statement, with net/url as the decoder at the other end.
package c10

import (
	"fmt"
	"net/http"
	"net/url"
	"sort"
	"strings"

	"github.com/go-openapi/runtime"
	"github.com/go-openapi/runtime/client"
	"github.com/go-openapi/strfmt"

	"verif/harness/kit"
)

// PV is a path parameter as the caller sets it.
type PV struct {
	Name string   `json:"name"`
	Val  kit.BStr `json:"val"`
}

// QV is a query parameter as the caller sets it.
type QV struct {
	Key  kit.BStr   `json:"key"`
	Vals []kit.BStr `json:"vals"`
	// ByAuth: the caller sets this parameter from the operation's auth writer (a query API key) rather than from
	// the parameter writer.
	ByAuth bool `json:"by_auth,omitempty"`
}

// Case is one client configuration and one operation.
type Case struct {
	Host      string   `json:"host"`
	Base      string   `json:"base"`             // path part of the base path as handed to client.New: "", "/", "api", "/api/v1/"
	BaseQuery string   `json:"base_query"`       // static query of the base path (text after '?'), "" for none
	Pattern   string   `json:"pattern"`          // path part of the path pattern: "/a/{p0}/b/", "{p0}.json"
	PatQuery  string   `json:"pattern_query"`    // static query embedded in the pattern, "" for none
	Params    []PV     `json:"params"`           // SetPathParam calls in order; names that the pattern lacks are allowed
	Orders    [][]int  `json:"orders,omitempty"` // other orders of the same calls (permutations of indices)
	Query     []QV     `json:"query,omitempty"`  // SetQueryParam calls
	RtSchemes []string `json:"rt_schemes"`       // schemes of the transport (client.New)
	OpSchemes []string `json:"op_schemes"`       // schemes of the operation
	// Earlier: scheme lists of operations that were built on the same transport before this one (their URLs are not
	// judged): what an earlier operation offered decides nothing for a later one.
	Earlier [][]string `json:"earlier,omitempty"`
	// EarlierBase: the transport was created with this base path (text as handed to client.New, query included) and
	// built the earlier operations under it; the application then assigned the case's base path to Runtime.BasePath
	// (as New would have stored it). "-" stands for no such history.
	EarlierBase string `json:"earlier_base,omitempty"`
	// Signer: the operation's auth writer reads the request's path, method and query (as a request signer does)
	Signer bool `json:"signer,omitempty"`
}

// Model ------------------------------------------------------------------------------------------------

type part struct {
	Name string
	Lit  string
}

type seg []part

func (s seg) literal() bool { return len(s) == 1 && s[0].Name == "" }

func parseSeg(raw string) (seg, bool) {
	var s seg
	rest := raw
	for rest != "" {
		i := strings.IndexByte(rest, '{')
		if i < 0 {
			if strings.ContainsAny(rest, "{}") {
				return nil, false
			}
			s = append(s, part{Lit: rest})
			break
		}
		if i > 0 {
			if strings.ContainsAny(rest[:i], "{}") {
				return nil, false
			}
			s = append(s, part{Lit: rest[:i]})
		}
		j := strings.IndexByte(rest[i:], '}')
		if j < 2 {
			return nil, false
		}
		name := rest[i+1 : i+j]
		if strings.ContainsAny(name, "{}/") {
			return nil, false
		}
		s = append(s, part{Name: name})
		rest = rest[i+j+1:]
	}
	return s, len(s) > 0
}

func segsOf(p string) []string {
	var out []string
	for _, s := range strings.Split(p, "/") {
		if s != "" {
			out = append(out, s)
		}
	}
	return out
}

const literalAlphabet = "abcdefghijklmnopqrstuvwxyzABCDEFGHIJKLMNOPQRSTUVWXYZ0123456789._~-"

func plainLiteral(s string) bool {
	if s == "" || s == "." || s == ".." {
		return false
	}
	for i := 0; i < len(s); i++ {
		if strings.IndexByte(literalAlphabet, s[i]) < 0 {
			return false
		}
	}
	return true
}

// wideLiteral: literal text that is legal in a base path or pattern segment but is not made of unreserved characters
// alone: blanks, non-ASCII letters, reserved characters other than the delimiters of URL and template syntax.
func wideLiteral(s string) bool {
	if s == "" || s == "." || s == ".." {
		return false
	}
	for i := 0; i < len(s); i++ {
		if s[i] < 0x20 || s[i] == 0x7f || strings.IndexByte("/?#{}%", s[i]) >= 0 {
			return false
		}
	}
	return true
}

type model struct {
	BaseSegs []string
	PatSegs  []seg
	Trail    bool              // the pattern ends in a slash
	Vals     map[string]string // value by placeholder name
	Want     []string          // decoded text of every expected path segment (without the trailing empty one)
	Literal  []bool            // the expected segment is pure literal text
}

// InDomain parses the case and says why it is outside the quantifier (hand-written replay files only).
func InDomain(c Case) (model, string) {
	var m model
	for _, s := range segsOf(c.Base) {
		// the base path is URL text: a segment is its decoded text (an escaped '/' is not generated: whether it stays
		// inside the segment is not something the statement decides)
		d, err := url.PathUnescape(s)
		if err != nil || d == "" || d == "." || d == ".." || strings.ContainsAny(d, "/?#{}") || !utf8ish(d) {
			return m, "base path segment outside the literal alphabet"
		}
		if !plainLiteral(s) && !wideLiteral(strings.ReplaceAll(d, "%", "_")) {
			return m, "base path segment outside the literal alphabet"
		}
		m.BaseSegs = append(m.BaseSegs, d)
	}
	if strings.Contains(c.Base, "//") {
		return m, "duplicate slash in base path"
	}
	if strings.Contains(c.Pattern, "//") || strings.ContainsAny(c.Pattern, "?#%") {
		return m, "pattern outside the generated shape"
	}
	raw := segsOf(c.Pattern)
	if len(raw) == 0 {
		return m, "pattern without segments" // "/" and "": the statement's 'trailing slash' clause is undecided there
	}
	m.Trail = strings.HasSuffix(c.Pattern, "/")
	m.Vals = map[string]string{}
	for _, p := range c.Params {
		if _, dup := m.Vals[p.Name]; dup {
			return m, "a parameter set twice"
		}
		if p.Name == "" || strings.ContainsAny(p.Name, "{}/?#%") {
			return m, "bad parameter name"
		}
		m.Vals[p.Name] = string(p.Val)
	}
	for _, r := range raw {
		s, ok := parseSeg(r)
		if !ok {
			return m, "unparseable pattern segment"
		}
		var want strings.Builder
		for _, p := range s {
			if p.Name == "" {
				if !plainLiteral(p.Lit) && !(len(s) > 1 && plainInner(p.Lit)) && !wideLiteral(p.Lit) {
					return m, "pattern literal outside the literal alphabet"
				}
				want.WriteString(p.Lit)
				continue
			}
			v, ok := m.Vals[p.Name]
			if !ok {
				return m, "placeholder without a value"
			}
			want.WriteString(v)
		}
		m.PatSegs = append(m.PatSegs, s)
		m.Want = append(m.Want, want.String())
		m.Literal = append(m.Literal, s.literal())
	}
	if !strings.HasPrefix(c.Pattern, "/") && len(raw) > 0 && strings.Contains(raw[0], ":") {
		// the pattern is not rooted and its first segment carries a ':': as URL text (the pattern may embed a query, so
		// it is read as one) that is a scheme, not a path (RFC 3986 section 4.2 wants "./a:b" there); not generated
		return m, "unrooted path whose first segment contains ':'"
	}
	for _, o := range c.Orders {
		if len(o) != len(c.Params) {
			return m, "order is not a permutation"
		}
		seen := map[int]bool{}
		for _, i := range o {
			if i < 0 || i >= len(c.Params) || seen[i] {
				return m, "order is not a permutation"
			}
			seen[i] = true
		}
	}
	for _, q := range []string{c.BaseQuery, c.PatQuery} {
		if strings.ContainsAny(q, "#;") {
			return m, "static query outside the generated shape"
		}
		if _, err := url.ParseQuery(q); err != nil {
			return m, "static query is not a query string"
		}
	}
	seenQ := map[string]bool{}
	for _, q := range c.Query {
		if seenQ[string(q.Key)] {
			return m, "query parameter set twice"
		}
		seenQ[string(q.Key)] = true
	}
	for _, list := range [][]string{c.RtSchemes, c.OpSchemes} {
		for _, s := range list {
			if s == "" {
				return m, "empty scheme"
			}
		}
	}
	if c.Host == "" {
		return m, "no host"
	}
	return m, ""
}

// plainInner: literal text inside a mixed segment ("v{p0}", "{p0}.json") may also be "." on its own.
// utf8ish: no control bytes (net/url refuses them in a URL).
func utf8ish(s string) bool {
	for i := 0; i < len(s); i++ {
		if s[i] < 0x20 || s[i] == 0x7f {
			return false
		}
	}
	return true
}

func plainInner(s string) bool {
	for i := 0; i < len(s); i++ {
		if strings.IndexByte(literalAlphabet, s[i]) < 0 {
			return false
		}
	}
	return s != ""
}

// startsDoubleSlash is the input class of known finding K2, computed from the case alone: the base path has
// no segments, the first pattern segment expands to the empty text (its placeholders all carry the empty
// value), and something follows it (another segment or the trailing slash) - the substituted path starts
// with "//", which net/http reads as an authority.
func startsDoubleSlash(m model) bool {
	return len(m.BaseSegs) == 0 && len(m.Want) > 0 && m.Want[0] == "" && (len(m.Want) > 1 || m.Trail)
}

// Exclude names known finding K2 for exactly its input class.
func Exclude(c Case) string {
	m, why := InDomain(c)
	if why == "" && startsDoubleSlash(m) {
		return "K2"
	}
	return ""
}

func wantScheme(c Case) string {
	offered := c.RtSchemes
	if len(offered) == 0 {
		offered = c.OpSchemes
	}
	if len(offered) == 0 {
		return "http"
	}
	if len(offered) > 1 {
		for _, s := range offered {
			if s == "https" {
				return "https"
			}
		}
	}
	return offered[0]
}

// wantQuery: caller over pattern over base path, by key.
func wantQuery(c Case) (url.Values, [3]url.Values) {
	bq, _ := url.ParseQuery(c.BaseQuery)
	pq, _ := url.ParseQuery(c.PatQuery)
	cq := url.Values{}
	for _, q := range c.Query {
		// a parameter the caller set without any value (an empty array) is set all the same: it overrides the static
		// parameters of that name, and nothing of it goes on the wire
		cq[string(q.Key)] = []string{}
		for _, v := range q.Vals {
			cq.Add(string(q.Key), string(v))
		}
	}
	w := url.Values{}
	for k, v := range bq {
		w[k] = v
	}
	for k, v := range pq {
		w[k] = v
	}
	for k, v := range cq {
		w[k] = v
		if len(v) == 0 {
			delete(w, k)
		}
	}
	return w, [3]url.Values{bq, pq, cq}
}

func sameValues(a, b url.Values) bool {
	if len(a) != len(b) {
		return false
	}
	for k, av := range a {
		bv, ok := b[k]
		if !ok || len(av) != len(bv) {
			return false
		}
		for i := range av {
			if av[i] != bv[i] {
				return false
			}
		}
	}
	return true
}

// Code under test ---------------------------------------------------------------------------------------

// follow-up builds on the same transport (r10): the same operation object once more, and a plain operation of the same base path
type followUp struct {
	again    *http.Request
	againErr error
	plain    *http.Request
	plainErr error
}

var lastFollowUp followUp

func buildOnce(c Case, order []int) (req *http.Request, err error, v *kit.Violation) {
	base := c.Base
	if c.BaseQuery != "" {
		base += "?" + c.BaseQuery
	}
	pattern := c.Pattern
	if c.PatQuery != "" {
		pattern += "?" + c.PatQuery
	}
	v = kit.Guard("Runtime.CreateHttpRequest", func() {
		rt := client.New(c.Host, base, c.RtSchemes)
		if c.EarlierBase != "" {
			rt = client.New(c.Host, strings.TrimPrefix(c.EarlierBase, "-"), c.RtSchemes)
			if len(c.Earlier) == 0 {
				_, _ = rt.CreateHttpRequest(&runtime.ClientOperation{ID: "earlier", Method: http.MethodGet, PathPattern: "/earlier",
					Params: runtime.ClientRequestWriterFunc(func(runtime.ClientRequest, strfmt.Registry) error { return nil })})
			}
		}
		for _, es := range c.Earlier {
			_, _ = rt.CreateHttpRequest(&runtime.ClientOperation{ID: "earlier", Method: http.MethodGet, PathPattern: "/earlier", Schemes: es,
				Params: runtime.ClientRequestWriterFunc(func(runtime.ClientRequest, strfmt.Registry) error { return nil })})
		}
		if c.EarlierBase != "" {
			rt.BasePath = client.New(c.Host, base, nil).BasePath // the base path changes between requests
		}
		op := &runtime.ClientOperation{ID: "c10", Method: http.MethodGet, PathPattern: pattern, Schemes: c.OpSchemes,
			Params: runtime.ClientRequestWriterFunc(func(r runtime.ClientRequest, _ strfmt.Registry) error {
				for _, i := range order {
					if err := r.SetPathParam(c.Params[i].Name, string(c.Params[i].Val)); err != nil {
						return err
					}
				}
				for _, q := range c.Query {
					if q.ByAuth {
						continue
					}
					vals := make([]string, len(q.Vals))
					for i, x := range q.Vals {
						vals[i] = string(x)
					}
					if err := r.SetQueryParam(string(q.Key), vals...); err != nil {
						return err
					}
				}
				return nil
			})}
		for _, q := range c.Query {
			if q.ByAuth {
				op.AuthInfo = runtime.ClientAuthInfoWriterFunc(func(r runtime.ClientRequest, _ strfmt.Registry) error {
					for _, q := range c.Query {
						if !q.ByAuth {
							continue
						}
						vals := make([]string, len(q.Vals))
						for i, x := range q.Vals {
							vals[i] = string(x)
						}
						if err := r.SetQueryParam(string(q.Key), vals...); err != nil {
							return err
						}
					}
					return nil
				})
				break
			}
		}
		if c.Signer {
			// a signing auth writer looks at what it signs before the URL is built: looking changes nothing (r9)
			inner := op.AuthInfo
			op.AuthInfo = runtime.ClientAuthInfoWriterFunc(func(r runtime.ClientRequest, reg strfmt.Registry) error {
				_, _, _ = r.GetPath(), r.GetMethod(), r.GetQueryParams()
				if inner != nil {
					return inner.AuthenticateRequest(r, reg)
				}
				return nil
			})
		}
		req, err = rt.CreateHttpRequest(op)
		lastFollowUp = followUp{}
		if err == nil {
			lastFollowUp.again, lastFollowUp.againErr = rt.CreateHttpRequest(op)
			lastFollowUp.plain, lastFollowUp.plainErr = rt.CreateHttpRequest(&runtime.ClientOperation{ID: "c10-plain", Method: http.MethodGet, PathPattern: "/c10-plain", Schemes: c.OpSchemes,
				Params: runtime.ClientRequestWriterFunc(func(runtime.ClientRequest, strfmt.Registry) error { return nil })})
		}
	})
	return req, err, v
}

func describe(c Case) string {
	return fmt.Sprintf("host=%q base=%q base-query=%q pattern=%q pattern-query=%q params=%v caller-query=%v transport-schemes=%v operation-schemes=%v schemes-of-earlier-operations-on-the-transport=%v",
		c.Host, c.Base, c.BaseQuery, c.Pattern, c.PatQuery, fmtParams(c.Params), fmtQuery(c.Query), c.RtSchemes, c.OpSchemes, c.Earlier)
}

func fmtParams(ps []PV) string {
	var out []string
	for _, p := range ps {
		out = append(out, fmt.Sprintf("%s=%q", p.Name, string(p.Val)))
	}
	return "[" + strings.Join(out, " ") + "]"
}

func fmtQuery(qs []QV) string {
	var out []string
	for _, q := range qs {
		var vs []string
		for _, v := range q.Vals {
			vs = append(vs, string(v))
		}
		by := ""
		if q.ByAuth {
			by = " (auth writer)"
		}
		out = append(out, fmt.Sprintf("%q=%q%s", string(q.Key), vs, by))
	}
	return "[" + strings.Join(out, " ") + "]"
}

func identity(n int) []int {
	o := make([]int, n)
	for i := range o {
		o[i] = i
	}
	return o
}

// Check builds the request once per order and judges the URL.
func Check(c Case) *kit.Violation {
	m, why := InDomain(c)
	if why != "" {
		return nil
	}
	orders := append([][]int{identity(len(c.Params))}, c.Orders...)
	var first *http.Request
	var firstURL string
	for oi, order := range orders {
		req, err, v := buildOnce(c, order)
		if v != nil {
			return kit.Failf("%s; %s", v.Msg, describe(c))
		}
		if err != nil {
			return kit.Failf("BUILD-ERROR (order %v): %v; %s", order, err, describe(c))
		}
		if req == nil || req.URL == nil {
			return kit.Failf("BUILD returned no request/URL; %s", describe(c))
		}
		u := req.URL.String() + " Host:" + req.Host
		// the same operation object built once more on the same transport gives the same URL; an operation without any
		// query of its own, built afterwards on that transport, carries the base path's static query and nothing else (r10)
		fu := lastFollowUp
		if fu.againErr != nil || fu.again == nil || fu.again.URL == nil {
			return kit.Failf("SAME-OPERATION-AGAIN: the second CreateHttpRequest with the same operation object failed: %v; %s", fu.againErr, describe(c))
		}
		if u2 := fu.again.URL.String() + " Host:" + fu.again.Host; u2 != u {
			return kit.Failf("SAME-OPERATION-AGAIN: the first CreateHttpRequest with an operation object gives %q, the second with the same object %q; %s", u, u2, describe(c))
		}
		if fu.plainErr != nil || fu.plain == nil || fu.plain.URL == nil {
			return kit.Failf("LATER-OPERATION: building GET /c10-plain on the same transport afterwards failed: %v; %s", fu.plainErr, describe(c))
		}
		_, layers := wantQuery(c)
		if gq, perr := url.ParseQuery(fu.plain.URL.RawQuery); perr != nil || !sameValues(gq, layers[0]) {
			return kit.Failf("LATER-OPERATION: GET /c10-plain built on the same transport afterwards carries the query %q (%v), want the base path's static query %v only; %s", fu.plain.URL.RawQuery, perr, layers[0], describe(c))
		}
		if oi == 0 {
			first, firstURL = req, u
			continue
		}
		if u != firstURL {
			return kit.Failf("ORDER-DEPENDENT: SetPathParam order %v gives %q, order %v gives %q; %s", orders[0], firstURL, order, u, describe(c))
		}
	}
	// the map of path parameters inside the client is iterated in random order: one more build in the first
	// order must give the same URL again
	if again, err, v := buildOnce(c, orders[0]); v != nil || err != nil {
		return kit.Failf("second build failed: %v %v; %s", v, err, describe(c))
	} else if u := again.URL.String() + " Host:" + again.Host; u != firstURL {
		return kit.Failf("UNSTABLE: two builds of the same operation give %q and %q; %s", firstURL, u, describe(c))
	}
	return judgeURL(c, m, first)
}

func judgeURL(c Case, m model, req *http.Request) *kit.Violation {
	u := req.URL
	ep := u.EscapedPath()
	// shape
	if !strings.HasPrefix(ep, "/") {
		return kit.Failf("SHAPE: escaped path %q is not rooted; %s", ep, describe(c))
	}
	if strings.ContainsAny(ep, "?#") {
		return kit.Failf("SHAPE: escaped path %q contains '?' or '#'; %s", ep, describe(c))
	}
	got := strings.Split(ep[1:], "/")
	want := append(append([]string{}, m.BaseSegs...), m.Want...)
	lit := append(make([]bool, 0, len(want)), trues(len(m.BaseSegs))...)
	lit = append(lit, m.Literal...)
	if m.Trail {
		if got[len(got)-1] != "" {
			return kit.Failf("TRAILING-SLASH lost: the pattern ends in '/', the escaped path is %q; %s", ep, describe(c))
		}
		got = got[:len(got)-1]
	}
	if len(got) != len(want) {
		if !m.Trail && len(got) == len(want)+1 && got[len(got)-1] == "" && want[len(want)-1] != "" {
			return kit.Failf("TRAILING-SLASH added: the pattern does not end in '/', the escaped path is %q; %s", ep, describe(c))
		}
		return kit.Failf("SHAPE: escaped path %q has %d segments %q, base path + pattern have %d (%q); %s", ep, len(got), got, len(want), want, describe(c))
	}
	for i := range want {
		if lit[i] && plainLiteral(want[i]) {
			if got[i] != want[i] {
				return kit.Failf("SHAPE: segment %d of %q is %q, want the literal %q; %s", i, ep, got[i], want[i], describe(c))
			}
			continue
		}
		dec, err := url.PathUnescape(got[i])
		if err != nil {
			return kit.Failf("ESCAPE: segment %d of %q (%q) is not a valid escape: %v; %s", i, ep, got[i], err, describe(c))
		}
		if dec != want[i] {
			return kit.Failf("SUBSTITUTION: segment %d of %q (%q) decodes to %q, want %q; %s", i, ep, got[i], dec, want[i], describe(c))
		}
	}
	if u.Fragment != "" || u.RawFragment != "" {
		return kit.Failf("FRAGMENT: the URL has fragment %q; %s", u.Fragment, describe(c))
	}
	// what goes on the wire: net/url must read the same path, query, scheme and host back from the text
	text := u.String()
	back, err := url.Parse(text)
	if err != nil {
		return kit.Failf("URL text %q does not parse: %v; %s", text, err, describe(c))
	}
	if back.EscapedPath() != ep || back.RawQuery != u.RawQuery || back.Fragment != "" || back.Host != u.Host || back.Scheme != u.Scheme || back.User != nil {
		return kit.Failf("WIRE: URL text %q reads back as path %q query %q fragment %q host %q, built path %q query %q host %q; %s",
			text, back.EscapedPath(), back.RawQuery, back.Fragment, back.Host, ep, u.RawQuery, u.Host, describe(c))
	}
	// query precedence
	wq, _ := wantQuery(c)
	gq, err := url.ParseQuery(u.RawQuery)
	if err != nil {
		return kit.Failf("QUERY: RawQuery %q does not parse: %v; %s", u.RawQuery, err, describe(c))
	}
	if !sameValues(gq, wq) {
		return kit.Failf("QUERY: RawQuery %q = %v, want %v (caller over pattern over base path); %s", u.RawQuery, gq, wq, describe(c))
	}
	// scheme and host
	if ws := wantScheme(c); u.Scheme != ws {
		return kit.Failf("SCHEME: %q, want %q; %s", u.Scheme, ws, describe(c))
	}
	if u.Host != c.Host || req.Host != c.Host {
		return kit.Failf("HOST: URL host %q, request host %q, want %q; %s", u.Host, req.Host, c.Host, describe(c))
	}
	return nil
}

func trues(n int) []bool {
	o := make([]bool, n)
	for i := range o {
		o[i] = true
	}
	return o
}

// Classification ------------------------------------------------------------------------------------------

func needsEscaping(v string) bool {
	return url.PathEscape(v) != v // only used to label cases, never to judge
}

func spellsPlaceholder(v string) bool {
	i := strings.IndexByte(v, '{')
	return i >= 0 && strings.IndexByte(v[i:], '}') > 1
}

// Classify implements the non-trivial rule of DESIGN.md C10.
func Classify(c Case) (bool, []string) {
	m, why := InDomain(c)
	if why != "" {
		return false, []string{"outside the domain: " + why}
	}
	labels := map[string]bool{}
	nt := false
	inPattern := map[string]bool{}
	nph := 0
	for _, s := range m.PatSegs {
		for _, p := range s {
			if p.Name != "" {
				if inPattern[p.Name] {
					labels["pattern: a placeholder occurs twice"] = true
				}
				inPattern[p.Name] = true
				nph++
			}
		}
		if len(s) > 1 {
			labels["pattern: in-segment placeholder"] = true
		}
	}
	labels[fmt.Sprintf("pattern: %d placeholders", nph)] = true
	if m.Trail {
		labels["pattern: trailing slash"] = true
	}
	if !strings.HasPrefix(c.Pattern, "/") {
		labels["pattern: no leading slash"] = true
	}
	switch {
	case len(m.BaseSegs) == 0 && c.Base == "":
		labels["base: empty"] = true
	case len(m.BaseSegs) == 0:
		labels["base: /"] = true
	default:
		if !strings.HasPrefix(c.Base, "/") {
			labels["base: no leading slash"] = true
		}
		if strings.HasSuffix(c.Base, "/") {
			labels["base: trailing slash"] = true
		}
		if len(m.BaseSegs) >= 2 {
			labels["base: nested"] = true
		}
	}
	if c.BaseQuery != "" {
		labels["base: with query"] = true
	}
	if c.PatQuery != "" {
		labels["pattern: with query"] = true
	}
	for _, p := range c.Params {
		v := string(p.Val)
		if !inPattern[p.Name] {
			labels["value: set but not in the pattern"] = true
			continue
		}
		if v == "" {
			labels["value: empty"] = true
		}
		if needsEscaping(v) {
			labels["value: needs escaping"] = true
			nt = true
		}
		if spellsPlaceholder(v) {
			labels["value: spells a placeholder"] = true
			nt = true
			for name := range m.Vals {
				if strings.Contains(v, "{"+name+"}") {
					labels["value: spells a placeholder of this operation"] = true
				}
			}
		}
		if strings.Contains(v, "/") {
			labels["value: contains '/'"] = true
		}
		if strings.ContainsAny(v, "?#") {
			labels["value: contains '?' or '#'"] = true
		}
		if strings.Contains(v, "%") {
			labels["value: contains '%'"] = true
		}
		if v == "." || v == ".." {
			labels["value: dot segment"] = true
		}
	}
	if len(c.Orders) > 0 && len(c.Params) >= 2 {
		labels["≥2 parameters set in several orders"] = true
	}
	_, levels := wantQuery(c)
	keys := map[string]int{}
	for _, l := range levels {
		for k := range l {
			keys[k]++
		}
	}
	maxLevels := 0
	for _, n := range keys {
		if n > maxLevels {
			maxLevels = n
		}
	}
	switch maxLevels {
	case 3:
		labels["query key at 3 levels"] = true
		nt = true
	case 2:
		labels["query key at 2 levels"] = true
		nt = true
	}
	for k := range levels[0] {
		if _, p := levels[1][k]; p {
			labels["query: pattern overrides base"] = true
		}
		if _, p := levels[2][k]; p {
			labels["query: caller overrides base"] = true
		}
	}
	for k := range levels[1] {
		if _, p := levels[2][k]; p {
			labels["query: caller overrides pattern"] = true
		}
	}
	for _, q := range c.Query {
		if !q.ByAuth {
			continue
		}
		_, inBase := levels[0][string(q.Key)]
		_, inPat := levels[1][string(q.Key)]
		if inBase || inPat {
			labels["query: parameter set by the auth writer overrides a static one"] = true
		} else {
			labels["query: parameter set by the auth writer"] = true
		}
	}
	if len(keys) == 0 {
		labels["query: none"] = true
	}
	offered := c.RtSchemes
	if len(offered) == 0 {
		offered = c.OpSchemes
	}
	if len(c.RtSchemes) > 0 && len(c.OpSchemes) > 0 {
		labels["schemes: transport and operation"] = true
	}
	if c.EarlierBase != "" {
		labels["base path reassigned after earlier requests"] = true
	}
	if len(c.Earlier) > 0 {
		labels["schemes: earlier operations on the same transport"] = true
		if len(c.RtSchemes) == 0 {
			labels["schemes: earlier operations on a transport without schemes of its own"] = true
		}
	}
	switch {
	case len(offered) == 0:
		labels["schemes: none offered"] = true
	case len(offered) == 1:
		labels["schemes: one offered"] = true
	default:
		nt = true
		hasHTTPS := false
		for _, s := range offered {
			if s == "https" {
				hasHTTPS = true
			}
		}
		switch {
		case hasHTTPS && offered[0] != "https":
			labels["schemes: several, https not first"] = true
		case hasHTTPS:
			labels["schemes: several, https first"] = true
		default:
			labels["schemes: several, no https"] = true
		}
	}
	var out []string
	for l := range labels {
		out = append(out, l)
	}
	sort.Strings(out)
	return nt, out
}
