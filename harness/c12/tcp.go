package c12

import (
	"bufio"
	"bytes"
	"context"
	"fmt"
	"io"
	"net"
	"net/http"
	"sort"
	"strconv"
	"strings"
	"sync"
	"time"

	rt "github.com/go-openapi/runtime"
	"github.com/go-openapi/runtime/client"
	"github.com/go-openapi/strfmt"
	"pgregory.net/rapid"

	"verif/harness/kit"
)

// TCPPlan is a response served over a real loopback connection and cut at a byte offset of its wire form.
type TCPPlan struct {
	Status    int    `json:"status"`
	BodyLen   int    `json:"body_len"`
	Chunked   bool   `json:"chunked"`    // chunked transfer coding, else Content-Length
	ExtraHdrs int    `json:"extra_hdrs"` // number of additional header lines
	CutAt     int    `json:"cut_at"`     // per-mille of the wire length (1000 = complete); CutAbs overrides when >= 0
	CutAbs    int    `json:"cut_abs"`    // absolute offset, -1 unused
	End       string `json:"end"`        // close | reset | stall
	Reader    string `json:"reader"`     // readall | none
	Reuse     bool   `json:"reuse"`
	TimeoutMs int    `json:"timeout_ms"` // request timeout (always > 0 for stall)
	Upload    int    `json:"upload"`     // request body length (JSON string payload)
}

func (p TCPPlan) wire() (raw []byte, headerEnd int) {
	var b bytes.Buffer
	fmt.Fprintf(&b, "HTTP/1.1 %d %s\r\n", p.Status, http.StatusText(p.Status))
	b.WriteString("Content-Type: application/octet-stream\r\n")
	for i := 0; i < p.ExtraHdrs; i++ {
		fmt.Fprintf(&b, "X-Extra-%d: %s\r\n", i, strings.Repeat("v", 10+i))
	}
	body := bytes.Repeat([]byte("r"), p.BodyLen)
	if p.Chunked {
		b.WriteString("Transfer-Encoding: chunked\r\n\r\n")
		headerEnd = b.Len()
		for off := 0; off < len(body); off += 7 {
			end := off + 7
			if end > len(body) {
				end = len(body)
			}
			fmt.Fprintf(&b, "%x\r\n%s\r\n", end-off, body[off:end])
		}
		b.WriteString("0\r\n\r\n")
	} else {
		fmt.Fprintf(&b, "Content-Length: %d\r\n\r\n", len(body))
		headerEnd = b.Len()
		b.Write(body)
	}
	return b.Bytes(), headerEnd
}

func (p TCPPlan) cut(total int) int {
	if p.CutAbs >= 0 {
		if p.CutAbs > total {
			return total
		}
		return p.CutAbs
	}
	c := total * p.CutAt / 1000
	if c > total {
		c = total
	}
	return c
}

// CheckTCP serves the plan from a loopback listener through net/http's real transport.
func CheckTCP(p TCPPlan) *kit.Violation {
	before := goroutines()
	raw, headerEnd := p.wire()
	cut := p.cut(len(raw))
	complete := cut == len(raw)

	ln, err := net.Listen("tcp", "127.0.0.1:0")
	if err != nil {
		return kit.Failf("harness: cannot listen on loopback: %v", err)
	}
	release := make(chan struct{})
	var srvWG sync.WaitGroup
	srvWG.Add(1)
	go func() {
		defer srvWG.Done()
		conn, err := ln.Accept()
		if err != nil {
			return
		}
		defer conn.Close()
		br := bufio.NewReader(conn)
		req, err := http.ReadRequest(br)
		if err != nil {
			return
		}
		_, _ = io.Copy(io.Discard, req.Body)
		_, _ = conn.Write(raw[:cut])
		if complete {
			// keep the connection open like a keep-alive server would, until the client is done
			<-release
			return
		}
		switch p.End {
		case "reset":
			if tc, ok := conn.(*net.TCPConn); ok {
				_ = tc.SetLinger(0)
			}
		case "stall":
			<-release
		}
	}()

	tr := &http.Transport{DisableCompression: true}
	r := client.New(ln.Addr().String(), "/", []string{"http"})
	r.Transport = tr
	if p.Reuse {
		r.EnableConnectionReuse()
	}
	var got int
	var readerErr error
	readerRan := false
	op := &rt.ClientOperation{ID: "tcp", Method: "POST", PathPattern: "/up", ConsumesMediaTypes: []string{rt.JSONMime}, Context: context.Background()}
	op.Params = rt.ClientRequestWriterFunc(func(req rt.ClientRequest, _ strfmt.Registry) error {
		_ = req.SetTimeout(time.Duration(p.TimeoutMs) * time.Millisecond)
		return req.SetBodyParam(strings.Repeat("u", p.Upload))
	})
	op.Reader = rt.ClientResponseReaderFunc(func(resp rt.ClientResponse, _ rt.Consumer) (interface{}, error) {
		readerRan = true
		if p.Reader == "readall" {
			b, err := io.ReadAll(resp.Body())
			got, readerErr = len(b), err
			return resp.Code(), err
		}
		return resp.Code(), nil
	})

	type result struct {
		v     interface{}
		err   error
		panic *kit.Violation
	}
	done := make(chan result, 1)
	start := time.Now()
	go func() {
		var res result
		res.panic = kit.Guard("Runtime.Submit", func() { res.v, res.err = r.Submit(op) })
		done <- res
	}()
	cleanup := func() {
		close(release)
		_ = ln.Close()
		tr.CloseIdleConnections()
		srvWG.Wait()
	}
	var out result
	watchdog := time.Duration(p.TimeoutMs)*time.Millisecond + 8*time.Second
	select {
	case out = <-done:
	case <-time.After(watchdog):
		cleanup()
		return kit.Failf("HANG: Submit did not return within %v over a real connection (request timeout %d ms, response cut at %d of %d bytes, end=%s)", watchdog, p.TimeoutMs, cut, len(raw), p.End)
	}
	elapsed := time.Since(start)
	cleanup()
	if out.panic != nil {
		return out.panic
	}
	if elapsed > time.Duration(p.TimeoutMs)*time.Millisecond+4*time.Second {
		return kit.Failf("LATE: Submit returned after %v, request timeout %d ms", elapsed, p.TimeoutMs)
	}
	where := "body"
	if cut < headerEnd {
		where = "status line/headers"
	}
	switch {
	case complete:
		if out.err != nil && p.TimeoutMs < 5000 {
			break // a short deadline may legitimately expire on a loaded machine: a time budget is never a violation
		}
		if out.err != nil {
			return kit.Failf("SPURIOUS-ERROR: the complete response (%d bytes on the wire) was served and Submit failed: %v", len(raw), out.err)
		}
		if p.Reader == "readall" && got != p.BodyLen {
			return kit.Failf("TRUNCATED: reader got %d of %d body bytes from a complete response", got, p.BodyLen)
		}
		if code, _ := out.v.(int); code != p.Status {
			return kit.Failf("reader saw status %v, the server sent %d", out.v, p.Status)
		}
	case cut < headerEnd:
		if out.err == nil {
			return kit.Failf("FAULT-AS-SUCCESS: the response was cut inside the %s (offset %d of %d, end=%s) and Submit returned success %v", where, cut, len(raw), p.End, out.v)
		}
	default:
		// cut inside the body: a reader that reads it all must see the failure; Submit must pass it on
		if p.Reader == "readall" && p.Status != http.StatusNoContent && p.Status != http.StatusNotModified {
			if readerRan && readerErr == nil {
				return kit.Failf("TRUNCATED: the body was cut at wire offset %d of %d (end=%s) and the reader read %d bytes without an error", cut, len(raw), p.End, got)
			}
			if out.err == nil {
				return kit.Failf("FAULT-AS-SUCCESS: the body was cut at wire offset %d of %d (end=%s), yet Submit returned success %v", cut, len(raw), p.End, out.v)
			}
		}
	}
	// no goroutine of the client may remain (net/http's own connection goroutines are not the client's)
	var leaks []string
	until := time.Now().Add(5 * time.Second)
	for {
		leaks = clientLeaks(before)
		if len(leaks) == 0 || time.Now().After(until) {
			break
		}
		time.Sleep(time.Millisecond)
	}
	if len(leaks) > 0 {
		return kit.Failf("GOROUTINE-LEAK after a real exchange (cut at %d of %d, end=%s, err=%v):\n%s", cut, len(raw), p.End, out.err, kit.NormStack(leaks[0]))
	}
	return nil
}

func GenTCP(t *rapid.T) TCPPlan {
	p := TCPPlan{
		Status:    rapid.SampledFrom([]int{200, 200, 201, 404, 500, 204}).Draw(t, "status"),
		BodyLen:   rapid.SampledFrom([]int{0, 1, 10, 100, 5000}).Draw(t, "bodylen"),
		Chunked:   rapid.Bool().Draw(t, "chunked"),
		ExtraHdrs: rapid.IntRange(0, 3).Draw(t, "extra"),
		CutAt:     rapid.SampledFrom([]int{1000, 1000, 0, 10, 100, 300, 500, 700, 900, 990, 999, rapid.IntRange(0, 1000).Draw(t, "anycut")}).Draw(t, "cut"),
		CutAbs:    -1,
		End:       rapid.SampledFrom([]string{"close", "close", "reset", "stall"}).Draw(t, "end"),
		Reader:    rapid.SampledFrom([]string{"readall", "readall", "none"}).Draw(t, "reader"),
		Reuse:     rapid.Bool().Draw(t, "reuse"),
		TimeoutMs: rapid.SampledFrom([]int{60, 5000}).Draw(t, "timeout"),
		Upload:    rapid.SampledFrom([]int{0, 10, 70000}).Draw(t, "upload"),
	}
	if p.Status == 204 {
		p.BodyLen, p.Chunked = 0, false
	}
	if rapid.IntRange(0, 3).Draw(t, "abs") == 0 {
		p.CutAbs = rapid.IntRange(0, 120).Draw(t, "cutabs")
	}
	if p.End == "stall" {
		p.TimeoutMs = 60
	}
	if p.CutAbs < 0 && p.CutAt >= 1000 {
		p.TimeoutMs = 5000 // a complete exchange is judged only under a deadline no healthy run can hit
	}
	return p
}

// EnumTCP cuts a small response at every offset of its wire form, for each ending.
func EnumTCP(yield func(TCPPlan) bool) {
	for _, chunked := range []bool{false, true} {
		for _, end := range []string{"close", "reset", "stall"} {
			for _, reader := range []string{"readall", "none"} {
				for _, reuse := range []bool{false, true} {
					base := TCPPlan{Status: 200, BodyLen: 9, Chunked: chunked, ExtraHdrs: 1, CutAbs: 0, End: end, Reader: reader, Reuse: reuse, TimeoutMs: 5000, Upload: 10}
					if end == "stall" {
						base.TimeoutMs = 40
					}
					raw, _ := base.wire()
					step := 1
					if end == "stall" {
						step = 6 // every stalled case costs the deadline
					}
					for off := 0; off <= len(raw); off += step {
						p := base
						p.CutAbs = off
						if !yield(p) {
							return
						}
					}
				}
			}
		}
	}
}

func ClassifyTCP(p TCPPlan) (bool, []string) {
	raw, headerEnd := p.wire()
	cut := p.cut(len(raw))
	labels := []string{"end " + p.End, "reader " + p.Reader, "status " + strconv.Itoa(p.Status)}
	nt := false
	switch {
	case cut == len(raw):
		labels = append(labels, "complete response")
	case cut < 12:
		labels = append(labels, "cut in the status line")
		nt = true
	case cut < headerEnd:
		labels = append(labels, "cut in the headers")
		nt = true
	default:
		labels = append(labels, "cut in the body")
		nt = true
	}
	if p.Chunked {
		labels = append(labels, "chunked")
	}
	if p.Reuse {
		labels = append(labels, "reuse")
	}
	if p.Upload > 60000 {
		labels = append(labels, "large upload")
	}
	sort.Strings(labels)
	return nt, labels
}

const ruleTCP = "responses (status, extra headers, Content-Length or chunked body) served by a loopback TCP server through net/http's real transport and cut at a byte offset of the wire form (generated; thorough: every offset of a small response), " +
	"the server then closing, resetting or stalling the connection; reader reads all or nothing; connection reuse on/off; request timeout; " +
	"oracle: Submit returns by the deadline, fails when the cut is inside the status line or headers, or inside the body when the reader reads it all, succeeds with the full body on a complete response, leaves no client goroutine; " +
	"non-trivial = the response is cut before its end; distinct by hash of the plan"

func tcpProp() kit.Runner {
	return kit.Prop[TCPPlan]{ID: "C12", Name: "tcp", Rule: ruleTCP, Quick: 600, Thorough: 1500, Gen: GenTCP, Check: CheckTCP, Classify: ClassifyTCP, Enumerate: EnumTCP}
}
