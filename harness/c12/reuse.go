package c12

import (
	"bytes"
	"compress/gzip"
	"fmt"
	"io"
	"net"
	"net/http"
	"net/http/httptest"
	"strconv"
	"strings"
	"sync/atomic"
	"time"

	rt "github.com/go-openapi/runtime"
	"github.com/go-openapi/runtime/client"
	"github.com/go-openapi/strfmt"
	"pgregory.net/rapid"

	"verif/harness/kit"
)

// ReusePlan is a series of sequential calls over net/http's real transport against a loopback server that counts
// the connections it accepts. With connection reuse enabled a response body whose end the reader did not see is
// drained before it is closed, so the next call finds the connection idle: the whole series uses one connection,
// however the transport was put together.
type ReusePlan struct {
	Build   string `json:"build"`    // new | new+transport | withclient | withclient-notransport
	BodyLen int    `json:"body_len"` // response body length (more than the transport has read ahead)
	Reader  string `json:"reader"`   // none | partial | copyfail
	Calls   int    `json:"calls"`    // 2..4 sequential calls
	// Gzip: the server answers with Content-Encoding: gzip and a Content-Length (a pre-compressed asset); net/http's
	// transport inflates it for the client, which then sees a body of unknown length on a connection that is reusable
	// all the same. (r8)
	Gzip bool `json:"gzip,omitempty"`
}

// noise is incompressible enough for the compressed entity to stay far larger than what a transport reads ahead.
func noise(n int) []byte {
	b := make([]byte, n)
	x := uint32(2463534242)
	for i := range b {
		x ^= x << 13
		x ^= x >> 17
		x ^= x << 5
		b[i] = byte(x)
	}
	return b
}

var reuseBuilds = []string{"new", "new+transport", "withclient", "withclient-notransport"}

// CheckReuse runs the series and counts connections.
func CheckReuse(p ReusePlan) *kit.Violation {
	if p.Calls < 2 || p.Calls > 6 || p.BodyLen < 1 {
		return kit.Failf("malformed plan %+v", p)
	}
	// net/http hands a connection back to its idle pool from its own goroutine, after the read that met the end of the
	// body has returned: a call that follows at once can find the pool still empty and dial, drained body or not (seen
	// once in round 10, at a load average of 80: 2 connections for 4 calls). A body that is not drained costs a connection
	// on every call and at any pace, so a series that used more than one connection is run again with a pause between the
	// calls (twice, 20 and 60 ms) and is reported only when it did so every time.
	var v *kit.Violation
	for _, pause := range []time.Duration{0, 20 * time.Millisecond, 60 * time.Millisecond} {
		var again bool
		if v, again = reuseOnce(p, pause); !again {
			return v
		}
	}
	return v
}

// reuseOnce: again is true when the only complaint is the number of connections.
func reuseOnce(p ReusePlan, pause time.Duration) (_ *kit.Violation, again bool) {
	var conns int32
	body := strings.Repeat("r", p.BodyLen)
	var packed []byte
	if p.Gzip {
		var zb bytes.Buffer
		zw := gzip.NewWriter(&zb)
		_, _ = zw.Write(noise(p.BodyLen))
		_ = zw.Close()
		packed = zb.Bytes()
	}
	srv := httptest.NewUnstartedServer(http.HandlerFunc(func(w http.ResponseWriter, rq *http.Request) {
		w.Header().Set("Content-Type", "application/octet-stream")
		if p.Gzip && strings.Contains(rq.Header.Get("Accept-Encoding"), "gzip") {
			w.Header().Set("Content-Encoding", "gzip")
			w.Header().Set("Content-Length", strconv.Itoa(len(packed)))
			_, _ = w.Write(packed)
			return
		}
		_, _ = w.Write([]byte(body))
	}))
	srv.Config.ConnState = func(_ net.Conn, s http.ConnState) {
		if s == http.StateNew {
			atomic.AddInt32(&conns, 1)
		}
	}
	srv.Start()
	defer srv.Close()
	host := strings.TrimPrefix(srv.URL, "http://")

	var own *http.Transport
	var r *client.Runtime
	if v := kit.Guard("client.New*/EnableConnectionReuse", func() {
		switch p.Build {
		case "new":
			r = client.New(host, "/", []string{"http"})
		case "new+transport":
			own = &http.Transport{}
			r = client.New(host, "/", []string{"http"})
			r.Transport = own
		case "withclient":
			own = &http.Transport{}
			r = client.NewWithClient(host, "/", []string{"http"}, &http.Client{Transport: own})
		case "withclient-notransport":
			r = client.NewWithClient(host, "/", []string{"http"}, &http.Client{Timeout: 30 * time.Second})
		}
		if r != nil {
			r.EnableConnectionReuse()
		}
	}); v != nil {
		return v, false
	}
	if r == nil {
		return kit.Failf("malformed plan %+v", p), false
	}
	defer func() {
		if own != nil {
			own.CloseIdleConnections()
		}
		if dt, ok := http.DefaultTransport.(*http.Transport); ok {
			dt.CloseIdleConnections()
		}
	}()
	for i := 0; i < p.Calls; i++ {
		if i > 0 && pause > 0 {
			time.Sleep(pause)
		}
		op := &rt.ClientOperation{ID: "reuse", Method: "GET", PathPattern: "/blob",
			Params: rt.ClientRequestWriterFunc(func(req rt.ClientRequest, _ strfmt.Registry) error { return req.SetTimeout(30 * time.Second) }),
			Reader: rt.ClientResponseReaderFunc(func(resp rt.ClientResponse, _ rt.Consumer) (interface{}, error) {
				switch p.Reader {
				case "partial":
					buf := make([]byte, 3)
					_, _ = resp.Body().Read(buf)
				case "copyfail":
					_, _ = copyTo(&failingWriter{room: 2}, resp)
				}
				return resp.Code(), nil
			})}
		var res interface{}
		var err error
		if v := kit.Guard("Runtime.Submit", func() { res, err = r.Submit(op) }); v != nil {
			return v, false
		}
		if err != nil {
			return kit.Failf("SPURIOUS-ERROR: call %d of %d against the loopback server failed: %v (plan %+v)", i+1, p.Calls, err, p), false
		}
		if code, _ := res.(int); code != http.StatusOK {
			return kit.Failf("call %d: the reader saw status %v", i+1, res), false
		}
	}
	if n := atomic.LoadInt32(&conns); n != 1 {
		return kit.Failf("NOT-REUSED: connection reuse is enabled (transport built as %q) and %d sequential calls, each leaving %d unread response bytes (reader %q, gzip entity with Content-Length: %v), used %d connections: the bodies were not drained before they were closed",
			p.Build, p.Calls, p.BodyLen, p.Reader, p.Gzip, n), true
	}
	return nil, false
}

func copyTo(w *failingWriter, resp rt.ClientResponse) (int64, error) {
	return io.Copy(w, resp.Body())
}

func GenReuse(t *rapid.T) ReusePlan {
	return ReusePlan{
		Build:   rapid.SampledFrom(reuseBuilds).Draw(t, "build"),
		BodyLen: rapid.SampledFrom([]int{70000, 200000, 300000, 1 << 20}).Draw(t, "bodylen"),
		Reader:  rapid.SampledFrom([]string{"none", "none", "partial", "copyfail"}).Draw(t, "reader"),
		Calls:   rapid.IntRange(2, 4).Draw(t, "calls"),
		Gzip:    rapid.IntRange(0, 2).Draw(t, "gzip-with-content-length") == 0,
	}
}

func EnumReuse(yield func(ReusePlan) bool) {
	for _, b := range reuseBuilds {
		for _, n := range []int{70000, 300000, 1 << 20} {
			for _, rd := range []string{"none", "partial", "copyfail"} {
				if !yield(ReusePlan{Build: b, BodyLen: n, Reader: rd, Calls: 3}) {
					return
				}
			}
		}
	}
}

func ClassifyReuse(p ReusePlan) (bool, []string) {
	l := []string{"transport built as " + p.Build, "reader " + p.Reader, fmt.Sprintf("unread bytes %d", p.BodyLen)}
	if p.Gzip {
		l = append(l, "gzip entity with Content-Length, inflated by the transport")
	}
	return true, l
}

const ruleReuse = "2-4 sequential calls through net/http's real transport against a loopback server that counts accepted connections; transport put together as client.New (default transport) / New + own Transport / NewWithClient with a client that has a transport / NewWithClient with a client that has none, " +
	"EnableConnectionReuse in every case; response bodies of 70000 B - 1 MiB that the reader does not read, reads 3 bytes of, or copies to a destination that fails after 2 bytes; oracle: the series uses exactly one connection (an undrained body makes the transport drop the connection); every case is non-trivial"

func reuseProp() kit.Runner {
	return kit.Prop[ReusePlan]{ID: "C12", Name: "reuse", Rule: ruleReuse, Quick: 60, Thorough: 300, Gen: GenReuse, Check: CheckReuse, Classify: ClassifyReuse, Enumerate: EnumReuse}
}
