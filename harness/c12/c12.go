// Package c12 decides property C12 (client calls always terminate, release what they hold, and surface faults)
// by fault enumeration: generated and systematically swept fault plans are executed through Runtime.Submit over
// a scripted transport, and every plan is judged by accounting invariants (deadline, error, files closed,
// response body closed and drained, no goroutine of the client left).
package c12

import (
	"bytes"
	"context"
	"errors"
	"fmt"
	"io"
	"log"
	"net/http"
	"os"
	"regexp"
	"runtime"
	"sort"
	"strings"
	"sync"
	"sync/atomic"
	"time"

	rt "github.com/go-openapi/runtime"
	"github.com/go-openapi/runtime/client"
	"github.com/go-openapi/strfmt"
	"pgregory.net/rapid"

	"verif/harness/kit"
)

func init() { log.SetOutput(io.Discard) } // the client logs pipe-close errors with the standard logger

var (
	errSrc   = errors.New("scripted upload source failure")
	errAuth  = errors.New("scripted auth writer failure")
	errParam = errors.New("scripted parameter writer failure")
	errRT    = errors.New("scripted transport failure")
	errResp  = errors.New("scripted response body failure")
)

// Plan is one fault plan.
type Plan struct {
	Payload     string `json:"payload"`      // none json reader readcloser form multipart
	NFiles      int    `json:"n_files"`      // multipart: number of files (0..3)
	FileLen     int    `json:"file_len"`     // length of every upload source
	Chunk       int    `json:"chunk"`        // read size of upload sources
	SrcFailAt   int    `json:"src_fail_at"`  // -1 none; the FailIdx-th source fails once this many bytes were delivered
	FailIdx     int    `json:"fail_idx"`     // which file fails
	SrcErr      string `json:"src_err"`      // error value of the failing source: "" (a custom error), unexpected-eof, closed-pipe, deadline
	Declared    bool   `json:"declared_ct"`  // files declare their content type (no sniffing read)
	ParamErr    string `json:"param_err"`    // "", before (nothing handed over yet), after (files already handed over)
	Auth        string `json:"auth"`         // none ok err getbody getbody2
	RT          string `json:"rt"`           // ok errBefore errAfterBody noread
	RespLen     int    `json:"resp_len"`     // response body length
	RespChunk   int    `json:"resp_chunk"`   // response body read granularity
	RespEnd     string `json:"resp_end"`     // eof eofwithdata err stall
	RespCT      string `json:"resp_ct"`      // "" (application/octet-stream, registered) | unregistered | malformed | absent: Content-Type of the response
	Reader      string `json:"reader"`       // readall partial none sizes
	ReadSizes   []int  `json:"read_sizes"`   // reader: readall partial none sizes copyfail; "sizes": buffer sizes of successive reads (0 allowed), then return
	Reuse       bool   `json:"reuse"`        // EnableConnectionReuse
	TimeoutMs   int    `json:"timeout_ms"`   // request timeout (0: none, -1: not set by the caller, i.e. client.DefaultTimeout)
	DefaultMs   int    `json:"default_ms"`   // value of the package variable client.DefaultTimeout during the case (0: untouched)
	CtxMs       int    `json:"ctx_ms"`       // caller context deadline (0: none)
	CtxLevel    string `json:"ctx_level"`    // operation | runtime
	CancelAt    string `json:"cancel_at"`    // "", before, upload, response
	CancelOff   int    `json:"cancel_off"`   // response offset at which the caller cancels
	URLErr      bool   `json:"url_err"`      // path pattern that cannot be turned into a URL
	MissingProd bool   `json:"missing_prod"` // no producer registered for the payload's media type
	// RespClose: the response announces that the connection will not be kept (Connection: close / HTTP/1.0): Response.Close
	RespClose bool `json:"resp_close,omitempty"`
	// ClientTimeout: the call goes through an *http.Client of the operation that carries a (long, 30 s) Timeout of its
	// own; the request timeout and the caller's context still decide how long the call may take
	ClientTimeout bool `json:"client_timeout,omitempty"`
	// Method of the operation ("" = POST): uploads are sent under every method the caller declares. (r6)
	Method string `json:"method,omitempty"`
	// SrcAfter: what the failing source does when it is read again after it reported its error: "" the error again,
	// "eof" a clean end, "resume" the rest of its bytes (an interrupted read that is retried). (r6)
	SrcAfter string `json:"src_after,omitempty"`
	// Debug: the Runtime runs in debug mode (requests and responses are dumped to a silent logger). (r7)
	Debug bool `json:"debug,omitempty"`
	// BadHeader: the parameter writer sets a header whose value holds a line break: such a request cannot be sent
	// (net/http's transport refuses it before it dials, and so does the scripted one; a debug dump fails on it). (r7)
	BadHeader bool `json:"bad_header,omitempty"`
	// SlowClose: closing an upload source takes 15 ms (a file on a network share): the order in which the client closes
	// the files and ends the body then shows at the moment Submit returns. (r9)
	SlowClose bool `json:"slow_close,omitempty"`
	// Scheme: the transport's only scheme ("" = http). The scripted round tripper answers any scheme, so "ws" and "HTTP"
	// are calls like any other: what is handed over is released all the same (r10)
	Scheme string `json:"scheme,omitempty"`
}

type quietLogger struct{}

func (quietLogger) Printf(string, ...interface{}) {}
func (quietLogger) Debugf(string, ...interface{}) {}

// upload source -------------------------------------------------------------------------------------

func srcError(kind string) error {
	switch kind {
	case "unexpected-eof":
		return io.ErrUnexpectedEOF
	case "closed-pipe":
		return io.ErrClosedPipe
	case "deadline":
		return os.ErrDeadlineExceeded
	}
	return errSrc
}

type src struct {
	slow   bool   // see Plan.SlowClose
	after  string // see Plan.SrcAfter
	failed bool
	err    error
	data   []byte
	pos    int
	chunk  int
	failAt int
	closed int32
	name   string
	ct     string
}

func (s *src) Read(p []byte) (int, error) {
	if s.failAt >= 0 && s.pos >= s.failAt && !(s.failed && s.after == "resume") {
		if s.failed && s.after == "eof" {
			return 0, io.EOF
		}
		s.failed = true
		if s.err != nil {
			return 0, s.err
		}
		return 0, errSrc
	}
	if s.pos >= len(s.data) {
		return 0, io.EOF
	}
	n := len(p)
	if n > s.chunk {
		n = s.chunk
	}
	if s.pos+n > len(s.data) {
		n = len(s.data) - s.pos
	}
	if s.failAt >= 0 && s.pos+n > s.failAt && !s.failed {
		n = s.failAt - s.pos
	}
	copy(p, s.data[s.pos:s.pos+n])
	s.pos += n
	return n, nil
}
func (s *src) Close() error {
	if s.slow {
		time.Sleep(15 * time.Millisecond)
	}
	atomic.AddInt32(&s.closed, 1)
	return nil
}
func (s *src) Name() string { return s.name }

type declaredSrc struct{ *src }

func (d declaredSrc) ContentType() string { return d.src.ct }

// response body ---------------------------------------------------------------------------------------

type respBody struct {
	ctHeader  string
	mu        sync.Mutex
	ctx       context.Context
	data      []byte
	pos       int
	chunk     int
	end       string
	closed    int
	sawEnd    bool // a terminal condition (EOF or an error) was returned
	endByCtx  bool // ... and it was the end of the request context, met before the data ran out
	endAtClos bool
	posAtClos int
	afterClos int
	onOffset  func(pos int)
}

func (b *respBody) Read(p []byte) (int, error) {
	b.mu.Lock()
	if b.closed > 0 {
		b.afterClos++
		b.mu.Unlock()
		return 0, errors.New("read after close")
	}
	if err := b.ctx.Err(); err != nil {
		if !b.sawEnd {
			b.endByCtx = true
		}
		b.sawEnd = true
		b.mu.Unlock()
		return 0, err // a real transport tears the connection down when the request context ends
	}
	if len(p) == 0 {
		b.mu.Unlock()
		return 0, nil
	}
	if b.pos < len(b.data) {
		n := len(p)
		if n > b.chunk {
			n = b.chunk
		}
		n = copy(p[:n], b.data[b.pos:])
		b.pos += n
		pos := b.pos
		withEOF := b.end == "eofwithdata" && b.pos == len(b.data)
		if withEOF {
			b.sawEnd = true
		}
		hook := b.onOffset
		b.mu.Unlock()
		if hook != nil {
			hook(pos)
		}
		if withEOF {
			return n, io.EOF
		}
		return n, nil
	}
	switch b.end {
	case "err":
		b.sawEnd = true
		b.mu.Unlock()
		return 0, errResp
	case "stall":
		b.mu.Unlock()
		<-b.ctx.Done()
		b.mu.Lock()
		b.sawEnd = true
		b.mu.Unlock()
		return 0, b.ctx.Err()
	}
	b.sawEnd = true
	b.mu.Unlock()
	return 0, io.EOF
}

func (b *respBody) Close() error {
	b.mu.Lock()
	defer b.mu.Unlock()
	b.closed++
	if b.closed == 1 {
		b.endAtClos = b.sawEnd
		b.posAtClos = b.pos
	}
	return nil
}

type roundTripper func(*http.Request) (*http.Response, error)

func (f roundTripper) RoundTrip(r *http.Request) (*http.Response, error) { return f(r) }

// goroutine accounting ---------------------------------------------------------------------------------

var reGoroutine = regexp.MustCompile(`(?m)^goroutine (\d+) \[`)

func goroutines() map[string]string {
	buf := make([]byte, 1<<20)
	for {
		n := runtime.Stack(buf, true)
		if n < len(buf) {
			buf = buf[:n]
			break
		}
		buf = make([]byte, 2*len(buf))
	}
	out := map[string]string{}
	for _, g := range strings.Split(string(buf), "\n\n") {
		if m := reGoroutine.FindStringSubmatch(g); m != nil {
			out[m[1]] = g
		}
	}
	return out
}

// clientLeaks returns the stacks of goroutines created since the snapshot that sit in go-openapi/runtime/client code.
func clientLeaks(before map[string]string) []string {
	var out []string
	now := goroutines()
	ids := make([]string, 0, len(now))
	for id := range now {
		ids = append(ids, id)
	}
	sort.Strings(ids)
	for _, id := range ids {
		if _, old := before[id]; old {
			continue
		}
		if strings.Contains(now[id], "go-openapi/runtime/client.") {
			out = append(out, now[id])
		}
	}
	return out
}

// effective deadline of a plan in milliseconds (0: none).
func (p Plan) deadlineMs() int {
	d := 0
	timeout := p.TimeoutMs
	if timeout < 0 {
		timeout = 30000
		if p.DefaultMs > 0 {
			timeout = p.DefaultMs
		}
	}
	for _, v := range []int{timeout, p.CtxMs} {
		if v > 0 && (d == 0 || v < d) {
			d = v
		}
	}
	return d
}

func (p Plan) streaming() bool {
	return p.Payload == "reader" || p.Payload == "readcloser" || p.Payload == "multipart"
}

func (p Plan) sourceFails() bool {
	if p.SrcFailAt < 0 {
		return false
	}
	if p.Payload == "multipart" {
		return p.NFiles > 0
	}
	return p.Payload == "reader" || p.Payload == "readcloser"
}

var hangSeen int32

// Check executes the plan and applies the accounting invariants.
func Check(p Plan) *kit.Violation {
	before := goroutines()
	if p.DefaultMs > 0 {
		// the default request timeout is an exported package variable: a short one lets "the caller set no timeout" be explored
		old := client.DefaultTimeout
		client.DefaultTimeout = time.Duration(p.DefaultMs) * time.Millisecond
		defer func() { client.DefaultTimeout = old }()
	}

	var (
		mu          sync.Mutex
		files       []*src
		body        *respBody
		bodyReadErr error
		rtCalls     int
		readerRan   bool
		readerErr   error
		readerGot   int
	)
	var callerCancel context.CancelFunc = func() {}

	scheme := "http"
	if p.Scheme != "" {
		scheme = p.Scheme
	}
	r := client.New("example.test", "/", []string{scheme})
	if p.MissingProd {
		delete(r.Producers, rt.JSONMime)
	}
	r.Transport = roundTripper(func(req *http.Request) (*http.Response, error) {
		mu.Lock()
		rtCalls++
		mu.Unlock()
		closeBody := func() {
			if req.Body != nil {
				_ = req.Body.Close()
			}
		}
		if err := req.Context().Err(); err != nil {
			closeBody()
			return nil, err
		}
		if p.RT == "errBefore" {
			closeBody()
			return nil, errRT
		}
		for _, vs := range req.Header {
			for _, v := range vs {
				if strings.ContainsAny(v, "\r\n") {
					closeBody()
					return nil, errors.New("scripted transport: invalid header field value")
				}
			}
		}
		if p.CancelAt == "upload" {
			callerCancel()
		}
		if p.RT != "noread" && req.Body != nil {
			_, err := io.Copy(io.Discard, req.Body)
			closeBody()
			mu.Lock()
			bodyReadErr = err
			mu.Unlock()
			if err != nil {
				return nil, err
			}
		} else {
			closeBody()
		}
		if err := req.Context().Err(); err != nil {
			return nil, err
		}
		if p.RT == "errAfterBody" {
			return nil, errRT
		}
		b := &respBody{ctx: req.Context(), data: bytes.Repeat([]byte("r"), p.RespLen), chunk: p.RespChunk, end: p.RespEnd}
		if b.chunk <= 0 {
			b.chunk = 3
		}
		if p.CancelAt == "response" {
			b.onOffset = func(pos int) {
				if pos >= p.CancelOff {
					callerCancel()
				}
			}
		}
		mu.Lock()
		body = b
		mu.Unlock()
		hdr := http.Header{"Content-Type": {"application/octet-stream"}}
		switch p.RespCT {
		case "unregistered":
			hdr = http.Header{"Content-Type": {"image/x-unregistered"}}
		case "malformed":
			hdr = http.Header{"Content-Type": {"application/json; charset"}}
		case "absent":
			hdr = http.Header{}
		}
		b.ctHeader = hdr.Get("Content-Type")
		return &http.Response{StatusCode: 200, Status: "200 OK", Header: hdr, Body: b, Request: req, Close: p.RespClose}, nil
	})
	if p.Reuse {
		r.EnableConnectionReuse()
	}
	if p.Debug {
		r.SetLogger(quietLogger{})
		r.SetDebug(true)
		defer r.SetDebug(false) // SetDebug also sets a package variable of the middleware package
	}

	mk := func(i, failAt int) *src {
		return &src{slow: p.SlowClose, after: p.SrcAfter, err: srcError(p.SrcErr), data: bytes.Repeat([]byte{byte('a' + i)}, p.FileLen), chunk: p.Chunk, failAt: failAt, name: fmt.Sprintf("dir/f%d.bin", i), ct: "application/x-scripted"}
	}
	op := &rt.ClientOperation{ID: "plan", Method: "POST", PathPattern: "/up"}
	if p.Method != "" {
		op.Method = p.Method
	}
	// the caller opens its upload files before it calls Submit and hands them over inside the operation's parameters
	var prepared []*src
	if p.Payload == "multipart" {
		for i := 0; i < p.NFiles; i++ {
			fa := -1
			if i == p.FailIdx%maxInt(p.NFiles, 1) {
				fa = p.SrcFailAt
			}
			prepared = append(prepared, mk(i, fa))
		}
		// judged for closing unless the plan holds a fault that comes before the hand-over: the parameter writer fails
		// before it reaches SetFileParam, or there is no producer (checked before the writer runs; not among the endings
		// the statement lists)
		if p.ParamErr != "before" && !p.MissingProd {
			files = prepared
		}
	}
	if p.ClientTimeout {
		op.Client = &http.Client{Transport: r.Transport, Timeout: 30 * time.Second}
	}
	if p.URLErr {
		op.PathPattern = "/up/%zz"
	}
	switch p.Payload {
	case "multipart":
		op.ConsumesMediaTypes = []string{rt.MultipartFormMime}
	case "form":
		op.ConsumesMediaTypes = []string{rt.URLencodedFormMime}
	case "json":
		op.ConsumesMediaTypes = []string{rt.JSONMime}
	default:
		op.ConsumesMediaTypes = []string{rt.DefaultMime}
	}
	if p.MissingProd {
		op.ConsumesMediaTypes = []string{rt.JSONMime}
	}
	var bodySrc *src
	op.Params = rt.ClientRequestWriterFunc(func(req rt.ClientRequest, _ strfmt.Registry) error {
		if p.ParamErr == "before" {
			return errParam
		}
		if p.TimeoutMs >= 0 {
			_ = req.SetTimeout(time.Duration(p.TimeoutMs) * time.Millisecond)
		}
		if p.BadHeader {
			_ = req.SetHeaderParam("X-Note", "two\nlines")
		}
		switch p.Payload {
		case "json":
			_ = req.SetBodyParam(map[string]string{"a": "b"})
		case "reader":
			bodySrc = mk(9, p.SrcFailAt)
			_ = req.SetBodyParam(struct{ io.Reader }{bodySrc})
		case "readcloser":
			bodySrc = mk(9, p.SrcFailAt)
			_ = req.SetBodyParam(bodySrc)
		case "form":
			_ = req.SetFormParam("k", "v1", "v2")
		case "multipart":
			_ = req.SetFormParam("k", "v1")
			var fs []rt.NamedReadCloser
			for _, s := range prepared {
				if p.Declared {
					fs = append(fs, declaredSrc{s})
				} else {
					fs = append(fs, s)
				}
			}
			if len(fs) > 0 {
				_ = req.SetFileParam("file", fs...)
			}
		}
		if p.ParamErr == "after" {
			return errParam
		}
		return nil
	})
	switch p.Auth {
	case "ok":
		op.AuthInfo = rt.ClientAuthInfoWriterFunc(func(req rt.ClientRequest, _ strfmt.Registry) error {
			return req.SetHeaderParam("Authorization", "x")
		})
	case "err":
		op.AuthInfo = rt.ClientAuthInfoWriterFunc(func(rt.ClientRequest, strfmt.Registry) error { return errAuth })
	case "getbody", "getbody2":
		op.AuthInfo = rt.ClientAuthInfoWriterFunc(func(req rt.ClientRequest, _ strfmt.Registry) error {
			_ = req.GetBody()
			if p.Auth == "getbody2" {
				_ = req.GetBody()
			}
			return nil
		})
	}
	op.Reader = rt.ClientResponseReaderFunc(func(resp rt.ClientResponse, _ rt.Consumer) (interface{}, error) {
		mu.Lock()
		readerRan = true
		mu.Unlock()
		switch p.Reader {
		case "readall":
			b, err := io.ReadAll(resp.Body())
			mu.Lock()
			readerErr, readerGot = err, len(b)
			mu.Unlock()
			return "done", err
		case "partial":
			buf := make([]byte, 2)
			_, _ = resp.Body().Read(buf)
			return "partial", nil
		case "copyfail":
			// the way runtime.ByteStreamConsumer hands a body to an io.Writer: io.Copy, which stops early when the
			// destination fails (a full disk, a closed pipe)
			_, _ = io.Copy(&failingWriter{room: 2}, resp.Body())
			return "copyfail", nil
		case "sizes":
			for _, n := range p.ReadSizes {
				buf := make([]byte, n)
				if _, err := resp.Body().Read(buf); err != nil {
					break
				}
			}
			return "sizes", nil
		}
		return "none", nil
	})

	ctx := context.Context(nil)
	var cancels []context.CancelFunc
	var ctxBorn time.Time
	if p.CtxMs > 0 {
		ctxBorn = time.Now()
		c, cf := context.WithTimeout(context.Background(), time.Duration(p.CtxMs)*time.Millisecond)
		ctx = c
		cancels = append(cancels, cf)
	}
	if p.CancelAt != "" {
		base := ctx
		if base == nil {
			base = context.Background()
		}
		c, cf := context.WithCancel(base)
		ctx, callerCancel = c, cf
		cancels = append(cancels, cf)
	}
	if ctx != nil {
		if p.CtxLevel == "runtime" {
			r.Context = ctx
		} else {
			op.Context = ctx
		}
	}
	defer func() {
		for _, cf := range cancels {
			cf()
		}
	}()
	if p.CancelAt == "before" {
		callerCancel()
	}

	type result struct {
		v     interface{}
		err   error
		panic *kit.Violation
	}
	done := make(chan result, 1)
	start := time.Now()
	go func() {
		var res result
		res.panic = kit.Guard("Runtime.Submit", func() { res.v, res.err = r.Submit(op) })
		done <- res
	}()
	dl := p.deadlineMs()
	// once a hang has been reported the run is failing already: what follows is rapid re-running and shrinking that case, and
	// with 8 s per attempt the shrinker outlives the shard's wall budget (seen with seeded change C12-14), so the slack drops
	watchdog := time.Duration(dl)*time.Millisecond + 8*time.Second
	if atomic.LoadInt32(&hangSeen) != 0 {
		watchdog = time.Duration(dl)*time.Millisecond + 2*time.Second
	}
	var out result
	select {
	case out = <-done:
	case <-time.After(watchdog):
		atomic.StoreInt32(&hangSeen, 1)
		return kit.Failf("HANG: Submit did not return within %v (effective deadline %d ms)", watchdog, dl)
	}
	elapsed := time.Since(start)
	// the caller's context deadline runs from when the context was made, which on a busy machine can be many milliseconds
	// before Submit was entered (seen in round 10 at a load average of 80: 13 ms): "no deadline was near" counts from there
	var ctxLead time.Duration
	if !ctxBorn.IsZero() {
		ctxLead = start.Sub(ctxBorn)
	}
	if out.panic != nil {
		return out.panic
	}
	// (3a) a call that succeeded after the transport had read the whole upload returns with its files closed already:
	// the end of the body is what the transport waited for, and the files are closed before the body ends (r9)
	if out.err == nil && p.RT == "ok" && p.Payload == "multipart" && p.CancelAt == "" {
		mu.Lock()
		open := ""
		for _, s := range files {
			if atomic.LoadInt32(&s.closed) == 0 {
				open = s.name
			}
		}
		mu.Unlock()
		if open != "" {
			return kit.Failf("FILE-OPEN-AT-RETURN: Submit returned success (the transport had read the whole upload) while upload source %s was still open", open)
		}
	}
	// (1) deadline: generous slack, a hang is >= 30 s or for ever
	if dl > 0 && elapsed > time.Duration(dl)*time.Millisecond+4*time.Second {
		return kit.Failf("LATE: Submit returned after %v, effective deadline %d ms", elapsed, dl)
	}

	// settle: goroutines of the call end, files get closed
	var leaks []string
	allClosed := func() (bool, string) {
		mu.Lock()
		defer mu.Unlock()
		for _, s := range files {
			if atomic.LoadInt32(&s.closed) == 0 {
				return false, s.name
			}
		}
		return true, ""
	}
	settleUntil := time.Now().Add(5 * time.Second)
	for {
		leaks = clientLeaks(before)
		ok, _ := allClosed()
		if (len(leaks) == 0 && ok) || time.Now().After(settleUntil) {
			break
		}
		time.Sleep(time.Millisecond)
	}
	// (5) no goroutine of the client remains
	if len(leaks) > 0 {
		return kit.Failf("GOROUTINE-LEAK: %d goroutine(s) started by the call remain in client code after it returned (err=%v):\n%s", len(leaks), out.err, kit.NormStack(leaks[0]))
	}
	// (3) every file handed over is closed
	if ok, name := allClosed(); !ok {
		return kit.Failf("FILE-NOT-CLOSED: upload source %s was handed over in the operation's parameters and never closed (Submit err=%v)", name, out.err)
	}
	mu.Lock()
	defer mu.Unlock()
	// (3b) a closable payload stream: once the request has reached the transport, the stream has been closed - by the
	// transport, or by the client when it copied the payload for an auth writer (before that point it is the tolerance of
	// DESIGN.md section 6) (r8)
	if p.Payload == "readcloser" && bodySrc != nil && rtCalls > 0 && atomic.LoadInt32(&bodySrc.closed) == 0 {
		settle := time.Now().Add(2 * time.Second)
		for atomic.LoadInt32(&bodySrc.closed) == 0 && time.Now().Before(settle) {
			time.Sleep(time.Millisecond)
		}
		if atomic.LoadInt32(&bodySrc.closed) == 0 {
			return kit.Failf("PAYLOAD-NOT-CLOSED: the closable payload stream was handed over, the request reached the transport (auth %s), and the stream was never closed (Submit err=%v)", p.Auth, out.err)
		}
	}
	// (4) response body closed, drained with reuse
	if body != nil {
		body.mu.Lock()
		closed, endAtClose, posAtClose, after := body.closed, body.endAtClos, body.posAtClos, body.afterClos
		endByCtx := body.endByCtx
		body.mu.Unlock()
		if closed == 0 {
			return kit.Failf("BODY-NOT-CLOSED: the response body was delivered and never closed (Submit err=%v)", out.err)
		}
		_ = after
		if p.Reuse && !endAtClose {
			return kit.Failf("NOT-DRAINED: connection reuse is enabled and the response body was closed at offset %d of %d before its end was seen", posAtClose, len(body.data))
		}
		// the only end the body has seen is the end of the request context, although the caller never cancelled and no
		// deadline was near: the client ended the context itself before it drained the body (a real transport then
		// gives up the connection)
		if p.Reuse && endByCtx && posAtClose < len(body.data) && p.CancelAt == "" && (dl == 0 || elapsed+ctxLead < time.Duration(dl)*time.Millisecond/2) {
			return kit.Failf("NOT-DRAINED: connection reuse is enabled; the request context was ended by the client before the response body was drained (closed at offset %d of %d; caller never cancelled, deadline %d ms, elapsed %v)", posAtClose, len(body.data), dl, elapsed)
		}
	}
	// (2) an error unless the complete response was obtained; a failing upload is never a success
	if bodyReadErr != nil && out.err == nil {
		return kit.Failf("UPLOAD-FAILURE-AS-SUCCESS: the transport saw the upload fail (%v) and Submit returned success %v", bodyReadErr, out.v)
	}
	var why []string
	if p.ParamErr != "" {
		why = append(why, "parameter writer error")
	}
	if p.MissingProd && p.ParamErr != "before" {
		// the producer is checked before the writer runs
	}
	if p.MissingProd {
		why = append(why, "no producer for the media type")
	}
	if p.URLErr {
		why = append(why, "invalid URL")
	}
	if p.BadHeader {
		why = append(why, "a header value that cannot be sent")
	}
	if p.Debug && p.streaming() && p.sourceFails() {
		why = append(why, "upload source failed while the request was dumped (debug mode)")
	}
	if p.Auth == "err" {
		why = append(why, "auth writer error")
	}
	if (p.Auth == "getbody" || p.Auth == "getbody2") && p.streaming() && p.sourceFails() {
		why = append(why, "upload source failed while the auth writer copied the body")
	}
	if rtCalls > 0 && (p.RT == "errBefore" || p.RT == "errAfterBody") {
		why = append(why, "transport error")
	}
	if bodyReadErr != nil {
		why = append(why, "upload failed in the transport")
	}
	if p.CancelAt == "before" || (p.CancelAt == "upload" && rtCalls > 0) {
		why = append(why, "cancelled before the response")
	}
	if readerErr != nil {
		why = append(why, "reader could not read the response completely")
	}
	// debug mode dumps the response, body included unless it is announced as application/octet-stream: a failing
	// response body may then fail the call although the reader would not have met the failure
	dumpMayFail := p.Debug && body != nil && (p.RespEnd == "err" || p.CancelAt == "response")
	if body != nil && (p.RespCT == "unregistered" || p.RespCT == "malformed") {
		why = append(why, "response content type without a consumer")
		if readerRan {
			return kit.Failf("READER-RAN: the response carries the %s Content-Type %q for which no consumer is registered, yet the reader was called", p.RespCT, body.ctHeader)
		}
	}
	if len(why) > 0 && out.err == nil {
		return kit.Failf("FAULT-AS-SUCCESS: %s, yet Submit returned success %v", strings.Join(why, "; "), out.v)
	}
	if len(why) == 0 && readerRan && p.Reader == "readall" && out.err == nil && body != nil && readerGot != len(body.data) {
		return kit.Failf("TRUNCATED: the reader got %d of %d response bytes without an error", readerGot, len(body.data))
	}
	// a plan that goes through net/http's own transport is refused there for a scheme that is not http(s): an admissible
	// failure, and what was handed over is accounted for like after any other (r10)
	schemeRefused := p.Scheme != "" && out.err != nil && strings.Contains(out.err.Error(), "unsupported protocol scheme")
	if len(why) == 0 && out.err != nil && dl == 0 && !dumpMayFail && !schemeRefused {
		return kit.Failf("SPURIOUS-ERROR: no fault in the plan and no deadline, yet Submit failed: %v", out.err)
	}
	return nil
}

// failingWriter takes room bytes and fails from then on.
type failingWriter struct{ room int }

func (w *failingWriter) Write(p []byte) (int, error) {
	if len(p) <= w.room {
		w.room -= len(p)
		return len(p), nil
	}
	n := w.room
	w.room = 0
	return n, errors.New("destination full")
}

func maxInt(a, b int) int {
	if a > b {
		return a
	}
	return b
}

// Generator ------------------------------------------------------------------------------------------

func Gen(t *rapid.T) Plan {
	var p Plan
	p.Payload = rapid.SampledFrom([]string{"multipart", "multipart", "multipart", "none", "json", "reader", "readcloser", "form"}).Draw(t, "payload")
	p.NFiles = rapid.IntRange(0, 3).Draw(t, "nfiles")
	p.FileLen = rapid.SampledFrom([]int{0, 1, 5, 511, 512, 513, 2000, 70000}).Draw(t, "flen")
	p.Chunk = rapid.SampledFrom([]int{1, 7, 512, 4096, 100000}).Draw(t, "chunk")
	if p.FileLen > 5000 && p.Chunk < 512 {
		p.Chunk = 512
	}
	p.SrcFailAt = -1
	if rapid.IntRange(0, 2).Draw(t, "srcfail") == 0 {
		p.SrcFailAt = rapid.IntRange(0, p.FileLen).Draw(t, "failat")
		p.FailIdx = rapid.IntRange(0, 2).Draw(t, "failidx")
	}
	if p.SrcFailAt >= 0 {
		p.SrcErr = rapid.SampledFrom([]string{"", "", "unexpected-eof", "closed-pipe", "deadline"}).Draw(t, "srcerr")
	}
	if p.SrcFailAt >= 0 {
		p.SrcAfter = rapid.SampledFrom([]string{"", "", "eof", "resume"}).Draw(t, "src-after-its-error")
	}
	p.Method = rapid.SampledFrom([]string{"", "", "", "PUT", "GET", "DELETE", "OPTIONS", "HEAD"}).Draw(t, "method")
	p.Declared = rapid.Bool().Draw(t, "declared")
	p.ParamErr = rapid.SampledFrom([]string{"", "", "", "", "before", "after"}).Draw(t, "paramerr")
	p.Auth = rapid.SampledFrom([]string{"none", "ok", "err", "getbody", "getbody2"}).Draw(t, "auth")
	p.RT = rapid.SampledFrom([]string{"ok", "ok", "ok", "errBefore", "errAfterBody", "noread"}).Draw(t, "rt")
	p.RespLen = rapid.SampledFrom([]int{0, 1, 2, 3, 10, 20, 5000, 262144, 262145, 300000, 1 << 20}).Draw(t, "resplen")
	p.RespChunk = rapid.SampledFrom([]int{1, 3, 4096}).Draw(t, "respchunk")
	if p.RespLen > 5000 {
		p.RespChunk = 65536 // large bodies: what is left unread at Close is what matters, not the chunking
	}
	p.RespCT = rapid.SampledFrom([]string{"", "", "", "", "unregistered", "malformed", "absent"}).Draw(t, "respct")
	p.RespEnd = rapid.SampledFrom([]string{"eof", "eof", "eofwithdata", "err", "stall"}).Draw(t, "respend")
	p.Reader = rapid.SampledFrom([]string{"readall", "readall", "partial", "none", "sizes", "copyfail"}).Draw(t, "reader")
	if p.Reader == "sizes" {
		n := rapid.IntRange(1, 6).Draw(t, "nreads")
		for i := 0; i < n; i++ {
			p.ReadSizes = append(p.ReadSizes, rapid.SampledFrom([]int{0, 0, 1, 2, 3, 8, 6000}).Draw(t, "rsize"))
		}
	}
	p.Reuse = rapid.Bool().Draw(t, "reuse")
	p.RespClose = rapid.IntRange(0, 3).Draw(t, "connection-close") == 0
	p.ClientTimeout = rapid.IntRange(0, 3).Draw(t, "client-with-timeout") == 0
	p.TimeoutMs = rapid.SampledFrom([]int{0, 15, 40, 5000, -1}).Draw(t, "timeout")
	if p.TimeoutMs < 0 {
		p.DefaultMs = rapid.SampledFrom([]int{30, 5000}).Draw(t, "defaultms")
	} else if rapid.IntRange(0, 5).Draw(t, "eqdefault") == 0 && p.TimeoutMs > 0 {
		p.DefaultMs = p.TimeoutMs // an explicit timeout that happens to equal the default
	}
	p.CtxMs = rapid.SampledFrom([]int{0, 0, 25, 5000}).Draw(t, "ctx")
	p.CtxLevel = rapid.SampledFrom([]string{"operation", "operation", "runtime"}).Draw(t, "ctxlevel")
	if rapid.IntRange(0, 4).Draw(t, "cancel") == 0 {
		p.CancelAt = rapid.SampledFrom([]string{"before", "upload", "response"}).Draw(t, "cancelat")
		p.CancelOff = rapid.IntRange(0, p.RespLen).Draw(t, "canceloff")
	}
	p.URLErr = rapid.IntRange(0, 11).Draw(t, "urlerr") == 0
	p.SlowClose = p.Payload == "multipart" && rapid.IntRange(0, 5).Draw(t, "slow-close") == 0
	p.Debug = rapid.IntRange(0, 3).Draw(t, "debug") == 0
	p.BadHeader = rapid.IntRange(0, 9).Draw(t, "bad-header") == 0
	p.MissingProd = rapid.IntRange(0, 19).Draw(t, "missingprod") == 0
	// a stalling response needs a short deadline to end: that deadline is what the property is about
	if p.RespEnd == "stall" && (p.deadlineMs() == 0 || p.deadlineMs() > 100) {
		if p.TimeoutMs < 0 {
			p.DefaultMs = 30
		} else {
			p.TimeoutMs = rapid.SampledFrom([]int{15, 40}).Draw(t, "stalltimeout")
			if p.DefaultMs > 0 {
				p.DefaultMs = p.TimeoutMs
			}
		}
	}
	// drawn last, so that the plans of earlier harness versions stay what they were at a given seed
	p.Scheme = rapid.SampledFrom([]string{"", "", "", "", "", "ws", "wss", "HTTP", "https"}).Draw(t, "scheme")
	return p
}

// Enumerate sweeps payload kind x fault site x every offset of small payloads.
func Enumerate(yield func(Plan) bool) {
	base := Plan{Chunk: 2, SrcFailAt: -1, RT: "ok", RespLen: 3, RespChunk: 2, RespEnd: "eof", Reader: "readall", TimeoutMs: 5000, CtxLevel: "operation", Auth: "none"}
	for _, payload := range []string{"none", "json", "reader", "readcloser", "form", "multipart"} {
		for _, flen := range []int{0, 1, 5} {
			if flen > 0 && (payload == "none" || payload == "json" || payload == "form") {
				continue
			}
			for _, nfiles := range []int{0, 1, 2} {
				if payload != "multipart" && nfiles != 1 {
					continue
				}
				for fail := -1; fail <= flen; fail++ {
					for failIdx := 0; failIdx < maxInt(nfiles, 1); failIdx++ {
						if fail < 0 && failIdx > 0 {
							continue
						}
						for _, declared := range []bool{false, true} {
							if payload != "multipart" && declared {
								continue
							}
							for _, perr := range []string{"", "before", "after"} {
								for _, auth := range []string{"none", "err", "getbody", "getbody2"} {
									for _, rtm := range []string{"ok", "errBefore", "errAfterBody", "noread"} {
										for _, reuse := range []bool{false, true} {
											for _, urlerr := range []bool{false, true} {
												p := base
												p.Payload, p.FileLen, p.NFiles, p.SrcFailAt, p.FailIdx, p.Declared = payload, flen, nfiles, fail, failIdx, declared
												p.ParamErr, p.Auth, p.RT, p.Reuse, p.URLErr = perr, auth, rtm, reuse, urlerr
												if !yield(p) {
													return
												}
												if fail >= 0 && !urlerr && perr == "" {
													for _, se := range []string{"unexpected-eof", "closed-pipe"} {
														p.SrcErr = se
														if !yield(p) {
															return
														}
													}
												}
											}
										}
									}
								}
							}
						}
					}
				}
			}
		}
	}
	// response side: every ending x reader behaviour x reuse x every cancel offset
	for _, end := range []string{"eof", "eofwithdata", "err", "stall"} {
		for _, reader := range []string{"readall", "partial", "none", "sizes", "copyfail"} {
			for _, reuse := range []bool{false, true} {
				for _, rl := range []int{0, 1, 4} {
					for cancel := -1; cancel <= rl; cancel++ {
						for _, sizes := range [][]int{{0}, {0, 1}, {1, 0, 0}, {8}, {1, 1, 1, 1, 1, 1}} {
							if reader != "sizes" && len(sizes) != 1 {
								continue
							}
							p := base
							p.Payload = "json"
							p.RespEnd, p.Reader, p.Reuse, p.RespLen, p.ReadSizes = end, reader, reuse, rl, sizes
							if reader != "sizes" {
								p.ReadSizes = nil
							}
							if cancel >= 0 {
								p.CancelAt, p.CancelOff = "response", cancel
							}
							if end == "stall" {
								p.TimeoutMs = 15
							}
							if !yield(p) {
								return
							}
							if end == "stall" && cancel < 0 {
								// the caller set no timeout (or one equal to the default) and a later context deadline
								q := p
								q.TimeoutMs, q.DefaultMs, q.CtxMs = -1, 25, 5000
								if !yield(q) {
									return
								}
								q.TimeoutMs, q.DefaultMs = 25, 25
								if !yield(q) {
									return
								}
							}
						}
					}
				}
			}
		}
	}
}

func Classify(p Plan) (bool, []string) {
	labels := []string{"payload " + p.Payload, "rt " + p.RT, "resp " + p.RespEnd, "reader " + p.Reader}
	nt := false
	add := func(cond bool, l string) {
		if cond {
			labels = append(labels, l)
			nt = true
		}
	}
	add(p.sourceFails(), "upload source fails")
	add(p.sourceFails() && p.SrcFailAt < 512 && !p.Declared && p.Payload == "multipart", "source fails inside the sniffing window")
	add(p.ParamErr != "", "param error "+p.ParamErr)
	add(p.Auth == "err", "auth error")
	add((p.Auth == "getbody" || p.Auth == "getbody2") && p.streaming(), "GetBody on a streaming body")
	add(p.RT != "ok", "transport fault")
	add(p.RespEnd == "err" || p.RespEnd == "stall", "response fault")
	add(p.CancelAt != "", "cancel "+p.CancelAt)
	add(p.URLErr, "url error")
	add(p.RespCT == "unregistered" || p.RespCT == "malformed", "response content type "+p.RespCT)
	add(p.RespLen > 262144 && p.Reuse && p.Reader != "readall", "reuse with more than 256 KiB unread")
	add(p.sourceFails() && p.SrcErr != "", "source fails with "+p.SrcErr)
	add(p.TimeoutMs < 0, "default request timeout")
	add(p.TimeoutMs > 0 && p.DefaultMs == p.TimeoutMs, "explicit timeout equal to the default")
	add(p.deadlineMs() > 0 && p.CtxMs > p.deadlineMs(), "context deadline later than the request timeout")
	add(p.MissingProd, "missing producer")
	add(p.BadHeader, "header value that cannot be sent")
	add(p.SlowClose && p.NFiles > 0, "upload sources that take time to close")
	add(p.Scheme != "" && p.Scheme != "https", "a transport scheme other than http/https")
	add(p.BadHeader && p.Debug && p.streaming(), "debug mode, streamed payload, request that cannot be dumped")
	if p.Debug {
		labels = append(labels, "debug mode")
	}
	add(p.sourceFails() && p.SrcAfter != "", "failing source reports its error once, then "+p.SrcAfter)
	add(p.sourceFails() && p.SrcAfter != "" && p.Auth == "getbody2", "source that fails once under an auth writer that asks for the body twice")
	add(p.URLErr && p.Payload == "multipart" && p.NFiles > 0, "url error with files handed over")
	if p.Method != "" {
		labels = append(labels, "method "+p.Method)
		add(p.streaming() && (p.Method == "GET" || p.Method == "HEAD" || p.Method == "OPTIONS"), "streamed payload under "+p.Method)
	}
	add(p.deadlineMs() > 0 && p.deadlineMs() < 100 && p.RespEnd == "stall", "deadline shorter than completion")
	add(p.Reuse && (p.Reader == "partial" || p.Reader == "none" || p.Reader == "sizes" || p.Reader == "copyfail"), "reuse with unread body")
	add(p.Reader == "copyfail", "reader copies the body to a failing destination")
	add(p.RespClose && p.Reuse, "reuse and a response that announces Connection: close")
	add(p.ClientTimeout, "operation client with a Timeout of its own")
	add(p.ClientTimeout && p.RespEnd == "stall", "operation client with a long Timeout, request timeout shorter, stalling response")
	if p.Reader == "sizes" {
		for _, n := range p.ReadSizes {
			if n == 0 {
				add(true, "zero-length read on the body")
				break
			}
		}
	}
	if p.Payload == "multipart" {
		labels = append(labels, fmt.Sprintf("files %d", p.NFiles))
	}
	sort.Strings(labels)
	return nt, labels
}

const rule = "fault plans: payload kind x upload sources (length, chunking, failure at a byte offset, declared or sniffed type) (reporting its error again, or once and then EOF or the rest of the bytes) x operation method (POST PUT GET DELETE OPTIONS HEAD) x parameter-writer error before/after files were handed over x auth writer none/ok/error/GetBody x1,x2 " +
	"x URL error x missing producer x transport behaviour (error before/after consuming the request body, responding without reading it) x response length and ending (EOF, data+EOF, error, stall until the request context ends) " +
	"x reader behaviour (read all, partial, nothing, a sequence of read sizes incl. 0) x connection reuse x request timeout and caller context deadline (operation or runtime level) x caller cancellation before/while uploading/at a response offset; " +
	"executed through Runtime.Submit over a scripted RoundTripper; oracle = accounting invariants: returned by the effective deadline, error whenever a fault was observable, every file closed, response body closed and (with reuse) read to its end before Close, no goroutine with a client frame left; " +
	"non-trivial = the plan contains at least one fault, a cancellation or a deadline shorter than the natural completion; distinct by hash of the plan"

func Props() []kit.Runner {
	return []kit.Runner{
		kit.Prop[Plan]{ID: "C12", Name: "plans", Rule: rule, Quick: 2500, Thorough: 6000, Gen: Gen, Check: Check, Classify: Classify, Enumerate: Enumerate},
		tcpProp(),
		reuseProp(),
	}
}
