module verif/harness

go 1.23

require (
	github.com/go-openapi/errors v0.22.1
	github.com/go-openapi/loads v0.22.0
	github.com/go-openapi/runtime v0.0.0
	github.com/go-openapi/spec v0.21.0
	github.com/go-openapi/strfmt v0.23.0
	github.com/go-openapi/swag v0.23.1
	gopkg.in/yaml.v3 v3.0.1
	pgregory.net/rapid v1.3.0
)

replace github.com/go-openapi/runtime => /repo
