package c05

import (
	"testing"

	"verif/harness/kit"
)

func TestVerif(t *testing.T) { kit.Main(t, Props()...) }

// FuzzLookup is the native coverage-guided target of the thorough tier: raw path bytes against a fixed
// catalogue of pattern sets, with the same oracle inside the target.
func FuzzLookup(f *testing.F) {
	for i := range Catalogue {
		for _, p := range seedPaths(Catalogue[i]) {
			f.Add(byte(i), p)
		}
	}
	f.Fuzz(func(t *testing.T, idx byte, path string) {
		c := Case{Pats: Catalogue[int(idx)%len(Catalogue)], Paths: []kit.BStr{kit.BStr(path)}}
		if v := Check(c); v != nil {
			p := kit.WriteReplay("C05", "lookup", "fuzz", c, v.Msg)
			t.Fatalf("VIOLATION property=C05 replay=%s\n%s", p, v.Msg)
		}
	})
}
