// Package c05 decides property C05 (trie router core) by differential testing of denco.Router and the
// denco.Mux handler against a naive pattern matcher written from the property statement.
package c05

import (
	"fmt"
	"net/http"
	"net/http/httptest"
	"net/url"
	"reflect"
	"sort"
	"strings"

	"github.com/go-openapi/runtime/middleware/denco"
	"pgregory.net/rapid"

	"verif/harness/kit"
)

// Seg is one pattern segment: K is "l" (literal), ":" (single parameter), "*" (final wildcard) or
// "=" (RESTCONF literal=:name).
type Seg struct {
	K    string `json:"k"`
	Lit  string `json:"lit,omitempty"`
	Name string `json:"name,omitempty"`
}

type Pat []Seg

func (p Pat) Key() string {
	var b strings.Builder
	for _, s := range p {
		b.WriteByte('/')
		switch s.K {
		case "l":
			b.WriteString(s.Lit)
		case ":":
			b.WriteString(":" + s.Name)
		case "*":
			b.WriteString("*" + s.Name)
		case "=":
			b.WriteString(s.Lit + "=:" + s.Name)
		}
	}
	return b.String()
}

// norm is the pattern up to parameter names.
func (p Pat) norm() string {
	var b strings.Builder
	for _, s := range p {
		b.WriteByte('/')
		switch s.K {
		case "l":
			b.WriteString(s.Lit)
		case "=":
			b.WriteString(s.Lit + "=:")
		default:
			b.WriteString(s.K)
		}
	}
	return b.String()
}

func (p Pat) names() []string {
	var n []string
	for _, s := range p {
		if s.K != "l" {
			n = append(n, s.Name)
		}
	}
	return n
}

func (p Pat) static() bool { return len(p.names()) == 0 }

type Case struct {
	Pats  []Pat      `json:"pats"`
	Paths []kit.BStr `json:"paths"`
	Perms [][]int    `json:"perms,omitempty"` // alternative insertion orders
	Large bool       `json:"large,omitempty"` // large table: a capacity error of Build is not a violation
	// SizeHint presets the router's exported SizeHint field before Build (0 = leave the default -1, n>0 = preset n-1):
	// it is documented as a capacity hint, so it must not change any answer.
	SizeHint int `json:"size_hint,omitempty"`
	// NilPat-1 is the index of a pattern that is registered with the untyped nil as its value (0: none): a record's
	// value is the caller's business, a match on it reports (nil, params, true).
	NilPat int `json:"nil_pat,omitempty"`
}

// valueOf is the value pattern i is registered with.
func valueOf(i, nilPat int) interface{} {
	if i == nilPat-1 {
		return nil
	}
	return i
}

// match is the naive matcher: does path instantiate p, and with which texts (empty texts allowed)?
func match(p Pat, path string) ([]string, bool) {
	if !strings.HasPrefix(path, "/") {
		return nil, false
	}
	segs := strings.Split(path[1:], "/")
	var vals []string
	for i, s := range p {
		if s.K == "*" {
			if i >= len(segs) {
				return nil, false
			}
			return append(vals, strings.Join(segs[i:], "/")), true
		}
		if i >= len(segs) {
			return nil, false
		}
		switch s.K {
		case "l":
			if segs[i] != s.Lit {
				return nil, false
			}
		case ":":
			vals = append(vals, segs[i])
		case "=":
			if !strings.HasPrefix(segs[i], s.Lit+"=") {
				return nil, false
			}
			vals = append(vals, segs[i][len(s.Lit)+1:])
		}
	}
	if len(segs) != len(p) {
		return nil, false
	}
	return vals, true
}

func nonEmpty(vals []string) bool {
	for _, v := range vals {
		if v == "" {
			return false
		}
	}
	return true
}

func rank(k string) int {
	switch k {
	case "l":
		return 0
	case "=":
		return 1
	case ":":
		return 2
	}
	return 3
}

// prefer reports whether pattern a is preferred to pattern b when both fit the same path: at the first
// segment where they differ, literal (incl. a RESTCONF literal prefix) beats ':' beats '*'.
// ok is false when the statement does not order them.
func prefer(a, b Pat) (aWins, ok bool) {
	for x := 0; x < len(a) && x < len(b); x++ {
		if rank(a[x].K) != rank(b[x].K) {
			return rank(a[x].K) < rank(b[x].K), true
		}
		if (a[x].K == "=" || a[x].K == "l") && a[x].Lit != b[x].Lit {
			return false, false
		}
	}
	return false, false
}

type answer struct {
	Found  bool
	Data   int
	Params denco.Params
}

// String renders the answer with quoted parameter texts (paths are arbitrary bytes).
func (a answer) String() string {
	if !a.Found {
		return "not found"
	}
	var ps []string
	for _, p := range a.Params {
		ps = append(ps, fmt.Sprintf("%s=%q", p.Name, p.Value))
	}
	return fmt.Sprintf("pattern #%d [%s]", a.Data, strings.Join(ps, " "))
}

func lookup(r *denco.Router, path string, nilPat int) (a answer, v *kit.Violation) {
	v = kit.Guard("Router.Lookup", func() {
		data, params, found := r.Lookup(path)
		a.Found = found
		a.Params = params
		if found {
			if data == nil && nilPat > 0 {
				a.Data = nilPat - 1
			} else {
				a.Data = data.(int)
			}
		}
	})
	return a, v
}

func build(pats []Pat, order []int, sizeHint, nilPat int) (*denco.Router, error, *kit.Violation) {
	recs := make([]denco.Record, 0, len(pats))
	if order == nil {
		for i, p := range pats {
			recs = append(recs, denco.NewRecord(p.Key(), valueOf(i, nilPat)))
		}
	} else {
		for _, i := range order {
			recs = append(recs, denco.NewRecord(pats[i].Key(), valueOf(i, nilPat)))
		}
	}
	before := append([]denco.Record(nil), recs...)
	r := denco.New()
	if sizeHint > 0 {
		r.SizeHint = sizeHint - 1
	}
	var err error
	v := kit.Guard("Router.Build", func() { err = r.Build(recs) })
	if v == nil && err == nil {
		// the records belong to the caller: Build must leave them as they were (an application builds one router per
		// method, or rebuilds after a change, from the same slice)
		for i := range recs {
			if recs[i].Key != before[i].Key || recs[i].Value != before[i].Value {
				return r, nil, kit.Failf("RECORDS-MODIFIED: Build changed the caller's record %d from %q to %q", i, before[i].Key, recs[i].Key)
			}
		}
	}
	return r, err, v
}

// rebuild builds a second router from the very slice a first Build has already seen.
func rebuild(pats []Pat, nilPat int) (*denco.Router, error, *kit.Violation) {
	recs := make([]denco.Record, 0, len(pats))
	for i, p := range pats {
		recs = append(recs, denco.NewRecord(p.Key(), valueOf(i, nilPat)))
	}
	var r2 *denco.Router
	var err error
	v := kit.Guard("Router.Build twice from one slice", func() {
		if err = denco.New().Build(recs); err != nil {
			return
		}
		r2 = denco.New()
		err = r2.Build(recs)
	})
	return r2, err, v
}

func keys(pats []Pat) []string {
	k := make([]string, 0, len(pats))
	for _, p := range pats {
		k = append(k, p.Key())
	}
	if len(k) > 40 {
		return append(k[:40:40], fmt.Sprintf("…(%d more)", len(pats)-40))
	}
	return k
}

// Check compares the router with the naive matcher on every path of the case.
func Check(c Case) *kit.Violation {
	r, err, v := build(c.Pats, nil, c.SizeHint, c.NilPat)
	if v != nil {
		return v
	}
	if err != nil {
		if c.Large && strings.Contains(err.Error(), "too many") {
			return nil // the set was not accepted: outside the quantifier
		}
		return kit.Failf("BUILD rejected a valid pattern set %q: %v", keys(c.Pats), err)
	}
	type other struct {
		r     *denco.Router
		label string
	}
	var others []other
	for _, perm := range c.Perms {
		if len(perm) != len(c.Pats) {
			continue
		}
		o, err, v := build(c.Pats, perm, 0, c.NilPat)
		if v != nil {
			return v
		}
		if err != nil {
			if c.Large && strings.Contains(err.Error(), "too many") {
				continue
			}
			return kit.Failf("BUILD accepted the set in one order and rejected it in order %v: %q: %v", perm, keys(c.Pats), err)
		}
		others = append(others, other{o, fmt.Sprintf("insertion order %v", perm)})
	}
	if rb, err, v := rebuild(c.Pats, c.NilPat); v != nil {
		return v
	} else if err == nil && rb != nil {
		others = append(others, other{rb, "a second Build from the slice a first Build was given"})
	}
	var mux http.Handler
	var muxHit *answer
	var postPats []Pat
	if !c.Large {
		var hs []denco.Handler
		m := denco.NewMux()
		for i, p := range c.Pats {
			i := i
			hs = append(hs, m.GET(p.Key(), func(_ http.ResponseWriter, _ *http.Request, ps denco.Params) {
				muxHit = &answer{Found: true, Data: i, Params: ps}
			}))
		}
		// every second pattern is also registered under POST, nothing under HEAD: which handler runs is decided per
		// method, a method never borrows the patterns of another one (r6)
		for i, p := range c.Pats {
			if i%2 == 1 {
				j := len(postPats)
				postPats = append(postPats, p)
				hs = append(hs, m.POST(p.Key(), func(_ http.ResponseWriter, _ *http.Request, ps denco.Params) {
					muxHit = &answer{Found: true, Data: j, Params: ps}
				}))
			}
		}
		var err error
		if v := kit.Guard("Mux.Build", func() { mux, err = m.Build(hs) }); v != nil {
			return v
		}
		if err != nil {
			return kit.Failf("Mux.Build rejected %q: %v", keys(c.Pats), err)
		}
	}

	type keptAnswer struct {
		path string
		live denco.Params // the slice Lookup returned: the caller's from then on
		snap denco.Params
	}
	var kept []keptAnswer
	for _, bp := range c.Paths {
		path := string(bp)
		got, v := lookup(r, path, c.NilPat)
		if v != nil {
			return kit.Failf("pats=%q path=%q: %s", keys(c.Pats), path, v.Msg)
		}
		if got.Found && len(got.Params) > 0 {
			kept = append(kept, keptAnswer{path, got.Params, append(denco.Params(nil), got.Params...)})
		}
		if v := judge(c.Pats, path, got); v != nil {
			return v
		}
		for _, o := range others {
			og, v := lookup(o.r, path, c.NilPat)
			if v != nil {
				return kit.Failf("pats=%q %s path=%q: %s", keys(c.Pats), o.label, path, v.Msg)
			}
			if !sameAnswer(got, og) {
				return kit.Failf("BUILD-DEPENDENT pats=%q path=%q: given order -> %v, %s -> %v", keys(c.Pats), path, got, o.label, og)
			}
		}
		if mux != nil {
			muxHit = nil
			rec := httptest.NewRecorder()
			req := &http.Request{Method: http.MethodGet, URL: &url.URL{Path: path}, Header: http.Header{}}
			if v := kit.Guard("Mux handler", func() { mux.ServeHTTP(rec, req) }); v != nil {
				return kit.Failf("pats=%q path=%q: %s", keys(c.Pats), path, v.Msg)
			}
			var mg answer
			if muxHit != nil {
				mg = *muxHit
			} else if rec.Code != http.StatusNotFound {
				return kit.Failf("MUX pats=%q path=%q: no handler ran and the status is %d", keys(c.Pats), path, rec.Code)
			}
			if !sameAnswer(got, mg) {
				return kit.Failf("MUX-DIFFERS pats=%q path=%q: Router -> %v, Mux handler -> %v", keys(c.Pats), path, got, mg)
			}
			for _, method := range []string{http.MethodHead, http.MethodPost} {
				muxHit = nil
				rec := httptest.NewRecorder()
				req := &http.Request{Method: method, URL: &url.URL{Path: path}, Header: http.Header{}}
				if v := kit.Guard("Mux handler", func() { mux.ServeHTTP(rec, req) }); v != nil {
					return kit.Failf("pats=%q %s path=%q: %s", keys(c.Pats), method, path, v.Msg)
				}
				var mg answer
				if muxHit != nil {
					mg = *muxHit
				} else if rec.Code != http.StatusNotFound {
					return kit.Failf("MUX pats=%q %s path=%q: no handler ran and the status is %d", keys(c.Pats), method, path, rec.Code)
				}
				if method == http.MethodHead {
					if mg.Found {
						return kit.Failf("MUX-METHOD pats=%q (all under GET, %q also under POST, none under HEAD): HEAD %q ran the handler %v", keys(c.Pats), keys(postPats), path, mg)
					}
					continue
				}
				if v := judge(postPats, path, mg); v != nil {
					return kit.Failf("MUX-METHOD (POST request, judged against the patterns registered under POST only) %s", v.Msg)
				}
			}
		}
	}
	// parameters a lookup handed out belong to the caller: later lookups on the same router must not change them
	for _, k := range kept {
		if !reflect.DeepEqual(k.live, k.snap) {
			return kit.Failf("PARAMS-OVERWRITTEN pats=%q: the parameters returned for path %q were %v; after later lookups on the same router the same slice reads %v", keys(c.Pats), k.path, k.snap, k.live)
		}
	}
	return nil
}

func sameAnswer(a, b answer) bool {
	if a.Found != b.Found {
		return false
	}
	if !a.Found {
		return true
	}
	if a.Data != b.Data || len(a.Params) != len(b.Params) {
		return false
	}
	return len(a.Params) == 0 || reflect.DeepEqual(a.Params, b.Params)
}

// judge applies soundness, completeness, preference and the static clause to one answer.
func judge(pats []Pat, path string, got answer) *kit.Violation {
	type fit struct {
		i    int
		vals []string
	}
	var fits []fit // patterns instantiated with non-empty texts
	for i, p := range pats {
		if vals, ok := match(p, path); ok && nonEmpty(vals) {
			fits = append(fits, fit{i, vals})
		}
	}
	if !got.Found {
		if len(fits) > 0 {
			return kit.Failf("INCOMPLETE pats=%q path=%q: not found, but %q is instantiated with %q", keys(pats), path, pats[fits[0].i].Key(), fits[0].vals)
		}
		return nil
	}
	if got.Data < 0 || got.Data >= len(pats) {
		return kit.Failf("UNSOUND pats=%q path=%q: value %d was never registered", keys(pats), path, got.Data)
	}
	p := pats[got.Data]
	vals, ok := match(p, path)
	if !ok {
		return kit.Failf("UNSOUND pats=%q path=%q -> %q %v, which the path does not instantiate", keys(pats), path, p.Key(), got)
	}
	names := p.names()
	if len(got.Params) != len(vals) {
		return kit.Failf("PARAMCOUNT pats=%q path=%q -> %q params %v, want texts %q", keys(pats), path, p.Key(), got, vals)
	}
	for i := range vals {
		if got.Params[i].Value != vals[i] || got.Params[i].Name != names[i] {
			return kit.Failf("PARAMS pats=%q path=%q -> %q params %v, want %v=%q", keys(pats), path, p.Key(), got, names, vals)
		}
	}
	// a path equal to a parameter-free pattern returns that pattern's value
	for i, q := range pats {
		if q.static() && q.Key() == path && got.Data != i {
			return kit.Failf("STATIC pats=%q path=%q -> %q, want the parameter-free pattern itself", keys(pats), path, p.Key())
		}
	}
	// preference, judged among patterns instantiated with non-empty texts
	if nonEmpty(vals) {
		for _, f := range fits {
			if f.i == got.Data {
				continue
			}
			if wins, ok := prefer(pats[f.i], p); ok && wins {
				return kit.Failf("PREFERENCE pats=%q path=%q -> %q, but %q fits too and is preferred", keys(pats), path, p.Key(), pats[f.i].Key())
			}
		}
	}
	return nil
}

// Generators ---------------------------------------------------------------------------------------

var reserved = []byte{':', '*', '#', '=', '/'}

func genValue(t *rapid.T, label string) string {
	n := rapid.IntRange(0, 4).Draw(t, label+"len")
	var b []byte
	for i := 0; i < n; i++ {
		switch rapid.IntRange(0, 9).Draw(t, label+"cls") {
		case 0, 1, 2, 3, 4:
			b = append(b, rapid.SampledFrom([]byte("ab.")).Draw(t, label+"c"))
		case 5, 6, 7:
			b = append(b, rapid.SampledFrom(reserved).Draw(t, label+"r"))
		default:
			b = append(b, rapid.Byte().Draw(t, label+"b"))
		}
	}
	return string(b)
}

// literals of patterns are byte strings too: the trie is built bytewise, so non-ASCII literals are ordinary patterns
// (only the router's own reserved bytes and '/' are excluded from literals). Valid UTF-8 only, so that a case
// survives JSON; looked-up paths carry arbitrary bytes anyway.
var exoticLits = []string{"é", "caf\u00e9", "日本", "ｃ", "ü.", "\u00ff", "\u00fd", "C", "c", "menú", "crêpes", "£", "À"} // the last four hold the bytes 0xBA 0xAA 0xA3 0x80 (r9)

// long literals: a parameter-free pattern of 62-68, 128/129 and 256/257 bytes (any per-length shortcut in front of the
// static table has its edge at a power of two) (r10)
func init() {
	for _, n := range []int{61, 62, 63, 64, 65, 66, 67, 127, 128, 255, 256} {
		exoticLits = append(exoticLits, strings.Repeat("k", n))
	}
}

func genLit(t *rapid.T, vocab []string) string {
	if rapid.IntRange(0, 7).Draw(t, "exotic") == 0 {
		return rapid.SampledFrom(exoticLits).Draw(t, "xlit")
	}
	if len(vocab) > 0 {
		return rapid.SampledFrom(vocab).Draw(t, "lit")
	}
	return rapid.StringMatching(`[ab.]{1,2}`).Draw(t, "lit")
}

func genPat(t *rapid.T, vocab []string, maxSeg int) Pat {
	n := rapid.IntRange(1, maxSeg).Draw(t, "nseg")
	var p Pat
	np := 0
	for j := 0; j < n; j++ {
		k := rapid.SampledFrom([]string{"l", "l", "l", ":", ":", "*", "="}).Draw(t, "kind")
		if k == "*" && j != n-1 {
			k = ":"
		}
		s := Seg{K: k}
		if k == "l" || k == "=" {
			s.Lit = genLit(t, vocab)
		}
		if k != "l" {
			s.Name = fmt.Sprintf("p%d", np)
			np++
		}
		if k == "*" {
			// everything after the '*' is the wildcard's name, separators included ("/files/*rest/of/path") (r7)
			s.Name += rapid.SampledFrom([]string{"", "", "", "/of/path", "/", "/:x"}).Draw(t, "wildcard-name-tail")
		}
		p = append(p, s)
	}
	return p
}

func genSet(t *rapid.T, want int, vocab []string, maxSeg int) []Pat {
	seen := map[string]bool{}
	var pats []Pat
	for i := 0; i < want; i++ {
		p := genPat(t, vocab, maxSeg)
		// a parameter-free pattern may carry ':' or '*' in the middle of a segment ("/books:search", "/a*b"): Build
		// accepts it as a static route (only "/:", "/*" and "=:" make a placeholder)
		if p.static() && rapid.IntRange(0, 3).Draw(t, "midreserved") == 0 {
			j := rapid.IntRange(0, len(p)-1).Draw(t, "midseg")
			p[j].Lit = p[j].Lit + rapid.SampledFrom([]string{":", "*", ":x", "*x", ":search"}).Draw(t, "midch")
		}
		if seen[p.norm()] {
			continue
		}
		seen[p.norm()] = true
		pats = append(pats, p)
	}
	return pats
}

func instantiate(t *rapid.T, p Pat) []string {
	var segs []string
	for _, s := range p {
		switch s.K {
		case "l":
			segs = append(segs, s.Lit)
		case ":":
			segs = append(segs, genValue(t, "v"))
		case "=":
			segs = append(segs, s.Lit+"="+genValue(t, "v"))
		case "*":
			segs = append(segs, genValue(t, "v"))
			for rapid.IntRange(0, 2).Draw(t, "more") == 0 {
				segs = append(segs, genValue(t, "v"))
			}
		}
	}
	return segs
}

func genPath(t *rapid.T, pats []Pat, vocab []string) string {
	mode := rapid.IntRange(0, 9).Draw(t, "pathmode")
	if mode == 9 || len(pats) == 0 {
		// free byte string
		n := rapid.IntRange(0, 5).Draw(t, "nfree")
		s := ""
		for i := 0; i < n; i++ {
			s += rapid.SampledFrom([]string{"/", "/", ""}).Draw(t, "sl") + genValue(t, "f")
		}
		return s
	}
	p := pats[rapid.IntRange(0, len(pats)-1).Draw(t, "pi")]
	segs := instantiate(t, p)
	if mode >= 6 {
		// mutate the instantiation
		switch rapid.IntRange(0, 6).Draw(t, "mut") {
		case 0:
			if len(segs) > 1 {
				i := rapid.IntRange(0, len(segs)-1).Draw(t, "drop")
				segs = append(segs[:i:i], segs[i+1:]...)
			}
		case 1:
			i := rapid.IntRange(0, len(segs)-1).Draw(t, "dup")
			segs = append(segs[:i+1:i+1], segs[i:]...)
		case 2:
			segs = append(segs, "")
		case 3:
			i := rapid.IntRange(0, len(segs)-1).Draw(t, "repl")
			segs[i] = genLit(t, vocab)
		case 4:
			i := rapid.IntRange(0, len(segs)-1).Draw(t, "app")
			segs[i] += string(rapid.SampledFrom(reserved).Draw(t, "appc"))
		case 5:
			segs = append(segs, genLit(t, vocab))
		case 6:
			i := rapid.IntRange(0, len(segs)-1).Draw(t, "pre")
			segs[i] = string(rapid.SampledFrom(reserved).Draw(t, "prec")) + segs[i]
		}
	}
	return "/" + strings.Join(segs, "/")
}

func genPerms(t *rapid.T, n, k int) [][]int {
	if n < 2 {
		return nil
	}
	base := make([]int, n)
	for i := range base {
		base[i] = i
	}
	var perms [][]int
	for i := 0; i < k; i++ {
		perms = append(perms, rapid.Permutation(base).Draw(t, "perm"))
	}
	return perms
}

// GenSmall draws a small pattern set over a tiny alphabet (many collisions) and a few lookup paths.
func GenSmall(t *rapid.T) Case {
	pats := genSet(t, rapid.IntRange(1, 12).Draw(t, "npat"), nil, 4)
	if rapid.IntRange(0, 5).Draw(t, "root-pattern") == 0 {
		root, dup := Pat{{K: "l", Lit: ""}}, false // the pattern "/"
		for _, p := range pats {
			dup = dup || p.norm() == root.norm()
		}
		if !dup {
			pats = append(pats, root)
		}
	}
	var ladderPath string
	if rapid.IntRange(0, 7).Draw(t, "ladder") == 0 {
		// a ladder: a catch-all at the root and a parameter at every step of one literal chain; a path that walks the whole
		// chain and then leaves it is matched by the catch-all alone, after every deeper candidate has failed (r9)
		depth := rapid.IntRange(4, 8).Draw(t, "ladder-depth")
		chain := []string{"api", "v1", "users", "me", "cfg", "ui", "x", "y"}[:depth]
		pats = []Pat{{{K: "*", Name: "catchall"}}}
		for d := 1; d <= depth; d++ {
			var p Pat
			for _, l := range chain[:d] {
				p = append(p, Seg{K: "l", Lit: l})
			}
			pats = append(pats, append(p, Seg{K: ":", Name: fmt.Sprintf("p%d", d)}))
		}
		ladderPath = "/" + strings.Join(chain, "/") + "/theme/dark"
	}
	c := Case{Pats: pats}
	if ladderPath != "" {
		c.Paths = append(c.Paths, kit.BStr(ladderPath))
	}
	np := rapid.IntRange(1, 4).Draw(t, "npaths")
	for i := 0; i < np; i++ {
		c.Paths = append(c.Paths, kit.BStr(genPath(t, pats, nil)))
	}
	c.Perms = genPerms(t, len(pats), 3)
	c.SizeHint = rapid.SampledFrom([]int{0, 0, 0, 1, 2, 4, 9}).Draw(t, "sizehint")
	if rapid.IntRange(0, 3).Draw(t, "nil-value") == 0 {
		c.NilPat = 1 + rapid.IntRange(0, len(pats)-1).Draw(t, "nil-pattern")
		// aim one lookup at that very pattern
		c.Paths = append(c.Paths, kit.BStr(genPath(t, pats[c.NilPat-1:c.NilPat], nil)))
	}
	if rapid.IntRange(0, 5).Draw(t, "empty-path") == 0 {
		c.Paths = append(c.Paths, kit.BStr("")) // not even a '/': instantiates nothing
	}
	return c
}

var largeVocab = []string{"a", "ab", "abc", "abd", "api", "apis", "v1", "v2", "v10", "user", "users", "u", "b", "ba",
	"item", "items", "x.y", "x.z", "x", "-", "_", "~", "0", "00", "01", "pets", "pet", "p", "z", "zz", "a.b", "a.", ".a", "long-literal-segment",
	"long-literal-segment-2", "long-literal"}

// GenLarge draws a large table with shared prefixes and a batch of lookup paths.
func GenLarge(t *rapid.T) Case {
	max := 300
	if kit.Tier() == "thorough" {
		max = 5000
	}
	// a skewed size: mostly hundreds, sometimes thousands
	want := rapid.IntRange(50, max).Draw(t, "npat")
	pats := genSet(t, want, largeVocab, 5)
	if rapid.IntRange(0, 5).Draw(t, "long-prefix-family") == 0 {
		// many parameterised routes under long, pairwise different first segments: the trie grows beyond 65535 cells (r9)
		n := rapid.SampledFrom([]int{3000, 4000}).Draw(t, "family-size")
		seen := map[string]bool{}
		for _, p := range pats {
			seen[p.norm()] = true
		}
		for i := 0; i < n; i++ {
			lit := fmt.Sprintf("r%05d-%s", i, strings.Repeat(string(rune('a'+i%26)), 18))
			p := Pat{{K: "l", Lit: lit}, {K: ":", Name: "id"}}
			if !seen[p.norm()] {
				seen[p.norm()] = true
				pats = append(pats, p)
			}
		}
	}
	c := Case{Pats: pats, Large: true}
	np := rapid.IntRange(10, 40).Draw(t, "npaths")
	for i := 0; i < np; i++ {
		c.Paths = append(c.Paths, kit.BStr(genPath(t, pats, largeVocab)))
	}
	c.Perms = genPerms(t, len(pats), 1)
	return c
}

// Classify implements the non-trivial rule of DESIGN.md C05: some path contains a reserved byte, or at least
// two patterns fit it, or the set has static and parameterised siblings.
func Classify(c Case) (bool, []string) {
	labels := map[string]bool{}
	nt := false
	siblings := false
	first := map[string]int{} // first segment kind classes per parent prefix
	for _, p := range c.Pats {
		prefix := ""
		for _, s := range p {
			if s.K == "*" && strings.Contains(s.Name, "/") {
				labels["wildcard whose name contains a separator"] = true
			}
			key := prefix
			bit := 1
			if s.K != "l" {
				bit = 2
			}
			first[key] |= bit
			prefix += "/" + s.K + s.Lit
		}
	}
	for _, v := range first {
		if v == 3 {
			siblings = true
		}
	}
	if siblings {
		labels["static+param siblings"] = true
	}
	for _, bp := range c.Paths {
		path := string(bp)
		if strings.ContainsAny(path, ":*#=") {
			labels["reserved byte in path"] = true
			nt = true
		}
		fits, fitsNE := 0, 0
		for _, p := range c.Pats {
			if vals, ok := match(p, path); ok {
				fits++
				if nonEmpty(vals) {
					fitsNE++
				}
			}
		}
		switch {
		case fitsNE >= 2:
			labels["≥2 patterns fit"] = true
			nt = true
		case fitsNE == 1:
			labels["1 pattern fits"] = true
			if siblings {
				nt = true
			}
		case fits > 0:
			labels["fits only with an empty text"] = true
		default:
			labels["no pattern fits"] = true
		}
		for i := 0; i < len(path); i++ {
			if path[i] >= 0x80 || path[i] < 0x20 {
				labels["non-ASCII/control byte"] = true
				break
			}
		}
	}
	if c.Large {
		switch {
		case len(c.Pats) >= 1000:
			labels["table ≥1000"] = true
		case len(c.Pats) >= 200:
			labels["table 200-999"] = true
		default:
			labels["table <200"] = true
		}
	}
	var out []string
	for l := range labels {
		out = append(out, l)
	}
	sort.Strings(out)
	return nt, out
}

const rule = "pattern sets over literal/:name/final *name/RESTCONF lit=:name segments (names unique per pattern, no two patterns equal up to names) " +
	"x lookup paths that are instantiations with arbitrary byte values (weighted to ': * # = /'), mutations of instantiations, or free byte strings; " +
	"oracle = naive segment matcher (soundness, completeness for non-empty texts, static clause, literal<':'<'*' preference), identical answers for permuted insertion orders and through Mux.Build (all patterns under GET, every second one also under POST and judged against those alone, none under HEAD: a HEAD request runs nothing); " +
	"non-trivial = some path contains a reserved byte, or >=2 patterns fit it with non-empty texts, or one fits and the set has static/parameterised siblings; distinct by hash of the whole case"

// Props lists the generated checks of C05.
func Props() []kit.Runner {
	return []kit.Runner{
		kit.Prop[Case]{ID: "C05", Name: "lookup", Rule: rule, Quick: 60000, Thorough: 1500000,
			Gen: GenSmall, Check: Check, Classify: Classify},
		kit.Prop[Case]{ID: "C05", Name: "large", Rule: rule + "; large tables of 50-300 (quick) / 50-5000 (thorough) patterns with shared prefixes, 10-40 paths each", Quick: 60, Thorough: 400,
			Gen: GenLarge, Check: Check, Classify: Classify, SampleLimit: 600},
	}
}
