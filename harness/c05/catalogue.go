package c05

import "strings"

func parsePat(key string) Pat {
	var p Pat
	for _, s := range strings.Split(key[1:], "/") {
		switch {
		case strings.HasPrefix(s, ":"):
			p = append(p, Seg{K: ":", Name: s[1:]})
		case strings.HasPrefix(s, "*"):
			p = append(p, Seg{K: "*", Name: s[1:]})
		case strings.Contains(s, "=:"):
			i := strings.Index(s, "=:")
			p = append(p, Seg{K: "=", Lit: s[:i], Name: s[i+2:]})
		default:
			p = append(p, Seg{K: "l", Lit: s})
		}
	}
	return p
}

func set(keys ...string) []Pat {
	var ps []Pat
	for _, k := range keys {
		ps = append(ps, parsePat(k))
	}
	return ps
}

// Catalogue is the fixed list of pattern sets the native fuzz target looks paths up in.
var Catalogue = [][]Pat{
	set("/a/:id"),
	set("/a/:id", "/a/b"),
	set("/:x"),
	set("/*w"),
	set("/a/*w", "/a/:p", "/a/b"),
	set("/a/:x/b", "/:y/c/b"),
	set("/a=:id"),
	set("/a=:id", "/:x"),
	set("/a=:id/b", "/:y/c", "/a/c"),
	set("/:a/:b/:c"),
	set("/:a/:b/*c"),
	set("/a/b/c", "/a/b/:c", "/a/:b/c", "/:a/b/c"),
	set("/ab/:x", "/a/:y", "/abc/:z"),
	set("/a./:x", "/a/:y", "/./:z", "/../:w"),
	set("/users/:id", "/users/:id/items", "/users/:id/items/:item", "/users/me", "/users/me/items/*rest"),
	set("/api/v1/pets", "/api/v1/pets/:id", "/api/v1/pets/:id/photos/:pid", "/api/v1/pets/findByStatus", "/api/v2/*any"),
	set("/a/:x", "/b/:x", "/a.b/:x", "/ab/:x"),
	set("/x=:a/y=:b", "/x=:a/:c", "/:d/y=:e"),
	set("/a/b"),
	set("/a", "/a/b", "/a/b/c", "/:x/b/c/*d"),
	set("/a/:p0/b/:p1/c/:p2"),
	set("/a/:p/b", "/a/:q/c/*r"),
	set("/b=:k/*r", "/b/*r", "/:k/*r"),
	set("/:p0", "/:p0/:p1", "/:p0/:p1/:p2", "/:p0/:p1/:p2/:p3"),
	set("/a/:x", "/aa/:x", "/aaa/:x", "/aaaa/:x", "/b", "/bb", "/bbb"),
	set("/.=:v", "/..=:v/a", "/a.=:v/*r"),
	set("/a/*w", "/a/b/*w", "/a/b/c/*w"),
	set("/:v/a", "/:v/b", "/:v/a/:w", "/a/:v/:w"),
	set("/a=:x/a=:y/a=:z"),
	set("/a/:x/a/:y/a/*z", "/a/a/a/a/a/a"),
	set("/café/:id", "/Cafe/:id", "/日本/:city/駅", "/ü/*rest"),
}

func seedPaths(pats []Pat) []string {
	var out []string
	for _, p := range pats {
		for _, v := range []string{"x", ":", "*", "#", "=", "a", "x#y", ":id", "a=b", "", "\xff", "x:y*z"} {
			var segs []string
			for _, s := range p {
				switch s.K {
				case "l":
					segs = append(segs, s.Lit)
				case ":":
					segs = append(segs, v)
				case "=":
					segs = append(segs, s.Lit+"="+v)
				case "*":
					segs = append(segs, v, v)
				}
			}
			out = append(out, "/"+strings.Join(segs, "/"))
		}
		out = append(out, p.Key(), p.Key()+"#", p.Key()+"/")
	}
	return out
}
