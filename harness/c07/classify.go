package c07

import (
	"sort"
	"strings"
)

func labelSet(m map[string]bool) []string {
	out := make([]string, 0, len(m))
	for l := range m {
		out = append(out, l)
	}
	sort.Strings(out)
	return out
}

func hostileValue(v string) bool {
	return strings.HasPrefix(v, "\"") && (strings.Contains(v, ",") || strings.Contains(v, "q=") || strings.Contains(v, ";"))
}

// rangeLabels describes the header text class of a list of ranges.
func rangeLabels(rs []Range, l map[string]bool) (longQ, zeroQ bool) {
	switch {
	case len(rs) == 0:
		l["no header"] = true
	case len(rs) == 1:
		l["1 range"] = true
	case len(rs) == 2:
		l["2 ranges"] = true
	default:
		l["3+ ranges"] = true
	}
	for i, r := range rs {
		if r.Blank > 0 && (i == 0 || r.NL) {
			l["empty header line"] = true
		}
		if i > 0 && r.NL {
			l["several header lines"] = true
		}
		if r.Empty > 0 {
			l["empty list element"] = true
		}
		for _, w := range r.WS {
			if w != "" {
				l["optional whitespace"] = true
			}
		}
		if len(r.Params) > 0 {
			l["parameter before q"] = true
		}
		for _, p := range r.Params {
			if strings.HasSuffix(strings.ToLower(p.N), "q") {
				l["parameter name ends in q"] = true
			}
			if hostileValue(p.V) {
				l["quoted value with , ; or q="] = true
			}
			if strings.Contains(p.V, "\\") {
				l["quoted value with escape"] = true
			}
		}
		if !r.HasQ {
			l["range without q"] = true
			continue
		}
		if r.Q.name() == "Q" {
			l["upper-case Q"] = true
		}
		if len(r.Ext) > 0 {
			l["extension parameter after q"] = true
			if i < len(rs)-1 && !rs[i+1].NL {
				l["extension parameter after q, more ranges follow on the line"] = true
			}
		}
		for _, p := range r.Ext {
			if p.Flag {
				l["flag-like extension (no =)"] = true
			}
			if hostileValue(p.V) {
				l["quoted value with , ; or q="] = true
			}
		}
		d := r.Q.Digits()
		switch {
		case d >= 60:
			l["q digits >=60"] = true
		case d >= 19:
			l["q digits 19-59"] = true
		case d > 3:
			l["q digits 4-18"] = true
		}
		if d > 3 {
			longQ = true
		}
		if r.Q.Free == "" && r.Q.Tail != "" && r.Q.Milli < 1000 {
			l["q with non-zero tail digits"] = true
		}
		if r.Q.NoLead && strings.HasPrefix(r.Q.Text(), ".") {
			l["q without leading 0"] = true
		}
		if r.Q.Free == "" && r.HasQ && r.Q.Milli == 0 && r.Q.Tail != "" {
			l["positive weight below 0.001"] = true
		}
		if r.Q.Free == "" && r.Zero() {
			zeroQ = true
			l["q=0 range"] = true
		}
	}
	return longQ, zeroQ
}

// Classify implements the non-trivial rule of C07: at least two ranges match at least two offers with equal q,
// or a wildcard competes with an exact range, or a weight has more than three digits, or a q=0 range is present.
func Classify(c Case) (bool, []string) {
	l := map[string]bool{}
	longQ, zeroQ := rangeLabels(c.Ranges, l)
	nt := longQ || zeroQ

	switch len(c.Offers) {
	case 0:
		l["no offers"] = true
	case 1:
		l["1 offer"] = true
	default:
		l["2+ offers"] = true
	}
	seen := map[string]bool{}
	for _, o := range c.Offers {
		if strings.Contains(o, ";") {
			l["offer with parameters"] = true
		}
		if seen[offerType(o)] {
			l["duplicate offer type"] = true
		}
		seen[offerType(o)] = true
	}
	if c.Default == "" {
		l["empty default"] = true
	}

	// which (range, offer) pairs match, at which weight
	type pair struct{ r, o int }
	byQ := map[string][]pair{}
	wild, exact := false, false
	for oi, o := range c.Offers {
		for ri, r := range c.Ranges {
			if r.Zero() || !r.matches(o) {
				continue
			}
			byQ[r.Weight()] = append(byQ[r.Weight()], pair{ri, oi})
			if r.specificity() == 2 {
				exact = true
			} else {
				wild = true
			}
		}
	}
	for _, ps := range byQ {
		rs, os := map[int]bool{}, map[int]bool{}
		for _, p := range ps {
			rs[p.r], os[p.o] = true, true
		}
		if len(rs) >= 2 && len(os) >= 2 {
			l["equal q: >=2 ranges match >=2 offers"] = true
			nt = true
		}
	}
	if wild && exact {
		l["wildcard competes with exact range"] = true
		nt = true
	}
	_, idx := Expect(c)
	switch {
	case len(c.Ranges) == 0:
	case idx < 0:
		l["selects the default"] = true
	case idx == 0:
		l["selects the first offer"] = true
	default:
		l["selects a later offer"] = true
	}
	return nt, labelSet(l)
}
