package c07

import (
	"strings"

	"github.com/go-openapi/runtime/middleware"
	"pgregory.net/rapid"

	"verif/harness/kit"
)

// MCase is a metamorphic case: a header (media ranges, or content-codings when Enc is set) whose weights may be
// arbitrary digit strings, and three transformations that must not move the answer.
type MCase struct {
	Base  Case   `json:"base"`
	Enc   bool   `json:"enc,omitempty"`   // Accept-Encoding / NegotiateContentEncoding
	Zeros []int  `json:"zeros,omitempty"` // per range: zeros appended to the weight text
	Perm  []int  `json:"perm,omitempty"`  // a permutation of the ranges
	Break []bool `json:"break,omitempty"` // per range: alternative line breaks
}

func (m MCase) key() string {
	if m.Enc {
		return "Accept-Encoding"
	}
	return "Accept"
}

func (m MCase) run(ranges []Range) (string, []string, *kit.Violation) {
	lines := Lines(ranges)
	req := request(m.key(), lines)
	var got string
	what := "NegotiateContentType"
	if m.Enc {
		what = "NegotiateContentEncoding"
	}
	v := kit.Guard(what, func() {
		if m.Enc {
			got = middleware.NegotiateContentEncoding(req, append([]string(nil), m.Base.Offers...))
		} else {
			got = middleware.NegotiateContentType(req, append([]string(nil), m.Base.Offers...), m.Base.Default)
		}
	})
	return got, lines, v
}

// padded appends zeros to the fractional part of every weight.
func (m MCase) padded() []Range {
	out := append([]Range(nil), m.Base.Ranges...)
	for i := range out {
		if !out[i].HasQ || i >= len(m.Zeros) || m.Zeros[i] <= 0 {
			continue
		}
		z := m.Zeros[i]
		if z > maxDigits {
			z = maxDigits
		}
		q := out[i].Q
		if q.Free != "" {
			if !strings.Contains(q.Free, ".") {
				q.Free += "."
			}
			q.Free += strings.Repeat("0", z)
		} else {
			q.Pad += z
		}
		out[i].Q = q
	}
	return out
}

func validPerm(p []int, n int) bool {
	if len(p) != n {
		return false
	}
	seen := make([]bool, n)
	for _, i := range p {
		if i < 0 || i >= n || seen[i] {
			return false
		}
		seen[i] = true
	}
	return true
}

func (m MCase) permuted() []Range {
	if !validPerm(m.Perm, len(m.Base.Ranges)) {
		return nil
	}
	out := make([]Range, 0, len(m.Perm))
	for _, i := range m.Perm {
		out = append(out, m.Base.Ranges[i])
	}
	return out
}

func (m MCase) rebroken(rs []Range) []Range {
	out := append([]Range(nil), rs...)
	for i := range out {
		out[i].NL = i < len(m.Break) && m.Break[i]
	}
	return out
}

// CheckMeta: the answer for the base header must equal the answer after zero padding, after reordering the
// ranges, after moving the line breaks, and after all three together.
func CheckMeta(m MCase) *kit.Violation {
	if len(m.Base.Ranges) == 0 {
		return nil
	}
	base, lines, v := m.run(m.Base.Ranges)
	if v != nil {
		return kit.Failf("%s=%q offers=%q: %s", m.key(), lines, m.Base.Offers, v.Msg)
	}
	variants := []struct {
		name string
		rs   []Range
	}{
		{"ZERO-PADDING", m.padded()},
		{"REORDER", m.permuted()},
		{"LINE-BREAKS", m.rebroken(m.Base.Ranges)},
	}
	if p := m.permuted(); p != nil {
		all := MCase{Base: Case{Ranges: p}, Zeros: permInts(m.Zeros, m.Perm)}.padded()
		variants = append(variants, struct {
			name string
			rs   []Range
		}{"PAD+REORDER+BREAKS", m.rebroken(all)})
	}
	for _, vr := range variants {
		if vr.rs == nil {
			continue
		}
		got, vlines, v := m.run(vr.rs)
		if v != nil {
			return kit.Failf("%s=%q offers=%q: %s", m.key(), vlines, m.Base.Offers, v.Msg)
		}
		if got != base {
			return kit.Failf("%s offers=%q default=%q: %s=%q -> %q, but %q -> %q", vr.name, m.Base.Offers, m.Base.Default, m.key(), lines, base, vlines, got)
		}
	}
	return nil
}

func permInts(z []int, perm []int) []int {
	out := make([]int, len(perm))
	for i, p := range perm {
		if p < len(z) {
			out[i] = z[p]
		}
	}
	return out
}

func genFreeQ(t *rapid.T) string {
	switch rapid.IntRange(0, 9).Draw(t, "freekind") {
	case 0:
		return rapid.SampledFrom([]string{"1", "1.", "1.0", "1.000", "0", "0.", "0.000"}).Draw(t, "freeconst")
	}
	n := rapid.SampledFrom([]int{1, 2, 3, 3, 6, 14, 15, 16, 18, 19, 20, 40, 70, 75, 200, 400}).Draw(t, "freelen")
	var d string
	switch rapid.IntRange(0, 4).Draw(t, "freedigits") {
	case 0:
		d = strings.Repeat("9", n)
	case 1:
		d = strings.Repeat("0", n-1) + "1"
	case 2:
		d = rapid.SampledFrom([]string{"5", "50", "1", "9", "05"}).Draw(t, "freehead")
		if len(d) < n {
			d += strings.Repeat("0", n-len(d))
		}
	default:
		d = rapid.StringOfN(rapid.RuneFrom([]rune("0123456789")), n, n, n).Draw(t, "freeany")
	}
	lead := rapid.SampledFrom([]string{"0.", "0.", "0.", "."}).Draw(t, "freelead")
	return lead + d
}

// GenMeta draws the base header from the structured generators, replaces some weights by arbitrary digit strings
// and draws the transformations.
func GenMeta(t *rapid.T) MCase {
	var m MCase
	m.Enc = rapid.IntRange(0, 3).Draw(t, "enc") == 0
	if m.Enc {
		e := GenEnc(t)
		m.Base = Case{Ranges: e.Ranges, Offers: e.Offers}
	} else {
		m.Base = Gen(t)
	}
	if len(m.Base.Ranges) == 0 {
		r := Range{Type: "*", Sub: "*", HasQ: true, Q: newQCtx().genQ(t, genMilli(t))}
		if m.Enc {
			r.Sub = ""
		}
		m.Base.Ranges = []Range{r}
	}
	n := len(m.Base.Ranges)
	for i := range m.Base.Ranges {
		if m.Base.Ranges[i].HasQ && rapid.IntRange(0, 2).Draw(t, "free") == 0 {
			m.Base.Ranges[i].Q.Free = genFreeQ(t)
		}
	}
	// the same arbitrary weight on two ranges: ties that only specificity and offer order may break
	if n >= 2 && m.Base.Ranges[0].HasQ && m.Base.Ranges[1].HasQ && rapid.IntRange(0, 3).Draw(t, "freesame") == 0 {
		m.Base.Ranges[1].Q = m.Base.Ranges[0].Q
	}
	m.Zeros = make([]int, n)
	for i := range m.Zeros {
		m.Zeros[i] = rapid.SampledFrom([]int{0, 1, 2, 3, 12, 15, 16, 18, 19, 20, 60, 75, 300}).Draw(t, "zeros")
	}
	idx := make([]int, n)
	for i := range idx {
		idx[i] = i
	}
	m.Perm = rapid.Permutation(idx).Draw(t, "perm")
	m.Break = make([]bool, n)
	for i := 1; i < n; i++ {
		m.Break[i] = rapid.Bool().Draw(t, "break")
	}
	return m
}

// ClassifyMeta: non-trivial when a transformation actually changes the header text in a way the rule covers.
func ClassifyMeta(m MCase) (bool, []string) {
	l := map[string]bool{}
	rangeLabels(m.Base.Ranges, l)
	if m.Enc {
		l["Accept-Encoding"] = true
	} else {
		l["Accept"] = true
	}
	nt := false
	for i, r := range m.Base.Ranges {
		if r.HasQ && r.Q.Free != "" {
			l["arbitrary-digit weight"] = true
		}
		if r.HasQ && i < len(m.Zeros) && m.Zeros[i] > 0 {
			l["zero padding applied"] = true
			nt = true
			if r.Q.Digits()+m.Zeros[i] >= 19 {
				l["padded to >=19 digits"] = true
			}
		}
	}
	for i, p := range m.Perm {
		if p != i {
			l["ranges reordered"] = true
			nt = true
			break
		}
	}
	for i := range m.Base.Ranges {
		if i > 0 && i < len(m.Break) && m.Break[i] != m.Base.Ranges[i].NL {
			l["line breaks moved"] = true
			nt = true
			break
		}
	}
	return nt, labelSet(l)
}
