package c07

import "verif/harness/kit"

const (
	ruleStructured = "Accept header rendered from a structure: 0-5 media ranges (*/*, t/*, t/s; mostly aimed at the offers) with 0-2 parameters before q " +
		"(token and quoted values, incl. quoted commas, semicolons, 'q=' and escapes; names ending in or starting with q), optional q/Q from the grid k/1000 rendered with 0-400 digits " +
		"(zero padding, non-zero tails beyond the 4th digit, '.5', '1.', '0.'), 0-2 extension parameters after q (incl. flag-like ones without '='), optional whitespace around ';' and ',', 1-n header lines; " +
		"offer lists of 0-5 entries with duplicates and parameters; default set or empty. Oracle: lexicographic maximum over matching (range, offer) pairs of (q, exact > t/* > */*, earlier offer), " +
		"q=0 ranges select nothing, no header selects the first offer, nothing matches selects the default; header.ParseAccept must return the ranges of the structure with their weights. " +
		"Non-trivial: >=2 ranges match >=2 offers with equal q, or a wildcard competes with an exact range, or a weight has more than 3 digits, or a q=0 range is present; distinct by hash of the case"
	ruleQOrder = "two ranges matching two distinct offers with q1 < q2 on the 1/1000 grid (often adjacent), each rendered with any number of digits up to 400, low range exact / t/* / */*, high range exact / t/*, " +
		"any order, noise ranges, 1-3 header lines: the offer of the larger weight must be selected (same oracle as the structured tier). Non-trivial as in the structured tier"
	ruleMeta = "metamorphic: a structured Accept or Accept-Encoding header in which some weights are arbitrary digit strings (1-400 digits, all nines, 0…01, random); the answer of NegotiateContentType / " +
		"NegotiateContentEncoding must not move when weights are padded with zeros, the ranges are permuted, the line breaks are moved, or all three. Non-trivial: at least one transformation changes the header text"
	ruleRaw = "raw header bytes (hostile constants, structured headers damaged at 1-4 positions, strings over a hostile alphabet, arbitrary bytes; 0-3 lines) x plausible or arbitrary offers, Accept and Accept-Encoding: " +
		"no panic in NegotiateContentType / NegotiateContentEncoding / ParseAccept / ParseAccept2 / ParseList / ParseValueAndParams, the result is an offer or the default (encodings: an offer, identity or empty), " +
		"no header selects the first offer, parsed weights are finite and non-negative. Non-trivial: a line holds a quote, backslash, 'q=' or a control/non-ASCII byte"
	ruleEnc = "Accept-Encoding rendered from a structure (codings and '*', weights as in the structured tier, whitespace, several lines) x offer lists: the result is an offer matched at the maximal positive weight " +
		"(earliest such offer; when '*' ties with a named coding either the earliest or the earliest named one), empty or identity when nothing is acceptable; ParseAccept returns the codings of the structure. " +
		"Non-trivial: >=2 offers share a weight, '*' competes with a named coding, a weight has more than 3 digits or a q=0 coding is present"
	ruleHandler = "one API per case (1-3 GET operations with own or inherited produces lists of 1-4 entries incl. entries with parameters, API default type JSON or another), 6-12 requests with structured Accept headers " +
		"through middleware.NewContext(...).RoutesHandler: 406 exactly when the structure admits none of produces + API default, and then the operation handler does not run; otherwise the handler runs once, status 200, " +
		"Content-Type is one of the offers matched at the maximal (weight, specificity) (a set: the order of produces inside a route is a map order). " +
		"Non-trivial: a request expects 406, or a decisive header chooses among several declared types, or a weight has more than 3 digits"
)

// Props lists the generated checks of C07.
func Props() []kit.Runner {
	return []kit.Runner{
		kit.Prop[Case]{ID: "C07", Name: "structured", Rule: ruleStructured, Quick: 50000, Thorough: 600000,
			Gen: Gen, Check: Check, Classify: Classify},
		kit.Prop[Case]{ID: "C07", Name: "qorder", Rule: ruleQOrder, Quick: 20000, Thorough: 200000,
			Gen: GenQOrder, Check: Check, Classify: Classify},
		kit.Prop[MCase]{ID: "C07", Name: "metamorphic", Rule: ruleMeta, Quick: 30000, Thorough: 300000,
			Gen: GenMeta, Check: CheckMeta, Classify: ClassifyMeta},
		kit.Prop[RCase]{ID: "C07", Name: "raw", Rule: ruleRaw, Quick: 40000, Thorough: 400000,
			Gen: GenRaw, Check: CheckRaw, Classify: ClassifyRaw},
		kit.Prop[ECase]{ID: "C07", Name: "encoding", Rule: ruleEnc, Quick: 30000, Thorough: 250000,
			Gen: GenEnc, Check: CheckEnc, Classify: ClassifyEnc},
		kit.Prop[HCase]{ID: "C07", Name: "handler406", Rule: ruleHandler, Quick: 1200, Thorough: 5000,
			Gen: GenHandler, Check: CheckHandler, Classify: ClassifyHandler},
	}
}
