// Package c07 decides property C07 (Accept negotiation picks the best acceptable offer and only an offer).
//
// The header text is rendered from a structure (media ranges, parameters, weights, whitespace, line breaks); the
// expected selection is computed from that structure by the selection rule of the property statement, never by
// parsing the text again. A metamorphic tier, a raw-bytes tier, an Accept-Encoding tier and a check through the
// API handler (406) complete it.
package c07

import (
	"fmt"
	"math"
	"net/http"
	"strconv"
	"strings"

	"github.com/go-openapi/runtime/middleware"
	"github.com/go-openapi/runtime/middleware/header"

	"verif/harness/kit"
)

// Param is one parameter of a media range (before q) or an extension parameter (after q).
type Param struct {
	N    string `json:"n"`
	V    string `json:"v,omitempty"`    // a token, or a quoted-string including its quotes and escapes
	Flag bool   `json:"flag,omitempty"` // rendered as a bare name without "=" (extension parameters only)
}

// QV is a weight. Its text is built from the fields: the three grid digits of Milli (trailing zeros dropped), then
// - for Milli < 1000 - Gap zeros and the digits of Tail, then Pad trailing zeros. The exact decimal value is read off
// the same digits by Weight, so value and text cannot disagree. The generators use tails only with 0 < Milli < 1000
// and Gap >= 3 (the value stays within 1e-4 of the grid point: the tolerance of DESIGN.md section 6); saved canaries
// also use Gap 0 ("0.999…9") and a tail on Milli 0 (a tiny non-zero weight) where the expected answer does not
// depend on how such a value is rounded.
type QV struct {
	Name   string `json:"name,omitempty"`   // "q" (default) or "Q"
	Milli  int    `json:"milli"`            // 0..1000; 1001..1999: a weight above one
	NoLead bool   `json:"nolead,omitempty"` // ".5" instead of "0.5"
	Dot    bool   `json:"dot,omitempty"`    // keep the "." when no fractional digit follows: "1." / "0."
	Gap    int    `json:"gap,omitempty"`    // zeros between the grid digits and Tail
	Tail   string `json:"tail,omitempty"`   // further digits (Milli < 1000 only)
	Pad    int    `json:"pad,omitempty"`    // trailing zeros: they do not change the value
	Free   string `json:"free,omitempty"`   // metamorphic tier only: verbatim weight text, Milli is meaningless
}

// Range is one element of an Accept (Type/Sub) or Accept-Encoding (Sub == "") header.
type Range struct {
	Type   string   `json:"type"`
	Sub    string   `json:"sub,omitempty"`
	Params []Param  `json:"params,omitempty"`
	HasQ   bool     `json:"hasq,omitempty"`
	Q      QV       `json:"q"`
	Ext    []Param  `json:"ext,omitempty"`
	WS     []string `json:"ws,omitempty"` // optional whitespace, consumed in order by the renderer
	NL     bool     `json:"nl,omitempty"` // this element starts a new header line
	// Empty is the number of empty list elements (bare commas) rendered in front of this element. RFC 7230 section 7
	// obliges recipients to ignore them; the generators do not draw them (see genEmptyElements), saved cases may.
	Empty int `json:"empty,omitempty"`
	// Blank is the number of empty header lines ("Accept:" without a value) sent in front of the line this element
	// starts (first element, or NL). An empty line holds no range: the ranges of the other lines still count.
	Blank int `json:"blank,omitempty"`
}

// Case is a structured negotiation case: no header at all when Ranges is empty.
type Case struct {
	Ranges  []Range  `json:"ranges"`
	Offers  []string `json:"offers"`
	Default string   `json:"default,omitempty"`
}

const maxDigits = 400

func digitsOnly(s string) string {
	var b strings.Builder
	for i := 0; i < len(s); i++ {
		if s[i] >= '0' && s[i] <= '9' {
			b.WriteByte(s[i])
		}
	}
	return b.String()
}

func (q QV) milli() int {
	switch {
	case q.Milli < 0:
		return 0
	case q.Milli > 1999:
		return 1999
	}
	return q.Milli
}

// parts returns the integer digit and the fractional digits of the weight.
func (q QV) parts() (ip, frac string) {
	// Milli above 1000 spells a weight between 1 and 2 ("1.5"): outside the grammar of RFC 7231, but a number like any
	// other for "a smaller number never outranks a larger one" (the parser reads it as that number)
	m := q.milli()
	ip = "0"
	if m >= 1000 {
		ip = "1"
	}
	if m%1000 != 0 {
		frac = strings.TrimRight(fmt.Sprintf("%03d", m%1000), "0")
	}
	if m < 1000 {
		if tail := digitsOnly(q.Tail); tail != "" {
			if frac == "" {
				frac = "000"
			}
			if q.Gap > 0 {
				frac += strings.Repeat("0", q.Gap)
			}
			frac += tail
		}
	}
	if q.Pad > 0 {
		frac += strings.Repeat("0", q.Pad)
	}
	if len(frac) > maxDigits {
		frac = frac[:maxDigits]
	}
	return ip, frac
}

// Text renders the weight value.
func (q QV) Text() string {
	if q.Free != "" {
		return q.Free
	}
	ip, frac := q.parts()
	if frac == "" {
		if q.Dot {
			return ip + "."
		}
		return ip
	}
	if q.NoLead && ip == "0" {
		ip = ""
	}
	return ip + "." + frac
}

// Weight is the exact decimal value of the weight in a form that compares as the number does under plain string
// comparison: one integer digit, ".", the fractional digits without trailing zeros ("0." is zero, "1." is one).
func (q QV) Weight() string {
	ip, frac := q.parts()
	return ip + "." + strings.TrimRight(frac, "0")
}

// Digits is the number of fractional digits of the rendered weight.
func (q QV) Digits() int {
	t := q.Text()
	if i := strings.IndexByte(t, '.'); i >= 0 {
		return len(t) - i - 1
	}
	return 0
}

func (q QV) name() string {
	if q.Name == "Q" {
		return "Q"
	}
	return "q"
}

// Milli is the grid point of the weight in thousandths (1000 without q).
func (r Range) Milli() int {
	if !r.HasQ {
		return 1000
	}
	return r.Q.milli()
}

// Weight is the exact weight of the range (see QV.Weight); "1." without q.
func (r Range) Weight() string {
	if !r.HasQ {
		return "1."
	}
	return r.Q.Weight()
}

// Float is the weight as the nearest float64 (strconv over the harness's own digit string, not over the header).
func (r Range) Float() float64 {
	f, err := strconv.ParseFloat(r.Weight()+"0", 64)
	if err != nil {
		panic("harness: weight " + r.Weight() + ": " + err.Error())
	}
	return f
}

// Zero reports a weight of exactly zero.
func (r Range) Zero() bool { return r.Weight() == "0." }

// Value is the media range (or content-coding) without parameters.
func (r Range) Value() string {
	if r.Sub == "" {
		return r.Type
	}
	return r.Type + "/" + r.Sub
}

func ows(s string) string {
	var b strings.Builder
	for i := 0; i < len(s); i++ {
		if s[i] == ' ' || s[i] == '\t' || s[i] == '\r' || s[i] == '\n' { // CR and LF: a folded line as a hand-built header delivers it
			b.WriteByte(s[i])
		}
	}
	return b.String()
}

type wsReader struct {
	ws []string
	i  int
}

func (w *wsReader) next() string {
	if w.i < len(w.ws) {
		w.i++
		return ows(w.ws[w.i-1])
	}
	return ""
}

func renderParam(p Param) string {
	if p.Flag {
		return p.N
	}
	return p.N + "=" + p.V
}

// render returns the separator whitespace (before and after the comma that precedes this element) and the element text.
func (r Range) render() (before, after, text string) {
	w := &wsReader{ws: r.WS}
	before, after = w.next(), w.next()
	var b strings.Builder
	b.WriteString(r.Value())
	for _, p := range r.Params {
		p.Flag = false // media type parameters always carry a value
		b.WriteString(w.next() + ";" + w.next() + renderParam(p))
	}
	if r.HasQ {
		b.WriteString(w.next() + ";" + w.next() + r.Q.name() + "=" + r.Q.Text())
		for _, p := range r.Ext {
			b.WriteString(w.next() + ";" + w.next() + renderParam(p))
		}
	}
	return before, after, b.String()
}

// Lines renders the header lines of a list of ranges.
func Lines(ranges []Range) []string {
	var lines []string
	cur := ""
	for i, r := range ranges {
		before, after, text := r.render()
		empties := ""
		if r.Empty > 0 && r.Empty <= 8 {
			empties = strings.Repeat(",", r.Empty)
		}
		blanks := 0
		if r.Blank > 0 && r.Blank <= 3 {
			blanks = r.Blank
		}
		switch {
		case i == 0:
			for b := 0; b < blanks; b++ {
				lines = append(lines, "")
			}
			cur = empties + text
		case r.NL:
			lines = append(lines, cur)
			for b := 0; b < blanks; b++ {
				lines = append(lines, "")
			}
			cur = empties + text
		default:
			cur += before + "," + empties + after + text
		}
	}
	if len(ranges) > 0 {
		lines = append(lines, cur)
	}
	return lines
}

// offerType is the media type of an offer: the text before its parameters.
func offerType(o string) string {
	if i := strings.IndexByte(o, ';'); i >= 0 {
		o = o[:i]
	}
	return strings.TrimSpace(o) // "text/plain ; charset=utf-8": the blank in front of the parameters is not part of the type (r10)
}

// Specificity ranks: exact media range 2, type/* 1, */* 0.
func (r Range) specificity() int {
	switch {
	case r.Type == "*" && r.Sub == "*":
		return 0
	case r.Sub == "*":
		return 1
	}
	return 2
}

func (r Range) matches(offer string) bool {
	o := offerType(offer)
	switch r.specificity() {
	case 0:
		return true
	case 1:
		return strings.HasPrefix(o, r.Type+"/")
	}
	return o == r.Value()
}

// key is the rank of a (range, offer) pair: larger is better, compared lexicographically.
type key struct {
	q    string // Range.Weight
	spec int
	pos  int // -offer index
}

func (a key) less(b key) bool {
	if a.q != b.q {
		return a.q < b.q
	}
	if a.spec != b.spec {
		return a.spec < b.spec
	}
	return a.pos < b.pos
}

// Expect computes the selection the statement demands, from the structure alone.
// idx is the index of the chosen offer, or -1 for the default.
func Expect(c Case) (want string, idx int) {
	if len(c.Ranges) == 0 {
		if len(c.Offers) > 0 {
			return c.Offers[0], 0
		}
		return c.Default, -1
	}
	best, found := key{}, false
	for i, o := range c.Offers {
		for _, r := range c.Ranges {
			if r.Zero() || !r.matches(o) {
				continue
			}
			k := key{r.Weight(), r.specificity(), -i}
			if !found || best.less(k) {
				best, found = k, true
			}
		}
	}
	if !found {
		return c.Default, -1
	}
	return c.Offers[-best.pos], -best.pos
}

func request(key string, lines []string) *http.Request {
	r := &http.Request{Method: http.MethodGet, Header: http.Header{}}
	if len(lines) > 0 {
		r.Header[key] = append([]string(nil), lines...)
	}
	return r
}

func negotiateType(lines []string, offers []string, def string) (got string, v *kit.Violation) {
	req := request("Accept", lines)
	v = kit.Guard("NegotiateContentType", func() {
		got = middleware.NegotiateContentType(req, append([]string(nil), offers...), def)
	})
	return got, v
}

func parseAccept(key string, lines []string) (specs []header.AcceptSpec, v *kit.Violation) {
	req := request(key, lines)
	v = kit.Guard("header.ParseAccept", func() { specs = header.ParseAccept(req.Header, key) })
	return specs, v
}

func wellFormed(c Case) *kit.Violation {
	for _, r := range c.Ranges {
		if r.HasQ && r.Q.Free != "" {
			return kit.Failf("malformed case: a free-text weight has no structural value (metamorphic tier only)")
		}
		if r.Sub == "" {
			return kit.Failf("malformed case: media range without subtype")
		}
	}
	return nil
}

// Check is the structured tier: NegotiateContentType against the selection computed from the structure, and
// header.ParseAccept against the list of ranges.
func Check(c Case) *kit.Violation {
	if v := wellFormed(c); v != nil {
		return v
	}
	lines := Lines(c.Ranges)
	want, _ := Expect(c)
	got, v := negotiateType(lines, c.Offers, c.Default)
	if v != nil {
		return kit.Failf("Accept=%q offers=%q default=%q: %s", lines, c.Offers, c.Default, v.Msg)
	}
	if got != want {
		return kit.Failf("SELECTION Accept=%q offers=%q default=%q: got %q, want %q", lines, c.Offers, c.Default, got, want)
	}
	specs, v := parseAccept("Accept", lines)
	if v != nil {
		return kit.Failf("Accept=%q: %s", lines, v.Msg)
	}
	if len(specs) != len(c.Ranges) {
		return kit.Failf("PARSE Accept=%q: ParseAccept returned %d ranges %+v, the header holds %d", lines, len(specs), specs, len(c.Ranges))
	}
	for i, r := range c.Ranges {
		wq := r.Float()
		if specs[i].Value != r.Value() || math.IsNaN(specs[i].Q) || math.Abs(specs[i].Q-wq) > 2e-4 {
			return kit.Failf("PARSE Accept=%q: range %d parsed as %+v, want {%s %v}", lines, i, specs[i], r.Value(), wq)
		}
	}
	// a header of several lines, then a header that is only its first line: each is answered for what it says, whatever
	// was negotiated before for a header that starts alike (r8)
	cut := 0
	for i, r := range c.Ranges {
		if r.Blank > 0 || r.Empty > 0 {
			cut = 0
			break
		}
		if i > 0 && r.NL && cut == 0 {
			cut = i
		}
	}
	if cut > 0 {
		first := Case{Ranges: c.Ranges[:cut], Offers: c.Offers, Default: c.Default}
		want1, _ := Expect(first)
		lines1 := Lines(first.Ranges)
		got1, v := negotiateType(lines1, c.Offers, c.Default)
		if v != nil {
			return v
		}
		if got1 != want1 {
			return kit.Failf("SELECTION-FIRST-LINE-ALONE Accept=%q offers=%q default=%q: got %q, want %q (asked right after the %d-line header %q, which starts with the same line)", lines1, c.Offers, c.Default, got1, want1, len(lines), lines)
		}
	}
	// what ParseAccept returned is the caller's: a caller that sorts it or strikes ranges out changes no later answer (r7)
	if v := scribbleSpecs("Accept", lines, specs); v != nil {
		return v
	}
	if again, v := negotiateType(lines, c.Offers, c.Default); v != nil {
		return v
	} else if again != want {
		return kit.Failf("SELECTION-AFTER-SCRIBBLE Accept=%q offers=%q default=%q: after a caller changed the slice ParseAccept had returned for this header, the selection is %q, want %q", lines, c.Offers, c.Default, again, want)
	}
	return nil
}

// scribbleSpecs overwrites the slice a ParseAccept call returned and demands that a second parse of the same header
// still yields what the first one did.
func scribbleSpecs(key string, lines []string, specs []header.AcceptSpec) *kit.Violation {
	first := append([]header.AcceptSpec(nil), specs...)
	for i := range specs {
		specs[i].Value, specs[i].Q = "scribbled/by-a-caller", 0
	}
	second, v := parseAccept(key, lines)
	if v != nil {
		return v
	}
	if len(second) != len(first) {
		return kit.Failf("PARSE-AFTER-SCRIBBLE %s=%q: a second parse returns %d ranges, the first returned %d", key, lines, len(second), len(first))
	}
	for i := range first {
		if second[i] != first[i] {
			return kit.Failf("PARSE-AFTER-SCRIBBLE %s=%q: after a caller changed the slice the first ParseAccept had returned, a second parse of the same header yields %+v at %d, the first yielded %+v", key, lines, second[i], i, first[i])
		}
	}
	return nil
}
