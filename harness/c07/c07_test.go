package c07

import (
	"testing"

	"verif/harness/kit"
)

func TestVerif(t *testing.T) { kit.Main(t, Props()...) }

func fuzzTarget(f *testing.F, enc bool, tag string) {
	n := len(OfferCatalogue)
	if enc {
		n = len(CodingCatalogue)
	}
	seeds := fuzzSeeds()
	for i, s := range seeds {
		f.Add(byte(i%n), byte(0), s, "")
		f.Add(byte(i%n)|0x80, byte(2), s, seeds[(i*7+3)%len(seeds)])
	}
	f.Add(byte(0), byte(3), "", "")
	f.Fuzz(func(t *testing.T, idx byte, mode byte, l1 string, l2 string) {
		c := fuzzCase(enc, idx, mode, l1, l2)
		if v := CheckRaw(c); v != nil {
			p := kit.WriteReplay("C07", "raw", tag, c, v.Msg)
			t.Fatalf("VIOLATION property=C07 replay=%s\n%s", p, v.Msg)
		}
	})
}

// FuzzAccept is the native coverage-guided target for NegotiateContentType / header.ParseAccept: raw header bytes
// against a fixed catalogue of offer lists, with the raw tier's oracle inside the target.
func FuzzAccept(f *testing.F) { fuzzTarget(f, false, "fuzz-accept") }

// FuzzAcceptEncoding is the same for NegotiateContentEncoding / Accept-Encoding.
func FuzzAcceptEncoding(f *testing.F) { fuzzTarget(f, true, "fuzz-accept-encoding") }
