package c07

import "verif/harness/kit"

// OfferCatalogue is the fixed list of offer lists the native fuzz target for Accept negotiates against.
var OfferCatalogue = [][]string{
	{"a/b"},
	{"a/b", "c/d"},
	{"c/d", "a/b"},
	{"text/plain", "application/json"},
	{"application/json", "text/plain; charset=utf-8", "text/html"},
	{"a/b;q=0.1", "a/b"},
	{"text/plain", "text/plain; charset=utf-8", "tex/plain", "text/x"},
	{},
	{"*/*", "a/*"},
	{"application/xml", "application/x-y.z+json", "ab/c", "a/bc"},
}

// CodingCatalogue is the same for Accept-Encoding.
var CodingCatalogue = [][]string{
	{"gzip"},
	{"gzip", "br"},
	{"br", "gzip", "deflate"},
	{"identity"},
	{"identity", "gzip"},
	{},
	{"*", "gzip"},
}

// fuzzSeeds: the hostile constants, the canaries of F5/K1 and ordinary browser headers.
func fuzzSeeds() []string {
	seeds := append([]string(nil), rawConstants...)
	seeds = append(seeds,
		"a/b;q=0.5000000000000000000", "a/b;q=0."+repeat("9", 70)+", c/d;q=0.5", "a/b;q=0."+repeat("0", 74)+"1, c/d",
		"a/b;x=\"q=0.1, c/d;q=1\", c/d;q=0.5", "a/b ; charset=utf-8 ; q=0.5 ; ext , c/d;q=.7", "text/*;q=0.3, text/plain;q=0.7, */*;q=0.1",
		"gzip;q=1.0, identity; q=0.5, *;q=0", "br;q=0."+repeat("0", 400), "a/b;q=1."+repeat("0", 400), "a/b;x=\"\\\\\\\"\";q=0.2",
	)
	return seeds
}

func repeat(s string, n int) string {
	out := make([]byte, 0, n*len(s))
	for i := 0; i < n; i++ {
		out = append(out, s...)
	}
	return string(out)
}

func fuzzCase(enc bool, idx byte, mode byte, l1, l2 string) RCase {
	c := RCase{Enc: enc}
	cat := OfferCatalogue
	if enc {
		cat = CodingCatalogue
	}
	for _, o := range cat[int(idx)%len(cat)] {
		c.Offers = append(c.Offers, kit.BStr(o))
	}
	if !enc && idx&0x80 != 0 {
		c.Default = "dflt/x"
	}
	switch mode % 4 {
	case 0, 1:
		c.Lines = []kit.BStr{kit.BStr(l1)}
	case 2:
		c.Lines = []kit.BStr{kit.BStr(l1), kit.BStr(l2)}
	}
	return c
}
