package c07

import "verif/harness/kit"

// OfferCatalogue is the fixed list of offer lists the native fuzz target for Accept negotiates against.
var OfferCatalogue = [][]string{
	{"a/b"},
	{"a/b", "c/d"},
	{"c/d", "a/b"},
	{"text/plain", "application/json"},
	{"application/json", "text/plain; charset=utf-8", "text/html"},
	{"a/b;q=0.1", "a/b"},
	{"text/plain", "text/plain; charset=utf-8", "tex/plain", "text/x"},
	{},
	{"*/*", "a/*"},
	{"application/xml", "application/x-y.z+json", "ab/c", "a/bc"},
}

// CodingCatalogue is the same for Accept-Encoding.
var CodingCatalogue = [][]string{
	{"gzip"},
	{"gzip", "br"},
	{"br", "gzip", "deflate"},
	{"identity"},
	{"identity", "gzip"},
	{},
	{"*", "gzip"},
}

// fuzzSeeds: the hostile constants, the canaries of F5/K1 and ordinary browser headers.
func fuzzSeeds() []string {
	seeds := append([]string(nil), rawConstants...)
	seeds = append(seeds,
		"a/b;q=0.5000000000000000000", "a/b;q=0."+repeat("9", 70)+", c/d;q=0.5", "a/b;q=0."+repeat("0", 74)+"1, c/d",
		"a/b;x=\"q=0.1, c/d;q=1\", c/d;q=0.5", "a/b ; charset=utf-8 ; q=0.5 ; ext , c/d;q=.7", "text/*;q=0.3, text/plain;q=0.7, */*;q=0.1",
		"gzip;q=1.0, identity; q=0.5, *;q=0", "br;q=0."+repeat("0", 400), "a/b;q=1."+repeat("0", 400), "a/b;x=\"\\\\\\\"\";q=0.2",
	)
	// renderings of structured headers (the shapes the structured generator draws)
	samples := [][]Range{
		{{Type: "text", Sub: "plain", Params: []Param{{N: "xq", V: "0.1"}, {N: "v", V: quote("a,b;q=0")}}, HasQ: true, Q: QV{Milli: 500, Pad: 17}, Ext: []Param{{N: "ext", Flag: true}, {N: "mq", V: "1"}}, WS: []string{"", "", " ", "\t", "", " "}},
			{Type: "text", Sub: "*", HasQ: true, Q: QV{Name: "Q", Milli: 500, NoLead: true}, WS: []string{" ", " "}},
			{Type: "*", Sub: "*", HasQ: true, Q: QV{Milli: 1, Gap: 3, Tail: repeat("9", 70)}, NL: true}},
		{{Type: "application", Sub: "x-y.z+json", Params: []Param{{N: "freq", V: quote("q=1\\\"")}}},
			{Type: "a", Sub: "b", HasQ: true, Q: QV{Milli: 0, Dot: true}, Ext: []Param{{N: "x", V: quote(", */*;q=1")}}, WS: []string{"", " "}},
			{Type: "ab", Sub: "*", HasQ: true, Q: QV{Milli: 1000, Pad: 400}, WS: []string{"\t", ""}}},
		{{Type: "gzip", HasQ: true, Q: QV{Milli: 999, Pad: 16}}, {Type: "*", HasQ: true, Q: QV{Milli: 0, Pad: 80}, WS: []string{"", " "}}, {Type: "br", NL: true}},
	}
	for _, rs := range samples {
		ls := Lines(rs)
		seeds = append(seeds, ls...)
		j := ""
		for i, l := range ls {
			if i > 0 {
				j += ", "
			}
			j += l
		}
		seeds = append(seeds, j)
	}
	return seeds
}

func repeat(s string, n int) string {
	out := make([]byte, 0, n*len(s))
	for i := 0; i < n; i++ {
		out = append(out, s...)
	}
	return string(out)
}

func fuzzCase(enc bool, idx byte, mode byte, l1, l2 string) RCase {
	c := RCase{Enc: enc}
	cat := OfferCatalogue
	if enc {
		cat = CodingCatalogue
	}
	for _, o := range cat[int(idx)%len(cat)] {
		c.Offers = append(c.Offers, kit.BStr(o))
	}
	if !enc && idx&0x80 != 0 {
		c.Default = "dflt/x"
	}
	switch mode % 4 {
	case 0, 1:
		c.Lines = []kit.BStr{kit.BStr(l1)}
	case 2:
		c.Lines = []kit.BStr{kit.BStr(l1), kit.BStr(l2)}
	}
	return c
}
