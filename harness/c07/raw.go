package c07

import (
	"math"
	"strings"

	"github.com/go-openapi/runtime/middleware"
	"github.com/go-openapi/runtime/middleware/header"
	"pgregory.net/rapid"

	"verif/harness/kit"
)

// RCase is the raw tier: arbitrary header bytes. Only totality and membership are asserted.
type RCase struct {
	Lines   []kit.BStr `json:"lines"`
	Offers  []kit.BStr `json:"offers"`
	Default kit.BStr   `json:"default,omitempty"`
	Enc     bool       `json:"enc,omitempty"` // Accept-Encoding / NegotiateContentEncoding instead of Accept
}

func strs(b []kit.BStr) []string {
	out := make([]string, len(b))
	for i, s := range b {
		out[i] = string(s)
	}
	return out
}

// CheckRaw: no header value makes negotiation or parsing panic; the result is one of the offers or the default
// (for encodings: an offer, "identity" or ""); parsed weights are numbers (never NaN or infinite, never negative).
func CheckRaw(c RCase) *kit.Violation {
	lines, offers := strs(c.Lines), strs(c.Offers)
	key := "Accept"
	if c.Enc {
		key = "Accept-Encoding"
	}
	req := request(key, lines)
	var got string
	what := "NegotiateContentType"
	if c.Enc {
		what = "NegotiateContentEncoding"
	}
	if v := kit.Guard(what, func() {
		if c.Enc {
			got = middleware.NegotiateContentEncoding(req, append([]string(nil), offers...))
		} else {
			got = middleware.NegotiateContentType(req, append([]string(nil), offers...), string(c.Default))
		}
	}); v != nil {
		return kit.Failf("%s=%q offers=%q: %s", key, lines, offers, v.Msg)
	}
	member := false
	for _, o := range offers {
		if o == got {
			member = true
		}
	}
	if c.Enc {
		member = member || got == "" || got == "identity"
	} else {
		member = member || got == string(c.Default)
	}
	if !member {
		return kit.Failf("NOT-AN-OFFER %s=%q offers=%q default=%q -> %q", key, lines, offers, string(c.Default), got)
	}
	if len(lines) == 0 && !c.Enc && len(offers) > 0 && got != offers[0] {
		return kit.Failf("NO-HEADER offers=%q -> %q, want the first offer", offers, got)
	}
	var specs []header.AcceptSpec
	h := req.Header
	if v := kit.Guard("header.ParseAccept", func() { specs = header.ParseAccept(h, key) }); v != nil {
		return kit.Failf("%s=%q: %s", key, lines, v.Msg)
	}
	for _, s := range specs {
		if math.IsNaN(s.Q) || math.IsInf(s.Q, 0) || s.Q < 0 {
			return kit.Failf("WEIGHT %s=%q: ParseAccept returned %+v: not a quality value", key, lines, s)
		}
	}
	if v := kit.Guard("header.ParseAccept2", func() { specs = header.ParseAccept2(h, key) }); v != nil {
		return kit.Failf("%s=%q: %s", key, lines, v.Msg)
	}
	for _, s := range specs {
		if math.IsNaN(s.Q) || math.IsInf(s.Q, 0) || s.Q < 0 {
			return kit.Failf("WEIGHT %s=%q: ParseAccept2 returned %+v: not a quality value", key, lines, s)
		}
	}
	if v := kit.Guard("header.ParseList", func() { _ = header.ParseList(h, key) }); v != nil {
		return kit.Failf("%s=%q: %s", key, lines, v.Msg)
	}
	if v := kit.Guard("header.ParseValueAndParams", func() { _, _ = header.ParseValueAndParams(h, key) }); v != nil {
		return kit.Failf("%s=%q: %s", key, lines, v.Msg)
	}
	return nil
}

// Hostile constants: unterminated quotes, dangling escapes, the digit counts of F5, the shapes of K1.
var rawConstants = []string{
	"", " ", ",", ";", "=", "\"", "\\", "q=", ";q=", ";q", "*/*", "*", "/", "a/b;q=", "a/b;q=\"", "a/b;x=\"", "a/b;x=\"\\", "a/b;x=\"\\\"",
	"a/b;q=0." + "9999999999999999999", "a/b;q=0." + "99999999999999999999999999999999999999999999999999999999999999999999999",
	"a/b;q=0.000000000000000000000000000000000000000000000000000000000000000000000000001", "a/b;q=1.9", "a/b;q=2", "a/b;q=-1", "a/b;q=1e3", "a/b;q=.",
	"a/b;xq=0.1, c/d;q=0.5", "*/*;q=0;ext=1, */*", "a/b;x=\"q=0.1\"", "a/b;x=\",\", c/d", "a/b;;q=0.5", "a/b,,c/d", "a/b ;q=0.5 , c/d", "\ta/b", "a/b\r\n", "a/b;q=0.5;q=0.7",
	"a/b;q =0.5", "a/b;q= 0.5", "a/b;=1", "a/b;x", "a/b;x;y;q=0.3", "a/b;q=0.5x", "A/B;Q=0.5", "gzip;q=0", "*;q=0.5", "identity;q=0, *;q=0", "\x00", "\xff\xfe", "a/b;x=\"\xff\"",
	"text/html,application/xhtml+xml,application/xml;q=0.9,image/avif,image/webp,*/*;q=0.8", "gzip, deflate, br",
}

var rawAlphabet = []byte{'a', 'b', '/', '*', ';', ',', '=', 'q', 'Q', '"', '\\', ' ', '\t', '0', '1', '9', '.', '-', '\r', '\n', 0, 0x7f, 0xff}

func genRawLine(t *rapid.T) string {
	switch rapid.IntRange(0, 9).Draw(t, "rawkind") {
	case 0, 1:
		return rapid.SampledFrom(rawConstants).Draw(t, "rawconst")
	case 2, 3, 4:
		// a structured header damaged at a few positions
		var lines []string
		if rapid.Bool().Draw(t, "rawenc") {
			lines = Lines(GenEnc(t).Ranges)
		} else {
			lines = Lines(Gen(t).Ranges)
		}
		s := strings.Join(lines, ",")
		b := []byte(s)
		n := rapid.IntRange(1, 4).Draw(t, "ndamage")
		for i := 0; i < n; i++ {
			at := rapid.IntRange(0, len(b)).Draw(t, "damageat")
			ch := rapid.SampledFrom(rawAlphabet).Draw(t, "damagech")
			switch rapid.IntRange(0, 2).Draw(t, "damagekind") {
			case 0:
				b = append(b[:at:at], append([]byte{ch}, b[at:]...)...)
			case 1:
				if at < len(b) {
					b = append(b[:at:at], b[at+1:]...)
				}
			default:
				if at < len(b) {
					b[at] = ch
				}
			}
		}
		return string(b)
	case 5, 6, 7:
		n := rapid.IntRange(0, 24).Draw(t, "rawlen")
		b := make([]byte, n)
		for i := range b {
			b[i] = rapid.SampledFrom(rawAlphabet).Draw(t, "rawch")
		}
		return string(b)
	default:
		return string(rapid.SliceOfN(rapid.Byte(), 0, 40).Draw(t, "rawbytes"))
	}
}

// GenRaw draws arbitrary header lines and an offer list (mostly plausible offers, sometimes arbitrary strings).
func GenRaw(t *rapid.T) RCase {
	var c RCase
	c.Enc = rapid.IntRange(0, 2).Draw(t, "enc") == 0
	nl := rapid.SampledFrom([]int{0, 1, 1, 1, 1, 2, 3}).Draw(t, "nlines")
	for i := 0; i < nl; i++ {
		c.Lines = append(c.Lines, kit.BStr(genRawLine(t)))
	}
	no := rapid.IntRange(0, 4).Draw(t, "noffers")
	for i := 0; i < no; i++ {
		switch {
		case rapid.IntRange(0, 5).Draw(t, "oddoffer") == 0:
			c.Offers = append(c.Offers, kit.BStr(genRawLine(t)))
		case c.Enc:
			c.Offers = append(c.Offers, kit.BStr(rapid.SampledFrom(codings).Draw(t, "coding")))
		default:
			c.Offers = append(c.Offers, kit.BStr(rapid.SampledFrom([]string{"a/b", "c/d", "text/plain", "application/json", "a/b;q=0.1", "text/plain; charset=utf-8", "*/*", "a/*"}).Draw(t, "offer")))
		}
	}
	if !c.Enc {
		c.Default = kit.BStr(rapid.SampledFrom([]string{"", "dflt/x", "a/b"}).Draw(t, "default"))
	}
	return c
}

// ClassifyRaw: non-trivial when some line holds bytes outside the header grammar's comfortable part.
func ClassifyRaw(c RCase) (bool, []string) {
	l := map[string]bool{}
	nt := false
	if c.Enc {
		l["Accept-Encoding"] = true
	} else {
		l["Accept"] = true
	}
	if len(c.Lines) == 0 {
		l["no header"] = true
	}
	if len(c.Lines) > 1 {
		l["several header lines"] = true
	}
	for _, bl := range c.Lines {
		s := string(bl)
		if strings.ContainsAny(s, "\"") {
			l["quote"] = true
			nt = true
			if strings.Count(s, "\"")%2 == 1 {
				l["odd number of quotes"] = true
			}
		}
		if strings.Contains(s, "\\") {
			l["backslash"] = true
			nt = true
		}
		if strings.Contains(s, "q=") || strings.Contains(s, "Q=") {
			l["contains q="] = true
			nt = true
		}
		for i := 0; i < len(s); i++ {
			if s[i] >= 0x80 || s[i] < 0x20 && s[i] != '\t' || s[i] == 0x7f {
				l["control or non-ASCII byte"] = true
				nt = true
				break
			}
		}
		run := 0
		for i := 0; i < len(s); i++ {
			if s[i] >= '0' && s[i] <= '9' {
				run++
				if run >= 19 {
					l["digit run >=19"] = true
				}
			} else {
				run = 0
			}
		}
		if s == "" {
			l["empty line"] = true
		}
	}
	return nt, labelSet(l)
}
