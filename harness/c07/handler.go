package c07

import (
	"encoding/json"
	"fmt"
	"io"
	"net/http"
	"net/http/httptest"
	"strings"

	"github.com/go-openapi/loads"
	"github.com/go-openapi/runtime"
	"github.com/go-openapi/runtime/middleware"
	"github.com/go-openapi/runtime/middleware/untyped"
	"pgregory.net/rapid"

	"verif/harness/kit"
)

// HOp is one GET operation /p<i> with its own produces list (empty: inherits the global list).
type HOp struct {
	Produces []string `json:"produces,omitempty"`
	// Code is the operation's declared success status (0: 200). A 204 operation negotiates like any other: the 406
	// clause speaks of the types the operation declares, not of whether a body follows.
	Code int `json:"code,omitempty"`
}

func (o HOp) code() int {
	if o.Code == 0 {
		return http.StatusOK
	}
	return o.Code
}

// HReq is one request: the operation it addresses and its Accept header (structure).
type HReq struct {
	Op     int     `json:"op"`
	Ranges []Range `json:"ranges"`
}

// HCase is the through-the-handler case: one API, several requests.
type HCase struct {
	Global  []string `json:"global,omitempty"`  // the description's top-level produces
	Default string   `json:"default,omitempty"` // API default produces ("" keeps application/json)
	Ops     []HOp    `json:"ops"`
	Reqs    []HReq   `json:"reqs"`
	// LateDefault: after the handler has been built the application assigns this value to the API's default produces
	// type. Whether the handler keeps the value it was built with or follows the API is not something the statement
	// decides; it has to be one or the other for every request, in the 406 decision and in the chosen type alike.
	LateDefault string `json:"late_default,omitempty"`
}

type jm = map[string]interface{}

var handlerTypes = []string{"application/json", "text/plain", "application/xml", "text/csv", "a/b", "ab/c", "text/x-y.z+json"}
var handlerParams = []string{"; charset=utf-8", ";version=1", ";q=0.1"}

func stamp(tag string) runtime.Producer {
	return runtime.ProducerFunc(func(w io.Writer, v interface{}) error {
		_, err := fmt.Fprintf(w, "[%s]%v", tag, v)
		return err
	})
}

func (c HCase) defaultType() string {
	if c.Default == "" {
		return runtime.JSONMime
	}
	return c.Default
}

// declared is the set of media types the operation can produce: its produces list (or the inherited one) plus the
// API's default type. explicit reports whether the default type is itself a declared entry.
func (c HCase) declared(op int) (offers []string, explicit bool) {
	return c.declaredWith(op, c.defaultType())
}

func (c HCase) declaredWith(op int, def string) (offers []string, explicit bool) {
	src := c.Ops[op].Produces
	if len(src) == 0 {
		src = c.Global
	}
	seen := map[string]bool{}
	for _, p := range src {
		if !seen[p] {
			seen[p] = true
			offers = append(offers, p)
		}
		if strings.EqualFold(p, def) {
			explicit = true
		}
	}
	if !explicit {
		offers = append(offers, def)
	}
	return offers, explicit
}

// admissible computes, from the structure, the offers that may be chosen: those matched at the maximal
// (weight, specificity). The order of produces inside a route is a map order, so every such offer is admissible;
// the API default is put last by the code (also when the description lists it), so it only wins when it is alone.
func admissible(ranges []Range, offers []string, def string, explicit bool) map[string]bool {
	return Admissible(ranges, offers, def, explicit)
}

// Admissible is exported for C08, which drives the same Accept structures through Respond.
func Admissible(ranges []Range, offers []string, def string, explicit bool) map[string]bool {
	out := map[string]bool{}
	if len(ranges) == 0 {
		for _, o := range offers {
			out[o] = true
		}
	} else {
		best, found := key{}, false
		keys := make([]key, len(offers))
		has := make([]bool, len(offers))
		for i, o := range offers {
			for _, r := range ranges {
				if r.Zero() || !r.matches(o) {
					continue
				}
				k := key{q: r.Weight(), spec: r.specificity()}
				if !has[i] || keys[i].less(k) {
					keys[i], has[i] = k, true
				}
			}
			if has[i] && (!found || best.less(keys[i])) {
				best, found = keys[i], true
			}
		}
		for i, o := range offers {
			if has[i] && keys[i] == best {
				out[o] = true
			}
		}
	}
	// Respond moves the API default behind every other declared type, whether or not the description lists it
	// itself ("its produces list plus the API's default type, last"): in a tie it only wins when it is alone.
	_ = explicit
	if len(out) > 1 {
		delete(out, def)
	}
	return out
}

// CheckHandler drives the requests through the full API handler: 406 exactly when the structure of the Accept
// header admits none of the declared types, and then the operation handler does not run; otherwise the handler
// runs and the Content-Type is an admissible offer.
func CheckHandler(c HCase) *kit.Violation {
	if len(c.Ops) == 0 {
		return nil
	}
	paths := jm{}
	for i, op := range c.Ops {
		o := jm{"operationId": fmt.Sprintf("op%d", i), "responses": jm{fmt.Sprint(op.code()): jm{"description": "ok"}}}
		if len(op.Produces) > 0 {
			o["produces"] = op.Produces
		}
		paths[fmt.Sprintf("/p%d", i)] = jm{"get": o}
	}
	spec := jm{"swagger": "2.0", "info": jm{"title": "t", "version": "1"}, "basePath": "/", "paths": paths}
	if len(c.Global) > 0 {
		spec["produces"] = c.Global
	}
	raw, _ := json.Marshal(spec)
	doc, err := loads.Analyzed(json.RawMessage(raw), "")
	if err != nil {
		return kit.Failf("harness: the generated description does not load: %v", err)
	}
	api := untyped.NewAPI(doc)
	for _, mt := range handlerTypes {
		api.RegisterProducer(mt, stamp(mt))
	}
	if c.Default != "" {
		api.DefaultProduces = c.Default
	}
	ran := make([]int, len(c.Ops))
	for i := range c.Ops {
		i := i
		api.RegisterOperation("get", fmt.Sprintf("/p%d", i), runtime.OperationHandlerFunc(func(interface{}) (interface{}, error) {
			ran[i]++
			return "V", nil
		}))
	}
	var h http.Handler
	if v := kit.Guard("middleware.NewContext/RoutesHandler", func() { h = middleware.NewContext(doc, api, nil).RoutesHandler(nil) }); v != nil {
		return v
	}
	if c.LateDefault != "" {
		api.DefaultProduces = c.LateDefault // the application changes its mind after the handler exists
	}
	// the readings under which every answer so far makes sense: the default type the handler was built with / the one
	// the API carries now
	type reading struct {
		def   string
		alive bool
		first string
	}
	readings := []*reading{{def: c.defaultType(), alive: true}}
	if c.LateDefault != "" && c.LateDefault != c.defaultType() {
		readings = append(readings, &reading{def: c.LateDefault, alive: true})
	}
	for ri, rq := range c.Reqs {
		if rq.Op < 0 || rq.Op >= len(c.Ops) {
			continue
		}
		for _, r := range rq.Ranges {
			if r.Sub == "" || (r.HasQ && r.Q.Free != "") {
				return kit.Failf("malformed case: request %d", ri)
			}
		}
		lines := Lines(rq.Ranges)
		req := httptest.NewRequest(http.MethodGet, fmt.Sprintf("/p%d", rq.Op), nil)
		if len(lines) > 0 {
			req.Header["Accept"] = lines
		}
		rec := httptest.NewRecorder()
		before := ran[rq.Op]
		if v := kit.Guard("API handler", func() { h.ServeHTTP(rec, req) }); v != nil {
			return kit.Failf("request %d Accept=%q: %s", ri, lines, v.Msg)
		}
		runs := ran[rq.Op] - before
		ct := rec.Result().Header.Get("Content-Type")
		judge := func(def string) string {
			offers, explicit := c.declaredWith(rq.Op, def)
			adm := admissible(rq.Ranges, offers, def, explicit)
			desc := fmt.Sprintf("request %d GET /p%d declared=%q (API default %q) Accept=%q -> status %d, Content-Type %q, body %q, handler ran %d time(s)",
				ri, rq.Op, offers, def, lines, rec.Code, ct, clipStr(rec.Body.String(), 200), runs)
			if len(adm) == 0 {
				if rec.Code != http.StatusNotAcceptable {
					return fmt.Sprintf("MISSING-406 %s; the header admits none of the declared types", desc)
				}
				if runs != 0 {
					return fmt.Sprintf("HANDLER-RAN-ON-406 %s", desc)
				}
				return ""
			}
			if rec.Code == http.StatusNotAcceptable {
				return fmt.Sprintf("SPURIOUS-406 %s; admissible: %v", desc, keysOf(adm, offers))
			}
			if runs != 1 {
				return fmt.Sprintf("HANDLER-NOT-RUN %s; admissible: %v", desc, keysOf(adm, offers))
			}
			if rec.Code != c.Ops[rq.Op].code() {
				return fmt.Sprintf("STATUS %s; want %d", desc, c.Ops[rq.Op].code())
			}
			if !adm[ct] {
				return fmt.Sprintf("CONTENT-TYPE %s; admissible: %v", desc, keysOf(adm, offers))
			}
			return ""
		}
		anyAlive := false
		for _, rd := range readings {
			if !rd.alive {
				continue
			}
			if msg := judge(rd.def); msg != "" {
				rd.alive, rd.first = false, msg
			} else {
				anyAlive = true
			}
		}
		if !anyAlive {
			if len(readings) == 1 {
				return kit.Failf("%s", readings[0].first)
			}
			return kit.Failf("DEFAULT-TYPE-INCONSISTENT: the API's default produces type was %q when the handler was built and is %q since; no single reading explains the answers so far.\n with the type it was built with: %s\n with the type the API carries now: %s",
				c.defaultType(), c.LateDefault, readings[0].first, readings[1].first)
		}
	}
	return nil
}

func clipStr(s string, n int) string {
	if len(s) > n {
		return s[:n] + "…"
	}
	return s
}

func genProduces(t *rapid.T, min, max int) []string {
	n := rapid.IntRange(min, max).Draw(t, "nproduces")
	var out []string
	for i := 0; i < n; i++ {
		p := rapid.SampledFrom(handlerTypes).Draw(t, "ptype")
		if rapid.IntRange(0, 3).Draw(t, "pparam") == 0 {
			p += rapid.SampledFrom(handlerParams).Draw(t, "pp")
		}
		out = append(out, p)
	}
	return out
}

// GenHandler draws one API (1-3 operations, own or inherited produces, default type JSON or another) and
// 6-12 requests with structured Accept headers aimed at the declared types.
func GenHandler(t *rapid.T) HCase {
	var c HCase
	if rapid.IntRange(0, 2).Draw(t, "global") == 0 {
		c.Global = genProduces(t, 1, 3)
	}
	if rapid.IntRange(0, 3).Draw(t, "otherdefault") == 0 {
		c.Default = rapid.SampledFrom([]string{"text/plain", "application/xml"}).Draw(t, "default")
	}
	if rapid.IntRange(0, 3).Draw(t, "late-default") == 0 {
		c.LateDefault = rapid.SampledFrom([]string{"text/plain", "application/xml", "application/json", "text/csv"}).Draw(t, "late-default-type")
		if c.LateDefault == c.defaultType() {
			c.LateDefault = ""
		}
	}
	nops := rapid.IntRange(1, 3).Draw(t, "nops")
	for i := 0; i < nops; i++ {
		var op HOp
		if rapid.IntRange(0, 4).Draw(t, "inherit") != 0 {
			op.Produces = genProduces(t, 1, 4)
		}
		op.Code = rapid.SampledFrom([]int{0, 0, 0, 201, 204, 204}).Draw(t, "success-code")
		c.Ops = append(c.Ops, op)
	}
	nreq := rapid.IntRange(6, 12).Draw(t, "nreq")
	for i := 0; i < nreq; i++ {
		rq := HReq{Op: rapid.IntRange(0, nops-1).Draw(t, "op")}
		offers, _ := c.declared(rq.Op)
		switch rapid.IntRange(0, 9).Draw(t, "acceptkind") {
		case 0:
			// no header
		case 1, 2, 3:
			// aimed away from the declared types: other vocabulary, or declared types refused with q=0
			n := rapid.IntRange(1, 3).Draw(t, "nranges")
			qc := newQCtx()
			for j := 0; j < n; j++ {
				var r Range
				if rapid.Bool().Draw(t, "refuse") {
					r = genRangeFor(t, qc, offers)
					r.HasQ = true
					r.Q = qc.genQ(t, 0)
				} else {
					r = genRangeFor(t, qc, []string{rapid.SampledFrom([]string{"image/png", "tex/plain", "a/bc", "application/jso", "other/x"}).Draw(t, "foreign")})
					if r.Type == "*" {
						r.Type, r.Sub = "image", "*"
					}
				}
				r.NL = j > 0 && rapid.IntRange(0, 3).Draw(t, "newline") == 0
				rq.Ranges = append(rq.Ranges, r)
			}
		default:
			rq.Ranges = genRanges(t, offers, 4)
		}
		c.Reqs = append(c.Reqs, rq)
	}
	return c
}

// ClassifyHandler: non-trivial when some request is refused (406) or its choice is decided by weights,
// specificity or parameters.
func ClassifyHandler(c HCase) (bool, []string) {
	l := map[string]bool{}
	nt := false
	if len(c.Global) > 0 {
		l["global produces"] = true
	}
	if c.Default != "" {
		l["API default is not JSON"] = true
	}
	if c.LateDefault != "" {
		l["API default type reassigned after the handler was built"] = true
	}
	for i, op := range c.Ops {
		if len(op.Produces) == 0 {
			l["operation inherits produces"] = true
		}
		offers, explicit := c.declared(i)
		if explicit {
			l["default type declared explicitly"] = true
		}
		for _, o := range offers {
			if strings.Contains(o, ";") {
				l["produces entry with parameters"] = true
			}
		}
	}
	for _, rq := range c.Reqs {
		if rq.Op < 0 || rq.Op >= len(c.Ops) {
			continue
		}
		offers, explicit := c.declared(rq.Op)
		adm := admissible(rq.Ranges, offers, c.defaultType(), explicit)
		rl := map[string]bool{}
		longQ, zeroQ := rangeLabels(rq.Ranges, rl)
		for _, k := range []string{"parameter before q", "extension parameter after q", "several header lines", "no header", "q=0 range", "parameter name ends in q", "quoted value with , ; or q="} {
			if rl[k] {
				l[k] = true
			}
		}
		switch {
		case len(adm) == 0:
			l["406 expected"] = true
			if c.Ops[rq.Op].code() == http.StatusNoContent {
				l["406 expected of an operation that answers 204"] = true
			}
			nt = true
			if zeroQ {
				l["406 because of q=0"] = true
			}
		case len(rq.Ranges) == 0:
		case len(adm) == 1:
			l["decisive Accept"] = true
			if len(offers) > 1 {
				nt = true
			}
			if adm[c.defaultType()] && !explicit {
				l["only the API default is admitted"] = true
			}
		default:
			l["several admissible offers"] = true
		}
		if longQ {
			nt = true
		}
	}
	return nt, labelSet(l)
}
