package c07

import (
	"math"

	"github.com/go-openapi/runtime/middleware"
	"pgregory.net/rapid"

	"verif/harness/kit"
)

// ECase is a structured Accept-Encoding case: Ranges hold content-codings (Sub == "", Type "*" is the wildcard).
type ECase struct {
	Ranges []Range  `json:"ranges"`
	Offers []string `json:"offers"`
}

var codings = []string{"gzip", "br", "deflate", "identity", "x-gzip", "compress", "zstd"}

func (r Range) matchesCoding(offer string) bool {
	return r.Type == "*" || r.Type == offer
}

// CheckEnc judges NegotiateContentEncoding.
//
// What the statement fixes for Accept-Encoding: only an offer (or the function's "nothing acceptable" answers "" and
// "identity") is returned, no panic, a q=0 coding never selects an offer, and a smaller weight never outranks a
// larger one: the result is an offer matched at the maximal positive weight. Among several offers matched at that
// weight the statement's tie rule (more specific range, then offer order) and the function's documentation (offer
// order) disagree when "*" ties with a named coding; there both are accepted. When all maximal pairs have the same
// specificity the earliest offer is demanded.
func CheckEnc(c ECase) *kit.Violation {
	for _, r := range c.Ranges {
		if r.Sub != "" || (r.HasQ && r.Q.Free != "") {
			return kit.Failf("malformed case: content-codings have no subtype and no free-text weight here")
		}
	}
	lines := Lines(c.Ranges)
	req := request("Accept-Encoding", lines)
	var got string
	if v := kit.Guard("NegotiateContentEncoding", func() {
		got = middleware.NegotiateContentEncoding(req, append([]string(nil), c.Offers...))
	}); v != nil {
		return kit.Failf("Accept-Encoding=%q offers=%q: %s", lines, c.Offers, v.Msg)
	}
	maxQ := "0."
	for _, o := range c.Offers {
		for _, r := range c.Ranges {
			if r.matchesCoding(o) && r.Weight() > maxQ {
				maxQ = r.Weight()
			}
		}
	}
	desc := func() string { return kit.Failf("Accept-Encoding=%q offers=%q -> %q", lines, c.Offers, got).Msg }
	if maxQ == "0." {
		// nothing acceptable: no header, nothing matches, or only q=0 matches
		if got != "" && got != "identity" {
			return kit.Failf("ENCODING %s: nothing is acceptable, want \"\" or \"identity\"", desc())
		}
		return nil
	}
	// offers matched at the maximal weight, and the specificities involved
	firstAny, firstExact := -1, -1
	star, named := false, false
	admissible := map[string]bool{}
	for i, o := range c.Offers {
		for _, r := range c.Ranges {
			if !r.matchesCoding(o) || r.Weight() != maxQ {
				continue
			}
			admissible[o] = true
			if firstAny < 0 {
				firstAny = i
			}
			if r.Type == "*" {
				star = true
			} else {
				named = true
				if firstExact < 0 {
					firstExact = i
				}
			}
		}
	}
	if !admissible[got] {
		return kit.Failf("ENCODING %s: the maximal weight %s is carried by %v only", desc(), maxQ, keysOf(admissible, c.Offers))
	}
	want := map[string]bool{c.Offers[firstAny]: true}
	if star && named {
		want[c.Offers[firstExact]] = true
	}
	if !want[got] {
		return kit.Failf("ENCODING-TIE %s: among the offers of weight %s the earliest (or the one named explicitly) is %v", desc(), maxQ, keysOf(want, c.Offers))
	}
	// the parser sees the same list
	specs, v := parseAccept("Accept-Encoding", lines)
	if v != nil {
		return kit.Failf("Accept-Encoding=%q: %s", lines, v.Msg)
	}
	if len(specs) != len(c.Ranges) {
		return kit.Failf("PARSE Accept-Encoding=%q: ParseAccept returned %d codings %+v, the header holds %d", lines, len(specs), specs, len(c.Ranges))
	}
	for i, r := range c.Ranges {
		wq := r.Float()
		if specs[i].Value != r.Value() || math.IsNaN(specs[i].Q) || math.Abs(specs[i].Q-wq) > 2e-4 {
			return kit.Failf("PARSE Accept-Encoding=%q: coding %d parsed as %+v, want {%s %v}", lines, i, specs[i], r.Value(), wq)
		}
	}
	if v := scribbleSpecs("Accept-Encoding", lines, specs); v != nil {
		return v
	}
	var again string
	if v := kit.Guard("NegotiateContentEncoding", func() {
		again = middleware.NegotiateContentEncoding(request("Accept-Encoding", lines), append([]string(nil), c.Offers...))
	}); v != nil {
		return v
	}
	if again != got {
		return kit.Failf("ENCODING-AFTER-SCRIBBLE %s: after a caller changed the slice ParseAccept had returned for this header, the selection is %q, before it was %q", desc(), again, got)
	}
	return nil
}

func keysOf(m map[string]bool, order []string) []string {
	var out []string
	seen := map[string]bool{}
	for _, o := range order {
		if m[o] && !seen[o] {
			out = append(out, o)
			seen[o] = true
		}
	}
	return out
}

// GenEnc draws codings with weights, whitespace and line breaks, and an offer list.
func GenEnc(t *rapid.T) ECase {
	var c ECase
	qc := newQCtx()
	no := rapid.IntRange(0, 4).Draw(t, "noffers")
	for i := 0; i < no; i++ {
		c.Offers = append(c.Offers, rapid.SampledFrom(codings).Draw(t, "offer"))
	}
	n := rapid.IntRange(0, 4).Draw(t, "nranges")
	for i := 0; i < n; i++ {
		r := Range{}
		switch {
		case rapid.IntRange(0, 4).Draw(t, "star") == 0:
			r.Type = "*"
		case len(c.Offers) > 0 && rapid.IntRange(0, 3).Draw(t, "aim") != 0:
			r.Type = c.Offers[rapid.IntRange(0, len(c.Offers)-1).Draw(t, "aimi")]
		default:
			r.Type = rapid.SampledFrom(codings).Draw(t, "coding")
		}
		r.HasQ = rapid.IntRange(0, 3).Draw(t, "hasq") != 0
		if r.HasQ {
			r.Q = qc.genQ(t, genMilli(t))
			if i > 0 && c.Ranges[0].HasQ && rapid.IntRange(0, 2).Draw(t, "sameq") == 0 {
				r.Q = qc.genQ(t, c.Ranges[0].Q.Milli)
			}
		}
		r.WS = genWS(t, 4)
		r.NL = i > 0 && rapid.IntRange(0, 3).Draw(t, "newline") == 0
		c.Ranges = append(c.Ranges, r)
	}
	return c
}

// ClassifyEnc: non-trivial like the media type tier (ties, "*" against a named coding, long weights, q=0).
func ClassifyEnc(c ECase) (bool, []string) {
	l := map[string]bool{}
	longQ, zeroQ := rangeLabels(c.Ranges, l)
	nt := longQ || zeroQ
	maxQ := "0."
	star, named := false, false
	byQ := map[string]map[string]bool{}
	for _, o := range c.Offers {
		for _, r := range c.Ranges {
			if !r.matchesCoding(o) {
				continue
			}
			if r.Weight() > maxQ {
				maxQ = r.Weight()
			}
			if r.Zero() {
				continue
			}
			if byQ[r.Weight()] == nil {
				byQ[r.Weight()] = map[string]bool{}
			}
			byQ[r.Weight()][o] = true
			if r.Type == "*" {
				star = true
			} else {
				named = true
			}
		}
	}
	for _, os := range byQ {
		if len(os) >= 2 {
			l["equal q: >=2 offers"] = true
			nt = true
		}
	}
	if star && named {
		l["* competes with a named coding"] = true
		nt = true
	}
	switch {
	case len(c.Ranges) == 0:
	case maxQ == "0.":
		l["nothing acceptable"] = true
	default:
		l["selects an offer"] = true
	}
	if len(c.Offers) == 0 {
		l["no offers"] = true
	}
	return nt, labelSet(l)
}
