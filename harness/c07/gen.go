package c07

import (
	"strings"

	"pgregory.net/rapid"
)

var (
	// the names with capitals have no lower-case twin here: offers and ranges spell them identically (what a range in
	// another letter case selects is not something the statement decides)
	typeVocab = []string{"text", "application", "a", "ab", "tex", "x-t", "Image"}
	subVocab  = []string{"plain", "json", "b", "bc", "xml", "x-y.z+json", "vnd.a+b", "vnd.Acme.v1+json", "PNG"}

	// parameter names before q: ordinary ones and names that end in / start with "q"
	paramNames = []string{"charset", "level", "version", "v", "foo", "xq", "freq", "q2", "qs", "Xq", "seq", "q-x"}
	extNames   = []string{"ext", "foo", "xq", "level", "q2", "mq", "x", "Qx"}
	tokenVals  = []string{"utf-8", "1", "2.0", "x", "0.3", "q", "0", "a+b", "*", "q1"}
	// quoted-string contents (unescaped); hostile to a byte-wise scan for "q=" / "," / ";"
	quotedVals = []string{"quoted", "a b", "a,b", "q=0.1", "x;q=0", ", */*;q=1", "a\"b", "a\\", "", "text/html", ",", ";q=0", "q=", "a/b;q=1,c/d", "\"", ";", "\t"}
	quoteAlpha = []byte{'a', ',', ';', '=', 'q', '"', '\\', ' ', '/', '*', '0', '.', '1'}

	owsVocab = []string{"", "", "", " ", " ", "  ", "\t", " \t ", "\r\n ", "\n", "\r\n\t"} // the last three: a folded header line as a hand-built http.Header or a lenient front end delivers it (the parser counts CR and LF as white space)

	offerParams = []string{"; charset=utf-8", ";version=2", ";q=0.1", "; a=\"b,c\"", ";charset=utf-8;v=1", " ; charset=utf-8", "\t;v=2"} // the last two: white space in front of the semicolon (r10)
)

func quote(s string) string {
	var b strings.Builder
	b.WriteByte('"')
	for i := 0; i < len(s); i++ {
		if s[i] == '"' || s[i] == '\\' {
			b.WriteByte('\\')
		}
		b.WriteByte(s[i])
	}
	b.WriteByte('"')
	return b.String()
}

func genValue(t *rapid.T) string {
	switch rapid.IntRange(0, 9).Draw(t, "valkind") {
	case 0, 1, 2, 3:
		return rapid.SampledFrom(tokenVals).Draw(t, "tokval")
	case 4, 5, 6, 7:
		return quote(rapid.SampledFrom(quotedVals).Draw(t, "qval"))
	default:
		n := rapid.IntRange(0, 8).Draw(t, "qlen")
		b := make([]byte, n)
		for i := range b {
			b[i] = rapid.SampledFrom(quoteAlpha).Draw(t, "qc")
		}
		return quote(string(b))
	}
}

func genParams(t *rapid.T, names []string, max int, flags bool) []Param {
	n := rapid.SampledFrom([]int{0, 0, 0, 1, 1, 2}).Draw(t, "nparam")
	if n > max {
		n = max
	}
	var ps []Param
	for i := 0; i < n; i++ {
		p := Param{N: rapid.SampledFrom(names).Draw(t, "pname")}
		if flags && rapid.IntRange(0, 3).Draw(t, "flag") == 0 {
			p.Flag = true
		} else {
			p.V = genValue(t)
		}
		ps = append(ps, p)
	}
	return ps
}

var gridCommon = []int{0, 0, 1, 100, 300, 500, 500, 501, 700, 999, 1000, 1000}

func genMilli(t *rapid.T) int {
	if rapid.IntRange(0, 11).Draw(t, "qaboveone") == 0 {
		return rapid.SampledFrom([]int{1001, 1100, 1500, 1500, 1999}).Draw(t, "qabove")
	}
	if rapid.IntRange(0, 3).Draw(t, "qgrid") == 0 {
		return rapid.IntRange(0, 1000).Draw(t, "qany")
	}
	return rapid.SampledFrom(gridCommon).Draw(t, "qcommon")
}

// digit counts aimed at the constants of the code: 3 (grammar), 15-20 (int64 overflow at 19), 60-80 (+Inf), up to 400
var padVocab = []int{0, 0, 0, 1, 2, 3, 9, 12, 14, 15, 16, 17, 18, 19, 20, 30, 60, 70, 75, 80, 200, 397}

// qctx keeps the weights of one case within the tolerance of the design: distinct values differ by at least
// 1e-3 - 1e-4 and equal grid points are equal as decimals, because every use of a grid point in the case carries the
// same tail digits (only the value-neutral trailing zeros, the leading zero and the name vary).
type qctx struct {
	tails map[int][2]string // milli -> (gap as unary zeros, tail)
}

func newQCtx() *qctx { return &qctx{tails: map[int][2]string{}} }

func (c *qctx) genQ(t *rapid.T, milli int) QV {
	q := QV{Milli: milli}
	if rapid.IntRange(0, 7).Draw(t, "upperQ") == 0 {
		q.Name = "Q"
	}
	q.Pad = rapid.SampledFrom(padVocab).Draw(t, "pad")
	if q.Pad > 20 && rapid.Bool().Draw(t, "padany") {
		q.Pad = rapid.IntRange(0, 397).Draw(t, "padn")
	}
	switch {
	case milli == 0:
		// zero, or (one choice per case, so that such weights are equal among themselves) a positive weight below the
		// grid: 0.0001 ... 0.000000000001. It is not zero: the range takes part, outranked by every weight of the grid (r7)
		gt, ok := c.tails[0]
		if !ok {
			if rapid.IntRange(0, 3).Draw(t, "tiny-positive") == 0 {
				gt[1] = rapid.SampledFrom([]string{"1", "5", "9", "04", "09", "0001", "00009", "000000001"}).Draw(t, "tiny") // down to 1e-12
			}
			c.tails[0] = gt
		}
		if gt[1] != "" {
			q.Tail = gt[1]
		} else {
			q.Dot = rapid.IntRange(0, 3).Draw(t, "dot") == 0
		}
	case milli == 1000:
		q.Dot = rapid.IntRange(0, 3).Draw(t, "dot") == 0
	default:
		gt, ok := c.tails[milli]
		if !ok {
			if rapid.IntRange(0, 2).Draw(t, "tail") == 0 {
				gt[0] = strings.Repeat("0", rapid.SampledFrom([]int{3, 3, 4, 9, 12, 15, 16, 20, 60}).Draw(t, "gap"))
				n := rapid.SampledFrom([]int{1, 1, 2, 5, 12, 16, 40, 70, 300}).Draw(t, "taillen")
				switch rapid.IntRange(0, 2).Draw(t, "tailkind") {
				case 0:
					gt[1] = strings.Repeat("9", n)
				case 1:
					gt[1] = strings.Repeat("0", n-1) + "1"
				default:
					gt[1] = rapid.StringOfN(rapid.RuneFrom([]rune("0123456789")), n, n, n).Draw(t, "taildigits")
				}
			}
			c.tails[milli] = gt
		}
		q.Gap, q.Tail = len(gt[0]), gt[1]
	}
	if milli < 1000 {
		q.NoLead = rapid.IntRange(0, 5).Draw(t, "nolead") == 0
	}
	return q
}

func genWS(t *rapid.T, n int) []string {
	if rapid.IntRange(0, 2).Draw(t, "plainws") == 0 {
		return nil
	}
	ws := make([]string, n)
	for i := range ws {
		ws[i] = rapid.SampledFrom(owsVocab).Draw(t, "ows")
	}
	for len(ws) > 0 && ws[len(ws)-1] == "" {
		ws = ws[:len(ws)-1]
	}
	return ws
}

func genOfferType(t *rapid.T) (string, string) {
	return rapid.SampledFrom(typeVocab).Draw(t, "oty"), rapid.SampledFrom(subVocab).Draw(t, "osub")
}

func genOffers(t *rapid.T, max int) []string {
	n := rapid.IntRange(0, max+3).Draw(t, "noffers") // skewed away from the empty list
	if n > max {
		n = 1 + (n-max)%max
	}
	var offers []string
	for i := 0; i < n; i++ {
		if len(offers) > 0 && rapid.IntRange(0, 5).Draw(t, "dup") == 0 {
			// duplicate of an earlier offer, possibly with other parameters
			o := offerType(offers[rapid.IntRange(0, len(offers)-1).Draw(t, "dupi")])
			if rapid.Bool().Draw(t, "dupparam") {
				o += rapid.SampledFrom(offerParams).Draw(t, "op")
			}
			offers = append(offers, o)
			continue
		}
		ty, sub := genOfferType(t)
		o := ty + "/" + sub
		if rapid.IntRange(0, 3).Draw(t, "oparam") == 0 {
			o += rapid.SampledFrom(offerParams).Draw(t, "op")
		}
		offers = append(offers, o)
	}
	return offers
}

// genRangeFor draws a media range; most of the time it is aimed at one of the offers.
func genRangeFor(t *rapid.T, qc *qctx, offers []string) Range {
	var r Range
	aim := ""
	if len(offers) > 0 && rapid.IntRange(0, 9).Draw(t, "aim") < 7 {
		aim = offerType(offers[rapid.IntRange(0, len(offers)-1).Draw(t, "aimi")])
	}
	ty, sub := "", ""
	if aim != "" {
		parts := strings.SplitN(aim, "/", 2)
		ty, sub = parts[0], parts[1]
	} else {
		ty, sub = genOfferType(t)
	}
	switch rapid.IntRange(0, 9).Draw(t, "rangekind") {
	case 0, 1:
		r.Type, r.Sub = "*", "*"
	case 2, 3, 4:
		r.Type, r.Sub = ty, "*"
	default:
		r.Type, r.Sub = ty, sub
	}
	r.Params = genParams(t, paramNames, 2, false)
	r.HasQ = rapid.IntRange(0, 3).Draw(t, "hasq") != 0
	if r.HasQ {
		r.Q = qc.genQ(t, genMilli(t))
		r.Ext = genParams(t, extNames, 2, true)
	}
	r.WS = genWS(t, 2+2*(len(r.Params)+len(r.Ext)+1))
	return r
}

// genEmptyElements switches on empty list elements ("a/b,,c/d", ",c/d") in the structured generators: RFC 7230
// section 7 obliges recipients to ignore them. ParseAccept used to drop the rest of the header line there
// (finding F38, repaired in /repo); the class is generated since.
const genEmptyElements = true

// GenRanges is exported for C08.
func GenRanges(t *rapid.T, offers []string, max int) []Range { return genRanges(t, offers, max) }

func genRanges(t *rapid.T, offers []string, max int) []Range {
	qc := newQCtx()
	n := rapid.IntRange(0, max+3).Draw(t, "nranges") // skewed away from "no header"
	if n > max {
		n = 1 + (n-max)%max
	}
	var rs []Range
	for i := 0; i < n; i++ {
		r := genRangeFor(t, qc, offers)
		if i > 0 {
			r.NL = rapid.IntRange(0, 3).Draw(t, "newline") == 0
		}
		if genEmptyElements {
			r.Empty = rapid.SampledFrom([]int{0, 0, 0, 1, 2}).Draw(t, "empty")
		}
		if i == 0 || r.NL {
			r.Blank = rapid.SampledFrom([]int{0, 0, 0, 0, 1, 2}).Draw(t, "blank")
		}
		// equal weights make the specificity and offer-order rules decide
		if i > 0 && r.HasQ && rs[0].HasQ && rapid.IntRange(0, 2).Draw(t, "sameq") == 0 {
			keep := r.Q
			r.Q = qc.genQ(t, rs[0].Q.Milli)
			r.Q.Name = keep.Name
		}
		rs = append(rs, r)
	}
	return rs
}

func genDefault(t *rapid.T, offers []string) string {
	switch rapid.IntRange(0, 3).Draw(t, "defkind") {
	case 0:
		return ""
	case 1:
		if len(offers) > 0 {
			return offers[len(offers)-1]
		}
	}
	return rapid.SampledFrom([]string{"dflt/x", "application/json", "a/b"}).Draw(t, "def")
}

// Gen is the structured tier.
func Gen(t *rapid.T) Case {
	offers := genOffers(t, 5)
	return Case{Offers: offers, Ranges: genRanges(t, offers, 5), Default: genDefault(t, offers)}
}

// GenQOrder draws two ranges that match two distinct offers with q1 < q2 (rendered with any number of digits),
// plus noise ranges that match neither: the offer of the larger weight must win whatever the order and the
// specificity of the ranges.
func GenQOrder(t *rapid.T) Case {
	t1 := rapid.SampledFrom(typeVocab).Draw(t, "t1")
	t2 := rapid.SampledFrom(typeVocab).Filter(func(s string) bool { return s != t1 }).Draw(t, "t2")
	o1 := t1 + "/" + rapid.SampledFrom(subVocab).Draw(t, "s1")
	o2 := t2 + "/" + rapid.SampledFrom(subVocab).Draw(t, "s2")
	m2 := rapid.IntRange(1, 1000).Draw(t, "m2")
	if rapid.IntRange(0, 5).Draw(t, "m2aboveone") == 0 {
		m2 = rapid.IntRange(1001, 1999).Draw(t, "m2above")
	}
	m1 := rapid.IntRange(0, m2-1).Draw(t, "m1")
	if rapid.IntRange(0, 2).Draw(t, "adjacent") == 0 {
		m1 = m2 - 1
	}
	qc := newQCtx()
	mk := func(o string, kinds int, milli int, label string) Range {
		parts := strings.SplitN(o, "/", 2)
		r := Range{Type: parts[0], Sub: parts[1], HasQ: true}
		switch rapid.IntRange(0, kinds-1).Draw(t, label+"kind") {
		case 1:
			r.Sub = "*"
		case 2:
			r.Type, r.Sub = "*", "*"
		}
		r.Q = qc.genQ(t, milli)
		if milli == 1000 && rapid.IntRange(0, 3).Draw(t, label+"noq") == 0 {
			r.HasQ = false
		}
		r.Params = genParams(t, paramNames, 1, false)
		if r.HasQ {
			r.Ext = genParams(t, extNames, 1, true)
		}
		r.WS = genWS(t, 6)
		return r
	}
	low := mk(o1, 3, m1, "low")
	high := mk(o2, 2, m2, "high")
	rs := []Range{low, high}
	if rapid.Bool().Draw(t, "highfirst") {
		rs = []Range{high, low}
	}
	nn := rapid.IntRange(0, 2).Draw(t, "nnoise")
	for i := 0; i < nn; i++ {
		n := Range{Type: "noise", Sub: rapid.SampledFrom([]string{"x", "*"}).Draw(t, "noisesub"), HasQ: true, Q: qc.genQ(t, genMilli(t))}
		at := rapid.IntRange(0, len(rs)).Draw(t, "noiseat")
		rs = append(rs[:at:at], append([]Range{n}, rs[at:]...)...)
	}
	for i := range rs {
		rs[i].NL = i > 0 && rapid.IntRange(0, 3).Draw(t, "newline") == 0
	}
	offers := []string{o1, o2}
	if rapid.Bool().Draw(t, "offerswap") {
		offers = []string{o2, o1}
	}
	if rapid.IntRange(0, 2).Draw(t, "third") == 0 {
		offers = append(offers, "other/z")
	}
	if rapid.IntRange(0, 3).Draw(t, "oparam") == 0 {
		i := rapid.IntRange(0, 1).Draw(t, "oparami")
		offers[i] += rapid.SampledFrom(offerParams).Draw(t, "op")
	}
	return Case{Ranges: rs, Offers: offers, Default: genDefault(t, nil)}
}
