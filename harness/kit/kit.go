// Package kit is the shared case protocol of the verification harness.
//
// Every property package describes its checks as Prop values: a JSON-serialisable case type, a rapid
// generator for it, a pure Check that runs go-openapi/runtime against an explicit oracle, and a Classify
// function that says whether a case is non-trivial and which labels it carries. kit wires that to
// rapid.Check, keeps the evidence counters, writes replay files and handles the known-findings register.
//
// Environment (set by /verif/check):
//
//	VERIF_MODE    gen | regress | replay          (default gen)
//	VERIF_TIER    quick | thorough                (default quick)
//	VERIF_SEED    integer                         (default 1; 0 is remapped because rapid reads 0 as "random")
//	VERIF_SHARD   shard index                     (default 0)
//	VERIF_ONLY    comma separated sub-check names (default all)
//	VERIF_OUT     directory for partial evidence  (default $VERIF_ROOT/.build/out)
//	VERIF_ROOT    /verif
//	VERIF_REPLAY  replay file (mode replay)
//	VERIF_SCALE   float multiplier on case counts (development only)
package kit

import (
	"encoding/binary"
	"encoding/json"
	"flag"
	"fmt"
	"hash/fnv"
	"os"
	"path/filepath"
	"regexp"
	"runtime/debug"
	"sort"
	"strconv"
	"strings"
	"testing"
	"time"

	"pgregory.net/rapid"
)

// Violation is a failed oracle comparison.
type Violation struct {
	Msg string
}

func (v *Violation) Error() string { return v.Msg }

// Failf builds a violation.
func Failf(format string, args ...interface{}) *Violation {
	return &Violation{Msg: fmt.Sprintf(format, args...)}
}

// Guard runs f (a call into the code under test) and reports a panic as a violation.
func Guard(what string, f func()) (v *Violation) {
	defer func() {
		if rec := recover(); rec != nil {
			v = Failf("PANIC in %s: %v\n%s", what, rec, shortStack())
		}
	}()
	f()
	return nil
}

// shortStack returns the frames between the panic and the harness, without the runtime preamble.
func shortStack() string {
	lines := strings.Split(string(debug.Stack()), "\n")
	var out []string
	seenPanic := false
	for i := 0; i+1 < len(lines); i++ {
		l := lines[i]
		if strings.HasPrefix(l, "panic(") {
			seenPanic = true
			out = out[:0]
			i++
			continue
		}
		if !seenPanic || strings.HasPrefix(l, "goroutine ") {
			continue
		}
		if strings.HasPrefix(l, "verif/harness/kit.") || strings.HasPrefix(l, "pgregory.net/rapid.") || strings.HasPrefix(l, "testing.") {
			break
		}
		out = append(out, l)
		if len(out) >= 16 {
			break
		}
	}
	return normStack(strings.Join(out, "\n"))
}

var (
	reArgs = regexp.MustCompile(`\((?:0x[0-9a-f]+\??|\{[^)]*\}|[^()]*0x[0-9a-f]+[^()]*)\)`)
	reOff  = regexp.MustCompile(` \+0x[0-9a-f]+`)
	reGo   = regexp.MustCompile(`goroutine \d+`)
)

// normStack removes addresses, pc offsets and goroutine ids: rapid only shrinks a failure whose message is
// identical when the case is run again.
func normStack(st string) string { return NormStack(st) }

// NormStack removes addresses, pc offsets and goroutine ids from a stack dump.
func NormStack(st string) string {
	st = reArgs.ReplaceAllString(st, "(...)")
	st = reOff.ReplaceAllString(st, "")
	return reGo.ReplaceAllString(st, "goroutine N")
}

// Prop is one generated check of a property.
type Prop[C any] struct {
	ID       string // property id, e.g. C05
	Name     string // sub-check name, unique within the property
	Rule     string // how cases are generated and what makes one non-trivial
	Quick    int    // cases in the quick tier
	Thorough int    // cases per shard in the thorough tier
	Steps    int    // rapid.steps for state machines (0: leave default)
	Gen      func(t *rapid.T) C
	Check    func(c C) *Violation
	Classify func(c C) (nontrivial bool, labels []string)
	// Exclude names the known finding (id in known_findings.json) whose class the case belongs to, or "".
	// It is consulted only for findings listed with status "known".
	Exclude func(c C) string
	// Enumerate, when set, replaces random generation in the thorough tier for shard 0 with a complete sweep.
	Enumerate func(yield func(c C) bool)
	// SampleLimit bounds the size of a sample written to the evidence file (default 1500 bytes).
	SampleLimit int
}

// Runner hides the case type.
type Runner interface {
	PropID() string
	CheckName() string
	runGen(t *testing.T)
	runRegress(t *testing.T)
	replay(raw json.RawMessage) *Violation
}

func (p Prop[C]) PropID() string    { return p.ID }
func (p Prop[C]) CheckName() string { return p.Name }

// ReplayFile is the on-disk form of a case.
type ReplayFile struct {
	Property string          `json:"property"`
	Check    string          `json:"check"`
	Finding  string          `json:"finding,omitempty"` // id in known_findings.json, for canaries
	Seed     uint64          `json:"seed,omitempty"`
	Message  string          `json:"message,omitempty"`
	Case     json.RawMessage `json:"case"`
}

type partial struct {
	Property    string            `json:"property"`
	Check       string            `json:"check"`
	Tier        string            `json:"tier"`
	Seed        uint64            `json:"seed"`
	Shard       int               `json:"shard"`
	Requested   int               `json:"requested"`
	Evaluations int               `json:"evaluations"`
	Nontrivial  int               `json:"nontrivial"`
	Distinct    int               `json:"distinct_nontrivial"`
	Labels      map[string]int    `json:"labels"`
	Excluded    map[string]int    `json:"excluded"`
	Samples     []json.RawMessage `json:"samples"`
	Rule        string            `json:"rule"`
	WallS       float64           `json:"wall_s"`
	Violations  int               `json:"violations"`
	Exhaustive  bool              `json:"exhaustive,omitempty"`
	HashFile    string            `json:"hash_file"`
	Done        bool              `json:"done"`
}

// Env accessors ------------------------------------------------------------------------------------

func Root() string {
	if r := os.Getenv("VERIF_ROOT"); r != "" {
		return r
	}
	return "/verif"
}

func Tier() string {
	if os.Getenv("VERIF_TIER") == "thorough" {
		return "thorough"
	}
	return "quick"
}

func Seed() uint64 {
	s, err := strconv.ParseUint(os.Getenv("VERIF_SEED"), 10, 64)
	if err != nil {
		// negative or garbage values are folded deterministically
		if os.Getenv("VERIF_SEED") == "" {
			return 1
		}
		h := fnv.New64a()
		h.Write([]byte(os.Getenv("VERIF_SEED")))
		s = h.Sum64() >> 16
	}
	if s == 0 {
		s = 0x5eed // rapid reads 0 as "random"
	}
	return s
}

func Shard() int {
	n, _ := strconv.Atoi(os.Getenv("VERIF_SHARD"))
	return n
}

func outDir() string {
	d := os.Getenv("VERIF_OUT")
	if d == "" {
		d = filepath.Join(Root(), ".build", "out")
	}
	_ = os.MkdirAll(d, 0o755)
	return d
}

func selected(name string) bool {
	only := os.Getenv("VERIF_ONLY")
	if only == "" {
		return true
	}
	for _, n := range strings.Split(only, ",") {
		if n == name {
			return true
		}
	}
	return false
}

// Known findings -----------------------------------------------------------------------------------

type Finding struct {
	ID       string `json:"id"`
	Property string `json:"property"`
	Status   string `json:"status"` // known | fixed
	What     string `json:"what"`
	Line     string `json:"line,omitempty"`
	Commit   string `json:"commit,omitempty"`
	Canary   string `json:"canary,omitempty"`
	Excludes string `json:"excluded_class,omitempty"`
}

var findingsCache map[string]Finding

func Findings() map[string]Finding {
	if findingsCache != nil {
		return findingsCache
	}
	findingsCache = map[string]Finding{}
	raw, err := os.ReadFile(filepath.Join(Root(), "known_findings.json"))
	if err != nil {
		return findingsCache
	}
	var doc struct {
		Findings []Finding `json:"findings"`
	}
	if err := json.Unmarshal(raw, &doc); err != nil {
		panic("known_findings.json: " + err.Error())
	}
	for _, f := range doc.Findings {
		findingsCache[f.ID] = f
	}
	return findingsCache
}

// IsKnown reports whether the finding is listed as known (recorded, not repaired).
func IsKnown(id string) bool {
	f, ok := Findings()[id]
	return ok && f.Status == "known"
}

// Main ---------------------------------------------------------------------------------------------

// Main is the single test entry point of a property package.
func Main(t *testing.T, runners ...Runner) {
	mode := os.Getenv("VERIF_MODE")
	switch mode {
	case "regress":
		for _, r := range runners {
			r.runRegress(t)
		}
	case "replay":
		path := os.Getenv("VERIF_REPLAY")
		raw, err := os.ReadFile(path)
		if err != nil {
			t.Fatalf("replay: %v", err)
		}
		var rf ReplayFile
		if err := json.Unmarshal(raw, &rf); err != nil {
			t.Fatalf("replay: %v", err)
		}
		for _, r := range runners {
			if r.CheckName() != rf.Check {
				continue
			}
			if v := r.replay(rf.Case); v != nil {
				fmt.Printf("REPLAY-FAILS property=%s check=%s\n%s\n", r.PropID(), r.CheckName(), v.Msg)
				fmt.Printf("VIOLATION property=%s replay=%s\n", r.PropID(), path)
				t.Fail()
			} else {
				fmt.Printf("REPLAY-PASSES property=%s check=%s\n", r.PropID(), r.CheckName())
			}
			return
		}
		t.Fatalf("replay: no check named %q in this package", rf.Check)
	default:
		for _, r := range runners {
			if !selected(r.CheckName()) {
				continue
			}
			r := r
			t.Run(r.CheckName(), func(t *testing.T) { r.runGen(t) })
		}
	}
}

func (p Prop[C]) replay(raw json.RawMessage) *Violation {
	var c C
	if err := json.Unmarshal(raw, &c); err != nil {
		return Failf("cannot decode case: %v", err)
	}
	return p.safeCheck(c)
}

func (p Prop[C]) safeCheck(c C) (v *Violation) {
	defer func() {
		if rec := recover(); rec != nil {
			v = Failf("PANIC escaped the check: %v\n%s", rec, shortStack())
		}
	}()
	return p.Check(c)
}

func (p Prop[C]) count() int {
	n := p.Quick
	if f, err := strconv.ParseFloat(os.Getenv("VERIF_QUICK_SCALE"), 64); err == nil && f > 0 && Tier() != "thorough" {
		n = int(float64(n) * f) // per-property depth factor from prop.json ("quick_scale"), set by the driver
	}
	if Tier() == "thorough" {
		n = p.Thorough
		// per-property depth factor from prop.json ("thorough_scale"), set by the driver
		if f, err := strconv.ParseFloat(os.Getenv("VERIF_THOROUGH_SCALE"), 64); err == nil && f > 0 {
			n = int(float64(n) * f)
		}
	}
	if s := os.Getenv("VERIF_SCALE"); s != "" {
		if f, err := strconv.ParseFloat(s, 64); err == nil && f > 0 {
			n = int(float64(n) * f)
		}
	}
	if n < 1 {
		n = 1
	}
	return n
}

func hashCase(name string, enc []byte) uint64 {
	h := fnv.New64a()
	h.Write([]byte(name))
	h.Write([]byte{0})
	h.Write(enc)
	return h.Sum64()
}

type recorder struct {
	part      partial
	hashes    map[uint64]struct{}
	first     []json.RawMessage
	low       []lowSample // samples with the smallest hashes: a deterministic spread over the run
	limit     int
	start     time.Time
	failed    bool
	lastFail  json.RawMessage
	lastMsg   string
	firstFail json.RawMessage
}

type lowSample struct {
	h   uint64
	raw json.RawMessage
}

func (r *recorder) sample(h uint64, enc []byte) {
	if len(r.first) < 3 {
		r.first = append(r.first, clip(enc, r.limit))
		return
	}
	if len(r.low) < 3 || h < r.low[len(r.low)-1].h {
		r.low = append(r.low, lowSample{h, clip(enc, r.limit)})
		sort.Slice(r.low, func(i, j int) bool { return r.low[i].h < r.low[j].h })
		if len(r.low) > 3 {
			r.low = r.low[:3]
		}
	}
}

func clip(enc []byte, limit int) json.RawMessage {
	if len(enc) <= limit {
		return append(json.RawMessage(nil), enc...)
	}
	s, _ := json.Marshal(string(enc[:limit]) + fmt.Sprintf("…(+%d bytes)", len(enc)-limit))
	return s
}

func (r *recorder) flush(done bool) {
	r.part.Done = done
	r.part.WallS = time.Since(r.start).Seconds()
	r.part.Distinct = len(r.hashes)
	r.part.Samples = append(append([]json.RawMessage{}, r.first...), lowRaw(r.low)...)
	base := filepath.Join(outDir(), fmt.Sprintf("%s.%s.%d", r.part.Property, r.part.Check, r.part.Shard))
	if done {
		hs := make([]uint64, 0, len(r.hashes))
		for h := range r.hashes {
			hs = append(hs, h)
		}
		sort.Slice(hs, func(i, j int) bool { return hs[i] < hs[j] })
		buf := make([]byte, 8*len(hs))
		for i, h := range hs {
			binary.LittleEndian.PutUint64(buf[8*i:], h)
		}
		r.part.HashFile = base + ".hashes"
		_ = os.WriteFile(r.part.HashFile, buf, 0o644)
	}
	raw, _ := json.MarshalIndent(r.part, "", " ")
	_ = os.WriteFile(base+".json", raw, 0o644)
}

func lowRaw(l []lowSample) []json.RawMessage {
	var out []json.RawMessage
	for _, s := range l {
		out = append(out, s.raw)
	}
	return out
}

func (p Prop[C]) newRecorder() *recorder {
	limit := p.SampleLimit
	if limit == 0 {
		limit = 1500
	}
	return &recorder{
		part: partial{Property: p.ID, Check: p.Name, Tier: Tier(), Seed: Seed(), Shard: Shard(),
			Labels: map[string]int{}, Excluded: map[string]int{}, Rule: p.Rule},
		hashes: map[uint64]struct{}{},
		limit:  limit,
		start:  time.Now(),
	}
}

// one evaluates a single case and does the accounting. It returns the violation, if any.
func (p Prop[C]) one(rec *recorder, c C) *Violation {
	enc, err := json.Marshal(c)
	if err != nil {
		panic(fmt.Sprintf("case of %s/%s is not serialisable: %v", p.ID, p.Name, err))
	}
	if p.Exclude != nil {
		if id := p.Exclude(c); id != "" && IsKnown(id) {
			if !rec.failed {
				rec.part.Excluded[id]++
			}
			return nil
		}
	}
	if !rec.failed {
		rec.part.Evaluations++
		nt, labels := true, []string(nil)
		if p.Classify != nil {
			nt, labels = p.Classify(c)
		}
		for _, l := range labels {
			rec.part.Labels[l]++
		}
		if nt {
			rec.part.Nontrivial++
			h := hashCase(p.Name, enc)
			if _, dup := rec.hashes[h]; !dup {
				rec.hashes[h] = struct{}{}
				rec.sample(h, enc)
			}
		}
	}
	v := p.safeCheck(c)
	if v != nil {
		if !rec.failed {
			rec.failed = true
			rec.firstFail = enc
			rec.part.Violations = 1
		}
		rec.lastFail = enc
		rec.lastMsg = v.Msg
		p.writeReplay(rec, enc, v.Msg) // overwritten while shrinking: the last one written is the minimal case
	}
	return v
}

func (p Prop[C]) replayPath() string {
	dir := filepath.Join(Root(), "replays")
	_ = os.MkdirAll(dir, 0o755)
	// the tier is part of the name: a quick and a thorough run of one property may be in flight at the same time
	return filepath.Join(dir, fmt.Sprintf("%s-%s-%s-%d-%d.json", p.ID, p.Name, Tier(), Seed(), Shard()))
}

func (p Prop[C]) writeReplay(rec *recorder, enc []byte, msg string) {
	rf := ReplayFile{Property: p.ID, Check: p.Name, Seed: Seed(), Message: msg, Case: enc}
	raw, _ := json.MarshalIndent(rf, "", " ")
	_ = os.WriteFile(p.replayPath(), raw, 0o644)
}

func (p Prop[C]) runGen(t *testing.T) {
	rec := p.newRecorder()
	n := p.count()
	rec.part.Requested = n
	defer func() {
		rec.flush(true)
		if rec.failed {
			fmt.Printf("FAILING-CASE property=%s check=%s\n%s\ncase: %s\n", p.ID, p.Name, rec.lastMsg, clip(rec.lastFail, 4000))
			fmt.Printf("VIOLATION property=%s replay=%s\n", p.ID, p.replayPath())
		}
	}()

	if p.Enumerate != nil && Tier() == "thorough" && Shard() == 0 {
		complete := true
		p.Enumerate(func(c C) bool {
			if v := p.one(rec, c); v != nil {
				complete = false
				t.Errorf("%s/%s: %s", p.ID, p.Name, v.Msg)
				return false
			}
			return true
		})
		rec.part.Exhaustive = complete
		rec.part.Requested = rec.part.Evaluations
		if !complete {
			return
		}
		rec.part.Labels["enumerated"] = rec.part.Evaluations
	}

	_ = flag.Set("rapid.checks", strconv.Itoa(n))
	_ = flag.Set("rapid.seed", strconv.FormatUint(Seed()*1000+uint64(Shard()), 10))
	_ = flag.Set("rapid.nofailfile", "true")
	if p.Steps > 0 {
		_ = flag.Set("rapid.steps", strconv.Itoa(p.Steps))
	}
	if os.Getenv("VERIF_SHRINKTIME") != "" {
		_ = flag.Set("rapid.shrinktime", os.Getenv("VERIF_SHRINKTIME"))
	}
	lastFlush := time.Now()
	rapid.Check(t, func(rt *rapid.T) {
		c := p.Gen(rt)
		if v := p.one(rec, c); v != nil {
			rt.Fatalf("%s", v.Msg)
		}
		if time.Since(lastFlush) > 5*time.Second {
			lastFlush = time.Now()
			rec.flush(false)
		}
	})
}

// Regress tier -------------------------------------------------------------------------------------

func (p Prop[C]) runRegress(t *testing.T) {
	dir := filepath.Join(Root(), "harness", "regress", p.ID)
	files, _ := filepath.Glob(filepath.Join(dir, "*.json"))
	sort.Strings(files)
	n := 0
	for _, f := range files {
		raw, err := os.ReadFile(f)
		if err != nil {
			t.Fatalf("regress: %v", err)
		}
		var rf ReplayFile
		if err := json.Unmarshal(raw, &rf); err != nil {
			t.Fatalf("regress %s: %v", f, err)
		}
		if rf.Check != p.Name {
			continue
		}
		n++
		v := p.replay(rf.Case)
		known := rf.Finding != "" && IsKnown(rf.Finding)
		switch {
		case v == nil && known:
			fmt.Printf("NOTE: known finding %s no longer reproduces with %s\n", rf.Finding, filepath.Base(f))
		case v == nil:
		case known:
			fmt.Printf("KNOWN-FINDING: property=%s %s: %s [canary %s]\n", p.ID, rf.Finding, Findings()[rf.Finding].What, filepath.Base(f))
		default:
			fmt.Printf("REGRESS-FAILS property=%s check=%s file=%s\n%s\n", p.ID, p.Name, f, v.Msg)
			fmt.Printf("VIOLATION property=%s replay=%s\n", p.ID, f)
			t.Fail()
		}
	}
	fmt.Printf("REGRESS property=%s check=%s files=%d\n", p.ID, p.Name, n)
}

// BStr is a byte string that survives JSON: it is written as a Go-quoted ASCII literal inside a JSON string.
type BStr string

func (b BStr) MarshalJSON() ([]byte, error) {
	return json.Marshal(strconv.QuoteToASCII(string(b)))
}

func (b *BStr) UnmarshalJSON(raw []byte) error {
	var q string
	if err := json.Unmarshal(raw, &q); err != nil {
		return err
	}
	s, err := strconv.Unquote(q)
	if err != nil {
		return err
	}
	*b = BStr(s)
	return nil
}

// WriteReplay writes a replay file for a case found outside rapid (native fuzz targets) and returns its path.
func WriteReplay(id, check, tag string, c interface{}, msg string) string {
	enc, _ := json.Marshal(c)
	rf := ReplayFile{Property: id, Check: check, Message: msg, Case: enc}
	raw, _ := json.MarshalIndent(rf, "", " ")
	dir := filepath.Join(Root(), "replays")
	_ = os.MkdirAll(dir, 0o755)
	path := filepath.Join(dir, fmt.Sprintf("%s-%s-%s.json", id, check, tag))
	_ = os.WriteFile(path, raw, 0o644)
	return path
}
