package c16

import (
	"bytes"
	"encoding/csv"
	"fmt"
	"strings"

	"github.com/go-openapi/runtime"
	"pgregory.net/rapid"

	"verif/harness/kit"
)

// LargeCase is an input of several MiB: one record line repeated. The statement's "same count, order and field text"
// has no size limit; the other sub-checks draw inputs of at most a few hundred bytes. (r7)
type LargeCase struct {
	Line   string `json:"line"`   // one record, with its line break
	Repeat int    `json:"repeat"` // how often
	Dest   string `json:"dest"`   // *[][]string | io.Writer | *[]byte | *string | produce (string source -> io.Writer)
}

func (c LargeCase) input() string { return strings.Repeat(c.Line, c.Repeat) }

type plainWriter struct{ b bytes.Buffer }

func (w *plainWriter) Write(p []byte) (int, error) { return w.b.Write(p) }

func CheckLarge(c LargeCase) *kit.Violation {
	if c.Repeat < 1 || c.Repeat > 2000000 || c.Line == "" {
		return kit.Failf("malformed case")
	}
	in := c.input()
	want, err := csv.NewReader(strings.NewReader(in)).ReadAll()
	if err != nil {
		return kit.Failf("harness: the generated input is no CSV: %v", err)
	}
	what := fmt.Sprintf("line %q x %d = %d bytes, %d records, %s", c.Line, c.Repeat, len(in), len(want), c.Dest)
	var got [][]string
	var cerr error
	parseBack := func(text []byte) *kit.Violation {
		recs, perr := csv.NewReader(bytes.NewReader(text)).ReadAll()
		if perr != nil {
			return kit.Failf("LARGE %s: the delivered text (%d bytes) is no CSV: %v", what, len(text), perr)
		}
		got = recs
		return nil
	}
	switch c.Dest {
	case "*[][]string":
		var table [][]string
		if v := kit.Guard("CSVConsumer.Consume", func() { cerr = runtime.CSVConsumer().Consume(strings.NewReader(in), &table) }); v != nil {
			return v
		}
		got = table
	case "io.Writer":
		w := &plainWriter{}
		if v := kit.Guard("CSVConsumer.Consume", func() { cerr = runtime.CSVConsumer().Consume(strings.NewReader(in), w) }); v != nil {
			return v
		}
		if cerr == nil {
			if v := parseBack(w.b.Bytes()); v != nil {
				return v
			}
		}
	case "*[]byte":
		var b []byte
		if v := kit.Guard("CSVConsumer.Consume", func() { cerr = runtime.CSVConsumer().Consume(strings.NewReader(in), &b) }); v != nil {
			return v
		}
		if cerr == nil {
			if v := parseBack(b); v != nil {
				return v
			}
		}
	case "*string":
		var s string
		if v := kit.Guard("CSVConsumer.Consume", func() { cerr = runtime.CSVConsumer().Consume(strings.NewReader(in), &s) }); v != nil {
			return v
		}
		if cerr == nil {
			if v := parseBack([]byte(s)); v != nil {
				return v
			}
		}
	case "produce":
		w := &plainWriter{}
		if v := kit.Guard("CSVProducer.Produce", func() { cerr = runtime.CSVProducer().Produce(w, in) }); v != nil {
			return v
		}
		if cerr == nil {
			if v := parseBack(w.b.Bytes()); v != nil {
				return v
			}
		}
	default:
		return kit.Failf("malformed case: destination %q", c.Dest)
	}
	if cerr != nil {
		return kit.Failf("LARGE %s: unexpected error on well-formed input: %v", what, cerr)
	}
	if len(got) != len(want) {
		return kit.Failf("LARGE %s: %d records were delivered, the input holds %d", what, len(got), len(want))
	}
	for i := range want {
		if len(got[i]) != len(want[i]) {
			return kit.Failf("LARGE %s: record %d has %d fields, want %d", what, i, len(got[i]), len(want[i]))
		}
		for j := range want[i] {
			if got[i][j] != want[i][j] {
				return kit.Failf("LARGE %s: record %d field %d is %q, want %q", what, i, j, got[i][j], want[i][j])
			}
		}
	}
	return nil
}

var largeLines = []string{"abcdefg,hijklmn\n", "10,200,3000,40000\n", "\"quoted, field\",x\r\n"}

func GenLarge(t *rapid.T) LargeCase {
	c := LargeCase{Line: rapid.SampledFrom(largeLines).Draw(t, "line")}
	mib := rapid.SampledFrom([]int{3, 4, 5, 6}).Draw(t, "mib")
	c.Repeat = (mib<<20)/len(c.Line) + rapid.IntRange(0, 3).Draw(t, "extra")
	c.Dest = rapid.SampledFrom([]string{"*[][]string", "io.Writer", "*[]byte", "*string", "produce"}).Draw(t, "dest")
	return c
}

func ClassifyLarge(c LargeCase) (bool, []string) {
	n := len(c.Line) * c.Repeat
	return n > 1<<20, []string{c.Dest, fmt.Sprintf("input of about %d MiB", (n+(1<<19))>>20)}
}

func largeProp() kit.Runner {
	return kit.Prop[LargeCase]{ID: "C16", Name: "large", Rule: "inputs of 3-6 MiB (one record line repeated) consumed into a record table, a byte stream, a byte slice, a string, or produced from a string: the records delivered are those a standard parse yields, same count, order and field text; every case is non-trivial",
		Quick: 1, Thorough: 10, Gen: GenLarge, Check: CheckLarge, Classify: ClassifyLarge}
}
