// Package c16 decides property C16 (the CSV codec delivers exactly the records a standard parse yields, for
// every source kind, destination kind and option set) by differential testing of runtime.CSVConsumer and
// runtime.CSVProducer against encoding/csv used directly on the same text.
//
// The oracle never calls go-openapi/runtime: the model is a csv.Reader of the standard library configured from
// the option set as the codec documents it ("the defaults are those of the standard library"), read record by
// record, minus the skipped records. Textual outputs are parsed back with a standard reader that uses the
// writer's separator.
package c16

import (
	"bytes"
	"encoding/csv"
	"errors"
	"fmt"
	"io"
	"net/http"
	"strconv"
	"strings"
	"time"

	"github.com/go-openapi/runtime"

	"verif/harness/kit"
)

// Opts is the option set of one case. Zero values mean "option not given" exactly as for the codec.
type Opts struct {
	Comma   int32 `json:"comma,omitempty"`   // reader separator (0: default)
	Comment int32 `json:"comment,omitempty"` // reader comment rune (0: none)
	Lazy    bool  `json:"lazy,omitempty"`
	Trim    bool  `json:"trim,omitempty"`
	FPR     int   `json:"fpr,omitempty"`  // fields per record: 0 (first record decides), -1 (any), n
	Skip    int   `json:"skip,omitempty"` // skipped header records
	CRLF    bool  `json:"crlf,omitempty"` // writer: CRLF record terminator
	Reuse   bool  `json:"reuse,omitempty"`
	WComma  int32 `json:"wcomma,omitempty"` // writer separator (0: default)
	Close   bool  `json:"close,omitempty"`  // WithCSVClosesStream
}

func (o Opts) isDefault() bool { return o == Opts{} }

// Case is one generated situation. Mode selects the entry point: "consume" (text -> destination kind Kind),
// "produce" (source kind Kind -> text) or "agree" (all 8 destination kinds and all 8 source kinds on the same
// input, then every produced text through every destination kind).
type Case struct {
	Mode    string   `json:"mode"`
	Text    kit.BStr `json:"text"`
	Opts    Opts     `json:"opts"`
	Kind    int      `json:"kind"`
	Pre     int      `json:"pre,omitempty"`     // destination pre-populated with Pre old records / lines (0: zero value)
	Slack   int      `json:"slack,omitempty"`   // spare capacity of the pre-populated record table
	Named   bool     `json:"named,omitempty"`   // table / bytes / string given as a named type
	Ptr     bool     `json:"ptr,omitempty"`     // produce: table / bytes / string given by pointer
	Rich    bool     `json:"rich,omitempty"`    // stream object implements more than the interface it is dispatched on
	Chunk   int      `json:"chunk,omitempty"`   // stream delivers at most Chunk bytes per call (0: no limit)
	EOFData bool     `json:"eofdata,omitempty"` // stream returns its last bytes together with io.EOF
	// NamedRecord gives the record table as a slice of a named record type ([]record with type record []string).
	// The generators never set it (the statement's record table is [][]string); it exists so that a probe of that
	// neighbouring type can be replayed.
	NamedRecord bool `json:"named_record,omitempty"`
	// Used: the consumer / producer instance has already handled a small well-formed input (one record) before the
	// call that is judged, and for textual destinations two more Consume calls follow before the destination is read
	// again: an instance is a value built once from its options, earlier and later calls must not show.
	Used bool `json:"used,omitempty"`
	// SrcFail (produce, io.WriterTo source): 0 the source is sound; k > 0: its WriteTo reports an error after it has
	// written k-1 bytes (or all of its text, if that is shorter). A failing source is an error, never a shorter table. (r6)
	SrcFail int `json:"src_fail,omitempty"`
	// SrcErr: the error a failing stream reports: "" (an error of its own) or "unexpected-eof" (io.ErrUnexpectedEOF, what
	// a truncated archive member or a LimitedReader over a broken connection reports). SrcFail also applies to the stream
	// a consumer reads from and to the streams behind the *csv.Reader and io.Reader sources of a producer. (r7)
	SrcErr string `json:"src_err,omitempty"`
	// OwnComma: the caller's own *csv.Reader source (produce) or *csv.Writer destination (consume) is configured with
	// the separator ';' while the codec is given no separator option for that side: the object's own setting stands. (r8)
	OwnComma bool `json:"own_comma,omitempty"`
	// SinkFail: k > 0: the byte sink behind an io.Writer / *csv.Writer destination (consume) or behind the producer's
	// writer takes k-1 bytes and refuses the rest. A sink that refused a write is an error, never a shorter table. (r8)
	SinkFail int `json:"sink_fail,omitempty"`
	// Empty (with an empty Text): the empty input is handed over in its most literal form: the consumer reads from
	// http.NoBody, the producer is given nil slices ([][]string(nil), []byte(nil), pointers to them). Empty is empty. (r9)
	Empty bool `json:"empty,omitempty"`
}

var errSourceFailed = errors.New("scripted failure of the io.WriterTo source")

// Kinds ---------------------------------------------------------------------------------------------

var DestKinds = []string{"*csv.Writer", "CSVWriter", "io.Writer", "io.ReaderFrom", "BinaryUnmarshaler", "*[][]string", "*[]byte", "*string"}
var SrcKinds = []string{"*csv.Reader", "CSVReader", "io.Reader", "io.WriterTo", "BinaryMarshaler", "[][]string", "[]byte", "string"}

const (
	kCSV     = 0 // *csv.Writer / *csv.Reader
	kRecords = 1 // CSVWriter / CSVReader
	kStream  = 2 // io.Writer / io.Reader
	kFrom    = 3 // io.ReaderFrom / io.WriterTo
	kBinary  = 4
	kTable   = 5
	kBytes   = 6
	kString  = 7
)

// recordLevel reports whether the kind exchanges records rather than text (no CSV rendering involved).
func recordLevel(kind int) bool { return kind == kRecords || kind == kTable }

type table [][]string
type record []string
type blob []byte
type text string

// Doubles -------------------------------------------------------------------------------------------

// stream is a scripted reader: bounded chunks, optional data+EOF, sticky EOF, close counter.
type stream struct {
	data    []byte
	off     int
	chunk   int
	eofData bool
	closed  int
	failAt  int // -1: sound; else Read reports failErr once this many bytes were delivered
	failErr error
}

var errReadAfterClose = errors.New("c16: read after close")

func (s *stream) Read(p []byte) (int, error) {
	if s.closed > 0 {
		return 0, errReadAfterClose
	}
	if s.failAt >= 0 && s.off >= s.failAt {
		return 0, s.failErr
	}
	if s.off >= len(s.data) {
		return 0, io.EOF
	}
	n := len(p)
	if s.chunk > 0 && n > s.chunk {
		n = s.chunk
	}
	if s.failAt >= 0 && s.off+n > s.failAt {
		n = s.failAt - s.off
	}
	n = copy(p[:n], s.data[s.off:])
	s.off += n
	if s.eofData && s.off >= len(s.data) {
		return n, io.EOF
	}
	return n, nil
}

func (s *stream) Close() error { s.closed++; return nil }

type onlyReader struct{ r io.Reader }

func (r onlyReader) Read(p []byte) (int, error) { return r.r.Read(p) }

// sink is the producer's output and the consumer's io.Writer destination.
type sink struct {
	buf    bytes.Buffer
	closed int
	room   int  // -1: unlimited; else the sink takes this many bytes and refuses the rest (r8)
	failed bool // the sink has refused a write
}

var errSinkFull = errors.New("c16: scripted failure of the byte sink")

var errWriteAfterClose = errors.New("c16: write after close")

func (s *sink) Write(p []byte) (int, error) {
	if s.closed > 0 {
		return 0, errWriteAfterClose
	}
	if s.room >= 0 && len(p) > s.room {
		n := s.room
		s.buf.Write(p[:n])
		s.room = 0
		s.failed = true
		return n, errSinkFull
	}
	if s.room >= 0 {
		s.room -= len(p)
	}
	return s.buf.Write(p)
}
func (s *sink) Close() error { s.closed++; return nil }

type onlyWriter struct{ w io.Writer }

func (w onlyWriter) Write(p []byte) (int, error) { return w.w.Write(p) }

type readerFrom struct{ buf bytes.Buffer }

func (r *readerFrom) ReadFrom(rd io.Reader) (int64, error) { return r.buf.ReadFrom(rd) }

type binUnmarshaler struct {
	b     []byte
	calls int
}

func (b *binUnmarshaler) UnmarshalBinary(d []byte) error {
	b.calls++
	b.b = append([]byte(nil), d...)
	return nil
}

type binMarshaler string

func (b binMarshaler) MarshalBinary() ([]byte, error) { return []byte(b), nil }

// writerTo writes its text in bounded chunks.
type writerTo struct {
	data  string
	chunk int
	fail  int // see Case.SrcFail
}

func (w writerTo) WriteTo(wr io.Writer) (total int64, err error) {
	rest := w.data
	if w.fail > 0 {
		if w.fail-1 < len(rest) {
			rest = rest[:w.fail-1]
		}
		defer func() {
			if err == nil {
				err = errSourceFailed
			}
		}()
	}
	for len(rest) > 0 {
		n := len(rest)
		if w.chunk > 0 && n > w.chunk {
			n = w.chunk
		}
		k, err := io.WriteString(wr, rest[:n])
		total += int64(k)
		if err != nil {
			return total, err
		}
		rest = rest[n:]
	}
	return total, nil
}

// recWriter is a CSVWriter. With retain it keeps the record slices it is handed (a collecting writer, which is
// sound whenever the caller did not ask the parser to reuse its record); otherwise, like csv.Writer, it consumes
// the record during Write.
type recWriter struct {
	recs    [][]string
	flushes int
	retain  bool
}

func (w *recWriter) Write(r []string) error {
	if w.retain {
		w.recs = append(w.recs, r)
		return nil
	}
	w.recs = append(w.recs, append([]string(nil), r...))
	return nil
}
func (w *recWriter) Flush()       { w.flushes++ }
func (w *recWriter) Error() error { return nil }

// recReader is a CSVReader: its records, then its terminal error (io.EOF if none), sticky.
type recReader struct {
	recs [][]string
	err  error
	i    int
}

func (r *recReader) Read() ([]string, error) {
	if r.i >= len(r.recs) {
		if r.err != nil {
			return nil, r.err
		}
		return nil, io.EOF
	}
	r.i++
	return r.recs[r.i-1], nil
}

// Model ---------------------------------------------------------------------------------------------

// stdReader is the standard parser configured from the option set the way the codec documents it: an option
// left at its zero value keeps the standard library's default.
func (o Opts) stdReader(r io.Reader) *csv.Reader {
	c := csv.NewReader(r)
	if o.Comma != 0 {
		c.Comma = rune(o.Comma)
	}
	if o.Comment != 0 {
		c.Comment = rune(o.Comment)
	}
	if o.FPR != 0 {
		c.FieldsPerRecord = o.FPR
	}
	c.LazyQuotes = o.Lazy
	c.TrimLeadingSpace = o.Trim
	return c // ReuseRecord stays off in the model: every record is an independent copy
}

func (o Opts) wcomma() rune {
	if o.WComma != 0 {
		return rune(o.WComma)
	}
	return ','
}

type model struct {
	recs [][]string // the records a standard parse yields before its first error (skipped ones included)
	err  error      // the parser's error, nil when the text is well formed under the options
}

func parse(in string, o Opts) model {
	r := o.stdReader(strings.NewReader(in))
	var m model
	for {
		rec, err := r.Read()
		if err == io.EOF {
			return m
		}
		if err != nil {
			m.err = err
			return m
		}
		m.recs = append(m.recs, rec)
	}
}

func drop(recs [][]string, skip int) [][]string {
	if skip <= 0 {
		return recs
	}
	if skip >= len(recs) {
		return nil
	}
	return recs[skip:]
}

// rootErr is the error a caller can test for with errors.Is: the cause inside a *csv.ParseError.
func rootErr(err error) error {
	var pe *csv.ParseError
	if errors.As(err, &pe) && pe.Err != nil {
		return pe.Err
	}
	return err
}

// render is the standard writer with the case's writer options.
func render(recs [][]string, o Opts) ([]byte, error) {
	var b bytes.Buffer
	w := csv.NewWriter(&b)
	if o.WComma != 0 {
		w.Comma = rune(o.WComma)
	}
	w.UseCRLF = o.CRLF
	for _, r := range recs {
		if err := w.Write(r); err != nil {
			return nil, err
		}
	}
	w.Flush()
	return b.Bytes(), w.Error()
}

// reparse reads a produced text back with the writer's separator.
func reparse(b []byte, o Opts) ([][]string, error) {
	r := csv.NewReader(bytes.NewReader(b))
	r.Comma = o.wcomma()
	r.FieldsPerRecord = -1
	return r.ReadAll()
}

func writerUsable(o Opts) bool {
	_, err := render([][]string{{"x"}}, o)
	return err == nil
}

// textual is what a standard parse of a CSV rendering of recs yields. The standard writer cannot express two
// things (a record made of one empty field is written as an empty line; with CRLF it drops a bare CR inside a
// field), so for textual destinations this - not recs itself - is what "the records delivered" can mean.
func textual(recs [][]string, o Opts) ([][]string, error) {
	b, err := render(recs, o)
	if err != nil {
		return nil, err
	}
	return reparse(b, o)
}

func same(a, b [][]string) bool {
	if len(a) != len(b) {
		return false
	}
	for i := range a {
		if !sameRec(a[i], b[i]) {
			return false
		}
	}
	return true
}

func sameRec(a, b []string) bool {
	if len(a) != len(b) {
		return false
	}
	for j := range a {
		if a[j] != b[j] {
			return false
		}
	}
	return true
}

func deepCopy(recs [][]string) [][]string {
	out := make([][]string, len(recs))
	for i, r := range recs {
		out[i] = append([]string(nil), r...)
	}
	return out
}

// Options for the code under test ---------------------------------------------------------------------

func (o Opts) list() []runtime.CSVOpt {
	if o.isDefault() {
		return nil
	}
	l := []runtime.CSVOpt{
		runtime.WithCSVReaderOpts(csv.Reader{Comma: rune(o.Comma), Comment: rune(o.Comment), LazyQuotes: o.Lazy,
			TrimLeadingSpace: o.Trim, FieldsPerRecord: o.FPR, ReuseRecord: o.Reuse}),
		runtime.WithCSVWriterOpts(csv.Writer{Comma: rune(o.WComma), UseCRLF: o.CRLF}),
		runtime.WithCSVSkipLines(o.Skip),
	}
	if o.Close {
		l = append(l, runtime.WithCSVClosesStream())
	}
	return l
}

// scribbled hands the option list to a constructor and then overwrites the caller's slice with the options of quite
// another configuration (an application that derives a second codec from the same slice): the codec keeps the options
// it was constructed with.
func scribbled[T any](opts []runtime.CSVOpt, construct func(...runtime.CSVOpt) T) T {
	codec := construct(opts...)
	for i := range opts {
		switch i % 3 {
		case 0:
			opts[i] = runtime.WithCSVReaderOpts(csv.Reader{Comma: '|', Comment: '!', FieldsPerRecord: 7})
		case 1:
			opts[i] = runtime.WithCSVWriterOpts(csv.Writer{Comma: '|', UseCRLF: true})
		default:
			opts[i] = runtime.WithCSVSkipLines(5)
		}
	}
	return codec
}

func (c Case) describe(dir string, kind int) string {
	names := DestKinds
	if dir == "produce" {
		names = SrcKinds
	}
	name := names[kind]
	if c.NamedRecord && kind == kTable {
		name = strings.Replace(name, "[][]string", "[]record", 1)
	}
	return fmt.Sprintf("%s %s text=%q opts=%+v pre=%d slack=%d named=%v ptr=%v rich=%v chunk=%d eofdata=%v",
		dir, name, string(c.Text), c.Opts, c.Pre, c.Slack, c.Named, c.Ptr, c.Rich, c.Chunk, c.EOFData)
}

// Check ---------------------------------------------------------------------------------------------

func Check(c Case) *kit.Violation {
	switch c.Mode {
	case "consume":
		if c.Kind < 0 || c.Kind > 7 {
			return kit.Failf("bad case: kind %d", c.Kind)
		}
		return checkConsume(c, c.Kind)
	case "produce":
		if c.Kind < 0 || c.Kind > 7 {
			return kit.Failf("bad case: kind %d", c.Kind)
		}
		_, v := checkProduce(c, c.Kind)
		return v
	case "agree":
		return checkAgree(c)
	}
	return kit.Failf("bad case: mode %q", c.Mode)
}

// judgeText compares a textual output with the model's records.
func judgeText(what string, out []byte, want [][]string, o Opts) *kit.Violation {
	if !writerUsable(o) {
		// only reachable with zero records to write (judgeError demands an error otherwise): nothing may have
		// been written
		if len(out) != 0 {
			return kit.Failf("%s: no record to deliver, yet %q was written", what, out)
		}
		return nil
	}
	exp, rerr := textual(want, o)
	if rerr != nil {
		return kit.Failf("HARNESS: cannot render the model's records: %v", rerr)
	}
	got, perr := reparse(out, o)
	if perr != nil {
		return kit.Failf("%s: output %q is not parsable with the writer's separator: %v", what, out, perr)
	}
	if !same(got, exp) {
		return kit.Failf("%s: delivered records differ from the standard parse\n  got  %q\n  want %q\n  (raw output %q; model before rendering %q)", what, got, exp, out, want)
	}
	if len(out) > 0 {
		crlf := bytes.HasSuffix(out, []byte("\r\n"))
		if o.CRLF && !crlf {
			return kit.Failf("%s: CRLF requested but the output %q does not end in CRLF", what, out)
		}
		if !o.CRLF && (crlf || !bytes.HasSuffix(out, []byte("\n"))) {
			return kit.Failf("%s: CRLF not requested but the output %q does not end in a bare LF", what, out)
		}
	}
	return nil
}

// judgeError handles the outcomes that involve errors. done=true means the verdict is final.
func judgeError(what string, anyError bool, m model, want [][]string, textKind bool, o Opts, err error, delivered func() string) (done bool, v *kit.Violation) {
	if m.err != nil {
		if err == nil {
			return true, kit.Failf("%s: malformed input (the standard parser says: %v) but the codec reported success, delivering %s", what, m.err, delivered())
		}
		if textKind && !writerUsable(o) {
			anyError = true // the writer's complaint about its separator may come before the parser reaches the malformed record
		}
		if !anyError && !errors.Is(err, rootErr(m.err)) {
			return true, kit.Failf("%s: malformed input: the standard parser says %q, the codec returned a different error %q", what, m.err, err)
		}
		return true, nil
	}
	if textKind {
		if _, rerr := render(want, o); rerr != nil {
			// the records cannot be written with this writer separator: success would mean they were lost
			if err == nil {
				return true, kit.Failf("%s: the standard writer rejects the writer options (%v) for %d record(s), the codec reported success, delivering %s", what, rerr, len(want), delivered())
			}
			return true, nil
		}
	}
	if err != nil {
		return true, kit.Failf("%s: well-formed input (standard parse: %q) but the codec returned the error %q", what, want, err)
	}
	return false, nil
}

// sinkRoom: how many bytes the byte sink of the case takes (-1: all). Only in the single-kind modes.
func (c Case) sinkRoom(mode string) int {
	if c.SinkFail > 0 && c.Mode == mode {
		return c.SinkFail - 1
	}
	return -1
}

func (c Case) newStream(data string) *stream {
	s := &stream{data: []byte(data), chunk: c.Chunk, eofData: c.EOFData, failAt: -1}
	if c.SrcFail > 0 {
		// strictly before the end, so that the failure is met whatever the chunking
		s.failAt = c.SrcFail - 1
		if s.failAt >= len(data) {
			s.failAt = len(data) - 1
		}
		if s.failAt < 0 {
			s.failAt = 0
		}
		s.failErr = errSourceFailed
		if c.SrcErr == "unexpected-eof" {
			s.failErr = io.ErrUnexpectedEOF
		}
	}
	return s
}

func checkConsume(c Case, kind int) *kit.Violation {
	in := string(c.Text)
	o := c.Opts
	codecOpts := o
	ownComma := c.OwnComma && kind == kCSV && o.WComma == 0 && c.Mode == "consume"
	if ownComma {
		o.WComma = ';' // the caller's own *csv.Writer writes ';' and no separator option overrides it (r8)
	}
	m := parse(in, o)
	want := drop(m.recs, o.Skip)
	what := c.describe("consume", kind)

	src := c.newStream(in)
	var reader io.Reader = src
	if !c.Rich {
		reader = onlyReader{src} // hides Close
	}
	if c.Empty && in == "" && c.SrcFail == 0 {
		reader = http.NoBody
	}

	var (
		err       error
		dest      interface{}
		out       func() []byte     // textual destinations
		recs      func() [][]string // record-level destinations
		csvw      *csv.Writer
		snk       = &sink{room: c.sinkRoom("consume")}
		rf        = &readerFrom{}
		bu        = &binUnmarshaler{}
		rw        = &recWriter{retain: !c.Opts.Reuse} // records may only share memory when the caller asked for ReuseRecord
		tblP      [][]string
		heldTable [][]string
		tblN      table
		bytesP    []byte
		bytesN    blob
		stringP   string
		stringN   text
	)
	switch kind {
	case kCSV:
		csvw = csv.NewWriter(&snk.buf)
		if ownComma {
			csvw.Comma = ';'
		}
		dest, out = csvw, func() []byte { return snk.buf.Bytes() }
	case kRecords:
		dest, recs = rw, func() [][]string { return rw.recs }
	case kStream:
		if c.Rich {
			dest = &snk.buf // *bytes.Buffer: io.Writer, io.ReaderFrom, ...
		} else {
			dest = onlyWriter{snk}
		}
		out = func() []byte { return snk.buf.Bytes() }
	case kFrom:
		dest, out = rf, func() []byte { return rf.buf.Bytes() }
	case kBinary:
		if c.Pre > 0 {
			bu.b = []byte(strings.Repeat("old,line\n", c.Pre)) // what an earlier Consume into the same value left there
		}
		dest, out = bu, func() []byte { return bu.b }
	case kTable:
		var old [][]string
		if c.Pre > 0 || c.Slack > 0 {
			old = make([][]string, c.Pre, c.Pre+c.Slack)
			for i := range old {
				old[i] = []string{"old", strconv.Itoa(i)}
			}
		}
		heldTable = old // the caller's own copy of the table value the destination held before the call
		if c.NamedRecord {
			tblR := make([]record, len(old))
			for i := range old {
				tblR[i] = record(old[i])
			}
			dest, recs = &tblR, func() [][]string {
				out := make([][]string, len(tblR))
				for i := range tblR {
					out[i] = []string(tblR[i])
				}
				return out
			}
		} else if c.Named {
			tblN = table(old)
			dest, recs = &tblN, func() [][]string { return [][]string(tblN) }
		} else {
			tblP = old
			dest, recs = &tblP, func() [][]string { return tblP }
		}
	case kBytes:
		old := []byte(strings.Repeat("old,line\n", c.Pre))
		if c.Pre == 0 {
			old = nil
		}
		if c.Named {
			bytesN = blob(old)
			dest, out = &bytesN, func() []byte { return []byte(bytesN) }
		} else {
			bytesP = old
			dest, out = &bytesP, func() []byte { return bytesP }
		}
	case kString:
		old := strings.Repeat("old,line\n", c.Pre)
		if c.Named {
			stringN = text(old)
			dest, out = &stringN, func() []byte { return []byte(stringN) }
		} else {
			stringP = old
			dest, out = &stringP, func() []byte { return []byte(stringP) }
		}
	}

	consumer := scribbled(codecOpts.list(), runtime.CSVConsumer)
	if c.Used {
		if v := kit.Guard("CSVConsumer.Consume (earlier call on the same consumer)", func() {
			var earlier [][]string
			_ = consumer.Consume(strings.NewReader("w\n"), &earlier)
			_ = consumer.Consume(strings.NewReader("x,\"y\nz\n"), &earlier) // and one that failed (r10)
		}); v != nil {
			return v
		}
	}
	if v := kit.Guard("CSVConsumer.Consume ["+what+"]", func() {
		err = consumer.Consume(reader, dest)
	}); v != nil {
		return v
	}

	delivered := func() string {
		if recs != nil {
			return fmt.Sprintf("%q", recs())
		}
		return fmt.Sprintf("the text %q", out())
	}
	if snk.failed {
		if err == nil {
			return kit.Failf("%s: SINK-FAILURE-AS-SUCCESS: the byte sink refused a write after %d bytes; Consume returned success", what, c.SinkFail-1)
		}
		return nil
	}
	if c.SrcFail > 0 {
		if err == nil {
			return kit.Failf("%s: SOURCE-FAILURE-AS-SUCCESS: the stream reported %v after %d of its %d bytes; Consume returned success and delivered %s", what, src.failErr, src.failAt, len(in), delivered())
		}
		return nil
	}
	if done, v := judgeError(what, false, m, want, !recordLevel(kind), o, err, delivered); done {
		return v
	}

	if !recordLevel(kind) {
		if v := judgeText(what, out(), want, o); v != nil {
			return v
		}
		if c.Used && out != nil {
			// what was stored must survive later calls of the codec into other destinations
			snapshot := append([]byte(nil), out()...)
			filler := strings.Repeat("zz,yy,xx\n", len(snapshot)/9+1)
			if v := kit.Guard("CSVConsumer.Consume (later calls)", func() {
				var b []byte
				var s2 string
				_ = consumer.Consume(strings.NewReader(filler), &b)
				_ = runtime.CSVConsumer().Consume(strings.NewReader(filler), &s2)
			}); v != nil {
				return v
			}
			if now := out(); !bytes.Equal(now, snapshot) {
				return kit.Failf("%s: ALIASED: the destination held %q; after two later Consume calls into other destinations it holds %q", what, snapshot, now)
			}
		}
		return nil
	}
	got := recs()
	if !same(got, want) {
		return kit.Failf("%s: delivered records differ from the standard parse\n  got  %q\n  want %q", what, got, want)
	}
	if kind == kTable {
		if v := aliasing(what, got); v != nil {
			return v
		}
		// the table the destination held before belongs to whoever kept it: it still reads as it did (r7)
		for i := range heldTable {
			if !sameRec(heldTable[i], []string{"old", strconv.Itoa(i)}) {
				return kit.Failf("%s: ALIASED: the destination held a table of %d records (capacity %d) before the call; the caller's copy of that table now reads %q at index %d (was [old %d])", what, len(heldTable), cap(heldTable), heldTable[i], i, i)
			}
		}
	}
	return nil
}

// aliasing mutates each delivered record over its whole capacity and demands that every other record keeps
// its text.
func aliasing(what string, got [][]string) *kit.Violation {
	snap := deepCopy(got)
	for i := range got {
		full := got[i][:cap(got[i])]
		saved := append([]string(nil), full...)
		for j := range full {
			full[j] = "\x00mutated"
		}
		for k := range got {
			if k != i && !sameRec(got[k], snap[k]) {
				return kit.Failf("%s: delivered records alias one another: overwriting record %d changed record %d from %q to %q", what, i, k, snap[k], got[k])
			}
		}
		copy(full, saved)
	}
	return nil
}

// checkProduce returns the produced text (nil when none was to be expected) and the verdict.
func checkProduce(c Case, kind int) ([]byte, *kit.Violation) {
	in := string(c.Text)
	o := c.Opts
	codecOpts := o
	ownComma := c.OwnComma && kind == kCSV && o.Comma == 0 && c.Mode == "produce"
	if ownComma {
		o.Comma = ';' // the caller's own *csv.Reader splits at ';' and no separator option overrides it (r8)
	}
	m := parse(in, o)
	what := c.describe("produce", kind)

	// What the source holds. Text-level kinds hold the text; record-level kinds hold the records a standard
	// parse reads before its first error, the CSVReader kind also ends with that error.
	eff := m
	var data interface{}
	switch kind {
	case kCSV:
		var own *csv.Reader
		if c.Rich {
			own = csv.NewReader(c.newStream(in))
		} else {
			own = csv.NewReader(strings.NewReader(in))
		}
		if ownComma {
			own.Comma = ';'
		}
		data = own
	case kRecords:
		data = &recReader{recs: deepCopy(m.recs), err: m.err}
	case kStream:
		if c.Rich {
			data = c.newStream(in) // an io.ReadCloser
		} else {
			data = onlyReader{c.newStream(in)}
		}
	case kFrom:
		data = writerTo{data: in, chunk: c.Chunk, fail: c.SrcFail}
	case kBinary:
		data = binMarshaler(in)
	case kTable:
		eff = model{recs: m.recs}
		t := deepCopy(m.recs)
		if c.Empty && in == "" && len(t) == 0 {
			t = nil
		}
		switch {
		case c.NamedRecord:
			tr := make([]record, len(t))
			for i := range t {
				tr[i] = record(t[i])
			}
			data = tr
		case c.Named && c.Ptr:
			nt := table(t)
			data = &nt
		case c.Named:
			data = table(t)
		case c.Ptr:
			data = &t
		default:
			data = t
		}
	case kBytes:
		b := []byte(in)
		if c.Empty && in == "" {
			b = nil
		}
		switch {
		case c.Named && c.Ptr:
			nb := blob(b)
			data = &nb
		case c.Named:
			data = blob(b)
		case c.Ptr:
			data = &b
		default:
			data = b
		}
	case kString:
		switch {
		case c.Named && c.Ptr:
			ns := text(in)
			data = &ns
		case c.Named:
			data = text(in)
		case c.Ptr:
			data = &in
		default:
			data = in
		}
	}
	want := drop(eff.recs, o.Skip)

	snk := &sink{room: c.sinkRoom("produce")}
	var writer io.Writer = snk
	if !c.Rich {
		writer = onlyWriter{snk} // hides Close
	}
	var err error
	producer := scribbled(codecOpts.list(), runtime.CSVProducer)
	if c.Used {
		if v := kit.Guard("CSVProducer.Produce (earlier call on the same producer)", func() {
			_ = producer.Produce(io.Discard, [][]string{{"w"}})
			// and one that failed, from a source that writes itself: what a call reports is its own outcome (r10)
			_ = producer.Produce(io.Discard, writerTo{data: "x,\"y\nz\n", chunk: 3})
		}); v != nil {
			return nil, v
		}
	}
	call := func() *kit.Violation {
		return kit.Guard("CSVProducer.Produce ["+what+"]", func() {
			err = producer.Produce(writer, data)
		})
	}
	if kind == kFrom {
		// the io.WriterTo source is served by two goroutines of the codec: a hang must not hang the harness
		done := make(chan *kit.Violation, 1)
		go func() { done <- call() }()
		select {
		case v := <-done:
			if v != nil {
				return nil, v
			}
		case <-time.After(20 * time.Second):
			return nil, kit.Failf("%s: Produce did not return within 20s", what)
		}
	} else if v := call(); v != nil {
		return nil, v
	}

	delivered := func() string { return fmt.Sprintf("the text %q", snk.buf.Bytes()) }
	if snk.failed {
		if err == nil {
			return nil, kit.Failf("%s: SINK-FAILURE-AS-SUCCESS: the byte sink refused a write after %d bytes; Produce returned success", what, c.SinkFail-1)
		}
		return nil, nil
	}
	if (kind == kCSV && c.Rich || kind == kStream) && c.SrcFail > 0 { // the kinds that read from the scripted stream
		if err == nil {
			return nil, kit.Failf("%s: SOURCE-FAILURE-AS-SUCCESS: the stream behind the source reported an error before its end (after at most %d of %d bytes); Produce returned success and delivered %s", what, c.SrcFail-1, len(in), delivered())
		}
		return nil, nil
	}
	if kind == kFrom && c.SrcFail > 0 {
		if err == nil {
			return nil, kit.Failf("%s: SOURCE-FAILURE-AS-SUCCESS: the io.WriterTo source reported an error after %d of its %d bytes; Produce returned success and delivered %s", what, minInt(c.SrcFail-1, len(in)), len(in), delivered())
		}
		return nil, nil
	}
	// io.WriterTo: the parser's error and the broken-pipe error of the feeding side race inside the codec, either
	// is "an error"
	if done, v := judgeError(what, kind == kFrom, eff, want, true, o, err, delivered); done {
		return nil, v
	}
	out := snk.buf.Bytes()
	return out, judgeText(what, out, want, o)
}

// checkAgree runs every kind on the same input. Each kind is judged against the same model, hence against
// every other kind; then every distinct produced text is consumed into every destination kind.
func checkAgree(c Case) *kit.Violation {
	for k := 0; k < 8; k++ {
		if v := checkConsume(c, k); v != nil {
			return v
		}
	}
	var outs [][]byte
	for k := 0; k < 8; k++ {
		out, v := checkProduce(c, k)
		if v != nil {
			return v
		}
		if out == nil || !writerUsable(c.Opts) {
			continue
		}
		dup := false
		for _, o := range outs {
			if bytes.Equal(o, out) {
				dup = true
			}
		}
		if !dup {
			outs = append(outs, append([]byte(nil), out...))
		}
	}
	// second stage: the producer's text read with the writer's separator
	for _, out := range outs {
		c2 := c
		c2.Text = kit.BStr(out)
		c2.Opts = Opts{Comma: c.Opts.WComma, FPR: -1, Reuse: c.Opts.Reuse, CRLF: c.Opts.CRLF, WComma: c.Opts.WComma, Close: c.Opts.Close}
		for k := 0; k < 8; k++ {
			if v := checkConsume(c2, k); v != nil {
				return kit.Failf("second stage (text produced by the codec, consumed again): %s", v.Msg)
			}
		}
	}
	return nil
}

func minInt(a, b int) int {
	if a < b {
		return a
	}
	return b
}
