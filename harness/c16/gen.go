package c16

import (
	"encoding/csv"
	"errors"
	"fmt"
	"strings"

	"pgregory.net/rapid"

	"verif/harness/kit"
)

// Option sets ---------------------------------------------------------------------------------------

var (
	seps        = []int32{0, 0, ',', ';', '\t', '|', 'ü'}
	badSeps     = []int32{'"', '\n', '\r', 0xFFFD, -1, 0x110000}
	comments    = []int32{0, 0, 0, '#', '#', ';', '/'}
	wseps       = []int32{0, 0, ',', ';', '\t', '|', 'ü'}
	badWSeps    = []int32{'"', '\n', '\r', 0xFFFD}
	fprs        = []int{0, 0, 0, -1, -1, 1, 2, 3}
	chunks      = []int{0, 0, 1, 2, 3, 7}
	optsDefault = Opts{}
)

func genOpts(t *rapid.T) Opts {
	var o Opts
	style := rapid.IntRange(0, 19).Draw(t, "optstyle")
	// (rapid favours the ends of a range, rare classes sit in the middle)
	if style >= 8 && style <= 10 {
		return optsDefault // the codec is then built without any option
	}
	o.Comma = rapid.SampledFrom(seps).Draw(t, "comma")
	o.Comment = rapid.SampledFrom(comments).Draw(t, "comment")
	o.Lazy = rapid.IntRange(0, 3).Draw(t, "lazy") == 3
	o.Trim = rapid.IntRange(0, 3).Draw(t, "trim") == 3
	o.FPR = rapid.SampledFrom(fprs).Draw(t, "fpr")
	o.Skip = -1 // drawn once the text is known (genCommon)
	o.CRLF = rapid.IntRange(0, 2).Draw(t, "crlf") == 2
	o.Reuse = rapid.IntRange(0, 2).Draw(t, "reuse") == 2
	o.WComma = rapid.SampledFrom(wseps).Draw(t, "wcomma")
	o.Close = rapid.IntRange(0, 3).Draw(t, "close") == 3
	switch style {
	case 12: // invalid reader combinations
		switch rapid.IntRange(0, 2).Draw(t, "badreader") {
		case 0:
			o.Comma = rapid.SampledFrom(badSeps).Draw(t, "badcomma")
		case 1:
			o.Comment = rapid.SampledFrom(badSeps).Draw(t, "badcomment")
		case 2: // separator = comment
			if o.Comma == 0 {
				o.Comment = ','
			} else {
				o.Comment = o.Comma
			}
		}
	case 14: // invalid writer separator
		o.WComma = rapid.SampledFrom(badWSeps).Draw(t, "badwcomma")
	}
	return o
}

// CSV text grammar ----------------------------------------------------------------------------------

func sepOf(o Opts) string {
	if o.Comma != 0 && o.Comma > 0 && o.Comma < 0x110000 && o.Comma != '"' && o.Comma != '\n' && o.Comma != '\r' {
		return string(rune(o.Comma))
	}
	return ","
}

func cleanFields(sep string) []string {
	return []string{
		"a", "b", "c d", "x1", "ü", "€uro", "", "", "0", "-1.5",
		`"q"`, `"two words"`, `"x` + sep + `y"`, `"l1` + "\n" + `l2"`, `"l1` + "\r\n" + `l2"`, `"d""q"`, `""""`, `""`,
		" lead", "trail ", " ", "\tt", `" padded "`,
		"#c", "x;y", "p|q", `\.`, "'s'", "a=b",
	}
}

func dirtyFields() []string {
	return []string{
		`bad"q`, `"unterminated`, `"a"b`, `"`, `a""`, ` "spaced"`, `"x" `, "a\rb", "\r", `"a` + "\r" + `b"`,
	}
}

const utf8BOM = "\xef\xbb\xbf"

func genText(t *rapid.T, o Opts) (string, int) {
	sep := sepOf(o)
	style := rapid.IntRange(0, 11).Draw(t, "textstyle")
	if style == 6 {
		// raw: any short string over the characters that matter
		alphabet := []rune{'a', 'b', ',', ';', '"', '"', '\n', '\n', '\r', ' ', '#', 'ü', '\t'}
		if o.Comma > 0 && o.Comma < 0x110000 {
			alphabet = append(alphabet, rune(o.Comma), rune(o.Comma))
		}
		s := rapid.StringOfN(rapid.SampledFrom(alphabet), 0, 24, -1).Draw(t, "raw")
		if rapid.IntRange(0, 7).Draw(t, "raw-bom") == 0 {
			s = utf8BOM + s
		}
		return s, strings.Count(s, "\n") + 1
	}
	dirty := style == 7 || style == 8
	// ragged rows are well formed only with fields-per-record -1; a fixed n wants rows of n fields
	rect := rapid.IntRange(0, 7).Draw(t, "ragged") != 4
	width := rapid.IntRange(1, 4).Draw(t, "width")
	switch {
	case o.FPR < 0:
		rect = rapid.IntRange(0, 3).Draw(t, "rect") == 2
	case o.FPR > 0 && rapid.IntRange(0, 9).Draw(t, "fit") < 8:
		width = o.FPR
	}
	n := 0
	if rapid.IntRange(0, 19).Draw(t, "notext") != 10 {
		n = rapid.IntRange(1, 6).Draw(t, "nlines")
	}
	clean := cleanFields(sep)
	bad := dirtyFields()
	var sb strings.Builder
	if rapid.IntRange(0, 9).Draw(t, "bom") == 0 {
		// what spreadsheet exports start with: bytes of the first field like any others (that is what a standard parse yields)
		sb.WriteString(utf8BOM)
	}
	for i := 0; i < n; i++ {
		kind := rapid.IntRange(0, 15).Draw(t, "linekind")
		switch {
		case kind == 7 || kind == 9: // empty line
		case kind == 8 || kind == 10: // comment line (a plain record when no comment rune is set)
			if o.Comment > 0 && o.Comment < 0x110000 && o.Comment != '\n' && o.Comment != '\r' {
				sb.WriteString(string(rune(o.Comment)) + "note" + sep + `"x`) // never parsed: the open quote must not matter
			} else {
				sb.WriteString("#note")
				for j := 1; j < width; j++ {
					sb.WriteString(sep + "n")
				}
			}
		default:
			nf := width
			if !rect {
				nf = rapid.IntRange(1, 4).Draw(t, "nf")
			}
			for j := 0; j < nf; j++ {
				if j > 0 {
					sb.WriteString(sep)
				}
				if dirty && rapid.IntRange(0, 7).Draw(t, "isdirty") == 3 {
					sb.WriteString(rapid.SampledFrom(bad).Draw(t, "badfield"))
				} else {
					sb.WriteString(rapid.SampledFrom(clean).Draw(t, "field"))
				}
			}
		}
		last := i == n-1
		switch nl := rapid.IntRange(0, 9).Draw(t, "nl"); {
		case nl <= 5:
			sb.WriteString("\n")
		case nl <= 7:
			sb.WriteString("\r\n")
		case last: // no terminator at the end of the text
		default:
			sb.WriteString("\n")
		}
	}
	return sb.String(), n
}

// Cases ---------------------------------------------------------------------------------------------

func genCommon(t *rapid.T, mode string) Case {
	c := Case{Mode: mode}
	c.Opts = genOpts(t)
	txt, nlines := genText(t, c.Opts)
	if rapid.IntRange(0, 11).Draw(t, "empty-input-in-its-literal-form") == 0 {
		txt, nlines = "", 0
		c.Empty = true
	}
	c.Text = kit.BStr(txt)
	if c.Opts.Skip < 0 { // non-default option set: skipped lines 0 ... n+2
		c.Opts.Skip = 0
		if rapid.Bool().Draw(t, "skipping") {
			c.Opts.Skip = rapid.IntRange(0, nlines+2).Draw(t, "skip")
		}
	}
	c.Chunk = rapid.SampledFrom(chunks).Draw(t, "chunk")
	c.EOFData = rapid.IntRange(0, 3).Draw(t, "eofdata") == 3
	c.Rich = rapid.IntRange(0, 2).Draw(t, "rich") == 2
	c.Named = rapid.IntRange(0, 3).Draw(t, "named") == 3
	c.Used = rapid.IntRange(0, 2).Draw(t, "used") == 0
	c.OwnComma = rapid.IntRange(0, 2).Draw(t, "own-separator-on-the-callers-csv-object") == 0
	if mode != "agree" && rapid.IntRange(0, 4).Draw(t, "byte-sink-fails") == 0 {
		c.SinkFail = 1 + rapid.IntRange(0, len(txt)+2).Draw(t, "sink-room")
	}
	if rapid.IntRange(0, 3).Draw(t, "writer-to-source-fails") == 0 {
		c.SrcFail = 1 + rapid.IntRange(0, len(txt)).Draw(t, "source-fails-after")
		c.SrcErr = rapid.SampledFrom([]string{"", "unexpected-eof"}).Draw(t, "source-error")
	}
	return c
}

// genPre draws the destination's pre-state relative to the number of records the input delivers.
func genPre(t *rapid.T, c *Case) {
	m := parse(string(c.Text), c.Opts)
	cnt := len(drop(m.recs, c.Opts.Skip))
	switch rapid.IntRange(0, 9).Draw(t, "prestate") {
	case 6, 7, 8, 9: // zero value
	case 5: // empty, with capacity
		c.Slack = rapid.IntRange(1, 5).Draw(t, "slack")
	case 0, 1: // shorter than the input
		if cnt > 0 {
			c.Pre = rapid.IntRange(0, cnt-1).Draw(t, "pre")
			c.Slack = rapid.SampledFrom([]int{0, 0, 1, 5}).Draw(t, "slack")
			if c.Pre == 0 && c.Slack == 0 {
				c.Slack = 1
			}
		}
	case 4: // as long as the input
		c.Pre = cnt
		c.Slack = rapid.SampledFrom([]int{0, 0, 1, 5}).Draw(t, "slack")
	default: // longer
		c.Pre = cnt + rapid.IntRange(1, 4).Draw(t, "pre")
		c.Slack = rapid.SampledFrom([]int{0, 0, 1, 5}).Draw(t, "slack")
	}
}

func GenConsume(t *rapid.T) Case {
	c := genCommon(t, "consume")
	c.Kind = rapid.IntRange(0, 7).Draw(t, "dest")
	if c.Kind >= kTable {
		genPre(t, &c)
	}
	return c
}

func GenProduce(t *rapid.T) Case {
	c := genCommon(t, "produce")
	c.Kind = rapid.IntRange(0, 7).Draw(t, "src")
	if c.Kind >= kTable {
		c.Ptr = rapid.IntRange(0, 2).Draw(t, "ptr") == 2
	}
	return c
}

func GenAgree(t *rapid.T) Case {
	c := genCommon(t, "agree")
	genPre(t, &c)
	c.Ptr = rapid.IntRange(0, 2).Draw(t, "ptr") == 2
	return c
}

// Classification ------------------------------------------------------------------------------------

func errClass(err error) string {
	switch {
	case err == nil:
		return "none"
	case errors.Is(err, csv.ErrQuote):
		return "quote"
	case errors.Is(err, csv.ErrBareQuote):
		return "bare-quote"
	case errors.Is(err, csv.ErrFieldCount):
		return "field-count"
	case strings.Contains(err.Error(), "invalid field or comment delimiter"):
		return "invalid-delimiter"
	}
	return "other"
}

func Classify(c Case) (bool, []string) {
	in := string(c.Text)
	o := c.Opts
	m := parse(in, o)
	var labels []string
	add := func(f string, a ...interface{}) { labels = append(labels, fmt.Sprintf(f, a...)) }
	nt := false

	switch c.Mode {
	case "consume":
		add("dst:%s", DestKinds[c.Kind])
	case "produce":
		add("src:%s", SrcKinds[c.Kind])
	}

	// text classes
	if strings.HasPrefix(in, utf8BOM) {
		add("text:starts with a UTF-8 byte order mark")
		nt = true
	}
	if c.Mode == "consume" && c.Kind == kBinary && c.Pre > 0 {
		add("dst:BinaryUnmarshaler that already holds data")
	}
	if strings.Contains(in, `"`) {
		add("text:quoted")
		nt = true
	}
	ragged, multiline, single := false, false, false
	for _, r := range m.recs {
		if len(r) != len(m.recs[0]) {
			ragged = true
		}
		if len(r) == 1 && r[0] == "" {
			single = true
		}
		for _, f := range r {
			if strings.Contains(f, "\n") {
				multiline = true
			}
		}
	}
	if ragged {
		add("text:ragged")
		nt = true
	}
	if multiline {
		add("text:newline-inside-field")
	}
	if single {
		add("text:record-of-one-empty-field")
	}
	if strings.Contains(in, "\r\n") {
		add("text:crlf")
	}
	if strings.Contains(strings.ReplaceAll(in, "\r\n", ""), "\r") {
		add("text:bare-cr")
	}
	if strings.Contains(in, "\n\n") || strings.HasPrefix(in, "\n") || strings.Contains(in, "\n\r\n") {
		add("text:empty-line")
	}
	if in == "" {
		add("text:empty")
	} else if !strings.HasSuffix(in, "\n") {
		add("text:no-final-newline")
	}
	if o.Comment != 0 && m.err == nil {
		plain := o
		plain.Comment = 0
		if pm := parse(in, plain); pm.err != nil || len(pm.recs) != len(m.recs) {
			add("text:comment-line-dropped")
		}
	}

	// model classes
	if m.err != nil {
		add("model:error:%s", errClass(m.err))
		if len(m.recs) > 0 {
			add("model:error-after-good-records")
		}
		nt = true
	} else {
		switch n := len(m.recs); {
		case n == 0:
			add("model:0-records")
		case n == 1:
			add("model:1-record")
		default:
			add("model:2+records")
		}
		if exp, err := textual(drop(m.recs, o.Skip), o); err == nil && writerUsable(o) && !same(exp, drop(m.recs, o.Skip)) {
			add("model:not-expressible-by-the-standard-writer")
		}
	}

	// option classes
	if o.isDefault() {
		add("opts:default")
	} else {
		nt = true
		if o.Comma != 0 {
			add("opt:separator")
		}
		if o.Comment != 0 {
			add("opt:comment")
		}
		if o.Lazy {
			add("opt:lazy")
		}
		if o.Trim {
			add("opt:trim")
		}
		switch {
		case o.FPR < 0:
			add("opt:fpr=-1")
		case o.FPR > 0:
			add("opt:fpr=n")
		}
		if o.CRLF {
			add("opt:crlf")
		}
		if o.Reuse {
			add("opt:reuse")
		}
		if o.WComma != 0 {
			add("opt:writer-separator")
		}
		if o.Close {
			add("opt:close")
		}
		if errClass(m.err) == "invalid-delimiter" {
			add("opt:invalid-reader-combination")
		}
		if !writerUsable(o) {
			add("opt:invalid-writer-separator")
		}
	}
	if m.err == nil {
		switch {
		case o.Skip == 0:
			add("skip:0")
		case o.Skip < len(m.recs):
			add("skip:<records")
		case o.Skip == len(m.recs):
			add("skip:=records")
			nt = true
		default:
			add("skip:>records")
			nt = true
		}
	}

	// destination pre-state
	if (c.Mode == "consume" && c.Kind >= kTable) || c.Mode == "agree" {
		after := len(drop(m.recs, o.Skip))
		switch {
		case c.Pre == 0 && c.Slack == 0:
			add("dst-state:fresh")
		case c.Pre == 0:
			add("dst-state:empty-with-capacity")
			nt = true
		case m.err != nil:
			add("dst-state:pre-populated,input-malformed")
			nt = true
		case c.Pre < after:
			add("dst-state:shorter-than-input")
			nt = true
		case c.Pre == after:
			add("dst-state:as-long-as-input")
			nt = true
		default:
			add("dst-state:longer-than-input")
			nt = true
		}
	}
	if c.Named {
		add("variant:named-type")
	}
	if c.Used {
		add("variant:instance-used-before-and-after")
		nt = true
	}
	if c.Ptr {
		add("variant:pointer-source")
	}
	if c.Rich {
		add("variant:closable-or-multi-interface-stream")
	}
	if c.Chunk > 0 {
		add("variant:chunked-stream")
	}
	if c.Empty && string(c.Text) == "" {
		add("empty input as http.NoBody / nil slices")
	}
	if c.SinkFail > 0 && c.Mode != "agree" {
		add("the byte sink refuses writes beyond a limit")
	}
	if c.OwnComma && c.Kind == kCSV && (c.Mode == "produce" && c.Opts.Comma == 0 || c.Mode == "consume" && c.Opts.WComma == 0) {
		add("the caller's own csv object carries its own separator")
	}
	if c.SrcFail > 0 && (c.Mode == "produce" && c.Kind == kFrom || c.Mode == "agree") {
		add("io.WriterTo source reports an error")
		nt = true
	}
	if c.SrcFail > 0 && (c.Mode == "consume" || c.Mode == "agree" || c.Mode == "produce" && (c.Kind == kCSV && c.Rich || c.Kind == kStream)) {
		add("the stream that is read from reports an error before its end")
		if c.SrcErr != "" {
			add("the stream fails with io.ErrUnexpectedEOF")
		}
		nt = true
	}
	return nt, labels
}

const rule = "CSV text from a grammar (quoted fields, embedded separators/newlines/doubled quotes, empty fields and lines, ragged rows, comment lines, bare/unterminated quotes, CRLF, raw strings) x option set (separator, comment, lazy quotes, trim, fields per record 0/-1/n, skip 0..n+2, CRLF, record reuse, writer separator, close; invalid combinations) x kind x destination pre-state; non-trivial = text with a quote, ragged or malformed record, or non-default options, or pre-populated destination, or skip >= record count"

func Props() []kit.Runner {
	return []kit.Runner{
		kit.Prop[Case]{ID: "C16", Name: "consume", Rule: "CSVConsumer into one of the 8 destination kinds: " + rule,
			Quick: 40000, Thorough: 500000, Gen: GenConsume, Check: Check, Classify: Classify},
		kit.Prop[Case]{ID: "C16", Name: "produce", Rule: "CSVProducer from one of the 8 source kinds: " + rule,
			Quick: 40000, Thorough: 500000, Gen: GenProduce, Check: Check, Classify: Classify},
		kit.Prop[Case]{ID: "C16", Name: "agree", Rule: "all 8 destination kinds and all 8 source kinds on the same input, then each produced text into all 8 destination kinds: " + rule,
			Quick: 5000, Thorough: 50000, Gen: GenAgree, Check: Check, Classify: Classify},
		largeProp(),
	}
}
