package c16

import (
	"testing"

	"verif/harness/kit"
)

func TestVerif(t *testing.T) { kit.Main(t, Props()...) }

// fuzzCase maps raw fuzzer input to a case: the text is taken as it is, the option set and the kind are
// decoded from two integers. Every bit pattern is a valid case.
func fuzzCase(text string, kind uint8, bits uint32) Case {
	pick := func(n int) int { v := int(bits) % n; bits /= uint32(n); return v }
	flag := func() bool { return pick(2) == 1 }
	var c Case
	c.Mode = []string{"consume", "produce"}[pick(2)]
	c.Kind = int(kind) % 8
	c.Text = kit.BStr(text)
	c.Opts.Comma = []int32{0, ';', '\t', '|'}[pick(4)]
	c.Opts.Comment = []int32{0, '#'}[pick(2)]
	c.Opts.Lazy, c.Opts.Trim = flag(), flag()
	c.Opts.FPR = []int{0, -1, 2}[pick(3)]
	c.Opts.Skip = pick(4)
	c.Opts.CRLF, c.Opts.Reuse = flag(), flag()
	c.Opts.WComma = []int32{0, ';'}[pick(2)]
	c.Pre = pick(4)
	c.Chunk = pick(3)
	return c
}

// FuzzCSV is the native coverage-guided target of the thorough tier: raw text bytes, same oracle.
func FuzzCSV(f *testing.F) {
	seeds := []string{"", "a,b\nc,d\n", "\"q\",\"x,y\"\r\n\"l1\nl2\",\"d\"\"q\"\n", "a;b;c\n#note\n\n d; e;f", "bad\"q,x\n", "\"open", "\"\"\n", "a\rb,\r\n", "x|y\t z\n"}
	for i, s := range seeds {
		for k := 0; k < 8; k++ {
			f.Add(s, uint8(k), uint32(i*7919+k*104729))
		}
	}
	f.Fuzz(func(t *testing.T, text string, kind uint8, bits uint32) {
		if len(text) > 4096 {
			return
		}
		c := fuzzCase(text, kind, bits)
		if v := Check(c); v != nil {
			p := kit.WriteReplay("C16", c.Mode, "fuzz", c, v.Msg)
			t.Fatalf("VIOLATION property=C16 replay=%s\n%s", p, v.Msg)
		}
	})
}
