// Package c17 decides property C17 (probing a request for a body never loses, reorders or fabricates body
// bytes) with a model-based state machine over scripted underlying streams.
//
// A case is the script of the underlying stream (how many bytes, how they are chunked, which sticky terminal
// condition follows them, how the length is declared, whether the body is a scripted stream, nil or
// http.NoBody) plus the list of operations applied to the request: HasBody, Read(n), Close. Check interprets
// the list against runtime.HasBody / request.Body and against a model written from the statement:
//
//	remaining bytes + terminal condition + closed flag + "has a probe wrapped the stream yet".
package c17

import (
	"errors"
	"fmt"
	"io"
	"net/http"
	"strconv"

	rt "github.com/go-openapi/runtime"
	"pgregory.net/rapid"

	"verif/harness/kit"
)

// Script describes the underlying stream and how its length is declared.
type Script struct {
	Body     string `json:"body"`               // "script" | "nil" | "nobody"
	Len      int    `json:"len"`                // bytes delivered before the terminal condition (for Term "err": the fault offset)
	Salt     int    `json:"salt,omitempty"`     // selects the byte pattern
	Chunks   []int  `json:"chunks,omitempty"`   // successive maximal chunk sizes, cycled; 0 = a zero-length read without error
	Term     string `json:"term,omitempty"`     // "eof" | "err": sticky terminal condition
	EOFWith  bool   `json:"eofWith,omitempty"`  // the terminal condition is returned together with the last data
	CloseErr bool   `json:"closeErr,omitempty"` // the underlying stream's Close returns an error (it is closed all the same)
	// After: what the underlying stream answers once it has delivered its terminal condition: "" = the same condition
	// again (sticky), "eof" = io.EOF. Generated only where no probe can meet the terminal condition itself (the body is
	// not empty and every probe precedes the first read): a probe that is handed the terminal condition consumes it, which
	// the sticky streams of DESIGN.md section 6 hide and which is not judged.
	After string `json:"after,omitempty"`
	// CL: how the length is declared.
	//   "absent"   no Content-Length header, ContentLength field -1 (what a server sees for a chunked request)
	//   "absent0"  no header, field 0 (what a client-side request with an unknown-length reader carries)
	//   "zero"     header "0", field 0
	//   "pos"      header and field carry the same positive number
	//   "posfield" field positive, no header (a client-side request built from a sized reader)
	CL    string `json:"cl"`
	CLVal int    `json:"clVal,omitempty"` // the positive number declared by pos / posfield
	// Method of the request ("" = POST): whether a request has a body is a matter of its length and its stream, not
	// of its method (a GET may carry one).
	Method string `json:"method,omitempty"`
	// Lead: bytes that mean something to some reader, laid over the pattern at offsets 0 and 4 (as far as the body
	// reaches): "bom" EF BB BF, "bom16" FF FE, "crlf" CR LF, "lf", "blank", "nul", "gzip" 1F 8B. To the probe they are
	// bytes like any other. (r7)
	Lead string `json:"lead,omitempty"`
	// TE: the request's TransferEncoding field is set ("chunked"), whatever its length declaration says: the answer is a
	// matter of the declared length and of the stream. (r8)
	TE bool `json:"te,omitempty"`
	// ErrKind (Term "err"): the error value: "" an error of the stream's own, "unexpected-eof", "closed-pipe" (r9)
	ErrKind string `json:"err_kind,omitempty"`
	// ZeroAs (CL "zero"): how the zero is spelled in the header: "" = "0", else "00", "000" (1*DIGIT admits them) (r9)
	ZeroAs string `json:"zero_as,omitempty"`
}

var leads = map[string][]byte{"bom": {0xEF, 0xBB, 0xBF}, "bom16": {0xFF, 0xFE}, "crlf": {'\r', '\n'}, "lf": {'\n'}, "blank": {' '}, "nul": {0}, "gzip": {0x1F, 0x8B}}

// Op is one operation on the request: K is "has" (runtime.HasBody), "read" (Body.Read with a buffer of N
// bytes) or "close" (Body.Close).
type Op struct {
	K string `json:"k"`
	N int    `json:"n,omitempty"`
}

type Case struct {
	Script Script `json:"script"`
	Ops    []Op   `json:"ops"`
}

var errScripted = errors.New("scripted stream failure")
var errAfterClose = errors.New("scripted stream: read after close")
var errScriptedClose = errors.New("scripted stream: close failed")

func (s Script) bytes() []byte {
	b := make([]byte, s.Len)
	for i := range b {
		x := uint32(i+1)*2654435761 + uint32(s.Salt)*40503
		b[i] = byte(x>>24) ^ byte(x>>11) ^ byte(i)
	}
	if m := leads[s.Lead]; len(m) > 0 {
		copy(b, m)
		if len(b) > 4 {
			copy(b[4:], m)
		}
	}
	return b
}

var errWrappedEOF = fmt.Errorf("upload aborted: %w", io.EOF)

func (s Script) term() error {
	if s.Term == "err" {
		switch s.ErrKind {
		case "unexpected-eof":
			return io.ErrUnexpectedEOF // what net/http reports for a truncated upload
		case "closed-pipe":
			return io.ErrClosedPipe
		case "wrapped-eof":
			return errWrappedEOF // an error that wraps io.EOF without being it: not a regular end (r10)
		}
		return errScripted
	}
	return io.EOF
}

func (s Script) declaredPositive() bool { return s.CL == "pos" || s.CL == "posfield" }
func (s Script) declared() bool         { return s.declaredPositive() || s.CL == "zero" }

// stream is the scripted underlying body.
type stream struct {
	data          []byte
	pos           int
	chunks        []int
	ci            int
	term          error
	eofWith       bool
	closeErr      bool
	after         string
	termDelivered bool
	closes        int
	afterClose    int // Read calls that reached the stream after it was closed
	reads         int
}

func (s *stream) Read(p []byte) (int, error) {
	s.reads++
	if s.closes > 0 {
		s.afterClose++
		return 0, errAfterClose
	}
	if s.pos >= len(s.data) {
		if s.after == "eof" && s.termDelivered {
			return 0, io.EOF
		}
		s.termDelivered = true
		return 0, s.term // sticky unless After says otherwise
	}
	if len(p) == 0 {
		return 0, nil
	}
	c := s.chunks[s.ci%len(s.chunks)]
	s.ci++
	if c == 0 {
		return 0, nil
	}
	n := len(p)
	if n > c {
		n = c
	}
	if s.pos+n > len(s.data) {
		n = len(s.data) - s.pos
	}
	copy(p, s.data[s.pos:s.pos+n])
	s.pos += n
	if s.pos == len(s.data) && s.eofWith {
		s.termDelivered = true
		return n, s.term
	}
	return n, nil
}

func (s *stream) Close() error {
	s.closes++
	if s.closeErr {
		return errScriptedClose
	}
	return nil
}

// wellFormed rejects cases outside the property's domain (hand-written replay files).
func (c Case) wellFormed() error {
	s := c.Script
	switch s.Body {
	case "script":
		if s.Len < 0 || s.Len > 1<<20 {
			return fmt.Errorf("len out of range")
		}
		nz, run, maxRun := 0, 0, 0
		for _, ch := range s.Chunks {
			if ch < 0 {
				return fmt.Errorf("negative chunk")
			}
			if ch > 0 {
				nz++
				run = 0
			} else {
				run++
				if run > maxRun {
					maxRun = run
				}
			}
		}
		if nz == 0 {
			return fmt.Errorf("script without a non-empty chunk")
		}
		if 2*maxRun >= 100 || len(s.Chunks) > 40 {
			return fmt.Errorf("100 or more consecutive empty reads are outside the statement")
		}
		if s.Term != "eof" && s.Term != "err" {
			return fmt.Errorf("unknown terminal condition %q", s.Term)
		}
	case "nil", "nobody":
	default:
		return fmt.Errorf("unknown body kind %q", s.Body)
	}
	switch s.CL {
	case "absent", "absent0", "zero":
	case "pos", "posfield":
		if s.CLVal <= 0 {
			return fmt.Errorf("declared length must be positive")
		}
	default:
		return fmt.Errorf("unknown length declaration %q", s.CL)
	}
	for _, op := range c.Ops {
		switch op.K {
		case "has", "close", "copy":
		case "read":
			if op.N < 0 || op.N > 1<<20 {
				return fmt.Errorf("read size out of range")
			}
		default:
			return fmt.Errorf("unknown op %q", op.K)
		}
	}
	return nil
}

// Check interprets the operation list. Operations the statement says nothing about are skipped: HasBody
// after Close, HasBody after the terminal condition has been observed, Read/Close on a request without body.
func Check(c Case) *kit.Violation {
	if err := c.wellFormed(); err != nil {
		return kit.Failf("malformed case: %v", err)
	}
	sc := c.Script
	method := sc.Method
	if method == "" {
		method = http.MethodPost
	}
	req, err := http.NewRequest(method, "http://verif.invalid/", nil)
	if err != nil {
		return kit.Failf("harness: %v", err)
	}
	var st *stream
	var data []byte
	var term error = io.EOF
	switch sc.Body {
	case "script":
		data = sc.bytes()
		term = sc.term()
		st = &stream{data: data, chunks: sc.Chunks, term: term, eofWith: sc.EOFWith, closeErr: sc.CloseErr, after: sc.After}
		req.Body = st
	case "nobody":
		req.Body = http.NoBody
	case "nil":
		req.Body = nil
	}
	switch sc.CL {
	case "absent":
		req.ContentLength = -1
	case "absent0":
		req.ContentLength = 0
	case "zero":
		req.ContentLength = 0
		req.Header.Set("Content-Length", "0")
		if sc.ZeroAs == "00" || sc.ZeroAs == "000" {
			req.Header.Set("Content-Length", sc.ZeroAs)
		}
	case "pos":
		req.ContentLength = int64(sc.CLVal)
		req.Header.Set("Content-Length", strconv.Itoa(sc.CLVal))
	case "posfield":
		req.ContentLength = int64(sc.CLVal)
	}
	if sc.TE {
		req.TransferEncoding = []string{"chunked"}
	}

	// the model
	pos := 0          // bytes handed to the caller so far
	termSeen := false // the terminal condition has been handed to the caller
	closed := false   // the caller closed the body
	wrapped := false  // a probe had to look at the stream
	wrappedAtClose := false
	probes := 0
	probedAfterClose := false

	hist := func(i int) string {
		return fmt.Sprintf("op %d of %v on %+v", i, c.Ops, sc)
	}

	var scratch []byte
	read := func(i, n int, what string) *kit.Violation {
		if n > len(scratch) {
			scratch = make([]byte, n)
		}
		buf := scratch[:n]
		var k int
		var rerr error
		if v := kit.Guard("Body.Read", func() { k, rerr = req.Body.Read(buf) }); v != nil {
			return kit.Failf("%s (%s)", v.Msg, hist(i))
		}
		if k < 0 || k > n {
			return kit.Failf("%s: Read(%d) reported %d bytes (%s)", what, n, k, hist(i))
		}
		if closed {
			// every read after close fails, a zero-length one included (the closed state is checked before anything else, as
			// net/http's bodies and os.File do)
			if n == 0 && probedAfterClose && k == 0 {
				// the body was probed again after it had been closed: what answers now is a fresh wrapper around the closed
				// one, and a read that asks for nothing is answered by its buffer; only reads that ask for bytes are judged
				return nil
			}
			if wrappedAtClose && (k != 0 || rerr == nil) {
				return kit.Failf("%s: read after close returned %d bytes, err=%v; it must fail (%s)", what, k, rerr, hist(i))
			}
			return nil
		}
		if pos+k > len(data) {
			return kit.Failf("%s: %d bytes fabricated: the stream holds %d bytes, %d were already read, Read returned %d more (%s)",
				what, pos+k-len(data), len(data), pos, k, hist(i))
		}
		if string(buf[:k]) != string(data[pos:pos+k]) {
			d := 0
			for d < k && buf[d] == data[pos+d] {
				d++
			}
			return kit.Failf("%s: body bytes diverge from the stream at offset %d: got %#x want %#x (%s)", what, pos+d, buf[d], data[pos+d], hist(i))
		}
		pos += k
		if rerr != nil {
			if pos != len(data) {
				return kit.Failf("%s: terminal condition %v after %d of %d bytes (%s)", what, rerr, pos, len(data), hist(i))
			}
			// the first terminal condition the body hands out is the stream's; what a non-sticky stream answers afterwards is its own business
			if rerr != term && !(termSeen && sc.After != "") {
				return kit.Failf("%s: terminal condition is %v, the stream ends with %v (%s)", what, rerr, term, hist(i))
			}
			termSeen = true
		} else if termSeen && n > 0 {
			return kit.Failf("%s: Read returned (%d, nil) after the terminal condition had been delivered (%s)", what, k, hist(i))
		}
		return nil
	}

	for i, op := range c.Ops {
		switch op.K {
		case "has":
			if closed && !termSeen && req.Body != nil {
				// asking once more after the body was closed: the answer is not judged (the stream is gone), but the
				// probe must not undo the close: later closes still leave the stream closed exactly once, later reads fail
				if v := kit.Guard("HasBody after Close", func() { _ = rt.HasBody(req) }); v != nil {
					return kit.Failf("%s (%s)", v.Msg, hist(i))
				}
				probedAfterClose = true
				if st != nil && wrappedAtClose && st.closes != 1 {
					return kit.Failf("a probe after Close left the underlying stream closed %d times, want exactly 1 (%s)", st.closes, hist(i))
				}
				continue
			}
			if closed || termSeen {
				continue
			}
			var h bool
			if v := kit.Guard("HasBody", func() { h = rt.HasBody(req) }); v != nil {
				return kit.Failf("%s (%s)", v.Msg, hist(i))
			}
			probes++
			want := sc.declaredPositive() || (!sc.declared() && sc.Body == "script" && pos < len(data))
			if h != want {
				return kit.Failf("HasBody answered %v, want %v: declared=%s, %d of %d bytes read, probe number %d (%s)",
					h, want, sc.CL, pos, len(data), probes, hist(i))
			}
			if !sc.declared() && sc.Body != "nil" {
				wrapped = true
			}
			if sc.Body == "nil" && !sc.declared() && req.Body != nil {
				// a request without body must stay usable: whatever HasBody left there has to behave like an empty body
				wrapped = true
			}
		case "read":
			if req.Body == nil {
				continue
			}
			if v := read(i, op.N, "Read"); v != nil {
				return v
			}
		case "copy":
			// the rest of the body handed to io.Copy (what a byte-stream consumer does): it goes through io.WriterTo when
			// the body offers it, so that entry point is held to the same rules as Read
			if req.Body == nil {
				continue
			}
			var sink copySink
			var n int64
			var cerr error
			if v := kit.Guard("io.Copy from the body", func() { n, cerr = io.Copy(&sink, req.Body) }); v != nil {
				return kit.Failf("%s (%s)", v.Msg, hist(i))
			}
			if closed {
				if wrappedAtClose && !probedAfterClose && (n != 0 || cerr == nil) {
					return kit.Failf("io.Copy from the closed body returned (%d, %v); reads after close must fail (%s)", n, cerr, hist(i))
				}
				continue
			}
			if pos+int(n) > len(data) || string(sink.b) != string(data[pos:pos+int(n)]) {
				return kit.Failf("io.Copy delivered %d bytes that are not the next bytes of the stream (%d of %d were read before) (%s)", n, pos, len(data), hist(i))
			}
			pos += int(n)
			if pos != len(data) {
				return kit.Failf("io.Copy stopped after %d of %d bytes with error %v (%s)", pos, len(data), cerr, hist(i))
			}
			if term == io.EOF || (termSeen && sc.After != "") {
				if cerr != nil {
					return kit.Failf("io.Copy to the end of the stream returned %v, the stream ends with io.EOF (%s)", cerr, hist(i))
				}
			} else if cerr != term {
				return kit.Failf("io.Copy returned %v, the stream ends with %v (%s)", cerr, term, hist(i))
			}
			termSeen = true
		case "close":
			if req.Body == nil {
				continue
			}
			if v := kit.Guard("Body.Close", func() { _ = req.Body.Close() }); v != nil {
				return kit.Failf("%s (%s)", v.Msg, hist(i))
			}
			if !closed {
				closed = true
				wrappedAtClose = wrapped
			}
			if st != nil && (wrappedAtClose || st.closes == 0) && st.closes != 1 {
				// wrapped: exactly once, also after repeated Close. Not wrapped: the body is the caller's own stream,
				// whose Close we count ourselves; 0 there means Close never arrived.
				return kit.Failf("after Close the underlying stream was closed %d times, want exactly 1 (%s)", st.closes, hist(i))
			}
		}
	}

	// the rest of the body: exactly the remaining bytes, then the terminal condition
	if !closed && req.Body != nil {
		bound := (len(data)+2)*(len(sc.Chunks)+2) + 400
		for n := 0; !termSeen; n++ {
			if n > bound {
				return kit.Failf("draining the body made no progress: %d of %d bytes after %d reads (%s)", pos, len(data), n, hist(len(c.Ops)))
			}
			if v := read(len(c.Ops), 4096, "drain"); v != nil {
				return v
			}
		}
		if pos != len(data) {
			return kit.Failf("body lost bytes: %d of %d delivered before %v (%s)", pos, len(data), term, hist(len(c.Ops)))
		}
		if st != nil && st.closes != 0 {
			return kit.Failf("the underlying stream was closed %d times although the caller never closed the body (%s)", st.closes, hist(len(c.Ops)))
		}
	}
	if st != nil && closed && wrappedAtClose {
		if st.afterClose > 0 {
			return kit.Failf("%d reads reached the underlying stream after Close (%s)", st.afterClose, hist(len(c.Ops)))
		}
		if st.closes != 1 {
			return kit.Failf("underlying stream closed %d times, want exactly 1 (%s)", st.closes, hist(len(c.Ops)))
		}
	}
	return nil
}

// copySink is a destination that is nothing but an io.Writer.
type copySink struct{ b []byte }

func (s *copySink) Write(p []byte) (int, error) { s.b = append(s.b, p...); return len(p), nil }

// Generators ------------------------------------------------------------------------------------------

var lens = []int{0, 0, 1, 1, 2, 3, 5, 17, 511, 512, 4095, 4096, 4096, 4097, 8191, 8192, 8193, 9000, 12288}
var chunkSizes = []int{0, 0, 1, 1, 2, 3, 7, 512, 4095, 4096, 4097, 5000, 100000}
var readSizes = []int{0, 1, 1, 2, 3, 4095, 4096, 4096, 4097, 10000}

func genScript(t *rapid.T) Script {
	s := Script{}
	s.Body = rapid.SampledFrom([]string{"script", "script", "script", "script", "script", "script", "script", "nil", "nobody"}).Draw(t, "body")
	s.CL = rapid.SampledFrom([]string{"absent", "absent", "absent", "absent0", "absent0", "zero", "pos", "posfield"}).Draw(t, "cl")
	s.Method = rapid.SampledFrom([]string{"", "", "", "GET", "get", "HEAD", "DELETE", "OPTIONS", "PUT"}).Draw(t, "method")
	s.TE = rapid.IntRange(0, 3).Draw(t, "transfer-encoding-field") == 0
	if s.CL == "zero" {
		s.ZeroAs = rapid.SampledFrom([]string{"", "", "00", "000"}).Draw(t, "zero-spelling")
	}
	s.Lead = rapid.SampledFrom([]string{"", "", "", "bom", "bom", "bom16", "crlf", "lf", "blank", "nul", "gzip"}).Draw(t, "lead")
	if s.Body == "script" {
		if rapid.IntRange(0, 3).Draw(t, "anylen") == 0 {
			s.Len = rapid.IntRange(0, 3*4096).Draw(t, "len")
		} else {
			s.Len = rapid.SampledFrom(lens).Draw(t, "lenT")
		}
		s.Salt = rapid.IntRange(0, 7).Draw(t, "salt")
		n := rapid.IntRange(1, 5).Draw(t, "nchunks")
		nz := 0
		for i := 0; i < n; i++ {
			c := rapid.SampledFrom(chunkSizes).Draw(t, "chunk")
			if c > 0 {
				nz++
			}
			s.Chunks = append(s.Chunks, c)
		}
		if nz == 0 {
			s.Chunks = append(s.Chunks, rapid.SampledFrom([]int{1, 3, 4096}).Draw(t, "chunkNZ"))
		}
		s.Term = rapid.SampledFrom([]string{"eof", "eof", "err"}).Draw(t, "term")
		if s.Term == "err" {
			s.ErrKind = rapid.SampledFrom([]string{"", "", "unexpected-eof", "closed-pipe", "wrapped-eof"}).Draw(t, "err-kind")
		}
		s.EOFWith = rapid.Bool().Draw(t, "eofWith")
		s.CloseErr = rapid.IntRange(0, 3).Draw(t, "closeErr") == 0
	}
	if s.declaredPositive() {
		switch rapid.IntRange(0, 2).Draw(t, "clval") {
		case 0:
			s.CLVal = s.Len
		case 1:
			s.CLVal = s.Len + rapid.IntRange(1, 10).Draw(t, "clmore")
		default:
			s.CLVal = rapid.IntRange(1, 5000).Draw(t, "clany")
		}
		if s.CLVal <= 0 {
			s.CLVal = 1
		}
	}
	return s
}

// Gen draws the script and walks a small generator-side state machine: once the body is closed the walk
// prefers reads (reads after close) and repeated closes; before that it mixes probes and reads.
func Gen(t *rapid.T) Case {
	c := Case{Script: genScript(t)}
	n := rapid.IntRange(1, 14).Draw(t, "nops")
	closed := false
	for i := 0; i < n; i++ {
		var k string
		if closed {
			k = rapid.SampledFrom([]string{"read", "read", "read", "close", "has", "copy"}).Draw(t, "opC")
		} else {
			k = rapid.SampledFrom([]string{"has", "has", "has", "read", "read", "read", "read", "close", "copy"}).Draw(t, "op")
		}
		op := Op{K: k}
		if k == "read" {
			op.N = rapid.SampledFrom(readSizes).Draw(t, "n")
		}
		if k == "close" {
			closed = true
		}
		c.Ops = append(c.Ops, op)
	}
	// a non-sticky stream (terminal error once, then EOF), where no probe can be handed the terminal condition itself
	if c.Script.Body == "script" && c.Script.Len > 0 && c.Script.Term == "err" && rapid.IntRange(0, 2).Draw(t, "nonsticky") == 0 {
		ok, read := true, false
		for _, op := range c.Ops {
			if op.K == "read" || op.K == "close" || op.K == "copy" {
				read = true
			}
			if op.K == "has" && read {
				ok = false
			}
		}
		if ok {
			c.Script.After = "eof"
		}
	}
	return c
}

// Enumerate is the systematic sweep of the thorough tier: every fault / end offset in the first bytes and
// around the 4096-byte buffer edges x terminal condition x data+EOF x chunking x length declaration x a
// fixed set of operation templates.
func Enumerate(yield func(Case) bool) {
	var offsets []int
	for i := 0; i <= 24; i++ {
		offsets = append(offsets, i)
	}
	for _, b := range []int{4096, 8192, 12288} {
		for d := -2; d <= 2; d++ {
			offsets = append(offsets, b+d)
		}
	}
	chunkings := [][]int{{1}, {2}, {3}, {4096}, {4097}, {100000}, {0, 1}, {0, 0, 3}, {1, 0, 4096}, {4095, 1, 0, 2}}
	cls := []Script{{CL: "absent"}, {CL: "absent0"}, {CL: "zero"}, {CL: "pos", CLVal: 7}, {CL: "posfield", CLVal: 7}}
	templates := [][]Op{
		{{K: "has"}},
		{{K: "has"}, {K: "has"}},
		{{K: "has"}, {K: "read", N: 1}, {K: "has"}, {K: "read", N: 0}, {K: "has"}},
		{{K: "read", N: 1}, {K: "has"}, {K: "read", N: 4096}, {K: "has"}},
		{{K: "has"}, {K: "read", N: 10000}, {K: "has"}, {K: "read", N: 2}},
		{{K: "has"}, {K: "close"}, {K: "read", N: 1}, {K: "close"}, {K: "read", N: 4096}},
		{{K: "has"}, {K: "read", N: 2}, {K: "close"}, {K: "read", N: 10000}, {K: "close"}},
		{{K: "has"}, {K: "has"}, {K: "close"}, {K: "close"}, {K: "read", N: 1}},
		{{K: "read", N: 4097}, {K: "has"}, {K: "close"}, {K: "read", N: 0}, {K: "read", N: 1}},
		{{K: "close"}, {K: "read", N: 1}},
		{{K: "has"}, {K: "read", N: 0}, {K: "read", N: 0}, {K: "has"}},
		{{K: "has"}, {K: "read", N: 4095}, {K: "has"}, {K: "read", N: 4097}, {K: "has"}, {K: "close"}, {K: "read", N: 1}},
	}
	for _, off := range offsets {
		for _, term := range []string{"eof", "err"} {
			for _, with := range []bool{false, true} {
				for _, ch := range chunkings {
					for _, cl := range cls {
						for _, ops := range templates {
							s := cl
							s.Body, s.Len, s.Chunks, s.Term, s.EOFWith, s.Salt = "script", off, ch, term, with, off%5
							if !yield(Case{Script: s, Ops: ops}) {
								return
							}
						}
					}
				}
			}
		}
	}
	for _, body := range []string{"nil", "nobody"} {
		for _, cl := range cls {
			for _, ops := range templates {
				s := cl
				s.Body = body
				if !yield(Case{Script: s, Ops: ops}) {
					return
				}
			}
		}
	}
}

// Classify: non-trivial = at least one probe that has to look at the stream, followed by reads over a script
// with >= 2 chunks or a fault; or a second probe; or reads after close.
func Classify(c Case) (bool, []string) {
	s := c.Script
	labels := []string{"body=" + s.Body, "cl=" + s.CL}
	if s.TE {
		labels = append(labels, "TransferEncoding field set, cl="+s.CL)
	}
	if s.CL == "zero" && s.ZeroAs != "" {
		labels = append(labels, "declared zero spelled "+s.ZeroAs)
	}
	if s.Body == "script" && s.Term == "err" && s.ErrKind != "" {
		labels = append(labels, "stream ends with "+s.ErrKind)
	}
	if s.Body == "script" {
		labels = append(labels, "term="+s.Term)
		if s.Lead != "" && s.Len >= len(leads[s.Lead]) {
			labels = append(labels, "body starts with "+s.Lead)
		}
		switch {
		case s.Len == 0:
			labels = append(labels, "len=0")
		case s.Len < 4096:
			labels = append(labels, "len<4096")
		case s.Len == 4096:
			labels = append(labels, "len=4096")
		default:
			labels = append(labels, "len>4096 (multi-buffer)")
		}
		if s.CloseErr {
			labels = append(labels, "underlying Close fails")
		}
		if s.After != "" {
			labels = append(labels, "non-sticky stream (error once, then EOF)")
		}
		if s.EOFWith {
			labels = append(labels, "data+terminal together")
		}
		for _, ch := range s.Chunks {
			if ch == 0 {
				labels = append(labels, "zero-length reads")
				break
			}
		}
	}
	multiChunk := false
	if s.Body == "script" && s.Len >= 2 {
		min := 1 << 30
		for _, ch := range s.Chunks {
			if ch > 0 && ch < min {
				min = ch
			}
		}
		multiChunk = min < s.Len
	}
	if multiChunk {
		labels = append(labels, ">=2 chunks")
	}
	probes, readsAfterProbe, readsAfterClose, secondProbe, probeAfterRead := 0, 0, 0, false, false
	closed, reads, closes := false, 0, 0
	for _, op := range c.Ops {
		switch op.K {
		case "has":
			if closed {
				continue
			}
			probes++
			if probes > 1 {
				secondProbe = true
			}
			if reads > 0 {
				probeAfterRead = true
			}
		case "read":
			reads++
			if closed {
				readsAfterClose++
			} else if probes > 0 {
				readsAfterProbe++
			}
			if op.N == 0 {
				labels = append(labels, "Read(0)")
			}
		case "copy":
			labels = append(labels, "io.Copy from the body")
			if closed {
				labels = append(labels, "io.Copy after Close")
			}
		case "close":
			closed = true
			closes++
		}
	}
	looks := !s.declared() && s.Body != "nil"
	if probes > 0 && looks {
		labels = append(labels, "probe looks at the stream")
	}
	if probes > 0 && !looks {
		labels = append(labels, "probe answered from the declaration")
	}
	if secondProbe {
		labels = append(labels, "second probe")
	}
	if probeAfterRead {
		labels = append(labels, "probe after a read")
	}
	if readsAfterClose > 0 {
		labels = append(labels, "reads after close")
	}
	if closes > 1 {
		labels = append(labels, "repeated close")
	}
	if s.Body == "nil" && probes > 0 && closes > 0 {
		labels = append(labels, "nil body probed then closed")
	}
	labels = dedup(labels)
	readsFollow := readsAfterProbe > 0 || closes == 0 // the final drain reads whatever the operations left
	nt := probes > 0 && looks && readsFollow && (multiChunk || s.Term == "err")
	nt = nt || secondProbe || (readsAfterClose > 0 && probes > 0)
	return nt, labels
}

func dedup(in []string) []string {
	seen := map[string]bool{}
	var out []string
	for _, l := range in {
		if !seen[l] {
			seen[l] = true
			out = append(out, l)
		}
	}
	return out
}

const rule = "case = body script (0..3x4096 bytes, chunk sizes incl. 1 and zero-length reads, data+terminal together, sticky EOF or error at an offset, nil body, http.NoBody, Content-Length positive/zero/absent) + list of HasBody / Read(n in 0,1,2,3,4095,4096,4097,10000) / Close; the body is always drained at the end; non-trivial = a probe that looks at the stream over a script with >= 2 chunks or a fault (reads follow: explicit or the final drain), or a second probe, or reads after close following a probe"

func Props() []kit.Runner {
	return []kit.Runner{
		kit.Prop[Case]{ID: "C17", Name: "machine", Rule: rule, Quick: 20000, Thorough: 200000,
			Gen: Gen, Check: Check, Classify: Classify, Enumerate: Enumerate, SampleLimit: 600},
	}
}
