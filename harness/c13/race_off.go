//go:build !race

package c13

const raceEnabled = false

func raceErrors() int { return 0 }
