package c13

import (
	"fmt"
	"mime"
	"sort"
	"strings"

	"pgregory.net/rapid"

	"verif/harness/kit"
)

// Alphabets ----------------------------------------------------------------------------------------

var registrable = []string{"application/json", "text/plain", "application/xml", "application/octet-stream", "text/html", "application/vnd.api+json"}

// unregistered types, several of them near misses of registrable ones
var foreign = []string{"image/png", "text/x-unknown", "application/json2", "application/jso", "application/problem+json", "text/plain+x", "text/*", "*/*", "application/x-www-form-urlencoded", "json", "application/vnd.api"}

var paramForms = []string{"; charset=utf-8", ";charset=UTF-8", ` ;x="y;z"`, "; a=b; c=d", `; charset="utf-8"`, ";CHARSET=utf-8", "; boundary=----x", `; title="a \"quoted\" word"`, "; q=0.5", ";\tformat=flowed"}

// raw header values judged with mime.ParseMediaType (most of them malformed)
var rawCT = []string{"garbage", "a/b/c", "/", "text/plain; charset", "text/plain;;", ";", "text/plain; charset=utf-8; charset=x", "text/ plain", "text /plain",
	"text/plain,application/json", "text", "application/json;", "application/json; =x", "text/plain; charset=ü", "ü/x", "text/plain; a=\"unterminated", "application/json charset=utf-8",
	"text/plain; charset=utf-8;", "APPLICATION/JSON;", "text/html; charset", "application/xml;x", "\"text/plain\"", "text/plain; *=x", "text/plain;charset*=utf-8''x", "application/octet-stream; name*0=a; name*1=b"}

var headerNames = []string{"X-Multi", "X-Multi", "x-multi", "x-lower", "X-Request-Id", "ETag", "Cache-Control", "Set-Cookie", "WWW-Authenticate", "Retry-After", "Link", "Vary", "Content-Language", "Date", "Server", "Content-Disposition", "X-Empty", "Location", "Content-Encoding"}

var headerValues = []string{"a", "b", "1", `W/"etag"`, "no-cache, no-store", "k=v; Path=/", `Basic realm="x"`, "120", `</next>; rel="next"`, "ü", "a,b", "two  spaces", "=?utf-8?q?x?=", "", "x", "identity", "Thu, 01 Jan 1970 00:00:00 GMT", "tok-0-", "gzip", "gzip", "br"} // gzip: with Content-Encoding, what a transport that did not inflate leaves in place (r6)

var statuses = []int{200, 200, 200, 201, 202, 203, 204, 204, 205, 206, 226, 299, 300, 301, 302, 303, 304, 307, 308, 399, 400, 401, 403, 404, 409, 418, 422, 429, 499, 500, 502, 503, 599}

var reasons = []string{"OK", "Custom Reason", "No Content", "Whatever", "Not Found", "I'm a teapot", "x"}

func mixCase(t *rapid.T, s string) string {
	switch rapid.IntRange(0, 2).Draw(t, "casemode") {
	case 0:
		return strings.ToUpper(s)
	case 1:
		return strings.Title(s) //nolint:staticcheck // ASCII media types
	}
	b := []byte(s)
	for i := range b {
		if b[i] >= 'a' && b[i] <= 'z' && rapid.Bool().Draw(t, "flip") {
			b[i] -= 32
		}
	}
	return string(b)
}

// genCT draws the Content-Type of a response relative to the registry.
func genCT(t *rapid.T, c *Case, call *Call) {
	reg := []string{}
	for _, k := range c.Registry {
		if k != "*/*" {
			reg = append(reg, k)
		}
	}
	base := rapid.SampledFrom(foreign).Draw(t, "foreign")
	registered := false
	if len(reg) > 0 && rapid.IntRange(0, 9).Draw(t, "useReg") < 6 {
		base = rapid.SampledFrom(reg).Draw(t, "regtype")
		registered = true
	} else {
		for _, k := range c.Registry {
			if k == base {
				registered = true
			}
		}
	}
	call.HasCT = true
	call.Base = base
	switch rapid.IntRange(0, 13).Draw(t, "ctform") {
	case 0, 1:
		call.CTClass, call.CT = "exact", base
	case 2, 3:
		call.CTClass, call.CT = "case", mixCase(t, base)
	case 4, 5, 6:
		call.CTClass, call.CT = "params", base+rapid.SampledFrom(paramForms).Draw(t, "params")
	case 7:
		call.CTClass, call.CT = "case+params", mixCase(t, base)+rapid.SampledFrom(paramForms).Draw(t, "params")
	case 8:
		call.CTClass, call.CT = "ws", base+rapid.SampledFrom([]string{" ;  charset=utf-8", "\t; a=b", " ; a=b ;c=d"}).Draw(t, "ws")
	case 9, 10:
		call.CTClass, call.HasCT, call.CT, call.Base = "absent", false, "", ""
	case 11:
		call.CTClass, call.CT, call.Base = "empty", "", ""
	default:
		call.CTClass, call.CT, call.Base = "raw", rapid.SampledFrom(rawCT).Draw(t, "raw"), ""
	}
	if call.HasCT && call.Base != "" && !registered {
		call.CTClass += " unregistered"
	}
}

func genCall(t *rapid.T, c *Case, maxBody int) Call {
	var call Call
	genCT(t, c, &call)
	call.Status = rapid.SampledFrom(statuses).Draw(t, "status")
	if rapid.IntRange(0, 9).Draw(t, "anystatus") == 0 {
		call.Status = rapid.IntRange(200, 599).Draw(t, "statusfree")
	}
	call.Reason = rapid.SampledFrom(reasons).Draw(t, "reason")
	nh := rapid.IntRange(0, 5).Draw(t, "nheaders")
	for i := 0; i < nh; i++ {
		h := Header{Name: rapid.SampledFrom(headerNames).Draw(t, "hname"), Value: rapid.SampledFrom(headerValues).Draw(t, "hvalue")}
		if h.Name == "Location" && call.Status >= 300 && call.Status < 400 {
			continue // a 3xx with Location is followed by http.Client: not this property
		}
		call.Headers = append(call.Headers, h)
	}
	call.CTPos = rapid.IntRange(0, len(call.Headers)).Draw(t, "ctpos")
	switch rapid.IntRange(0, 9).Draw(t, "bodymode") {
	case 0, 1:
		call.BodyLen = -1 // really empty: not even the token
	case 2, 3, 4:
		call.BodyLen = rapid.IntRange(0, 64).Draw(t, "bodylen")
	case 5, 6, 7:
		call.BodyLen = rapid.IntRange(65, 4200).Draw(t, "bodylen")
	default:
		call.BodyLen = rapid.IntRange(4201, maxBody).Draw(t, "bodylen")
	}
	call.BodyFill = rapid.SampledFrom([]string{"text", "bin", "json"}).Draw(t, "fill")
	call.Framing = rapid.SampledFrom([]string{"length", "length", "chunked", "chunked", "close"}).Draw(t, "framing")
	if call.Framing == "chunked" {
		call.Chunks = rapid.SliceOfN(rapid.SampledFrom([]int{1, 2, 3, 16, 100, 1000, 4096}), 0, 4).Draw(t, "chunks")
	}
	call.Method = rapid.SampledFrom([]string{"GET", "GET", "POST", "PUT", "DELETE"}).Draw(t, "method")
	call.OpClient = rapid.IntRange(0, 2).Draw(t, "opclient") == 0
	call.OpClientBare = call.OpClient && rapid.IntRange(0, 2).Draw(t, "opclient-without-transport") == 0
	call.OpCtx = rapid.SampledFrom([]string{"", "", "", "live", "live", "cancelled", "background", "todo", "expired", "soon"}).Draw(t, "opctx")
	if call.BodyLen >= 0 {
		call.BodyHead = rapid.SampledFrom([]string{"", "", "", "", "bom", "bom16", "gzip", "zip"}).Draw(t, "bodyhead")
	}
	call.ReaderErr = rapid.IntRange(0, 7).Draw(t, "readererr") == 0
	for k, n := 0, rapid.SampledFrom([]int{0, 0, 1, 1, 2}).Draw(t, "op-produces"); k < n; k++ {
		call.OpProduces = append(call.OpProduces, rapid.SampledFrom(append(append([]string{}, registrable...), "application/vnd.acme.v2+json", "image/png")).Draw(t, "op-produces-type"))
	}
	if rapid.IntRange(0, 5).Draw(t, "default-media-type-changed-before-the-call") == 0 {
		if rapid.Bool().Draw(t, "new-default-registered") {
			call.NewDefaultMT = rapid.SampledFrom(registrable).Draw(t, "new-defmt")
		} else {
			call.NewDefaultMT = rapid.SampledFrom(foreign).Draw(t, "new-defmt")
		}
	}
	return call
}

func genRuntime(t *rapid.T) Case {
	var c Case
	c.Registry = []string{}
	switch rapid.IntRange(0, 19).Draw(t, "regmode") {
	case 0: // empty registry
	case 1:
		c.Registry = append(c.Registry, "*/*")
	default:
		for _, k := range registrable {
			if rapid.IntRange(0, 2).Draw(t, "reg") > 0 {
				c.Registry = append(c.Registry, k)
			}
		}
		if rapid.Bool().Draw(t, "star") {
			c.Registry = append(c.Registry, "*/*")
		}
	}
	if rapid.IntRange(0, 2).Draw(t, "defreg") > 0 {
		c.DefaultMT = rapid.SampledFrom(registrable).Draw(t, "defmt")
		// the default media type is configuration text like any Content-Type: it may carry parameters or capitals
		switch rapid.IntRange(0, 5).Draw(t, "defmt-spelling") {
		case 0:
			c.DefaultMT += "; charset=utf-8"
		case 1:
			c.DefaultMT = strings.ToUpper(c.DefaultMT[:1]) + c.DefaultMT[1:]
		case 2:
			c.DefaultMT = strings.ToUpper(c.DefaultMT) + ";q=1"
		}
	} else {
		c.DefaultMT = rapid.SampledFrom(foreign).Draw(t, "defmt")
	}
	c.RtClient = rapid.SampledFrom([]string{"transport", "transport", "client"}).Draw(t, "rtclient")
	c.InPlace = rapid.IntRange(0, 2).Draw(t, "consumers-registered-in-place") == 0
	c.Schemes = rapid.SampledFrom([]string{"", "", "http,https", "ws,http,https", "https"}).Draw(t, "schemes")
	c.Again = rapid.IntRange(0, 2).Draw(t, "operation-values-submitted-to-a-second-runtime") == 0
	c.Debug = rapid.IntRange(0, 3).Draw(t, "debug") == 0
	c.RtCtx = rapid.SampledFrom([]string{"live", "live", "live", "nil", "cancelled", "expired", "soon", "soon"}).Draw(t, "rtctx")
	return c
}

// GenDispatch draws one Runtime and 1-3 sequential calls.
func GenDispatch(t *rapid.T) Case {
	c := genRuntime(t)
	n := rapid.IntRange(1, 3).Draw(t, "ncalls")
	for i := 0; i < n; i++ {
		c.Calls = append(c.Calls, genCall(t, &c, 70000))
	}
	return c
}

// GenConcurrent draws one Runtime and a batch of calls released together.
func GenConcurrent(t *rapid.T) Case {
	c := genRuntime(t)
	if (c.RtCtx == "cancelled" || c.RtCtx == "expired") && rapid.Bool().Draw(t, "uncancel") {
		c.RtCtx = "live"
	}
	c.Concurrent = true
	c.Warm = rapid.IntRange(0, 3).Draw(t, "warm") == 0
	c.Procs = rapid.SampledFrom([]int{1, 2, 3, 4, 8, 16}).Draw(t, "procs")
	n := rapid.SampledFrom([]int{2, 3, 4, 8, 16, 32}).Draw(t, "n")
	if rapid.IntRange(0, 3).Draw(t, "nfree") == 0 {
		n = rapid.IntRange(2, 32).Draw(t, "nn")
	}
	for i := 0; i < n; i++ {
		c.Calls = append(c.Calls, genCall(t, &c, 9000))
		c.Calls[i].NewDefaultMT = "" // configuration is not changed while calls are in flight
	}
	return c
}

// Classify ------------------------------------------------------------------------------------------

// Classify implements the non-trivial rule of DESIGN.md C13: a Content-Type header that is not byte-for-byte a
// registry key, or both levels of client/context set, or at least two concurrent first calls.
func Classify(c Case) (bool, []string) {
	lab := map[string]bool{}
	nt := false
	reg := map[string]bool{}
	for _, k := range c.Registry {
		reg[k] = true
	}
	if reg["*/*"] {
		lab["registry with */*"] = true
	} else {
		lab["registry without */*"] = true
	}
	if len(c.Registry) == 0 {
		lab["registry empty"] = true
	}
	if dmt, _, derr := mime.ParseMediaType(c.DefaultMT); derr == nil && reg[dmt] {
		lab["default media type registered"] = true
		if dmt != c.DefaultMT {
			lab["default media type spelled with parameters or capitals"] = true
		}
	} else {
		lab["default media type unregistered"] = true
	}
	lab["runtime-level client: "+c.RtClient] = true
	if c.InPlace {
		lab["consumers registered in place on the map New returned"] = true
	}
	if strings.Contains(c.Schemes, ",") {
		lab["scheme list with https not first"] = true
	}
	if c.Again && !c.Concurrent {
		lab["operation values submitted again through a second Runtime with its own client"] = true
	}
	if !c.Concurrent {
		for i := range c.Calls {
			if c.Calls[i].NewDefaultMT != "" && i > 0 {
				lab["default media type changed between two calls"] = true
				if !c.Calls[i].HasCT && !c.Calls[i-1].HasCT {
					lab["default media type changed between two responses without Content-Type"] = true
				}
			}
		}
	}
	if c.Debug {
		lab["debug mode"] = true
	}
	lab["runtime-level context: "+c.RtCtx] = true
	for i := range c.Calls {
		call := &c.Calls[i]
		lab["ct "+call.CTClass] = true
		if len(call.OpProduces) == 1 && !call.HasCT {
			lab["response without Content-Type to an operation that names exactly one produces type"] = true
		}
		if call.HasCT && !reg[call.CT] {
			nt = true
		}
		if ex, herr := expect(c, call); herr == "" {
			switch {
			case len(ex.consumers) > 1 || (len(ex.consumers) == 1 && ex.errorOK):
				lab["outcome: several admissible (malformed/empty header)"] = true
			case len(ex.consumers) == 1 && ex.consumers[0] == "*/*":
				lab["outcome: catch-all consumer"] = true
			case len(ex.consumers) == 1:
				lab["outcome: registered consumer"] = true
			case ex.name != "":
				lab["outcome: error naming the type"] = true
			default:
				lab["outcome: error (malformed)"] = true
			}
		}
		switch {
		case call.Status == 204 || call.Status == 304:
			lab["status 204/304 (no body)"] = true
		case call.Status < 300:
			lab["status 2xx"] = true
		case call.Status < 400:
			lab["status 3xx without Location"] = true
		case call.Status < 500:
			lab["status 4xx"] = true
		default:
			lab["status 5xx"] = true
		}
		if call.BodyHead != "" && !call.noBody() {
			lab["body starts with magic bytes ("+call.BodyHead+")"] = true
		}
		if !call.noBody() {
			lab["framing "+call.Framing] = true
			switch {
			case call.BodyLen < 0:
				lab["body empty"] = true
			case call.BodyLen <= 64:
				lab["body small"] = true
			case call.BodyLen <= 4200:
				lab["body medium"] = true
			default:
				lab["body large"] = true
			}
		}
		names := map[string]int{}
		for _, h := range call.Headers {
			names[strings.ToLower(h.Name)]++
		}
		for _, n := range names {
			if n >= 2 {
				lab["repeated header"] = true
			}
		}
		if call.OpClient {
			lab["operation-level client"] = true
			if call.OpClientBare {
				lab["operation-level client without a Transport"] = true
			}
			nt = true
		}
		switch call.OpCtx {
		case "":
			lab["no operation-level context"] = true
		default:
			lab["operation-level context: "+call.OpCtx] = true
			if c.RtCtx != "nil" {
				lab["both levels of context set"] = true
				nt = true
			}
			if call.OpCtx != c.RtCtx && (call.OpCtx == "cancelled" || c.RtCtx == "cancelled") {
				lab["one level cancelled, the other live"] = true
			}
			if call.OpCtx != "soon" && call.OpCtx != "expired" && call.OpCtx != "cancelled" && (c.RtCtx == "soon" || c.RtCtx == "expired") {
				lab["runtime-level context with a deadline under an operation-level context without one"] = true
			}
		}
		if call.ReaderErr {
			lab["reader returns an error"] = true
		}
	}
	if c.Concurrent {
		first := len(c.Calls)
		if c.Warm {
			first = 0
			lab["concurrent after a completed first call"] = true
		} else {
			lab["concurrent first calls"] = true
		}
		if first >= 2 {
			nt = true
		}
		lab[fmt.Sprintf("GOMAXPROCS %d", c.Procs)] = true
		switch n := len(c.Calls); {
		case n <= 4:
			lab["batch 2-4"] = true
		case n <= 16:
			lab["batch 5-16"] = true
		default:
			lab["batch 17-32"] = true
		}
		if raceEnabled {
			lab["race detector on"] = true
		} else {
			lab["race detector OFF"] = true
		}
	} else {
		lab[fmt.Sprintf("%d sequential call(s)", len(c.Calls))] = true
	}
	out := make([]string, 0, len(lab))
	for l := range lab {
		out = append(out, l)
	}
	sort.Strings(out)
	return nt, out
}

const rule = "one fresh client.Runtime (consumer registry = subset of 6 lower-case types with/without */*, default media type registered or not, runtime-level client via Transport or NewWithClient, runtime-level context nil/live/cancelled/deadline passed/deadline 20 s ahead) " +
	"x scripted responses parsed from their HTTP/1.1 wire form (Content-Type exact / other case / parameters / inner whitespace / unregistered incl. near misses / absent / empty / malformed; status 200-599 incl. 204, 304 and 3xx without Location; 0-5 further headers with repetitions and case variants; empty to 70 kB bodies with Content-Length, chunked or close-delimited framing) " +
	"x operation-level Client and Context (live, cancelled, context.Background(), context.TODO(), deadline passed, deadline 20 s ahead) and a reader that may fail; " +
	"oracle = consumer identity per the statement (media type by construction, cross-checked with mime.ParseMediaType; registered, else */*, else an error naming the type; malformed/empty headers: error or catch-all or the type in front of ';'), reader sees Code/Message/GetHeader/GetHeaders/Body as scripted, tagged transports, context values and the deadline the request ran under show which client/context was used, Submit returns what the reader returned; " +
	"non-trivial = a Content-Type header that is not byte-for-byte a registry key, or an operation-level client, or operation- and runtime-level contexts both set, or >=2 concurrent first calls; distinct by hash of the whole case"

// Props lists the generated checks of C13.
func Props() []kit.Runner {
	return []kit.Runner{
		kit.Prop[Case]{ID: "C13", Name: "dispatch", Rule: rule + "; 1-3 sequential calls per Runtime", Quick: 10000, Thorough: 60000,
			Gen: GenDispatch, Check: Check, Classify: Classify, SampleLimit: 1200},
		kit.Prop[Case]{ID: "C13", Name: "concurrent", Rule: rule + "; 2-32 goroutines released from a barrier onto one fresh Runtime (3 in 4 batches: all are first calls racing on the client creation), unique tokens in request and response, GOMAXPROCS drawn from 1/2/3/4/8/16, built with -race: a race report during a batch is a violation and the history is printed", Quick: 800, Thorough: 2000,
			Gen: GenConcurrent, Check: Check, Classify: Classify, SampleLimit: 800},
	}
}
