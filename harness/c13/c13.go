// Package c13 decides property C13 (the response reaches the caller's reader with the right consumer and
// unchanged; per-operation client/context take precedence; concurrent Submit calls on one Runtime are race-free
// and correlated) by scripting the RoundTripper under client.Runtime.Submit with wire-parsed responses.
package c13

import (
	"bufio"
	"bytes"
	"context"
	"errors"
	"fmt"
	"io"
	"mime"
	"net/http"
	"reflect"
	gort "runtime"
	"sort"
	"strings"
	"sync"
	"time"

	"github.com/go-openapi/runtime"
	"github.com/go-openapi/runtime/client"
	"github.com/go-openapi/strfmt"

	"verif/harness/kit"
)

// Case data ----------------------------------------------------------------------------------------

// Header is one response header line.
type Header struct {
	Name  string `json:"name"`
	Value string `json:"value"`
}

// Call is one Submit: the scripted response and the operation-level settings.
type Call struct {
	CTClass string `json:"ct_class"`       // exact | case | params | ws | unregistered | absent | empty | raw (label of how CT was built)
	HasCT   bool   `json:"has_ct"`         // the response carries a Content-Type line
	CT      string `json:"ct,omitempty"`   // its raw value
	Base    string `json:"base,omitempty"` // the lower-case media type CT denotes by construction ("": judged with mime.ParseMediaType)
	CTPos   int    `json:"ct_pos,omitempty"`

	Status   int      `json:"status"`
	Reason   string   `json:"reason"`
	Headers  []Header `json:"headers,omitempty"`
	BodyLen  int      `json:"body_len"`
	BodyFill string   `json:"body_fill,omitempty"` // text | bin | json
	BodyHead string   `json:"body_head,omitempty"` // "" | bom | bom16 | gzip | zip: magic bytes the entity starts with
	Framing  string   `json:"framing"`             // length | chunked | close
	Chunks   []int    `json:"chunks,omitempty"`    // chunk sizes (cycled) for chunked framing

	Method   string `json:"method"`
	OpClient bool   `json:"op_client,omitempty"` // the operation carries its own *http.Client
	// OpClientBare: that client has no Transport of its own (one that only carries a timeout or a redirect policy):
	// net/http sends its requests through http.DefaultTransport, which the harness replaces by a tagged transport for
	// the duration of the case
	OpClientBare bool   `json:"op_client_bare,omitempty"`
	OpCtx        string `json:"op_ctx,omitempty"`     // "" | live | cancelled: the operation carries its own context
	ReaderErr    bool   `json:"reader_err,omitempty"` // the caller's reader returns an error
	// NewDefaultMT (sequential cases): the caller sets Runtime.DefaultMediaType to this value before the call; it holds
	// for this and the later calls. (r6)
	NewDefaultMT string `json:"new_default_mt,omitempty"`
	// OpProduces: the operation's ProducesMediaTypes (what the request's Accept header is made of). They say what the
	// caller would like to get; which consumer reads the response is decided by the response. (r7)
	OpProduces []string `json:"op_produces,omitempty"`
	def        string   // the default media type in force when the call is made (set by Check)
}

// Case is one Runtime and the calls made on it.
type Case struct {
	Registry   []string `json:"registry"`        // media types with a registered consumer (lower case; may contain */*)
	DefaultMT  string   `json:"default_mt"`      // Runtime.DefaultMediaType
	Debug      bool     `json:"debug,omitempty"` // Runtime.Debug on (set after construction)
	RtClient   string   `json:"rt_client"`       // transport: Runtime.Transport only | client: NewWithClient
	RtCtx      string   `json:"rt_ctx"`          // nil | live | cancelled
	Calls      []Call   `json:"calls"`
	Concurrent bool     `json:"concurrent,omitempty"` // the calls are released together from a barrier
	Warm       bool     `json:"warm,omitempty"`       // concurrent only: call 0 completes before the others start
	Procs      int      `json:"procs,omitempty"`      // GOMAXPROCS during the case (0: unchanged)
	// InPlace: the consumers are registered on the map client.New returned (rt.Consumers[k] = c, delete(rt.Consumers, k))
	// instead of on a map of the caller's own; a Runtime created afterwards still comes with the stock consumers. (r6)
	InPlace bool `json:"in_place,omitempty"`
	// Again (sequential cases): after the calls, the very operation values that carried no client of their own are
	// submitted once more, through a second Runtime that has its own client: they go out through that one. (r7)
	Again bool `json:"again,omitempty"`
	// Schemes: the scheme list handed to client.New ("" = {"http"}; "http,https"; "ws,http,https"): it is the caller's
	// slice, shared by every call on the Runtime; nobody writes to it. (r9)
	Schemes string `json:"schemes,omitempty"`
}

// stockConsumers is what a Runtime fresh from client.New offers, recorded before any case ran.
var stockConsumers = func() map[string]string {
	out := map[string]string{}
	for k, v := range client.New("example.test", "/", []string{"http"}).Consumers {
		out[k] = fmt.Sprintf("%T", v)
	}
	return out
}()

func checkStock(what string) *kit.Violation {
	fresh := client.New("other.test", "/", []string{"http"})
	got := map[string]string{}
	for k, v := range fresh.Consumers {
		got[k] = fmt.Sprintf("%T", v)
	}
	if !reflect.DeepEqual(got, stockConsumers) {
		return kit.Failf("SHARED-REGISTRY: %s, a Runtime fresh from client.New offers the consumers %v; before any Runtime was configured it offered %v", what, got, stockConsumers)
	}
	return nil
}

// Doubles -------------------------------------------------------------------------------------------

type tagged struct{ mt string }

func (tagged) Consume(io.Reader, interface{}) error { return nil }

type ctxKey struct{}

type result struct{ tok string }

type readerErr struct{ tok string }

func (e readerErr) Error() string { return "reader error for " + e.tok }

type headerObs struct {
	first string
	all   []string
}

// record is what was observed for one call. It is only touched by the goroutine that runs the call (the
// transport runs on the caller's goroutine) and read after that goroutine has finished.
type record struct {
	tok         string
	panicked    *kit.Violation
	res         interface{}
	err         error
	via         []string
	ctxTag      []string
	left        []time.Duration // time to the deadline of the request context at the round trip, -1: none
	hdrTok      []string
	readerCalls int
	cons        runtime.Consumer
	code        int
	msg         string
	got         map[string]headerObs
	body        []byte
	bodyErr     error
	kept        runtime.ClientResponse // the response object the reader was handed: readers may keep it (an APIError does)
}

// history collects the events of a case for the failure report. It must not synchronise the calls with each
// other (a mutex or an atomic counter here would create happens-before edges between the goroutines and hide
// data races of the code under test from the race detector): every call appends to its own list, from its own
// goroutine, and the lists are merged by their monotonic time stamps when a report is printed. The time stamps
// order the printout only; no decision depends on them.
type history struct {
	t0    time.Time
	lists [][]event
}

type event struct {
	at   time.Duration
	text string
}

func newHistory(calls int) *history {
	return &history{t0: time.Now(), lists: make([][]event, calls)}
}

// logf records an event of call i; only the goroutine running call i may use it.
func (h *history) logf(i int, format string, args ...interface{}) {
	h.lists[i] = append(h.lists[i], event{time.Since(h.t0), fmt.Sprintf(format, args...)})
}

// String merges the lists; it is called after all calls have finished.
func (h *history) String() string {
	var all []event
	for _, l := range h.lists {
		all = append(all, l...)
	}
	sort.SliceStable(all, func(a, b int) bool { return all[a].at < all[b].at })
	more := ""
	if len(all) > 100 {
		more = fmt.Sprintf("\n  …(%d more events)", len(all)-100)
		all = all[:100]
	}
	var b strings.Builder
	for k, ev := range all {
		if k > 0 {
			b.WriteString("\n")
		}
		fmt.Fprintf(&b, "  %9.3fms %s", float64(ev.at.Microseconds())/1000, ev.text)
	}
	return b.String() + more
}

type env struct {
	calls map[string]*Call
	index map[string]int
	recs  map[string]*record
	hist  *history
}

// transport is the scripted RoundTripper. It behaves like the real one where the property can see it: a request
// whose context is done fails with the context's error; otherwise the scripted response is parsed from its wire
// form with http.ReadResponse.
type transport struct {
	tag string
	e   *env
}

func (t *transport) RoundTrip(req *http.Request) (*http.Response, error) {
	tok := req.URL.Query().Get("tok")
	ctxTag, _ := req.Context().Value(ctxKey{}).(string)
	call, ok := t.e.calls[tok]
	if !ok {
		return nil, fmt.Errorf("scripted transport: unknown token %q", tok)
	}
	t.e.hist.logf(t.e.index[tok], "transport[%s]: request tok=%q header-tok=%q ctx=%q ctx-err=%v", t.tag, tok, req.Header.Get("X-Tok"), ctxTag, req.Context().Err())
	rec := t.e.recs[tok]
	rec.via = append(rec.via, t.tag)
	rec.ctxTag = append(rec.ctxTag, ctxTag)
	left := time.Duration(-1)
	if dl, ok := req.Context().Deadline(); ok {
		left = time.Until(dl)
	}
	rec.left = append(rec.left, left)
	rec.hdrTok = append(rec.hdrTok, req.Header.Get("X-Tok"))
	if err := req.Context().Err(); err != nil {
		return nil, err
	}
	return http.ReadResponse(bufio.NewReader(bytes.NewReader(call.wire(tok))), req)
}

const textFill = "The quick brown fox jumps over the lazy dog; 0123456789.\r\n"

func (c *Call) noBody() bool { return c.Status == 204 || c.Status == 304 }

// body is the entity the scripted response carries: the token, then a filler.
func (c *Call) body(tok string) []byte {
	if c.noBody() {
		return nil
	}
	var b []byte
	switch c.BodyHead {
	case "bom":
		b = append(b, 0xef, 0xbb, 0xbf)
	case "bom16":
		b = append(b, 0xff, 0xfe)
	case "gzip":
		b = append(b, 0x1f, 0x8b, 0x08)
	case "zip":
		b = append(b, 'P', 'K', 0x03, 0x04)
	}
	b = append(b, tok+"|"...)
	for k := 0; k < c.BodyLen; k++ {
		switch c.BodyFill {
		case "bin":
			b = append(b, byte(k*131+7))
		case "json":
			b = append(b, `{"a":[1,2,3],"b":"ü"} `[k%23])
		default:
			b = append(b, textFill[k%len(textFill)])
		}
	}
	if c.BodyLen < 0 {
		return nil
	}
	return b
}

// lines is the ordered list of scripted header lines, Content-Type included.
func (c *Call) lines(tok string) []Header {
	hs := append([]Header{}, c.Headers...)
	if c.HasCT {
		pos := c.CTPos
		if pos < 0 || pos > len(hs) {
			pos = len(hs)
		}
		hs = append(hs[:pos:pos], append([]Header{{"Content-Type", c.CT}}, hs[pos:]...)...)
	}
	return append(hs, Header{"X-Tok", tok})
}

// wire serialises the response as an HTTP/1.1 message.
func (c *Call) wire(tok string) []byte {
	var b bytes.Buffer
	fmt.Fprintf(&b, "HTTP/1.1 %d %s\r\n", c.Status, c.Reason)
	for _, h := range c.lines(tok) {
		fmt.Fprintf(&b, "%s: %s\r\n", h.Name, h.Value)
	}
	body := c.body(tok)
	switch {
	case c.noBody():
		b.WriteString("\r\n")
	case c.Framing == "chunked":
		b.WriteString("Transfer-Encoding: chunked\r\n\r\n")
		i := 0
		for len(body) > 0 {
			n := len(body)
			if len(c.Chunks) > 0 {
				if k := c.Chunks[i%len(c.Chunks)]; k > 0 && k < n {
					n = k
				}
				i++
			}
			fmt.Fprintf(&b, "%x\r\n", n)
			b.Write(body[:n])
			b.WriteString("\r\n")
			body = body[n:]
		}
		b.WriteString("0\r\n\r\n")
	case c.Framing == "close":
		b.WriteString("Connection: close\r\n\r\n")
		b.Write(body)
	default:
		fmt.Fprintf(&b, "Content-Length: %d\r\n\r\n", len(body))
		b.Write(body)
	}
	return b.Bytes()
}

// Check ---------------------------------------------------------------------------------------------

type silentLogger struct{}

func (silentLogger) Printf(string, ...interface{}) {}
func (silentLogger) Debugf(string, ...interface{}) {}

// soonDeadline is the deadline of a "soon" context: well inside the 30 s default timeout the calls run under, and far
// longer than a scripted call takes.
const soonDeadline = 20 * time.Second

func newCtx(kind, tag string) context.Context {
	switch kind {
	case "live":
		return context.WithValue(context.Background(), ctxKey{}, tag)
	case "cancelled":
		ctx, cancel := context.WithCancel(context.WithValue(context.Background(), ctxKey{}, tag))
		cancel()
		return ctx
	case "expired":
		ctx, cancel := context.WithDeadline(context.WithValue(context.Background(), ctxKey{}, tag), time.Unix(1, 0))
		_ = cancel // the context is done already; it lives as long as the case
		return ctx
	case "soon":
		ctx, cancel := context.WithTimeout(context.WithValue(context.Background(), ctxKey{}, tag), soonDeadline)
		_ = cancel
		return ctx
	case "background":
		return context.Background() // exactly the value generated parameter structs default to
	case "todo":
		return context.TODO()
	}
	return nil
}

// Check runs the calls of the case on one fresh Runtime and judges every call.
func Check(c Case) *kit.Violation {
	if c.Procs > 0 {
		prev := gort.GOMAXPROCS(c.Procs)
		defer gort.GOMAXPROCS(prev)
	}
	e := &env{calls: map[string]*Call{}, index: map[string]int{}, recs: map[string]*record{}, hist: newHistory(len(c.Calls))}
	toks := make([]string, len(c.Calls))
	for i := range c.Calls {
		toks[i] = fmt.Sprintf("tok-%d-%s", i, strings.Repeat("x", i%3))
		e.calls[toks[i]] = &c.Calls[i]
		e.index[toks[i]] = i
		e.recs[toks[i]] = &record{tok: toks[i], got: map[string]headerObs{}}
	}

	// a client without a Transport goes through http.DefaultTransport: tag it for this case
	savedDefault := http.DefaultTransport
	http.DefaultTransport = &transport{"default-transport", e}
	defer func() { http.DefaultTransport = savedDefault }()
	bareClients := map[int]*http.Client{}

	schemes := []string{"http"}
	if c.Schemes != "" {
		schemes = strings.Split(c.Schemes, ",")
	}
	schemesBefore := append([]string(nil), schemes...)
	var rt *client.Runtime
	if c.RtClient == "client" {
		rt = client.NewWithClient("example.test", "/", schemes, &http.Client{Transport: &transport{"runtime-client", e}})
	} else {
		rt = client.New("example.test", "/", schemes)
	}
	rt.Transport = &transport{"runtime-transport", e}
	rt.Debug = false
	if c.Debug {
		// requests and responses are dumped to a (silent) logger: what the reader sees does not depend on it
		rt.SetLogger(silentLogger{})
		rt.SetDebug(true)
	}
	rt.DefaultMediaType = c.DefaultMT
	if c.InPlace {
		for k := range rt.Consumers {
			delete(rt.Consumers, k)
		}
	} else {
		rt.Consumers = map[string]runtime.Consumer{}
	}
	for _, k := range c.Registry {
		rt.Consumers[k] = tagged{k}
	}
	if c.InPlace {
		if v := checkStock("after one Runtime's consumers were replaced in place"); v != nil {
			return v
		}
	}
	rt.Context = newCtx(c.RtCtx, "runtime-context")

	racesBefore := raceErrors()
	var bareMu sync.Mutex
	built := make([]*runtime.ClientOperation, len(c.Calls))

	submit := func(i int) {
		call, tok, rec := &c.Calls[i], toks[i], e.recs[toks[i]]
		// the request side names a media type with a producer, so that an unregistered DefaultMediaType (which
		// the response side falls back to) does not fail the construction of the request
		op := &runtime.ClientOperation{ID: tok, Method: call.Method, PathPattern: "/c13", ConsumesMediaTypes: []string{runtime.JSONMime}, ProducesMediaTypes: call.OpProduces,
			Params: runtime.ClientRequestWriterFunc(func(req runtime.ClientRequest, _ strfmt.Registry) error {
				if err := req.SetQueryParam("tok", tok); err != nil {
					return err
				}
				return req.SetHeaderParam("X-Tok", tok)
			}),
			Reader: runtime.ClientResponseReaderFunc(func(resp runtime.ClientResponse, cons runtime.Consumer) (interface{}, error) {
				rec.readerCalls++
				rec.cons = cons
				rec.kept = resp
				rec.code, rec.msg = resp.Code(), resp.Message()
				for _, q := range call.queries() {
					rec.got[q] = headerObs{resp.GetHeader(q), resp.GetHeaders(q)}
				}
				rec.body, rec.bodyErr = io.ReadAll(resp.Body())
				e.hist.logf(i, "call %d: reader runs: consumer=%v code=%d token header=%q body starts %q", i, cons, rec.code, resp.GetHeader("X-Tok"), clip(rec.body, 16))
				if call.ReaderErr {
					return nil, readerErr{tok}
				}
				return result{tok}, nil
			}),
		}
		if call.OpClient {
			op.Client = &http.Client{Transport: &transport{"operation-client", e}}
			if call.OpClientBare {
				op.Client = &http.Client{Timeout: 30 * time.Second}
				if i%2 == 1 {
					op.Client = http.DefaultClient // the commonest client without a Transport: a client like any other (r10)
				}
				bareMu.Lock()
				bareClients[i] = op.Client
				bareMu.Unlock()
			}
		}
		op.Context = newCtx(call.OpCtx, "operation-context")
		built[i] = op
		e.hist.logf(i, "call %d: Submit tok=%q", i, tok)
		rec.panicked = kit.Guard("Runtime.Submit", func() { rec.res, rec.err = rt.Submit(op) })
		e.hist.logf(i, "call %d: Submit returned result=%v err=%v", i, rec.res, rec.err)
	}

	for i := range c.Calls {
		c.Calls[i].def = c.DefaultMT
	}
	if !c.Concurrent {
		cur := c.DefaultMT
		for i := range c.Calls {
			if c.Calls[i].NewDefaultMT != "" {
				cur = c.Calls[i].NewDefaultMT
				rt.DefaultMediaType = cur
			}
			c.Calls[i].def = cur
			submit(i)
		}
	} else {
		first := 0
		if c.Warm && len(c.Calls) > 0 {
			submit(0)
			first = 1
		}
		var ready, done sync.WaitGroup
		start := make(chan struct{})
		for i := first; i < len(c.Calls); i++ {
			ready.Add(1)
			done.Add(1)
			go func(i int) {
				defer done.Done()
				ready.Done()
				<-start
				submit(i)
			}(i)
		}
		ready.Wait()
		close(start)
		fin := make(chan struct{})
		go func() { done.Wait(); close(fin) }()
		select {
		case <-fin:
		case <-time.After(60 * time.Second):
			return kit.Failf("HANG: %d concurrent Submit calls on one Runtime did not all return within 60 s\nhistory:\n%s", len(c.Calls)-first, e.hist)
		}
	}

	for i := range c.Calls {
		if msg := judge(c, i, toks[i], e.recs[toks[i]]); msg != "" {
			return kit.Failf("call %d of %d (%s, GOMAXPROCS=%d): %s\nruntime: registry=%q default=%q runtime-level client=%s context=%s\ncall: %+v\nhistory:\n%s",
				i, len(c.Calls), map[bool]string{true: "concurrent", false: "sequential"}[c.Concurrent], gort.GOMAXPROCS(0), msg,
				c.Registry, c.DefaultMT, c.RtClient, c.RtCtx, c.Calls[i], e.hist)
		}
	}
	// a response object that a reader kept (the way runtime.NewAPIError keeps it) still describes its own response
	// after the later calls on the transport
	for i := range c.Calls {
		rec := e.recs[toks[i]]
		if rec == nil || rec.kept == nil || rec.readerCalls == 0 {
			continue
		}
		var code int
		var msg, tokHdr string
		if v := kit.Guard("reading a kept ClientResponse", func() { code, msg, tokHdr = rec.kept.Code(), rec.kept.Message(), rec.kept.GetHeader("X-Tok") }); v != nil {
			return v
		}
		if code != rec.code || msg != rec.msg || tokHdr != toks[i] {
			return kit.Failf("KEPT-RESPONSE call %d of %d: the response object its reader kept now reports status %d %q and token header %q; when it was read it reported %d %q and belongs to token %q\nhistory:\n%s",
				i, len(c.Calls), code, msg, tokHdr, rec.code, rec.msg, toks[i], e.hist)
		}
	}
	if !reflect.DeepEqual(schemes, schemesBefore) {
		return kit.Failf("SCHEMES-MODIFIED: the scheme list handed to client.New was %q; after %d Submit calls the caller's slice reads %q\nhistory:\n%s", schemesBefore, len(c.Calls), schemes, e.hist)
	}
	if c.Again && !c.Concurrent {
		rt2 := client.NewWithClient("second.test", "/", []string{"http"}, &http.Client{Transport: &transport{"second-runtime-client", e}})
		rt2.Consumers = rt.Consumers
		rt2.DefaultMediaType = rt.DefaultMediaType
		rt2.Context = context.Background()
		for i, op := range built {
			if op == nil || c.Calls[i].OpClient {
				continue
			}
			rec := &record{tok: toks[i], got: map[string]headerObs{}}
			e.recs[toks[i]] = rec
			op.Context = nil
			if v := kit.Guard("Runtime.Submit (second Runtime, same operation value)", func() { _, _ = rt2.Submit(op) }); v != nil {
				return v
			}
			if len(rec.via) != 1 || rec.via[0] != "second-runtime-client" {
				return kit.Failf("SECOND-RUNTIME call %d of %d: the operation value (no client of its own) was submitted to a second Runtime that has its own client; its request went out through %q, want [second-runtime-client]\nhistory:\n%s", i, len(c.Calls), rec.via, e.hist)
			}
		}
	}
	for i, hc := range bareClients {
		if hc.Transport != nil {
			return kit.Failf("CLIENT-MODIFIED call %d of %d: the operation's own *http.Client had no Transport when it was handed over; after Submit its Transport is %T\nhistory:\n%s", i, len(c.Calls), hc.Transport, e.hist)
		}
	}
	if n := raceErrors() - racesBefore; n > 0 {
		return kit.Failf("DATA-RACE: the race detector reported %d data race(s) while %d Submit calls ran on one Runtime (concurrent=%v, warm=%v, GOMAXPROCS=%d); the reports are on stderr of this process\nhistory:\n%s",
			n, len(c.Calls), c.Concurrent, c.Warm, gort.GOMAXPROCS(0), e.hist)
	}
	return nil
}

func clip(b []byte, n int) []byte {
	if len(b) > n {
		return b[:n]
	}
	return b
}

// queries lists the header names the reader asks for: every scripted name as first spelled, Content-Type, the
// token header and a name that was never sent.
func (c *Call) queries() []string {
	seen := map[string]bool{}
	var qs []string
	for _, h := range append(append([]Header{}, c.Headers...), Header{Name: "Content-Type"}, Header{Name: "x-tok"}, Header{Name: "X-Absent"}) {
		k := http.CanonicalHeaderKey(h.Name)
		if !seen[k] {
			seen[k] = true
			qs = append(qs, h.Name)
		}
	}
	return qs
}

func equalStrings(a, b []string) bool {
	if len(a) != len(b) {
		return false
	}
	for i := range a {
		if a[i] != b[i] {
			return false
		}
	}
	return true
}

// expectation is the set of admissible outcomes of the consumer selection.
type expectation struct {
	consumers []string // admissible consumers (registry keys)
	errorOK   bool     // an error is admissible
	name      string   // when the only admissible outcome is an error: the media type it has to name ("": any error)
	why       string
}

// expect applies the statement: the consumer registered for the response's media type (parameters ignored; the
// default media type when the header is absent), else the catch-all, else an error naming the content type.
func expect(c Case, call *Call) (expectation, string) {
	reg := map[string]bool{}
	for _, k := range c.Registry {
		reg[k] = true
	}
	pick := func(mt string) expectation {
		switch {
		case reg[mt]:
			return expectation{consumers: []string{mt}, why: "registered for " + mt}
		case reg["*/*"]:
			return expectation{consumers: []string{"*/*"}, why: mt + " is not registered, the catch-all is"}
		}
		return expectation{errorOK: true, name: mt, why: "neither " + mt + " nor */* is registered"}
	}
	union := func(a, b expectation) expectation {
		out := expectation{errorOK: a.errorOK || b.errorOK, why: a.why + " | " + b.why}
		out.consumers = append(append([]string{}, a.consumers...), b.consumers...)
		return out
	}
	eff := call.def
	if call.HasCT && call.CT != "" {
		eff = call.CT
	}
	mt, _, perr := mime.ParseMediaType(eff)
	if call.HasCT && call.CT != "" && call.Base != "" {
		if perr != nil || mt != call.Base {
			return expectation{}, fmt.Sprintf("harness: header %q was built to denote %q, the standard library reads (%q, %v)", call.CT, call.Base, mt, perr)
		}
	}
	if perr != nil {
		// malformed: the statement does not say what the media type of a malformed header is. An error is
		// admissible, so is the catch-all, so is the consumer of the type in front of the first ';'.
		ex := expectation{errorOK: true, why: "malformed content type " + eff}
		if reg["*/*"] {
			ex.consumers = append(ex.consumers, "*/*")
		}
		front := strings.ToLower(strings.TrimSpace(strings.SplitN(eff, ";", 2)[0]))
		if reg[front] {
			ex.consumers = append(ex.consumers, front)
		}
		return ex, ""
	}
	ex := pick(mt)
	if call.HasCT && call.CT == "" {
		// a Content-Type line with an empty value: "absent" (default media type) or malformed, both admissible
		ex = union(ex, expectation{errorOK: true, why: "empty Content-Type value"})
		if reg["*/*"] {
			ex.consumers = append(ex.consumers, "*/*")
		}
		ex.name = ""
	}
	return ex, ""
}

// judge compares what one call observed with what the statement demands; "" means it holds.
func judge(c Case, i int, tok string, rec *record) string {
	call := &c.Calls[i]
	if rec.panicked != nil {
		return rec.panicked.Msg
	}
	// which client and which context must have been used
	wantVia := "runtime-transport"
	if c.RtClient == "client" {
		wantVia = "runtime-client"
	}
	if call.OpClient {
		wantVia = "operation-client"
		if call.OpClientBare {
			wantVia = "default-transport" // what net/http uses for a client without a Transport
		}
	}
	effCtx, wantCtx := c.RtCtx, "runtime-context"
	if call.OpCtx != "" {
		effCtx, wantCtx = call.OpCtx, "operation-context"
	}
	if effCtx == "nil" || effCtx == "background" || effCtx == "todo" {
		wantCtx = "" // a context without the tag value: nothing of the other level may show through
	}
	for k, via := range rec.via {
		if via != wantVia {
			return fmt.Sprintf("CLIENT-PRECEDENCE: the request went through %q, want %q (operation-level client set: %v, runtime-level: %s)", via, wantVia, call.OpClient, c.RtClient)
		}
		if rec.ctxTag[k] != wantCtx {
			return fmt.Sprintf("CONTEXT-PRECEDENCE: the request carried context %q, want %q (operation-level context: %q, runtime-level: %q)", rec.ctxTag[k], wantCtx, call.OpCtx, c.RtCtx)
		}
		if rec.hdrTok[k] != tok {
			return fmt.Sprintf("CORRELATION: the request with query token %q carried header token %q", tok, rec.hdrTok[k])
		}
	}
	if len(rec.via) > 1 {
		return fmt.Sprintf("TRANSPORT: one Submit made %d round trips %v", len(rec.via), rec.via)
	}
	if effCtx == "cancelled" || effCtx == "expired" {
		wantErr := context.Canceled
		if effCtx == "expired" {
			wantErr = context.DeadlineExceeded
		}
		if rec.readerCalls > 0 {
			return fmt.Sprintf("CONTEXT-PRECEDENCE: the effective context (%s) is %s, yet the reader ran", wantCtx, effCtx)
		}
		if rec.err == nil || !errors.Is(rec.err, wantErr) {
			return fmt.Sprintf("CONTEXT-PRECEDENCE: the effective context (%s) is %s, Submit returned result=%v err=%v, want %v", wantCtx, effCtx, rec.res, rec.err, wantErr)
		}
		return ""
	}
	// the deadline the request ran under is the effective context's (or the default request timeout of 30 s on top of
	// it): a deadline of the other level must not show through
	otherCtx := ""
	if call.OpCtx != "" {
		otherCtx = c.RtCtx
	}
	for _, left := range rec.left {
		switch {
		case effCtx == "soon":
			if left < 0 || left > soonDeadline {
				return fmt.Sprintf("CONTEXT-PRECEDENCE: the effective context (%s) has a deadline %v ahead, the request ran with %v left (-1ns: no deadline)", wantCtx, soonDeadline, left)
			}
		case otherCtx == "soon" || otherCtx == "expired":
			if left >= 0 && left <= soonDeadline+2*time.Second {
				return fmt.Sprintf("CONTEXT-PRECEDENCE: the request ran with %v left, which is the deadline of the %s runtime-level context; the effective context is the operation's (%s), without a deadline of its own (default request timeout 30 s)", left, otherCtx, call.OpCtx)
			}
		}
	}
	if len(rec.via) == 0 {
		return fmt.Sprintf("TRANSPORT: no round trip was made; Submit returned result=%v err=%v", rec.res, rec.err)
	}

	ex, herr := expect(c, call)
	if herr != "" {
		return herr
	}
	if rec.readerCalls > 1 {
		return fmt.Sprintf("READER: the reader ran %d times", rec.readerCalls)
	}
	if rec.readerCalls == 0 {
		if !ex.errorOK {
			return fmt.Sprintf("CONSUMER: the reader never ran (Submit: result=%v err=%v), want consumer %q (%s)", rec.res, rec.err, ex.consumers, ex.why)
		}
		if rec.err == nil {
			return fmt.Sprintf("CONSUMER: the reader never ran and Submit returned no error (result=%v); %s", rec.res, ex.why)
		}
		if ex.name != "" && len(ex.consumers) == 0 && !strings.Contains(strings.ToLower(rec.err.Error()), ex.name) {
			return fmt.Sprintf("ERROR-TEXT: the error %q does not name the content type %q (%s)", rec.err, ex.name, ex.why)
		}
		return ""
	}
	got, ok := rec.cons.(tagged)
	if !ok {
		return fmt.Sprintf("CONSUMER: the reader was handed %#v, which is none of the registered consumers (want %q: %s)", rec.cons, ex.consumers, ex.why)
	}
	admissible := false
	for _, k := range ex.consumers {
		if got.mt == k {
			admissible = true
		}
	}
	if !admissible {
		if len(ex.consumers) == 0 {
			return fmt.Sprintf("CONSUMER: the reader was handed the consumer registered for %q, want an error (%s)", got.mt, ex.why)
		}
		return fmt.Sprintf("CONSUMER: the reader was handed the consumer registered for %q, want %q (%s)", got.mt, ex.consumers, ex.why)
	}

	// the reader sees status, headers and body unchanged
	if rec.code != call.Status {
		return fmt.Sprintf("STATUS: the reader saw code %d, the response has %d", rec.code, call.Status)
	}
	if want := fmt.Sprintf("%d %s", call.Status, call.Reason); rec.msg != want {
		return fmt.Sprintf("STATUS: the reader saw message %q, the response has %q", rec.msg, want)
	}
	want := map[string][]string{}
	for _, h := range call.lines(tok) {
		k := http.CanonicalHeaderKey(h.Name)
		want[k] = append(want[k], h.Value)
	}
	for _, q := range call.queries() {
		w := want[http.CanonicalHeaderKey(q)]
		o := rec.got[q]
		if !equalStrings(o.all, w) {
			return fmt.Sprintf("HEADERS: GetHeaders(%q) = %q, the response carries %q", q, o.all, w)
		}
		first := ""
		if len(w) > 0 {
			first = w[0]
		}
		if o.first != first {
			return fmt.Sprintf("HEADERS: GetHeader(%q) = %q, the response carries %q", q, o.first, w)
		}
	}
	if rec.bodyErr != nil {
		return fmt.Sprintf("BODY: reading the body failed after %d bytes: %v", len(rec.body), rec.bodyErr)
	}
	if wb := call.body(tok); !bytes.Equal(rec.body, wb) {
		return fmt.Sprintf("BODY: the reader read %d bytes starting %q, the response carries %d bytes starting %q", len(rec.body), clip(rec.body, 40), len(wb), clip(wb, 40))
	}
	// Submit hands back what the reader returned
	if call.ReaderErr {
		if rec.res != nil || !errors.Is(rec.err, readerErr{tok}) {
			return fmt.Sprintf("RESULT: the reader returned its error for %s, Submit returned result=%v err=%v", tok, rec.res, rec.err)
		}
	} else if rec.err != nil || rec.res != (result{tok}) {
		return fmt.Sprintf("RESULT: the reader returned its result for %s, Submit returned result=%v err=%v", tok, rec.res, rec.err)
	}
	return ""
}
