package c08

import (
	"net/http"
	"sort"
	"strings"

	"pgregory.net/rapid"

	"verif/harness/c07"
	"verif/harness/kit"
)

var (
	producesParams = []string{"; charset=utf-8", ";version=1", ";q=0.1", "; a=\"b,c\"", " ; charset=utf-8", "\t;v=2"} // the last two: white space in front of the semicolon (r10)
	codeSets       = [][]int{{200}, {200}, {201, 200}, {204}, {204, 200}, {202, 299}, {299}, {200, 404, 500}, {404, 201}, {404}, {}, {204, 400}, {100, 300, 203}}
	realms         = []string{"API", "my \"realm\"", "back\\slash", "both \\\" of them", "ü €", "a,b=c", "\"", "\\", "trailing\\", " spaced  out ", "realm=\"x\", Basic realm=\"y\""}
	realmAlphabet  = []rune{'a', 'Z', '0', '"', '\\', ' ', ',', '=', ';', '%', 'ü', '€', '\''}
	methods        = []string{"get", "get", "head", "head", "post", "put", "delete"}
	outcomes       = []string{"value", "value", "value", "nil", "responder", "responder", "resperr", "mwerror", "mwerror-nil", "notimpl", "errplain", "errstatus", "errcomposite"}
	creds          = []string{"good", "good", "good", "good", "bad", "none", "malformed", "bearer", "goodbearer"}
)

func genProduces(t *rapid.T, min, max int) []string {
	n := rapid.IntRange(min, max).Draw(t, "nproduces")
	var out []string
	for i := 0; i < n; i++ {
		p := rapid.SampledFrom(MediaTypes).Draw(t, "ptype")
		if rapid.IntRange(0, 2).Draw(t, "pparam") == 0 {
			p += rapid.SampledFrom(producesParams).Draw(t, "pp")
		}
		out = append(out, p)
	}
	return out
}

func genRealm(t *rapid.T) string {
	if rapid.IntRange(0, 2).Draw(t, "realmkind") != 0 {
		return rapid.SampledFrom(realms).Draw(t, "realm")
	}
	return rapid.StringOfN(rapid.RuneFrom(realmAlphabet), 1, 8, -1).Draw(t, "realmfree")
}

// Gen draws one API with 1-4 operations and 8-16 requests (loading a description costs ~8 ms: amortised).
func Gen(t *rapid.T) Case {
	var c Case
	if rapid.IntRange(0, 2).Draw(t, "global") == 0 {
		c.Global = genProduces(t, 1, 3)
	}
	if rapid.IntRange(0, 4).Draw(t, "otherdefault") == 0 {
		c.Default = rapid.SampledFrom([]string{"text/plain", "application/xml"}).Draw(t, "default")
	}
	c.Realm = genRealm(t)
	c.RealmCtx = rapid.IntRange(0, 2).Draw(t, "realmctx") == 0
	if rapid.IntRange(0, 3).Draw(t, "default-realm-name-assigned") == 0 {
		c.DefaultRealm = rapid.SampledFrom([]string{"Tenant A", "API v2", "r"}).Draw(t, "default-realm")
	}
	c.AuthErr = rapid.SampledFrom([]string{"unauth", "unauth", "plain", "forbidden"}).Draw(t, "autherr")
	c.LateResponder = rapid.IntRange(0, 2).Draw(t, "late-responder") == 0
	c.SharedResults = rapid.IntRange(0, 2).Draw(t, "shared-results") == 0
	c.NoIDs = rapid.IntRange(0, 3).Draw(t, "no-operation-ids") == 0
	nops := rapid.IntRange(1, 4).Draw(t, "nops")
	for i := 0; i < nops; i++ {
		op := Op{Method: rapid.SampledFrom(methods).Draw(t, "method")}
		if rapid.IntRange(0, 5).Draw(t, "inherit") != 0 {
			op.Produces = genProduces(t, 1, 4)
		}
		op.Codes = append([]int(nil), rapid.SampledFrom(codeSets).Draw(t, "codes")...)
		op.DefaultResp = len(op.Codes) == 0 || rapid.Bool().Draw(t, "defaultresp")
		op.Secured = rapid.IntRange(0, 2).Draw(t, "secured") != 0
		if op.Secured {
			op.Bearer = rapid.SampledFrom([]string{"", "", "after", "before"}).Draw(t, "bearer-alternative")
		}
		op.Param = rapid.IntRange(0, 3).Draw(t, "param") == 0
		c.Ops = append(c.Ops, op)
	}
	nreq := rapid.IntRange(8, 16).Draw(t, "nreq")
	for i := 0; i < nreq; i++ {
		rq := Req{Op: rapid.IntRange(0, nops-1).Draw(t, "op")}
		op := c.Ops[rq.Op]
		offers, _ := c.declared(rq.Op)
		switch rapid.IntRange(0, 9).Draw(t, "acceptkind") {
		case 0, 1:
			// no header
		case 2, 3, 4:
			// decisive: exactly one declared type, by its exact name
			o := rapid.SampledFrom(offers).Draw(t, "pick")
			parts := strings.SplitN(normType(o), "/", 2)
			rq.Ranges = []c07.Range{{Type: parts[0], Sub: parts[1]}}
		case 5:
			rq.Ranges = []c07.Range{{Type: "image", Sub: "png"}}
		default:
			rq.Ranges = c07.GenRanges(t, offers, 3)
		}
		if op.Secured {
			rq.Cred = rapid.SampledFrom(creds).Draw(t, "cred")
		} else if rapid.IntRange(0, 3).Draw(t, "credanyway") == 0 {
			rq.Cred = rapid.SampledFrom(creds).Draw(t, "cred")
		}
		if op.Param {
			rq.Param = rapid.SampledFrom([]string{"ok", "ok", "ok", "missing", "bad"}).Draw(t, "paramval")
		}
		switch rapid.IntRange(0, 19).Draw(t, "route") { // rapid favours the ends of a range: the rare classes sit inside
		case 7:
			rq.Route = "notfound"
		case 13:
			rq.Route = "wrongmethod"
		}
		rq.Outcome = rapid.SampledFrom(outcomes).Draw(t, "outcome")
		switch rq.Outcome {
		case "mwerror", "mwerror-nil":
			rq.Code = rapid.SampledFrom([]int{400, 404, 409, 422, 500, 503, 0, -1, 499, 420, 599, 306}).Draw(t, "code")
		case "errstatus", "errcomposite":
			rq.Code = rapid.SampledFrom([]int{400, 404, 409, 418, 500, 503, 499, 599}).Draw(t, "code")
		}
		c.Reqs = append(c.Reqs, rq)
	}
	return c
}

// Classify implements the non-trivial rule of C08: a produces entry carries parameters, or at least two real
// producers compete, or the request is a HEAD / 204 / Responder / error case.
func Classify(c Case) (bool, []string) {
	l := map[string]bool{}
	nt := false
	if len(c.Global) > 0 {
		l["global produces"] = true
	}
	if c.Default != "" {
		l["API default is not JSON"] = true
	}
	if strings.ContainsAny(c.Realm, "\"\\") {
		l["realm with quote or backslash"] = true
	}
	if c.DefaultRealm != "" {
		l["authenticator built with the empty realm under an assigned DefaultRealmName that changes afterwards"] = true
	}
	if c.RealmCtx {
		l["BasicAuthRealmCtx"] = true
	}
	for _, rq := range c.Reqs {
		if rq.Op < 0 || rq.Op >= len(c.Ops) {
			continue
		}
		op := c.Ops[rq.Op]
		offers, explicit := c.declared(rq.Op)
		adm := c07.Admissible(rq.Ranges, offers, c.defaultType(), explicit)
		if explicit {
			l["default type declared in produces"] = true
		} else {
			l["default type not declared"] = true
		}
		withParams := false
		for _, o := range offers {
			if strings.Contains(o, ";") {
				withParams = true
			}
		}
		types := map[string]bool{}
		for _, o := range offers {
			types[normType(o)] = true
		}
		stage := ""
		switch {
		case rq.Route != "":
			stage = rq.Route
			nt = true
		case op.Secured && !op.admits(rq.Cred):
			stage = "auth failure: " + rq.Cred
			if op.Bearer != "" {
				l["auth failure with an oauth2 alternative listed "+op.Bearer+" basic: "+rq.Cred] = true
			}
			if strings.ContainsAny(c.Realm, "\"\\") {
				l["challenge for a realm with quote or backslash"] = true
			}
			nt = true
		case len(adm) == 0:
			stage = "406"
			nt = true
		case op.Param && (rq.Param == "missing" || rq.Param == "bad"):
			stage = "422"
			nt = true
		}
		if stage != "" {
			l["stage: "+stage] = true
			if len(adm) == 0 {
				l["error with nothing negotiated"] = true
			}
			continue
		}
		l["outcome: "+rq.Outcome] = true
		if op.Secured && rq.Cred == "goodbearer" {
			l["admitted through the oauth2 alternative"] = true
		}
		if withParams {
			l["produces entry with parameters"] = true
			nt = true
			for o := range adm {
				if strings.Contains(o, ";") {
					l["an entry with parameters is negotiable"] = true
				}
			}
		}
		if len(types) >= 2 {
			l[">=2 producers compete"] = true
			nt = true
		}
		if len(adm) == 1 && len(offers) > 1 {
			l["decisive Accept"] = true
		}
		if len(rq.Ranges) == 0 {
			l["no Accept header"] = true
		}
		status, ok := op.lowest2xx()
		plain := rq.Outcome == "value" || rq.Outcome == "nil"
		switch {
		case !plain:
			nt = true
		case !ok:
			l["default-only / no 2xx response"] = true
		case status == http.StatusNoContent:
			l["204"] = true
			nt = true
		case len(op.Codes) > 1:
			l["lowest of several declared codes"] = true
		}
		if strings.EqualFold(op.Method, "head") {
			l["HEAD"] = true
			nt = true
		}
	}
	if c.LateResponder {
		l["error responder installed after the handler was built"] = true
	}
	if c.NoIDs && len(c.Ops) > 1 {
		l["several operations without operationId"] = true
	}
	if c.SharedResults {
		n := 0
		for _, rq := range c.Reqs {
			if rq.Outcome == "notimpl" || rq.Outcome == "mwerror" {
				n++
			}
		}
		if n >= 2 {
			l["one middleware.Error / NotImplemented value returned for several requests"] = true
		}
	}
	out := make([]string, 0, len(l))
	for k := range l {
		out = append(out, k)
	}
	sort.Strings(out)
	return nt, out
}

const rule = "one API per case: 1-4 operations (GET/HEAD/POST/PUT/DELETE) with own or inherited produces lists of 1-4 entries incl. entries with parameters, stamped producers for every type, " +
	"API default type JSON or another (declared in produces or not), declared responses {200; 201+200; 204; 204+200; 202+299; 299; 200+404+500; 404+201; 404 only; default only; ...}, " +
	"basic auth (realm with quotes, backslashes, commas, non-ASCII; BasicAuthRealm or BasicAuthRealmCtx; rejection by Unauthenticated / plain / 403 error; optionally an oauth2 bearer scheme as alternative requirement before or after it), optional required query parameter, error responder installed before or after the handler is built; " +
	"8-16 requests: Accept from C07's structured tier (none, one exact type, foreign type, generated ranges), credentials good/bad/none/malformed/rejected bearer/accepted bearer, handler outcome value / nil / Responder / Responder that is an error as well / middleware.Error / NotImplemented / " +
	"plain error / errors.Error with status / composite error. Oracle: status = lowest declared 2xx; Content-Type is an offer ranked highest by the structure (a set, map order); body stamp = producer registered for the announced type " +
	"without parameters; empty body for HEAD and 204; a Responder is handed that same producer; errors (handler, 404/405, 406, 422, authentication, no 2xx declared) reach the recording error responder exactly once with that error value, " +
	"Content-Type JSON when nothing was negotiated; failed or absent basic credentials carry one WWW-Authenticate challenge whose quoted-string realm decodes to the configured realm. " +
	"Non-trivial: a produces entry carries parameters, or >=2 producers compete, or HEAD / 204 / Responder / error case; distinct by hash of the case"

// Props lists the generated checks of C08.
func Props() []kit.Runner {
	return []kit.Runner{
		kit.Prop[Case]{ID: "C08", Name: "respond", Rule: rule, Quick: 1200, Thorough: 5000,
			Gen: Gen, Check: Check, Classify: Classify, SampleLimit: 2500},
	}
}
