// Package c08 decides property C08 (responses carry the declared status, the negotiated type and that type's
// encoding) by driving generated APIs through the full handler with stamped producers, a recording error responder
// and scripted handler outcomes.
package c08

import (
	"bytes"
	"encoding/base64"
	"encoding/json"
	stderrors "errors"
	"fmt"
	"io"
	"net/http"
	"net/http/httptest"
	"strings"

	"context"

	oerr "github.com/go-openapi/errors"
	"github.com/go-openapi/loads"
	"github.com/go-openapi/runtime"
	"github.com/go-openapi/runtime/middleware"
	"github.com/go-openapi/runtime/middleware/untyped"
	"github.com/go-openapi/runtime/security"

	"verif/harness/c07"
	"verif/harness/kit"
)

// Op is one operation /p<i>.
type Op struct {
	Method      string   `json:"method"`             // get head post put delete
	Produces    []string `json:"produces,omitempty"` // empty: inherits the global list
	Codes       []int    `json:"codes,omitempty"`    // declared status code responses
	DefaultResp bool     `json:"default_resp,omitempty"`
	Secured     bool     `json:"secured,omitempty"` // requires the basic scheme
	Param       bool     `json:"param,omitempty"`   // declares a required integer query parameter n
	// Bearer: a secured operation also admits the oauth2 scheme "oa" as an alternative requirement, listed
	// "after" or "before" the basic one ("" for none).
	Bearer string `json:"bearer,omitempty"`
}

// admits: the credential of the request satisfies one of the operation's requirements.
func (o Op) admits(cred string) bool {
	return cred == "good" || (o.Bearer != "" && cred == "goodbearer")
}

// respErr is a handler result that can write itself and is an error as well (the usual shape of a typed failure
// response).
type respErr struct{ call *handlerCall }

func (e respErr) Error() string { return "a result that is an error as well" }
func (e respErr) WriteResponse(rw http.ResponseWriter, p runtime.Producer) {
	e.call.respCalls++
	e.call.gotStamp = stampOf(p)
	rw.WriteHeader(233)
	if p != nil {
		_ = p.Produce(rw, "R")
	}
}

// Req is one request and what the operation handler will return for it.
type Req struct {
	Op      int         `json:"op"`
	Ranges  []c07.Range `json:"ranges"`            // Accept header structure (none: no header)
	Cred    string      `json:"cred,omitempty"`    // good | bad | none | malformed | bearer (a token nobody accepts) | goodbearer
	Param   string      `json:"param,omitempty"`   // ok | missing | bad (only when the operation declares n)
	Outcome string      `json:"outcome,omitempty"` // value | nil | responder | resperr | mwerror | mwerror-nil (middleware.Error with a nil payload) | notimpl | errplain | errstatus | errcomposite
	Code    int         `json:"code,omitempty"`    // status of mwerror / errstatus
	Route   string      `json:"route,omitempty"`   // "" | notfound (unknown path) | wrongmethod (PATCH, never declared)
}

// Case is one API and a batch of requests.
type Case struct {
	Global   []string `json:"global,omitempty"`    // top-level produces
	Default  string   `json:"default,omitempty"`   // API default produces ("" keeps application/json)
	Realm    string   `json:"realm"`               // basic auth realm
	RealmCtx bool     `json:"realm_ctx,omitempty"` // register with BasicAuthRealmCtx instead of BasicAuthRealm
	// DefaultRealm: when set, the application assigns it to the package variable security.DefaultRealmName, builds its
	// authenticator with the empty realm (which means "the default"), and the variable has another value again by the
	// time requests are served (another API of the process set its own): the challenge names the realm configured
	// when the authenticator was built. (r7)
	DefaultRealm string `json:"default_realm,omitempty"`
	AuthErr      string `json:"auth_err,omitempty"` // what the credential check returns for bad credentials: unauth | plain | forbidden
	// LateResponder: the API's error responder is installed after the handler has been built.
	LateResponder bool `json:"late_responder,omitempty"`
	// SharedResults: the handlers return the same middleware.Error / NotImplemented value for every request that asks
	// for it (a package-level "not implemented yet" responder), instead of a fresh one per request.
	SharedResults bool `json:"shared_results,omitempty"`
	// NoIDs: the operations carry no operationId (it is optional in the description language)
	NoIDs bool  `json:"no_ids,omitempty"`
	Ops   []Op  `json:"ops"`
	Reqs  []Req `json:"reqs"`
}

type jm = map[string]interface{}

// MediaTypes are the types a stamped producer is registered for.
var MediaTypes = []string{"application/json", "text/plain", "application/xml", "text/csv", "a/b", "ab/c", "text/x-y.z+json"}

func stamp(tag string) runtime.Producer {
	return runtime.ProducerFunc(func(w io.Writer, v interface{}) error {
		_, err := fmt.Fprintf(w, "[%s]%v", tag, v)
		return err
	})
}

// stampOf identifies a producer by what it writes into a side buffer.
func stampOf(p runtime.Producer) string {
	if p == nil {
		return "<nil producer>"
	}
	var b bytes.Buffer
	if err := p.Produce(&b, "probe"); err != nil {
		return "<error: " + err.Error() + ">"
	}
	s := b.String()
	if strings.HasPrefix(s, "[") && strings.HasSuffix(s, "]probe") {
		return s[1 : len(s)-len("]probe")]
	}
	return "<unstamped: " + s + ">"
}

func (c Case) defaultType() string {
	if c.Default == "" {
		return runtime.JSONMime
	}
	return c.Default
}

// declared: the operation's produces list (or the inherited one) plus the API default type.
func (c Case) declared(op int) (offers []string, explicit bool) {
	src := c.Ops[op].Produces
	if len(src) == 0 {
		src = c.Global
	}
	seen := map[string]bool{}
	for _, p := range src {
		if !seen[p] {
			seen[p] = true
			offers = append(offers, p)
		}
		if strings.EqualFold(p, c.defaultType()) {
			explicit = true
		}
	}
	if !explicit {
		offers = append(offers, c.defaultType())
	}
	return offers, explicit
}

// lowest2xx is the declared success status of the statement.
func (o Op) lowest2xx() (int, bool) {
	best, ok := 0, false
	for _, c := range o.Codes {
		if c >= 200 && c < 300 && (!ok || c < best) {
			best, ok = c, true
		}
	}
	return best, ok
}

func normType(s string) string {
	if i := strings.IndexByte(s, ';'); i >= 0 {
		s = s[:i]
	}
	return strings.TrimSpace(s)
}

// served is one invocation of the API's error responder.
type served struct {
	err error
	ct  string
	www []string
}

const responderStatus = 599 // written by the recording error responder: proves the answer came from it

// parseChallenge reads `Basic realm="<quoted-string>"` and returns the realm it names.
func parseChallenge(h string) (string, bool) {
	const prefix = "Basic realm="
	if !strings.HasPrefix(h, prefix) {
		return "", false
	}
	s := h[len(prefix):]
	if !strings.HasPrefix(s, "\"") {
		return "", false
	}
	var b strings.Builder
	i := 1
	for ; i < len(s); i++ {
		switch s[i] {
		case '\\':
			i++
			if i >= len(s) {
				return "", false
			}
			b.WriteByte(s[i])
		case '"':
			rest := strings.TrimLeft(s[i+1:], " \t")
			if rest != "" && !strings.HasPrefix(rest, ",") {
				return "", false
			}
			return b.String(), true
		default:
			b.WriteByte(s[i])
		}
	}
	return "", false
}

func findCode(err error, code int32) bool {
	switch e := err.(type) {
	case *oerr.CompositeError:
		for _, x := range e.Errors {
			if findCode(x, code) {
				return true
			}
		}
		return false
	case oerr.Error:
		return e.Code() == code
	}
	return false
}

type handlerCall struct {
	ran       int
	outcome   string
	code      int
	retErr    error
	gotStamp  string
	respCalls int
}

// Check builds the API of the case, serves every request and judges each answer.
func Check(c Case) *kit.Violation {
	if len(c.Ops) == 0 {
		return nil
	}
	paths := jm{}
	for i, op := range c.Ops {
		responses := jm{}
		for _, code := range op.Codes {
			responses[fmt.Sprint(code)] = jm{"description": "declared"}
		}
		if op.DefaultResp || len(op.Codes) == 0 {
			responses["default"] = jm{"description": "default"}
		}
		o := jm{"operationId": fmt.Sprintf("op%d", i), "responses": responses}
		if c.NoIDs {
			delete(o, "operationId")
		}
		if len(op.Produces) > 0 {
			o["produces"] = op.Produces
		}
		if op.Secured {
			switch op.Bearer {
			case "after":
				o["security"] = []jm{{"basic": []string{}}, {"oa": []string{"read"}}}
			case "before":
				o["security"] = []jm{{"oa": []string{"read"}}, {"basic": []string{}}}
			default:
				o["security"] = []jm{{"basic": []string{}}}
			}
		}
		if op.Param {
			o["parameters"] = []jm{{"name": "n", "in": "query", "type": "integer", "required": true}}
		}
		paths[fmt.Sprintf("/p%d", i)] = jm{strings.ToLower(op.Method): o}
	}
	spec := jm{"swagger": "2.0", "info": jm{"title": "t", "version": "1"}, "basePath": "/", "paths": paths,
		"securityDefinitions": jm{"basic": jm{"type": "basic"},
			"oa": jm{"type": "oauth2", "flow": "application", "tokenUrl": "https://example.test/token", "scopes": jm{"read": "read"}}}}
	if len(c.Global) > 0 {
		spec["produces"] = c.Global
	}
	raw, _ := json.Marshal(spec)
	doc, err := loads.Analyzed(json.RawMessage(raw), "")
	if err != nil {
		return kit.Failf("harness: the generated description does not load: %v", err)
	}
	api := untyped.NewAPI(doc)
	for _, mt := range MediaTypes {
		api.RegisterProducer(mt, stamp(mt))
	}
	if c.Default != "" {
		api.DefaultProduces = c.Default
	}
	authFailure := func() error {
		switch c.AuthErr {
		case "plain":
			return stderrors.New("credentials rejected")
		case "forbidden":
			return oerr.New(http.StatusForbidden, "credentials rejected")
		}
		return oerr.Unauthenticated("basic")
	}
	realmArg := c.Realm
	if c.DefaultRealm != "" {
		realmArg = ""
		saved := security.DefaultRealmName
		security.DefaultRealmName = c.DefaultRealm
		defer func() { security.DefaultRealmName = saved }()
	}
	if c.RealmCtx {
		api.RegisterAuth("basic", security.BasicAuthRealmCtx(realmArg, func(ctx context.Context, u, p string) (context.Context, interface{}, error) {
			if p == "ok" {
				return ctx, u, nil
			}
			return ctx, nil, authFailure()
		}))
	} else {
		api.RegisterAuth("basic", security.BasicAuthRealm(realmArg, func(u, p string) (interface{}, error) {
			if p == "ok" {
				return u, nil
			}
			return nil, authFailure()
		}))
	}
	api.RegisterAuth("oa", security.BearerAuth("oa", func(token string, _ []string) (interface{}, error) {
		if token == "good-token" {
			return "token-holder", nil
		}
		return nil, authFailure()
	}))
	var log []served
	responder := func(rw http.ResponseWriter, _ *http.Request, e error) {
		log = append(log, served{err: e, ct: rw.Header().Get("Content-Type"), www: append([]string(nil), rw.Header()["Www-Authenticate"]...)})
		rw.WriteHeader(responderStatus)
		_, _ = rw.Write([]byte("ERR"))
	}
	if !c.LateResponder {
		api.ServeError = responder
	}
	call := &handlerCall{}
	sharedNotImpl := middleware.NotImplemented("N")
	sharedErrors := map[int]middleware.Responder{}
	for i, op := range c.Ops {
		api.RegisterOperation(strings.ToLower(op.Method), fmt.Sprintf("/p%d", i), runtime.OperationHandlerFunc(func(interface{}) (interface{}, error) {
			call.ran++
			switch call.outcome {
			case "nil":
				return nil, nil
			case "responder":
				return middleware.ResponderFunc(func(rw http.ResponseWriter, p runtime.Producer) {
					call.respCalls++
					call.gotStamp = stampOf(p)
					rw.WriteHeader(233)
					if p != nil {
						_ = p.Produce(rw, "R")
					}
				}), nil
			case "resperr":
				return respErr{call}, nil
			case "mwerror-nil":
				return middleware.Error(call.code, nil), nil
			case "mwerror":
				if c.SharedResults {
					if sharedErrors[call.code] == nil {
						sharedErrors[call.code] = middleware.Error(call.code, "E")
					}
					return sharedErrors[call.code], nil
				}
				return middleware.Error(call.code, "E"), nil
			case "notimpl":
				if c.SharedResults {
					return sharedNotImpl, nil
				}
				return middleware.NotImplemented("N"), nil
			case "errplain", "errstatus", "errcomposite":
				return nil, call.retErr
			}
			return "V", nil
		}))
	}
	var h http.Handler
	var mctx *middleware.Context
	if v := kit.Guard("middleware.NewContext/RoutesHandler", func() { mctx = middleware.NewContext(doc, api, nil); h = mctx.RoutesHandler(nil) }); v != nil {
		return v
	}
	if c.LateResponder {
		api.ServeError = responder
	}

	wantRealm := c.Realm
	if c.DefaultRealm != "" {
		wantRealm = c.DefaultRealm
		security.DefaultRealmName = "realm of another API of the process" // restored by the deferred call above
	}
	for ri, rq := range c.Reqs {
		if rq.Op < 0 || rq.Op >= len(c.Ops) {
			continue
		}
		op := c.Ops[rq.Op]
		method := strings.ToUpper(op.Method)
		offers, explicit := c.declared(rq.Op)
		adm := c07.Admissible(rq.Ranges, offers, c.defaultType(), explicit)
		lines := c07.Lines(rq.Ranges)
		target := fmt.Sprintf("/p%d", rq.Op)
		if op.Param {
			switch rq.Param {
			case "missing":
			case "bad":
				target += "?n=x1"
			default:
				target += "?n=7"
			}
		}
		switch rq.Route {
		case "notfound":
			target = "/nowhere" + target
		case "wrongmethod":
			method = http.MethodPatch
		}
		req := httptest.NewRequest(method, target, nil)
		if len(lines) > 0 {
			req.Header["Accept"] = lines
		}
		switch rq.Cred {
		case "good":
			req.Header.Set("Authorization", "Basic "+base64.StdEncoding.EncodeToString([]byte("u:ok")))
		case "bad":
			req.Header.Set("Authorization", "Basic "+base64.StdEncoding.EncodeToString([]byte("u:no")))
		case "malformed":
			req.Header.Set("Authorization", "Basic !!!not-base64")
		case "bearer":
			req.Header.Set("Authorization", "Bearer abc")
		case "goodbearer":
			req.Header.Set("Authorization", "Bearer good-token")
		}
		*call = handlerCall{outcome: rq.Outcome, code: rq.Code}
		switch rq.Outcome {
		case "errplain":
			call.retErr = stderrors.New("handler failed")
		case "errstatus":
			call.retErr = oerr.New(int32(rq.Code), "handler failed with a status")
		case "errcomposite":
			call.retErr = oerr.CompositeValidationError(oerr.New(int32(rq.Code), "first"), stderrors.New("second"))
		}
		log = nil
		rec := httptest.NewRecorder()
		if ri%3 == 2 {
			// a middleware in front (an HTML error page, a builder) has put its own Content-Type on the response already:
			// what is answered does not depend on it (r10)
			rec.Header().Set("Content-Type", "text/html; charset=utf-8")
		}
		if v := kit.Guard("API handler", func() { h.ServeHTTP(rec, req) }); v != nil {
			return kit.Failf("request %d %s %s produces=%q Accept=%q outcome=%s: %s", ri, method, target, offers, lines, rq.Outcome, v.Msg)
		}
		ct := rec.Result().Header.Get("Content-Type")
		body := rec.Body.String()
		desc := fmt.Sprintf("request %d %s %s declared=%q (API default %q) responses=%v Accept=%q cred=%s outcome=%s -> status %d, Content-Type %q, WWW-Authenticate %q, body %q, handler ran %d time(s), error responder invoked %d time(s)",
			ri, method, target, offers, c.defaultType(), op.Codes, lines, rq.Cred, rq.Outcome, rec.Code, ct, rec.Result().Header["Www-Authenticate"], clip(body), call.ran, len(log))

		// wantErrorResponder: the answer must come from the error responder, exactly once, nothing else writes.
		wantErrorResponder := func(tag string, nothingNegotiatedIsJSON bool) *kit.Violation {
			if len(log) != 1 {
				return kit.Failf("%s %s; the API's error responder must be invoked exactly once", tag, desc)
			}
			if log[0].err == nil {
				return kit.Failf("%s %s; the error responder received a nil error", tag, desc)
			}
			if rec.Code != responderStatus || body != "ERR" {
				return kit.Failf("%s %s; something besides the error responder wrote the response", tag, desc)
			}
			if len(adm) == 0 {
				if nothingNegotiatedIsJSON && log[0].ct != runtime.JSONMime {
					return kit.Failf("%s %s; nothing was negotiated, the error responder must see Content-Type %q, saw %q", tag, desc, runtime.JSONMime, log[0].ct)
				}
			} else if !adm[log[0].ct] {
				return kit.Failf("%s %s; the error responder saw Content-Type %q, negotiable: %v", tag, desc, log[0].ct, keys(adm, offers))
			}
			return nil
		}

		// 0. routing: no operation matches; the error (404 / 405) goes to the error responder
		if rq.Route == "notfound" || rq.Route == "wrongmethod" {
			want := int32(http.StatusNotFound)
			if rq.Route == "wrongmethod" {
				want = http.StatusMethodNotAllowed
			}
			if call.ran != 0 {
				return kit.Failf("ROUTING %s; a handler ran for a request no operation matches", desc)
			}
			if len(log) != 1 || log[0].err == nil || rec.Code != responderStatus || body != "ERR" {
				return kit.Failf("ROUTING %s; the API's error responder must be invoked exactly once and write the answer", desc)
			}
			if !findCode(log[0].err, want) {
				return kit.Failf("ROUTING %s; the error handed to the responder is %v, want code %d", desc, log[0].err, want)
			}
			if log[0].ct == "" {
				return kit.Failf("ROUTING %s; the error responder saw no Content-Type (JSON when nothing was negotiated)", desc)
			}
			continue
		}
		// 1. authentication
		if op.Secured && !op.admits(rq.Cred) {
			if call.ran != 0 {
				return kit.Failf("AUTH %s; the handler ran without valid credentials", desc)
			}
			if v := wantErrorResponder("AUTH", true); v != nil {
				return v
			}
			www := rec.Result().Header["Www-Authenticate"]
			if len(www) != 1 {
				return kit.Failf("CHALLENGE %s; want exactly one WWW-Authenticate challenge naming realm %q", desc, wantRealm)
			}
			if realm, ok := parseChallenge(www[0]); !ok || realm != wantRealm {
				return kit.Failf("CHALLENGE %s; the challenge names %q (well-formed: %v), configured realm %q", desc, realm, ok, wantRealm)
			}
			if len(log[0].www) != 1 || log[0].www[0] != www[0] {
				return kit.Failf("CHALLENGE %s; the error responder did not see the challenge (%q)", desc, log[0].www)
			}
			continue
		}
		// 2. response format
		if len(adm) == 0 {
			if call.ran != 0 {
				return kit.Failf("406 %s; the handler ran although no declared type is acceptable", desc)
			}
			if v := wantErrorResponder("406", true); v != nil {
				return v
			}
			if !findCode(log[0].err, http.StatusNotAcceptable) {
				return kit.Failf("406 %s; the error handed to the responder is %v", desc, log[0].err)
			}
			continue
		}
		// 3. parameter binding
		if op.Param && (rq.Param == "missing" || rq.Param == "bad") {
			if call.ran != 0 {
				return kit.Failf("422 %s; the handler ran with an invalid parameter", desc)
			}
			if v := wantErrorResponder("422", false); v != nil {
				return v
			}
			continue
		}
		// 4. the handler's outcome
		if call.ran != 1 {
			return kit.Failf("HANDLER %s; the handler must run exactly once", desc)
		}
		switch rq.Outcome {
		case "errplain", "errstatus", "errcomposite":
			if v := wantErrorResponder("HANDLER-ERROR", false); v != nil {
				return v
			}
			if log[0].err != call.retErr {
				return kit.Failf("HANDLER-ERROR %s; the error responder received %v (%T), the handler returned %v (%T)", desc, log[0].err, log[0].err, call.retErr, call.retErr)
			}
			continue
		}
		if !adm[ct] {
			return kit.Failf("CONTENT-TYPE %s; negotiable: %v", desc, keys(adm, offers))
		}
		switch rq.Outcome {
		case "responder", "resperr":
			if len(log) != 0 {
				return kit.Failf("RESPONDER %s; the error responder ran for a successful result", desc)
			}
			if call.respCalls != 1 {
				return kit.Failf("RESPONDER %s; WriteResponse was called %d times", desc, call.respCalls)
			}
			if call.gotStamp != normType(ct) {
				return kit.Failf("RESPONDER-PRODUCER %s; the result was handed the producer registered for %q, the announced type is %q", desc, call.gotStamp, ct)
			}
			if rec.Code != 233 {
				return kit.Failf("RESPONDER %s; the responder's own status 233 was not kept", desc)
			}
			continue
		case "mwerror", "notimpl", "mwerror-nil":
			if len(log) != 0 {
				return kit.Failf("ERROR-RESULT %s; middleware.Error is a result that writes itself, the error responder must not run", desc)
			}
			want, payload := rq.Code, "E"
			if rq.Outcome == "notimpl" {
				want, payload = http.StatusNotImplemented, "N"
			}
			if rq.Outcome == "mwerror-nil" {
				payload = "<nil>" // what the stamped producer writes for a nil payload: it is still the one to write the body
			}
			if want <= 0 {
				want = http.StatusInternalServerError
			}
			if rec.Code != want {
				return kit.Failf("ERROR-RESULT %s; want status %d", desc, want)
			}
			if wantBody := "[" + normType(ct) + "]" + payload; method != http.MethodHead && body != wantBody {
				return kit.Failf("ERROR-RESULT-PRODUCER %s; want body %q (the producer of the announced type)", desc, wantBody)
			}
			continue
		}
		// plain value or nil
		status, ok := op.lowest2xx()
		if !ok {
			// default-only (or no 2xx) responses: the statement fixes no status; the answer comes from the error responder
			if v := wantErrorResponder("DEFAULT-ONLY", false); v != nil {
				return v
			}
			continue
		}
		if len(log) != 0 {
			return kit.Failf("RESULT %s; the error responder ran for a successful result", desc)
		}
		if rec.Code != status {
			return kit.Failf("STATUS %s; the declared success status is %d", desc, status)
		}
		if status == http.StatusNoContent || method == http.MethodHead {
			if body != "" {
				return kit.Failf("BODY-NOT-EMPTY %s; no body may be written for HEAD requests and 204 responses", desc)
			}
			continue
		}
		payload := "V"
		if rq.Outcome == "nil" {
			payload = "<nil>"
		}
		if want := "[" + normType(ct) + "]" + payload; body != want {
			return kit.Failf("PRODUCER %s; want body %q: what the producer registered for the announced type writes", desc, want)
		}
	}
	return respondOnOneRoute(c, mctx)
}

// respondOnOneRoute: a caller that looked an operation's route up once answers several requests with it through the
// exported Context.Respond, each request asking for another of the declared types: every answer is written by the
// producer of the type it announces. (r7)
func respondOnOneRoute(c Case, mctx *middleware.Context) *kit.Violation {
	for i, op := range c.Ops {
		method := strings.ToUpper(op.Method)
		status, ok := op.lowest2xx()
		offers, _ := c.declared(i)
		if !ok || status == http.StatusNoContent || method == http.MethodHead || len(offers) < 2 {
			continue
		}
		target := fmt.Sprintf("/p%d", i)
		if op.Param {
			target += "?n=7"
		}
		var route *middleware.MatchedRoute
		var found bool
		if v := kit.Guard("Context.LookupRoute", func() { route, found = mctx.LookupRoute(httptest.NewRequest(method, target, nil)) }); v != nil {
			return v
		}
		if !found || route == nil {
			return kit.Failf("ONE-ROUTE: the route of %s %s is not found", method, target)
		}
		asked := append(append([]string{}, offers...), offers[0])
		for k, o := range asked {
			req := httptest.NewRequest(method, target, nil)
			req.Header.Set("Accept", normType(o))
			rec := httptest.NewRecorder()
			if v := kit.Guard("Context.Respond", func() { mctx.Respond(rec, req, route.Produces, route, "V") }); v != nil {
				return v
			}
			ct := rec.Result().Header.Get("Content-Type")
			if rec.Code != status {
				continue // negotiated differently than asked (types that differ in parameters only): judged by the main loop
			}
			if want := "[" + normType(ct) + "]V"; rec.Body.String() != want {
				return kit.Failf("ONE-ROUTE-PRODUCER %s %s (produces %q), answer %d of a series of Context.Respond calls with one looked-up route, Accept %q: Content-Type %q, body %q; want body %q: what the producer registered for the announced type writes",
					method, target, offers, k+1, normType(o), ct, clip(rec.Body.String()), want)
			}
		}
	}
	return nil
}

func clip(s string) string {
	if len(s) > 160 {
		return s[:160] + "…"
	}
	return s
}

func keys(m map[string]bool, order []string) []string {
	var out []string
	seen := map[string]bool{}
	for _, o := range order {
		if m[o] && !seen[o] {
			out = append(out, o)
			seen[o] = true
		}
	}
	return out
}
