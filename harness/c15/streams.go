package c15

import (
	"bytes"
	"errors"
	"fmt"
	"io"
	"strings"

	"verif/harness/kit"
)

var errScripted = errors.New("scripted stream failure")

// Script describes how an underlying stream behaves: what it holds, how it chunks, how it ends.
type Script struct {
	Data        kit.BStr `json:"data"`
	Chunks      []int    `json:"chunks"`        // cycle of read sizes; 0 = a zero-length read without error
	EOFWithData bool     `json:"eof_with_data"` // the last bytes are returned together with io.EOF
	FailAt      int      `json:"fail_at"`       // -1: ends with EOF; k: sticky error once k bytes were delivered
	// FailErr is the error value of that failure: "" (an error of the harness), unexpected-eof (io.ErrUnexpectedEOF: what
	// net/http reports for a body that was cut short), wrapped-eof (an error that wraps io.EOF), closed-pipe
	FailErr  string `json:"fail_err,omitempty"`
	Closable bool   `json:"closable"` // the stream also implements io.Closer
	// Std: the stream is a standard-library reader that its owner has read Skip bytes of already (a magic number, a
	// header line): "bytes.Reader", "strings.Reader", "io.SectionReader". What is left in it is Data. Only for streams
	// that do not fail and cannot be closed. (r10)
	Std  string `json:"std,omitempty"`
	Skip int    `json:"skip,omitempty"`
}

func (s Script) failure() error {
	switch s.FailErr {
	case "unexpected-eof":
		return io.ErrUnexpectedEOF
	case "wrapped-eof":
		return fmt.Errorf("connection lost: %w", io.EOF)
	case "closed-pipe":
		return io.ErrClosedPipe
	}
	return errScripted
}

// reader is the scripted io.Reader. Terminal conditions are sticky.
type reader struct {
	s      Script
	pos    int
	ci     int
	closed int
	zeros  int
	reads  int
}

func (r *reader) Read(p []byte) (int, error) {
	r.reads++
	data := []byte(r.s.Data)
	if r.s.FailAt >= 0 && r.pos >= r.s.FailAt {
		return 0, r.s.failure()
	}
	if r.pos >= len(data) {
		return 0, io.EOF
	}
	if len(p) == 0 {
		return 0, nil
	}
	c := 1
	if len(r.s.Chunks) > 0 {
		c = r.s.Chunks[r.ci%len(r.s.Chunks)]
		r.ci++
	}
	if c <= 0 {
		r.zeros++
		if r.zeros < 3 { // never enough consecutive empty reads to trip io.ErrNoProgress
			return 0, nil
		}
		c = 1
	}
	r.zeros = 0
	n := len(data) - r.pos
	if c < n {
		n = c
	}
	if len(p) < n {
		n = len(p)
	}
	if r.s.FailAt >= 0 && r.s.FailAt-r.pos < n {
		n = r.s.FailAt - r.pos
	}
	copy(p, data[r.pos:r.pos+n])
	r.pos += n
	if r.pos == len(data) && r.s.EOFWithData && r.s.FailAt < 0 && n > 0 {
		return n, io.EOF
	}
	return n, nil
}

type readCloser struct{ *reader }

func (r readCloser) Close() error { r.reader.closed++; return nil }

func (s Script) open() (*reader, io.Reader) {
	r := &reader{s: s}
	if s.Std != "" && !s.fails() && !s.Closable {
		whole := append(bytes.Repeat([]byte{'#'}, s.Skip), []byte(s.Data)...)
		var std io.Reader
		switch s.Std {
		case "bytes.Reader":
			std = bytes.NewReader(whole)
		case "strings.Reader":
			std = strings.NewReader(string(whole))
		default:
			std = io.NewSectionReader(bytes.NewReader(whole), 0, int64(len(whole)))
		}
		_, _ = io.CopyN(io.Discard, std, int64(s.Skip))
		return r, std
	}
	if s.Closable {
		return r, readCloser{r}
	}
	return r, r
}

// delivered is what a consumer can have seen of the stream before the terminal condition.
func (s Script) delivered() []byte {
	if s.FailAt >= 0 && s.FailAt < len(s.Data) {
		return []byte(s.Data)[:s.FailAt]
	}
	return []byte(s.Data)
}

func (s Script) fails() bool { return s.FailAt >= 0 }

// Sink describes the scripted io.Writer.
type Sink struct {
	FailAt   int  `json:"fail_at"`   // -1: accepts everything; k: accepts k bytes, then fails (sticky)
	Closable bool `json:"closable"`  // also implements io.Closer
	MaxWrite int  `json:"max_write"` // 0: unlimited
}

type writer struct {
	s      Sink
	buf    bytes.Buffer
	closed int
	writes int
}

func (w *writer) Write(p []byte) (int, error) {
	w.writes++
	if w.s.FailAt >= 0 && w.buf.Len()+len(p) > w.s.FailAt {
		n := w.s.FailAt - w.buf.Len()
		if n < 0 {
			n = 0
		}
		w.buf.Write(p[:n])
		return n, errScripted
	}
	return w.buf.Write(p)
}

type writeCloser struct{ *writer }

func (w writeCloser) Close() error { w.writer.closed++; return nil }

func (s Sink) open() (*writer, io.Writer) {
	w := &writer{s: s}
	if s.Closable {
		return w, writeCloser{w}
	}
	return w, w
}
