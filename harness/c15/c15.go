// Package c15 decides property C15 (built-in codecs round-trip values and never truncate, alias or panic).
//
// Three sub-checks: "consume" and "produce" drive the text and byte-stream codecs with scripted streams (every
// documented source/destination kind, chunking, zero-length reads, data+EOF, a sticky error at an offset,
// closing option) against the oracle "bytes stored = bytes scripted / sink bytes = source bytes, a fault is an
// error, closed iff requested, unsupported kinds are refused, nothing panics"; "structured" round-trips generated
// values through the JSON, XML and YAML pairs, including faults placed inside the encoded document.
package c15

import (
	"unicode"

	"verif/harness/kit"
)

var unicodeSafe = unicode.RangeTable{
	R16: []unicode.Range16{{Lo: 0x20, Hi: 0x7e, Stride: 1}, {Lo: 0xa0, Hi: 0xd7ff, Stride: 1}, {Lo: 0xe000, Hi: 0xfdcf, Stride: 1}, {Lo: 0xfdf0, Hi: 0xfefe, Stride: 1}, {Lo: 0xff00, Hi: 0xfffd, Stride: 1}},
	R32: []unicode.Range32{{Lo: 0x10000, Hi: 0x1fffd, Stride: 1}},
}

const ruleRaw = "text and byte-stream codecs x every documented source/destination kind (interfaces, concrete and named string/[]byte forms, *interface{}, typed nil pointers, non-pointers, unsupported kinds) " +
	"x contents (empty, text, binary, invalid UTF-8, NULs, 64 KiB) x scripted streams (chunk sizes incl. 1 byte, zero-length reads, data together with EOF, sticky error at an offset) x closing option x closable streams x pre-populated destinations; " +
	"oracle: stored/sunk bytes = scripted bytes, a fault is an error, closed exactly when requested, unsupported kinds refused, no panic; " +
	"non-trivial = the script has >=2 chunks, a zero-length read, data+EOF or an error, or the destination/source is nil/unsupported/pre-populated, or a sink fault; distinct by hash of the case"

const ruleStruct = "JSON/XML/YAML producer then consumer on generated values (nested struct with string/int/float/bool/slice/map/pointer fields, untyped values, JSON numbers beyond float64 precision), " +
	"through scripted readers (chunking, zero-length reads) with read faults inside the document and write faults inside the encoding, and nil/typed-nil/non-pointer destinations; " +
	"oracle: consumed value equals the produced value, faults are errors, bad destinations are errors, no panic; non-trivial = any mode other than a plain round trip, or a chunked read"

func Props() []kit.Runner {
	return []kit.Runner{
		kit.Prop[ConsumeCase]{ID: "C15", Name: "consume", Rule: ruleRaw, Quick: 40000, Thorough: 400000,
			Gen: GenConsume, Check: CheckConsume, Classify: ClassifyConsume, Enumerate: EnumConsume, SampleLimit: 700},
		kit.Prop[ProduceCase]{ID: "C15", Name: "produce", Rule: ruleRaw, Quick: 40000, Thorough: 400000,
			Gen: GenProduce, Check: CheckProduce, Classify: ClassifyProduce, Enumerate: EnumProduce, SampleLimit: 700},
		kit.Prop[StructCase]{ID: "C15", Name: "structured", Rule: ruleStruct, Quick: 15000, Thorough: 200000,
			Gen: GenStruct, Check: CheckStruct, Classify: ClassifyStruct},
		largeDocProp(),
	}
}
