package c15

import (
	"bytes"
	"encoding/json"
	"encoding/xml"
	"fmt"
	"reflect"
	"sort"
	"strings"

	rt "github.com/go-openapi/runtime"
	"github.com/go-openapi/runtime/yamlpc"
	"pgregory.net/rapid"

	"verif/harness/kit"
)

// Inner and Doc are the "supported value" of the structured codecs: every field kind the three formats share.
type Inner struct {
	S string  `json:"s" xml:"s" yaml:"s"`
	N int64   `json:"n" xml:"n" yaml:"n"`
	F float64 `json:"f" xml:"f" yaml:"f"`
	B bool    `json:"b" xml:"b" yaml:"b"`
}

type Doc struct {
	Str   string  `json:"str" xml:"str" yaml:"str"`
	Int   int64   `json:"int" xml:"int" yaml:"int"`
	Small int8    `json:"small" xml:"small" yaml:"small"`
	U     uint32  `json:"u" xml:"u" yaml:"u"`
	F64   float64 `json:"f64" xml:"f64" yaml:"f64"`
	F32   float32 `json:"f32" xml:"f32" yaml:"f32"`
	Flag  bool    `json:"flag" xml:"flag" yaml:"flag"`
	// element names that HTML parsers close by themselves (link, img): for an XML codec they are names like any other
	Link string            `json:"link" xml:"link" yaml:"link"`
	Img  []string          `json:"img" xml:"img" yaml:"img"`
	List []string          `json:"list" xml:"list" yaml:"list"`
	Nums []int             `json:"nums" xml:"nums" yaml:"nums"`
	PtrS *string           `json:"ptrs,omitempty" xml:"ptrs,omitempty" yaml:"ptrs,omitempty"`
	In   Inner             `json:"in" xml:"in" yaml:"in"`
	Ins  []Inner           `json:"ins" xml:"ins" yaml:"ins"`
	M    map[string]string `json:"m,omitempty" xml:"-" yaml:"m,omitempty"`
}

// holder keeps an untyped value below a struct destination.
type holder struct {
	Items []interface{} `json:"items"`
	Box   *box          `json:"box"`
	Boxes []box         `json:"boxes"`
}

type box struct {
	V interface{} `json:"v"`
}

// StructCase: produce a value with a structured codec, then consume the output again.
type StructCase struct {
	Codec string `json:"codec"` // json | xml | yaml
	Mode  string `json:"mode"`  // doc | generic | bignum | baddest | readfault | writefault
	Doc   Doc    `json:"doc"`
	// Generic is a JSON text describing an untyped value (maps, slices, strings, numbers as json.Number) for mode generic/bignum.
	Generic string `json:"generic,omitempty"`
	BadDest string `json:"bad_dest,omitempty"` // nil | typednil | value | nilmap
	Chunks  []int  `json:"chunks,omitempty"`
	EOFData bool   `json:"eof_with_data,omitempty"`
	FailAt  int    `json:"fail_at"`            // read/write fault offset as a per-mille of the encoded length (-1: none)
	FailErr string `json:"fail_err,omitempty"` // readfault: the error value of the failing reader (see Script.FailErr)
	// Reader selects what the consumer reads from in the fault-free modes: "" (the scripted reader) or one of the
	// standard library's concrete reader types (buffer = *bytes.Buffer, bytesreader = *bytes.Reader, stringsreader).
	Reader string `json:"reader,omitempty"`
}

func codecPair(codec string) (rt.Producer, rt.Consumer) {
	switch codec {
	case "json":
		return rt.JSONProducer(), rt.JSONConsumer()
	case "xml":
		return rt.XMLProducer(), rt.XMLConsumer()
	default:
		return yamlpc.YAMLProducer(), yamlpc.YAMLConsumer()
	}
}

func normDoc(d Doc) Doc {
	// formats do not distinguish nil from empty collections
	if len(d.List) == 0 {
		d.List = nil
	}
	if len(d.Nums) == 0 {
		d.Nums = nil
	}
	if len(d.Img) == 0 {
		d.Img = nil
	}
	if len(d.Ins) == 0 {
		d.Ins = nil
	}
	if len(d.M) == 0 {
		d.M = nil
	}
	return d
}

func docEqual(a, b Doc) bool {
	a, b = normDoc(a), normDoc(b)
	if (a.PtrS == nil) != (b.PtrS == nil) {
		return false
	}
	if a.PtrS != nil && *a.PtrS != *b.PtrS {
		return false
	}
	a.PtrS, b.PtrS = nil, nil
	return reflect.DeepEqual(a, b)
}

func CheckStruct(c StructCase) *kit.Violation {
	prod, cons := codecPair(c.Codec)
	var value interface{} = c.Doc
	if c.Codec == "xml" {
		d := c.Doc
		d.M = nil
		value = d
	}
	if c.Mode == "generic" || c.Mode == "bignum" {
		dec := json.NewDecoder(strings.NewReader(c.Generic))
		dec.UseNumber()
		if err := dec.Decode(&value); err != nil {
			return kit.Failf("harness: bad generic text %q: %v", c.Generic, err)
		}
	}

	// fault-free production into a plain buffer: the reference encoding
	var full bytes.Buffer
	var err error
	if v := kit.Guard(c.Codec+" producer", func() { err = prod.Produce(&full, value) }); v != nil {
		return v
	}
	if err != nil {
		return kit.Failf("%s producer refused a supported value %+v: %v", c.Codec, value, err)
	}
	enc := full.Bytes()

	switch c.Mode {
	case "writefault":
		at := len(enc) * c.FailAt / 1000
		if at >= len(enc) {
			at = len(enc) - 1
		}
		if at < 0 {
			at = 0
		}
		w, sink := Sink{FailAt: at}.open()
		if v := kit.Guard(c.Codec+" producer into a failing writer", func() { err = prod.Produce(sink, value) }); v != nil {
			return v
		}
		if err == nil {
			return kit.Failf("%s producer: the writer failed after %d of %d bytes and Produce reported success (%d bytes reached the sink)", c.Codec, at, len(enc), w.buf.Len())
		}
		return nil

	case "baddest":
		var dest interface{}
		switch c.BadDest {
		case "nil":
			dest = nil
		case "typednil":
			dest = (*Doc)(nil)
		case "value":
			dest = Doc{}
		case "nilmap":
			dest = map[string]interface{}(nil)
		case "string":
			dest = "by value"
		}
		if v := kit.Guard(fmt.Sprintf("%s consumer into the %s destination", c.Codec, c.BadDest), func() { err = cons.Consume(bytes.NewReader(enc), dest) }); v != nil {
			return v
		}
		if err == nil {
			return kit.Failf("%s consumer accepted the %s destination without an error", c.Codec, c.BadDest)
		}
		return nil
	}

	script := Script{Data: kit.BStr(enc), Chunks: c.Chunks, EOFWithData: c.EOFData, FailAt: -1}
	if c.Mode == "readfault" {
		// the fault strictly precedes the end of the document proper (trailing white space is not needed by a decoder)
		body := bytes.TrimRight(enc, " \n\r\t")
		if c.Codec == "yaml" {
			body = enc
		}
		at := len(body) * c.FailAt / 1000
		if at >= len(body) {
			at = len(body) - 1
		}
		if at < 0 {
			at = 0
		}
		script.FailAt = at
		script.FailErr = c.FailErr
	}
	_, stream := script.open()
	if c.Mode != "readfault" {
		switch c.Reader {
		case "buffer":
			stream = bytes.NewBuffer(append([]byte(nil), enc...))
		case "bytesreader":
			stream = bytes.NewReader(enc)
		case "stringsreader":
			stream = strings.NewReader(string(enc))
		}
	}

	if c.Mode == "generic" || c.Mode == "bignum" {
		var got interface{}
		if v := kit.Guard(c.Codec+" consumer into *interface{}", func() { err = cons.Consume(stream, &got) }); v != nil {
			return v
		}
		if err != nil {
			return kit.Failf("%s consumer: unexpected error reading back %q: %v", c.Codec, clipb(enc), err)
		}
		if !reflect.DeepEqual(got, value) {
			return kit.Failf("%s round trip of an untyped value: produced %q, consumed %#v, want %#v", c.Codec, clipb(enc), got, value)
		}
		if c.Codec == "json" {
			// the same untyped value one and two levels below a struct destination (r7)
			in := holder{Items: []interface{}{value}, Box: &box{V: value}, Boxes: []box{{V: value}}}
			var buf bytes.Buffer
			if v := kit.Guard("json producer (struct holding the untyped value)", func() { err = prod.Produce(&buf, in) }); v != nil {
				return v
			}
			if err != nil {
				return kit.Failf("json producer: unexpected error writing a struct that holds %#v: %v", value, err)
			}
			var out holder
			if v := kit.Guard("json consumer into a struct with untyped members", func() { err = cons.Consume(bytes.NewReader(buf.Bytes()), &out) }); v != nil {
				return v
			}
			if err != nil {
				return kit.Failf("json consumer: unexpected error reading back %q: %v", clipb(buf.Bytes()), err)
			}
			// the same document as raw JSON text: what comes back is the text of the value, nothing more (r8)
			if c.Mode == "generic" {
				raw := json.RawMessage(bytes.TrimSpace(enc))
				var rbuf bytes.Buffer
				if v := kit.Guard("json producer (json.RawMessage)", func() { err = prod.Produce(&rbuf, raw) }); v != nil {
					return v
				}
				var back json.RawMessage
				if err == nil {
					if v := kit.Guard("json consumer into *json.RawMessage", func() { err = cons.Consume(bytes.NewReader(rbuf.Bytes()), &back) }); v != nil {
						return v
					}
				}
				if err != nil {
					return kit.Failf("json round trip of a json.RawMessage %q: unexpected error %v", clipb(raw), err)
				}
				if !bytes.Equal(back, raw) {
					return kit.Failf("json round trip of a json.RawMessage: produced %q from %q, consumed %q", clipb(rbuf.Bytes()), clipb(raw), clipb(back))
				}
			}
			if !reflect.DeepEqual(out, in) {
				return kit.Failf("json round trip of an untyped value held by a struct ([]interface{} member, *struct and []struct with an interface{} member): produced %q, consumed %#v, want %#v", clipb(buf.Bytes()), out, in)
			}
		}
		return nil
	}

	var got Doc
	pre := "stale"
	if c.Mode == "doc" && len(c.Chunks)%2 == 1 {
		// pre-populated destination: fields present in the document must be overwritten
		got = Doc{Str: "stale", Int: -99, PtrS: &pre}
	}
	if v := kit.Guard(c.Codec+" consumer into *Doc", func() { err = cons.Consume(stream, &got) }); v != nil {
		return v
	}
	if c.Mode == "readfault" {
		if err == nil {
			return kit.Failf("%s consumer: the reader failed after %d of %d bytes and Consume reported success", c.Codec, script.FailAt, len(enc))
		}
		return nil
	}
	if err != nil {
		return kit.Failf("%s consumer: unexpected error reading back %q (chunks %v): %v", c.Codec, clipb(enc), c.Chunks, err)
	}
	want := c.Doc
	if c.Codec == "xml" {
		want.M = nil
	}
	if want.PtrS == nil && got.PtrS == &pre {
		got.PtrS = nil // absent optional element: a pre-populated pointer legitimately stays
	}
	if !docEqual(got, want) {
		return kit.Failf("%s round trip: produced %q, consumed %+v, want %+v", c.Codec, clipb(enc), got, want)
	}
	return nil
}

// Generators ---------------------------------------------------------------------------------------

// strings every one of the three formats can carry: valid UTF-8, no control characters other than tab and
// newline (XML cannot represent them, and normalises \r), no U+FFFE/U+FFFF.
var strTable = []string{"", "a", "hello world", " lead", "trail ", "<tag>&amp;\"'", "true", "null", "~", "123", "1e3", "0x10", "- item", "k: v", "# c",
	"multi\nline", "tab\there", "ünï€ode 😀", "{}", "[]", "'single'", "\"double\"", "a\\b", "|", ">", "%", "@", "`", "!!str", "2001-01-01", "1_000", ".inf", "y", "no"}

func genStr(t *rapid.T, label string) string {
	if rapid.IntRange(0, 3).Draw(t, label+"tbl") != 0 {
		return rapid.SampledFrom(strTable).Draw(t, label)
	}
	return rapid.StringOfN(rapid.RuneFrom(nil, &unicodeSafe), 0, 12, -1).Draw(t, label)
}

func genInner(t *rapid.T) Inner {
	return Inner{S: genStr(t, "is"), N: genInt64(t, "in"), F: genFloat(t, "if"), B: rapid.Bool().Draw(t, "ib")}
}

func genInt64(t *rapid.T, label string) int64 {
	return rapid.SampledFrom([]int64{0, 1, -1, 42, 1<<53 + 1, -(1<<53 + 1), 1<<63 - 1, -1 << 63, 1234567890123456789}).Draw(t, label)
}

func genFloat(t *rapid.T, label string) float64 {
	return rapid.SampledFrom([]float64{0, 1, -1, 0.1, 1.5, 1e21, 1e-7, 123456789.125, 5e-324, 1.7976931348623157e308, -2.5e-3, 1e20, 100000, 3.0}).Draw(t, label)
}

func GenStruct(t *rapid.T) StructCase {
	c := StructCase{
		Codec:  rapid.SampledFrom([]string{"json", "xml", "yaml"}).Draw(t, "codec"),
		Mode:   rapid.SampledFrom([]string{"doc", "doc", "doc", "generic", "bignum", "baddest", "readfault", "writefault"}).Draw(t, "mode"),
		FailAt: -1,
	}
	d := Doc{Str: genStr(t, "str"), Int: genInt64(t, "int"), Small: int8(rapid.SampledFrom([]int{0, 127, -128, 5}).Draw(t, "small")),
		U: rapid.SampledFrom([]uint32{0, 1, 1<<32 - 1}).Draw(t, "u"), F64: genFloat(t, "f64"),
		F32: rapid.SampledFrom([]float32{0, 1.5, 3.4028235e38, 1e-45, 0.1}).Draw(t, "f32"), Flag: rapid.Bool().Draw(t, "flag"), In: genInner(t)}
	if rapid.Bool().Draw(t, "haslink") {
		d.Link = genStr(t, "link")
	}
	for i, n := 0, rapid.IntRange(0, 2).Draw(t, "nimg"); i < n; i++ {
		d.Img = append(d.Img, genStr(t, "img"))
	}
	for i, n := 0, rapid.IntRange(0, 3).Draw(t, "nlist"); i < n; i++ {
		d.List = append(d.List, genStr(t, "li"))
	}
	for i, n := 0, rapid.IntRange(0, 3).Draw(t, "nnums"); i < n; i++ {
		d.Nums = append(d.Nums, rapid.IntRange(-5, 5).Draw(t, "num"))
	}
	if rapid.Bool().Draw(t, "hasptr") {
		s := genStr(t, "ptrs")
		d.PtrS = &s
	}
	for i, n := 0, rapid.IntRange(0, 2).Draw(t, "nins"); i < n; i++ {
		d.Ins = append(d.Ins, genInner(t))
	}
	if rapid.Bool().Draw(t, "hasmap") {
		d.M = map[string]string{}
		for i, n := 0, rapid.IntRange(1, 3).Draw(t, "nm"); i < n; i++ {
			d.M[rapid.SampledFrom([]string{"k", "key two", "3", "true", "a.b"}).Draw(t, "mk")] = genStr(t, "mv")
		}
	}
	c.Doc = d
	for i, n := 0, rapid.IntRange(0, 3).Draw(t, "nchunks"); i < n; i++ {
		c.Chunks = append(c.Chunks, rapid.SampledFrom([]int{0, 1, 2, 7, 64, 4096}).Draw(t, "chunk"))
	}
	c.EOFData = rapid.Bool().Draw(t, "eofdata")
	c.Reader = rapid.SampledFrom([]string{"", "", "buffer", "bytesreader", "stringsreader"}).Draw(t, "readerkind")
	switch c.Mode {
	case "generic":
		if c.Codec == "xml" {
			c.Mode = "doc" // encoding/xml has no untyped form
			break
		}
		c.Generic = rapid.SampledFrom([]string{`{"a":"x","b":["y","z"],"c":{"d":"e"}}`, `["a",["b"],{}]`, `"just a string"`, `{"k":true,"n":null}`, `{"s":"<&>"}`, `7`, `0`, `{}`, `[]`, `""`, `true`}).Draw(t, "generic") // the shortest ones encode to 2-3 bytes
		if c.Codec == "yaml" {
			c.Generic = rapid.SampledFrom([]string{`{"a":"x","b":["y","z"],"c":{"d":"e"}}`, `["a",["b"]]`, `"just a string"`, `{"k":true}`}).Draw(t, "ygeneric")
		}
	case "bignum":
		if c.Codec != "json" {
			c.Codec = "json" // numbers beyond float64 precision are a JSON statement
		}
		c.Generic = rapid.SampledFrom([]string{`{"n":12345678901234567890123}`, `[9007199254740993, 0.1000000000000000055511151231257827, 1e400]`, `{"x":{"y":18446744073709551616}}`, `123456789012345678901234567890`, `[-9223372036854775809, 1.0, 1.00]`}).Draw(t, "bignum")
	case "baddest":
		c.BadDest = rapid.SampledFrom([]string{"nil", "typednil", "value", "nilmap", "string"}).Draw(t, "baddest")
	case "readfault", "writefault":
		c.FailAt = rapid.SampledFrom([]int{0, 1, 100, 500, 900, 990, 999, rapid.IntRange(0, 999).Draw(t, "anyfail")}).Draw(t, "failat")
		if c.Mode == "readfault" {
			c.FailErr = rapid.SampledFrom([]string{"", "", "unexpected-eof", "wrapped-eof", "closed-pipe"}).Draw(t, "failerr")
		}
	}
	return c
}

func ClassifyStruct(c StructCase) (bool, []string) {
	labels := []string{"codec " + c.Codec, "mode " + c.Mode}
	if c.FailErr != "" {
		labels = append(labels, "reader fails with "+c.FailErr)
	}
	if c.Doc.Link != "" || len(c.Doc.Img) > 0 {
		labels = append(labels, "fields named like HTML void elements (link, img)")
	}
	nt := c.Mode != "doc"
	for _, ch := range c.Chunks {
		if ch == 0 {
			labels = append(labels, "zero-length read")
			nt = true
		} else if ch < 64 {
			labels = append(labels, "≥2 chunks")
			nt = true
		}
	}
	if c.Mode == "doc" && len(c.Chunks)%2 == 1 {
		labels = append(labels, "prepopulated")
	}
	if c.BadDest != "" {
		labels = append(labels, "baddest "+c.BadDest)
	}
	if c.Reader != "" && c.Mode != "readfault" && c.Mode != "writefault" && c.Mode != "baddest" {
		labels = append(labels, "reader "+c.Reader)
	}
	sort.Strings(labels)
	// dedupe
	out := labels[:0]
	for i, l := range labels {
		if i == 0 || labels[i-1] != l {
			out = append(out, l)
		}
	}
	return nt, out
}

var _ = xml.Header
