package c15

import (
	"bytes"
	"fmt"

	"pgregory.net/rapid"

	"verif/harness/kit"
)

// LargeDoc is a document of more than a MiB: a list of N short strings, produced and consumed again. The statement's
// "all contents (… large …)" has no size limit; the other sub-checks stay below 70 KiB. (r9)
type LargeDoc struct {
	Codec string `json:"codec"` // json | yaml | xml
	N     int    `json:"n"`
}

type xmlList struct {
	Item []string `xml:"item"`
}

func CheckLargeDoc(c LargeDoc) *kit.Violation {
	if c.N < 1 || c.N > 400000 {
		return kit.Failf("malformed case")
	}
	prod, cons := codecPair(c.Codec)
	items := make([]string, c.N)
	for i := range items {
		items[i] = fmt.Sprintf("item-%06d", i)
	}
	var src, dst interface{}
	var back func() []string
	if c.Codec == "xml" {
		out := &xmlList{}
		src, dst, back = xmlList{Item: items}, out, func() []string { return out.Item }
	} else {
		var out []string
		src, dst, back = items, &out, func() []string { return out }
	}
	var buf bytes.Buffer
	var err error
	if v := kit.Guard(c.Codec+" producer (large document)", func() { err = prod.Produce(&buf, src) }); v != nil {
		return v
	}
	if err != nil {
		return kit.Failf("LARGE %s: producing a list of %d strings failed: %v", c.Codec, c.N, err)
	}
	size := buf.Len()
	if v := kit.Guard(c.Codec+" consumer (large document)", func() { err = cons.Consume(bytes.NewReader(buf.Bytes()), dst) }); v != nil {
		return v
	}
	if err != nil {
		return kit.Failf("LARGE %s: consuming the %d bytes the producer wrote for %d strings failed: %v", c.Codec, size, c.N, err)
	}
	got := back()
	if len(got) != c.N {
		last := ""
		if len(got) > 0 {
			last = got[len(got)-1]
		}
		return kit.Failf("LARGE %s: the document of %d bytes holds %d strings; %d were consumed (the last one %q), and no error was reported", c.Codec, size, c.N, len(got), last)
	}
	for i := range got {
		if got[i] != items[i] {
			return kit.Failf("LARGE %s: string %d of %d was consumed as %q, want %q", c.Codec, i, c.N, got[i], items[i])
		}
	}
	return nil
}

func GenLargeDoc(t *rapid.T) LargeDoc {
	return LargeDoc{Codec: rapid.SampledFrom([]string{"yaml", "json", "xml"}).Draw(t, "codec"), N: rapid.SampledFrom([]int{60000, 90000, 100000}).Draw(t, "n")}
}

func ClassifyLargeDoc(c LargeDoc) (bool, []string) {
	return true, []string{c.Codec, fmt.Sprintf("list of %d strings (more than a MiB)", c.N)}
}

func largeDocProp() kit.Runner {
	return kit.Prop[LargeDoc]{ID: "C15", Name: "large", Rule: "a list of 60000-100000 short strings (1.1-2.5 MiB encoded) produced and consumed again with the JSON, YAML and XML codecs: same count, same strings; every case is non-trivial",
		Quick: 3, Thorough: 6, Gen: GenLargeDoc, Check: CheckLargeDoc, Classify: ClassifyLargeDoc}
}
