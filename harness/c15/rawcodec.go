package c15

import (
	"bytes"
	"errors"
	"fmt"
	"io"
	"sort"

	rt "github.com/go-openapi/runtime"
	"pgregory.net/rapid"

	"verif/harness/kit"
)

// Destination doubles -------------------------------------------------------------------------------

type binU struct{ b []byte }

func (b *binU) UnmarshalBinary(d []byte) error { b.b = append(b.b[:0:0], d...); return nil }

type txtU struct{ b []byte }

func (b *txtU) UnmarshalText(d []byte) error { b.b = append(b.b[:0:0], d...); return nil }

type rdFrom struct{ b bytes.Buffer }

func (r *rdFrom) ReadFrom(x io.Reader) (int64, error) { return r.b.ReadFrom(x) }

type onlyW struct{ w *writer }

func (w onlyW) Write(p []byte) (int, error) { return w.w.Write(p) }

type uuid16 [16]byte

type myStr string
type myBytes []byte
type aStruct struct{ A string }

// Destination kinds of the consume check.
const (
	dString      = "*string"
	dBytes       = "*[]byte"
	dNamedStr    = "*namedString"
	dNamedBytes  = "*namedBytes"
	dBinU        = "BinaryUnmarshaler"
	dTxtU        = "TextUnmarshaler"
	dReaderFrom  = "ReaderFrom"
	dWriter      = "Writer"
	dAnyString   = "*any(string)"
	dAnyBytes    = "*any([]byte)"
	dAnyNil      = "*any(nil)"
	dAnyInt      = "*any(int)"
	dNil         = "nil"
	dNilStrPtr   = "(*string)(nil)"
	dNilBytesPtr = "(*[]byte)(nil)"
	dNilStruct   = "(*struct)(nil)"
	dInt         = "int value"
	dStrValue    = "string value"
	dStructPtr   = "*struct"
	dIntPtr      = "*int"
)

var destKinds = []string{dString, dBytes, dNamedStr, dNamedBytes, dBinU, dTxtU, dReaderFrom, dWriter, dAnyString, dAnyBytes,
	dAnyNil, dAnyInt, dNil, dNilStrPtr, dNilBytesPtr, dNilStruct, dInt, dStrValue, dStructPtr, dIntPtr}

// supportedDest says whether the codec's documentation lists the destination kind.
func supportedDest(codec, k string) bool {
	switch k {
	case dString, dNamedStr:
		return true
	case dTxtU:
		return codec == "text"
	case dBytes, dNamedBytes, dBinU, dReaderFrom, dWriter, dAnyString, dAnyBytes:
		return codec == "bytes"
	}
	return false
}

// ConsumeCase: a text or byte-stream consumer reading a scripted stream into one destination kind.
type ConsumeCase struct {
	Codec   string `json:"codec"` // text | bytes
	Closing bool   `json:"closing"`
	Dest    string `json:"dest"`
	Prepop  bool   `json:"prepopulated"`
	Stream  Script `json:"stream"`
	SinkErr int    `json:"sink_fail_at"` // for the Writer destination: -1 or the offset at which it fails
}

func newConsumer(codec string, closing bool) rt.Consumer {
	switch {
	case codec == "text":
		return rt.TextConsumer()
	case closing:
		return rt.ByteStreamConsumer(rt.ClosesStream)
	default:
		return rt.ByteStreamConsumer()
	}
}

func CheckConsume(c ConsumeCase) *kit.Violation {
	cons := newConsumer(c.Codec, c.Closing && c.Codec == "bytes")
	closing := c.Closing && c.Codec == "bytes"
	rd, stream := c.Stream.open()
	old := []byte("previous-content")

	var dest interface{}
	var read func() []byte // what the destination holds afterwards (nil func: not readable)
	appendMode := false
	var sink *writer
	var heldOld []byte              // the slice value a pre-populated []byte destination held before the call: the caller may still hold it
	var again func(io.Reader) error // consumes once more into the very same destination variable
	switch c.Dest {
	case dString:
		s := ""
		if c.Prepop {
			s = string(old)
		}
		dest, read = &s, func() []byte { return []byte(s) }
	case dBytes:
		var b []byte
		if c.Prepop {
			b = append(make([]byte, 0, 2048), old...) // with room to spare, as a slice that came out of an earlier Consume has
			heldOld = b
		}
		dest, read = &b, func() []byte { return b }
		again = func(r io.Reader) error { return cons.Consume(r, &b) }
	case dNamedStr:
		s := myStr("")
		if c.Prepop {
			s = myStr(old)
		}
		dest, read = &s, func() []byte { return []byte(s) }
	case dNamedBytes:
		var b myBytes
		if c.Prepop {
			b = append(make(myBytes, 0, 2048), old...)
			heldOld = b
		}
		dest, read = &b, func() []byte { return b }
		again = func(r io.Reader) error { return cons.Consume(r, &b) }
	case dBinU:
		d := &binU{}
		if c.Prepop {
			d.b = append([]byte(nil), old...)
		}
		dest, read = d, func() []byte { return d.b }
	case dTxtU:
		d := &txtU{}
		if c.Prepop {
			d.b = append([]byte(nil), old...)
		}
		dest, read = d, func() []byte { return d.b }
	case dReaderFrom:
		d := &rdFrom{}
		if c.Prepop {
			d.b.Write(old)
			appendMode = true
		}
		dest, read = d, func() []byte { return d.b.Bytes() }
	case dWriter:
		sink = &writer{s: Sink{FailAt: c.SinkErr}}
		if c.Prepop && c.SinkErr < 0 {
			sink.buf.Write(old)
			appendMode = true
		}
		dest, read = onlyW{sink}, func() []byte { return sink.buf.Bytes() }
	case dAnyString:
		var a interface{} = "old"
		dest, read = &a, func() []byte {
			if s, ok := a.(string); ok {
				return []byte(s)
			}
			return []byte(fmt.Sprintf("<%T>", a))
		}
	case dAnyBytes:
		var a interface{} = []byte("old")
		dest, read = &a, func() []byte {
			if s, ok := a.([]byte); ok {
				return s
			}
			return []byte(fmt.Sprintf("<%T>", a))
		}
	case dAnyNil:
		var a interface{}
		dest = &a
	case dAnyInt:
		var a interface{} = 7
		dest = &a
	case dNil:
		dest = nil
	case dNilStrPtr:
		dest = (*string)(nil)
	case dNilBytesPtr:
		dest = (*[]byte)(nil)
	case dNilStruct:
		dest = (*aStruct)(nil)
	case dInt:
		dest = 42
	case dStrValue:
		dest = "by value"
	case dStructPtr:
		dest = &aStruct{}
	case dIntPtr:
		i := 3
		dest = &i
	default:
		return kit.Failf("harness: unknown destination kind %q", c.Dest)
	}

	var err error
	if v := kit.Guard(fmt.Sprintf("%s consumer into %s", c.Codec, c.Dest), func() { err = cons.Consume(stream, dest) }); v != nil {
		return v
	}

	// closed if and only if the closing option was requested (judged when the arguments were accepted: non-nil destination)
	wantClosed := 0
	if closing && c.Stream.Closable && c.Dest != dNil {
		wantClosed = 1
	}
	if rd.closed != wantClosed {
		return kit.Failf("%s consumer into %s: stream closed %d times, want %d (closing option=%v, closable=%v), err=%v", c.Codec, c.Dest, rd.closed, wantClosed, closing, c.Stream.Closable, err)
	}

	want := c.Stream.delivered()
	emptyText := c.Codec == "text" && len(c.Stream.Data) == 0 && !c.Stream.fails()
	if !supportedDest(c.Codec, c.Dest) {
		// unsupported, nil or non-pointer destinations yield an error (the text consumer documents an early
		// return on an empty stream before it looks at the destination)
		if err == nil && !emptyText {
			return kit.Failf("%s consumer accepted the unsupported destination %s without an error", c.Codec, c.Dest)
		}
		return nil
	}
	sinkFails := c.Dest == dWriter && c.SinkErr >= 0 && c.SinkErr < len(want)
	if heldOld != nil && !bytes.Equal(heldOld, old) {
		return kit.Failf("ALIASED: %s consumer into %s: the destination held %q before the call; the caller's copy of that slice value now reads %q (err=%v)", c.Codec, c.Dest, old, clipb(heldOld), err)
	}
	if c.Stream.fails() || sinkFails {
		if err == nil {
			got := 0
			if read != nil {
				got = len(read())
			}
			return kit.Failf("%s consumer into %s: a stream failure (read fails at %d, sink fails at %d) was reported as success with %d bytes stored", c.Codec, c.Dest, c.Stream.FailAt, c.SinkErr, got)
		}
		return nil
	}
	if err != nil {
		return kit.Failf("%s consumer into %s: unexpected error on a healthy stream of %d bytes (chunks %v): %v", c.Codec, c.Dest, len(want), c.Stream.Chunks, err)
	}
	if emptyText {
		return nil // destination left untouched: documented
	}
	got := read()
	if appendMode {
		want = append(append([]byte(nil), old...), want...)
	}
	if !bytes.Equal(got, want) {
		return kit.Failf("%s consumer into %s (prepopulated=%v): stored %d bytes %q, the stream delivered %d bytes %q (chunks %v, eof-with-data %v)", c.Codec, c.Dest, c.Prepop, len(got), clipb(got), len(want), clipb(want), c.Stream.Chunks, c.Stream.EOFWithData)
	}
	if usesStd := c.Stream.Std != "" && !c.Stream.fails() && !c.Stream.Closable; !usesStd && rd.pos != len(c.Stream.Data) {
		return kit.Failf("%s consumer into %s: only %d of %d stream bytes were read", c.Codec, c.Dest, rd.pos, len(c.Stream.Data))
	}
	// never alias: what was stored must survive later work of the codec (a second and third Consume of other
	// content of the same size, by the same and by a fresh consumer, into other destinations)
	if len(want) > 0 {
		snapshot := append([]byte(nil), got...)
		other := make([]byte, len(c.Stream.Data))
		for i := range other {
			other[i] = ^c.Stream.Data[i]
		}
		for round, cn := range []rt.Consumer{cons, newConsumer(c.Codec, false)} {
			var sink interface{}
			var a interface{} = []byte("x")
			var b []byte
			var s2 string
			switch {
			case c.Codec == "text":
				sink = &s2
			case round == 0:
				sink = &a
			default:
				sink = &b
			}
			if v := kit.Guard("follow-up consume", func() { _ = cn.Consume(bytes.NewReader(other), sink) }); v != nil {
				return v
			}
		}
		// the follow-up calls read from non-closable readers: the stream of this call must not be closed again
		if rd.closed != wantClosed {
			return kit.Failf("%s consumer into %s: after two later Consume calls (non-closable readers) the stream of the first call reads closed %d times, want %d", c.Codec, c.Dest, rd.closed, wantClosed)
		}
		if now := read(); !bytes.Equal(now, snapshot) {
			return kit.Failf("ALIASED: %s consumer into %s stored %q; after two later Consume calls with other content the destination reads %q", c.Codec, c.Dest, clipb(snapshot), clipb(now))
		}
		if again != nil {
			// the caller keeps the value it was given and consumes the next payload into the same variable (r6)
			kept := read()
			var err2 error
			if v := kit.Guard("consume again into the same destination variable", func() { err2 = again(bytes.NewReader(other)) }); v != nil {
				return v
			}
			if err2 != nil {
				return kit.Failf("%s consumer into %s: consuming a second payload into the same variable failed: %v", c.Codec, c.Dest, err2)
			}
			if !bytes.Equal(kept, snapshot) {
				return kit.Failf("ALIASED: %s consumer into %s stored %q; the caller kept that slice value and consumed the next payload into the same variable: the kept value now reads %q", c.Codec, c.Dest, clipb(snapshot), clipb(kept))
			}
			if now := read(); !bytes.Equal(now, other) {
				return kit.Failf("%s consumer into %s: the second payload consumed into the same variable reads %q, the stream delivered %q", c.Codec, c.Dest, clipb(now), clipb(other))
			}
		}
	}
	return nil
}

func clipb(b []byte) []byte {
	if len(b) > 60 {
		return append(append([]byte(nil), b[:60]...), "…"...)
	}
	return b
}

// Source kinds of the produce check ---------------------------------------------------------------

type strg string

func (s strg) String() string { return string(s) }

type bothTxt []byte

func (m bothTxt) String() string               { return "for the eyes only: " + string(m) }
func (m bothTxt) MarshalText() ([]byte, error) { return m, nil }

type txtM []byte

func (m txtM) MarshalText() ([]byte, error) { return m, nil }

type binM []byte

func (m binM) MarshalBinary() ([]byte, error) { return m, nil }

type wrTo []byte

func (m wrTo) WriteTo(w io.Writer) (int64, error) { n, err := w.Write(m); return int64(n), err }

// wrToCloser is an io.WriterTo that is also an io.ReadCloser (like *os.File): a closable source payload.
type wrToCloser struct {
	data   []byte
	pos    int
	closed int
}

func (m *wrToCloser) WriteTo(w io.Writer) (int64, error) {
	n, err := w.Write(m.data[m.pos:])
	m.pos += n
	return int64(n), err
}
func (m *wrToCloser) Read(p []byte) (int, error) {
	if m.pos >= len(m.data) {
		return 0, io.EOF
	}
	n := copy(p, m.data[m.pos:])
	m.pos += n
	return n, nil
}
func (m *wrToCloser) Close() error { m.closed++; return nil }

const (
	sWrToCloser  = "WriterTo+ReadCloser"
	sString      = "string"
	sStringPtr   = "*string"
	sNamedStr    = "namedString"
	sBytes       = "[]byte"
	sBytesPtr    = "*[]byte"
	sNamedBytes  = "namedBytes"
	sError       = "error"
	sStringer    = "Stringer"
	sTxtM        = "TextMarshaler"
	sBothTxt     = "Stringer+TextMarshaler" // renders differently through String() and MarshalText(): the text codec reads values back with UnmarshalText, so MarshalText is the rendering that round-trips (time.Time, big.Float, net.IP are such types)
	sBinM        = "BinaryMarshaler"
	sWriterTo    = "WriterTo"
	sReader      = "Reader"
	sReadCloser  = "ReadCloser"
	sSeekReader  = "ReadSeeker, partly read by the caller" // (r7) the payload is what is left in the reader
	sByteArray   = "[32]byte value"                        // (r8) a checksum passed by value: refused or written, never a panic
	sNamedArray  = "named [16]byte value"
	sNil         = "nil"
	sNilStrPtr   = "(*string)(nil)"
	sNilBytesPtr = "(*[]byte)(nil)"
	sInt         = "int"
	sIntPtr      = "*int"
	sChanless    = "map"
)

var srcKinds = []string{sWrToCloser, sString, sStringPtr, sNamedStr, sBytes, sBytesPtr, sNamedBytes, sError, sStringer, sTxtM, sBothTxt, sBinM, sWriterTo,
	sReader, sReadCloser, sSeekReader, sByteArray, sNamedArray, sNil, sNilStrPtr, sNilBytesPtr, sInt, sIntPtr, sChanless}

// verdict of the documentation for a source kind: "exact" (the sink receives exactly the source bytes),
// "error" (must be refused), "open" (accepted through another documented rule, e.g. written as JSON: not judged here).
func sourceVerdict(codec, k string) string {
	switch k {
	case sString, sStringPtr, sNamedStr, sError:
		return "exact"
	case sStringer, sTxtM, sBothTxt:
		if codec == "text" {
			return "exact"
		}
		return "open" // strings, []byte kinds are written as such; others fall to the JSON rule
	case sBytes, sBytesPtr, sNamedBytes, sBinM, sWriterTo, sReader, sReadCloser, sSeekReader, sWrToCloser:
		if codec == "bytes" {
			return "exact"
		}
		return "open"
	case sNil, sNilStrPtr, sNilBytesPtr, sInt, sIntPtr, sChanless:
		return "error"
	}
	return "open"
}

type ProduceCase struct {
	Codec   string `json:"codec"`
	Closing bool   `json:"closing"`
	Src     string `json:"src"`
	Stream  Script `json:"stream"` // content of the source; for Reader sources also its behaviour
	Sink    Sink   `json:"sink"`
}

func newProducer(codec string, closing bool) rt.Producer {
	switch {
	case codec == "text":
		return rt.TextProducer()
	case closing:
		return rt.ByteStreamProducer(rt.ClosesStream)
	default:
		return rt.ByteStreamProducer()
	}
}

func CheckProduce(c ProduceCase) *kit.Violation {
	closing := c.Closing && c.Codec == "bytes"
	prod := newProducer(c.Codec, closing)
	w, sink := c.Sink.open()
	data := []byte(c.Stream.Data)
	var src interface{}
	var rd *reader
	var wtc *wrToCloser
	switch c.Src {
	case sString:
		src = string(data)
	case sStringPtr:
		s := string(data)
		src = &s
	case sNamedStr:
		src = myStr(data)
	case sBytes:
		src = data
	case sBytesPtr:
		src = &data
	case sNamedBytes:
		src = myBytes(data)
	case sError:
		src = errors.New(string(data))
	case sStringer:
		src = strg(data)
	case sTxtM:
		src = txtM(data)
	case sBothTxt:
		src = bothTxt(data)
	case sBinM:
		src = binM(data)
	case sWriterTo:
		src = wrTo(data)
	case sWrToCloser:
		wtc = &wrToCloser{data: data}
		src = wtc
	case sReader:
		s := c.Stream
		s.Closable = false
		rd, src = s.open()
	case sReadCloser:
		s := c.Stream
		s.Closable = true
		rd, src = s.open()
	case sSeekReader:
		const lead = "read-by-the-caller-before:"
		sr := io.NewSectionReader(bytes.NewReader(append([]byte(lead), data...)), 0, int64(len(lead)+len(data)))
		if _, err := io.CopyN(io.Discard, sr, int64(len(lead))); err != nil {
			return kit.Failf("harness: %v", err)
		}
		src = struct{ io.ReadSeeker }{sr}
	case sByteArray:
		var a [32]byte
		copy(a[:], data)
		src = a
	case sNamedArray:
		var a uuid16
		copy(a[:], data)
		src = a
	case sNil:
		src = nil
	case sNilStrPtr:
		src = (*string)(nil)
	case sNilBytesPtr:
		src = (*[]byte)(nil)
	case sInt:
		src = 42
	case sIntPtr:
		i := 42
		src = &i
	case sChanless:
		src = map[string]int{"a": 1}
	default:
		return kit.Failf("harness: unknown source kind %q", c.Src)
	}

	var err error
	if v := kit.Guard(fmt.Sprintf("%s producer from %s", c.Codec, c.Src), func() { err = prod.Produce(sink, src) }); v != nil {
		return v
	}

	wantClosed := 0
	if closing && c.Sink.Closable && c.Src != sNil {
		wantClosed = 1
	}
	if w.closed != wantClosed {
		return kit.Failf("%s producer from %s: sink closed %d times, want %d (closing option=%v, closable=%v), err=%v", c.Codec, c.Src, w.closed, wantClosed, closing, c.Sink.Closable, err)
	}
	if wtc != nil && c.Codec == "bytes" && wtc.closed != 1 {
		return kit.Failf("bytes producer: the closable source payload (io.WriterTo + io.ReadCloser) was closed %d times, want 1 (err=%v)", wtc.closed, err)
	}
	if c.Src == sReadCloser && c.Codec == "bytes" && rd.closed != 1 {
		return kit.Failf("bytes producer: the closable source payload was closed %d times, want 1 (err=%v)", rd.closed, err)
	}

	switch sourceVerdict(c.Codec, c.Src) {
	case "error":
		if err == nil {
			return kit.Failf("%s producer accepted the unsupported source %s without an error (wrote %q)", c.Codec, c.Src, clipb(w.buf.Bytes()))
		}
		return nil
	case "open":
		return nil
	}
	want := data
	srcFails := false
	if rd != nil {
		want = c.Stream.delivered()
		srcFails = c.Stream.fails()
	}
	sinkFails := c.Sink.FailAt >= 0 && c.Sink.FailAt < len(want)
	if srcFails || sinkFails {
		if err == nil {
			return kit.Failf("%s producer from %s: a failure (source fails at %d, sink fails at %d) was reported as success; %d of %d bytes reached the sink", c.Codec, c.Src, c.Stream.FailAt, c.Sink.FailAt, w.buf.Len(), len(data))
		}
		return nil
	}
	if err != nil {
		return kit.Failf("%s producer from %s: unexpected error with a healthy source (%d bytes) and sink: %v", c.Codec, c.Src, len(data), err)
	}
	if !bytes.Equal(w.buf.Bytes(), want) {
		return kit.Failf("%s producer from %s: the sink received %d bytes %q, the source holds %d bytes %q", c.Codec, c.Src, w.buf.Len(), clipb(w.buf.Bytes()), len(want), clipb(want))
	}
	// one producer value serves many responses: a second Produce that starts while the sink of the first is still
	// inside Write (here: called from that Write) must not change what the first sink is given (r9)
	if (c.Src == sString || c.Src == sStringPtr || c.Src == sNamedStr) && len(data) > 0 {
		other := bytes.Repeat([]byte{'#'}, len(data))
		rs := &reentrantSink{prod: prod, inner: string(other)}
		var err2 error
		if v := kit.Guard("producer used again from inside the sink's Write", func() { err2 = prod.Produce(rs, src) }); v != nil {
			return v
		}
		if err2 != nil || !bytes.Equal(rs.got, data) {
			return kit.Failf("%s producer from %s: SHARED-SCRATCH: a second Produce on the same producer value started while the first sink was inside Write; the first sink received %q, the source holds %q (err=%v)", c.Codec, c.Src, clipb(rs.got), clipb(data), err2)
		}
	}
	return nil
}

// reentrantSink starts another Produce on the same producer from inside its first Write, then takes the bytes it was handed.
type reentrantSink struct {
	prod  rt.Producer
	inner string
	done  bool
	got   []byte
}

func (r *reentrantSink) Write(p []byte) (int, error) {
	if !r.done {
		r.done = true
		var other bytes.Buffer
		_ = r.prod.Produce(&other, r.inner)
	}
	r.got = append(r.got, p...)
	return len(p), nil
}

// Generators ---------------------------------------------------------------------------------------

func genData(t *rapid.T) []byte {
	n := rapid.SampledFrom([]int{0, 0, 1, 2, 5, 63, 511, 512, 513, 4095, 4096, 4097, 65536}).Draw(t, "len")
	if n > 5000 && rapid.IntRange(0, 3).Draw(t, "big") != 0 {
		n = 700
	}
	style := rapid.SampledFrom([]string{"text", "binary", "badutf8", "zeros"}).Draw(t, "style")
	seedb := rapid.Byte().Draw(t, "seedb")
	data := make([]byte, n)
	for i := range data {
		switch style {
		case "text":
			const alpha = "abc xyz\n<>&\"'{}[]:,0123456789"
			data[i] = alpha[(i*7+int(seedb))%len(alpha)]
		case "binary":
			data[i] = byte(i*131) ^ seedb
		case "badutf8":
			data[i] = []byte{0xff, 0xc3, 0x28, 'a', 0xe2, 0x82, 0x00, 0xfe}[(i+int(seedb))%8]
		default:
			data[i] = 0
		}
	}
	return data
}

func genScript(t *rapid.T, data []byte) Script {
	s := Script{Data: kit.BStr(data), FailAt: -1}
	nc := rapid.IntRange(0, 3).Draw(t, "nchunks")
	for i := 0; i < nc; i++ {
		s.Chunks = append(s.Chunks, rapid.SampledFrom([]int{0, 1, 1, 2, 7, 511, 512, 513, 4096, 100000}).Draw(t, "chunk"))
	}
	if nc == 0 {
		s.Chunks = []int{100000}
	}
	s.EOFWithData = rapid.Bool().Draw(t, "eofwithdata")
	if rapid.IntRange(0, 3).Draw(t, "rfail") == 0 {
		if len(data) > 0 && rapid.Bool().Draw(t, "edge") {
			s.FailAt = rapid.SampledFrom([]int{0, 1, len(data) - 1, len(data), len(data) / 2}).Draw(t, "failedge")
		} else {
			s.FailAt = rapid.IntRange(0, len(data)).Draw(t, "failat")
		}
		s.FailErr = rapid.SampledFrom([]string{"", "", "unexpected-eof", "unexpected-eof", "wrapped-eof", "closed-pipe"}).Draw(t, "failerr")
	}
	s.Closable = rapid.Bool().Draw(t, "closable")
	return s
}

func GenConsume(t *rapid.T) ConsumeCase {
	data := genData(t)
	c := ConsumeCase{
		Codec:   rapid.SampledFrom([]string{"bytes", "bytes", "text"}).Draw(t, "codec"),
		Closing: rapid.Bool().Draw(t, "closing"),
		Dest:    rapid.SampledFrom(destKinds).Draw(t, "dest"),
		Prepop:  rapid.IntRange(0, 2).Draw(t, "prepop") == 0,
		Stream:  genScript(t, data),
		SinkErr: -1,
	}
	if c.Dest == dWriter && rapid.IntRange(0, 2).Draw(t, "sinkfail") == 0 {
		c.SinkErr = rapid.IntRange(0, len(data)).Draw(t, "sinkfailat")
	}
	// drawn last (the cases of earlier harness versions stay what they were at a given seed)
	if !c.Stream.fails() && !c.Stream.Closable && rapid.IntRange(0, 3).Draw(t, "std-reader") == 0 {
		c.Stream.Std = rapid.SampledFrom([]string{"bytes.Reader", "strings.Reader", "io.SectionReader"}).Draw(t, "std-kind")
		c.Stream.Skip = rapid.SampledFrom([]int{0, 1, 4, 600}).Draw(t, "std-skip")
	}
	return c
}

func GenProduce(t *rapid.T) ProduceCase {
	data := genData(t)
	c := ProduceCase{
		Codec:   rapid.SampledFrom([]string{"bytes", "bytes", "text"}).Draw(t, "codec"),
		Closing: rapid.Bool().Draw(t, "closing"),
		Src:     rapid.SampledFrom(append([]string{sReader, sReadCloser, sReadCloser, sReader}, srcKinds...)).Draw(t, "src"),
		Stream:  genScript(t, data),
		Sink:    Sink{FailAt: -1, Closable: rapid.Bool().Draw(t, "wclosable")},
	}
	if c.Src != sReader && c.Src != sReadCloser {
		c.Stream.FailAt = -1
	}
	if rapid.IntRange(0, 3).Draw(t, "wfail") == 0 {
		c.Sink.FailAt = rapid.IntRange(0, len(data)).Draw(t, "wfailat")
	}
	return c
}

// Enumerations for the thorough tier: every destination/source kind x closing x every failure offset of small payloads.

func EnumConsume(yield func(ConsumeCase) bool) {
	payloads := [][]byte{nil, []byte("a"), []byte("hello, wörld\n"), {0xff, 0x00, 0xfe, 'x', 0xc3}}
	for _, codec := range []string{"bytes", "text"} {
		for _, dest := range destKinds {
			for _, closing := range []bool{false, true} {
				for _, closable := range []bool{false, true} {
					for _, prepop := range []bool{false, true} {
						for _, data := range payloads {
							for _, chunks := range [][]int{{100000}, {1}, {0, 1}, {2, 0, 0, 3}} {
								for _, eofd := range []bool{false, true} {
									for fail := -1; fail <= len(data); fail++ {
										c := ConsumeCase{Codec: codec, Closing: closing, Dest: dest, Prepop: prepop, SinkErr: -1,
											Stream: Script{Data: kit.BStr(data), Chunks: chunks, EOFWithData: eofd, FailAt: fail, Closable: closable}}
										if !yield(c) {
											return
										}
										if dest == dWriter && fail == -1 {
											for sf := 0; sf <= len(data); sf++ {
												c.SinkErr = sf
												if !yield(c) {
													return
												}
											}
										}
									}
								}
							}
						}
					}
				}
			}
		}
	}
}

func EnumProduce(yield func(ProduceCase) bool) {
	payloads := [][]byte{nil, []byte("a"), []byte("hello, wörld\n"), {0xff, 0x00, 0xfe, 'x', 0xc3}}
	for _, codec := range []string{"bytes", "text"} {
		for _, src := range srcKinds {
			for _, closing := range []bool{false, true} {
				for _, wclosable := range []bool{false, true} {
					for _, data := range payloads {
						chunkSets := [][]int{{100000}}
						fails := []int{-1}
						if src == sReader || src == sReadCloser {
							chunkSets = [][]int{{100000}, {1}, {0, 1}, {2, 0, 0, 3}}
							for f := 0; f <= len(data); f++ {
								fails = append(fails, f)
							}
						}
						for _, chunks := range chunkSets {
							for _, fail := range fails {
								for wf := -1; wf <= len(data); wf++ {
									c := ProduceCase{Codec: codec, Closing: closing, Src: src,
										Stream: Script{Data: kit.BStr(data), Chunks: chunks, EOFWithData: fail%2 == 0, FailAt: fail},
										Sink:   Sink{FailAt: wf, Closable: wclosable}}
									if !yield(c) {
										return
									}
								}
							}
						}
					}
				}
			}
		}
	}
}

func scriptLabels(s Script) (nt bool, labels []string) {
	if len(s.Chunks) >= 1 && len(s.Data) > 1 {
		small := false
		for _, c := range s.Chunks {
			if c > 0 && c < len(s.Data) {
				small = true
			}
			if c == 0 {
				labels = append(labels, "zero-length read")
				nt = true
			}
		}
		if small {
			labels = append(labels, "≥2 chunks")
			nt = true
		}
	}
	if s.EOFWithData && len(s.Data) > 0 && s.FailAt < 0 {
		labels = append(labels, "data+EOF")
		nt = true
	}
	if s.FailAt >= 0 && s.FailErr != "" {
		labels = append(labels, "stream fails with "+s.FailErr)
	}
	if s.FailAt >= 0 {
		labels = append(labels, "read error at an offset")
		nt = true
	}
	return nt, labels
}

func ClassifyConsume(c ConsumeCase) (bool, []string) {
	nt, labels := scriptLabels(c.Stream)
	labels = append(labels, "codec "+c.Codec, "dest "+c.Dest)
	if !supportedDest(c.Codec, c.Dest) {
		labels = append(labels, "unsupported/nil destination")
		nt = true
	}
	if c.Prepop {
		labels = append(labels, "prepopulated")
		nt = true
	}
	if c.Closing && c.Codec == "bytes" {
		labels = append(labels, "closing option")
	}
	if c.SinkErr >= 0 {
		labels = append(labels, "sink write error")
		nt = true
	}
	if len(c.Stream.Data) >= 65536 {
		labels = append(labels, "64KiB payload")
	}
	sort.Strings(labels)
	return nt, labels
}

func ClassifyProduce(c ProduceCase) (bool, []string) {
	nt := false
	var labels []string
	if c.Src == sReader || c.Src == sReadCloser {
		nt, labels = scriptLabels(c.Stream)
	}
	labels = append(labels, "codec "+c.Codec, "src "+c.Src, "verdict "+sourceVerdict(c.Codec, c.Src))
	if sourceVerdict(c.Codec, c.Src) == "error" {
		nt = true
	}
	if c.Sink.FailAt >= 0 {
		labels = append(labels, "sink write error")
		nt = true
	}
	if c.Closing && c.Codec == "bytes" {
		labels = append(labels, "closing option")
		if c.Sink.Closable {
			nt = true
		}
	}
	sort.Strings(labels)
	return nt, labels
}
