package c03

import (
	"bytes"
	"encoding"
	"encoding/json"
	stderrors "errors"
	"fmt"
	"io"
	"mime/multipart"
	"net/http"
	"net/http/httptest"
	"net/url"
	"reflect"
	"regexp"
	"strings"

	"github.com/go-openapi/errors"
	"github.com/go-openapi/loads"
	"github.com/go-openapi/runtime"
	"github.com/go-openapi/runtime/middleware"
	"github.com/go-openapi/runtime/middleware/untyped"
	"github.com/go-openapi/spec"
	"github.com/go-openapi/strfmt"

	"verif/harness/kit"
)

func show(v interface{}) string {
	switch x := v.(type) {
	case nil:
		return "<no value>"
	case strfmt.Date:
		return "Date(" + x.String() + ")"
	case strfmt.DateTime:
		return "DateTime(" + x.String() + ")"
	case strfmt.Base64:
		return fmt.Sprintf("Base64(%x)", []byte(x))
	case runtime.File:
		return "File"
	}
	return fmt.Sprintf("%#v", v)
}

const boundary = "verifC03boundary7d1c0ffee"

// buildRequest renders one request. pathTemplate is nil for the direct level (route parameters are handed to
// the binder directly); for the full stack it lists the indices of the path parameters in template order.
func buildRequest(c Case, r Req, full bool) (*http.Request, middleware.RouteParams, error) {
	q, form := url.Values{}, url.Values{}
	hasForm := false
	var rp middleware.RouteParams
	target := "/op"
	type fileEntry struct {
		field string
		f     *FileSent
	}
	var files []fileEntry
	for i, d := range c.Decls {
		s := r.Sent[i]
		switch d.In {
		case "query":
			for _, v := range s.Vals {
				q.Add(d.Name, string(v))
			}
			for _, v := range s.Decoy {
				q.Add(decoyName(d.Name), string(v))
			}
		case "formData":
			hasForm = true
			if d.Type == "file" {
				if s.File != nil {
					files = append(files, fileEntry{d.Name, s.File})
				}
				continue
			}
			for _, v := range s.Vals {
				form.Add(d.Name, string(v))
			}
			for _, v := range s.Decoy {
				form.Add(decoyName(d.Name), string(v))
			}
		case "path":
			rp = append(rp, middleware.RouteParam{Name: d.Name, Value: string(s.Vals[0])})
			target += "/" + url.PathEscape(string(s.Vals[0]))
		}
	}
	// cross-location decoys: the same name in the other location must not be looked at
	for i, d := range c.Decls {
		for _, v := range r.Sent[i].Cross {
			switch {
			case d.In == "formData" && d.Type != "file":
				q.Add(d.Name, string(v))
			case d.In == "query" && hasForm:
				form.Add(d.Name, string(v))
			}
		}
	}
	if len(q) > 0 {
		target += "?" + q.Encode()
	}
	var body io.Reader
	ctype := ""
	if hasForm {
		if r.Multipart {
			var b bytes.Buffer
			mw := multipart.NewWriter(&b)
			if err := mw.SetBoundary(boundary); err != nil {
				return nil, nil, err
			}
			// deterministic order: declarations in order, their occurrences in order
			for i, d := range c.Decls {
				if d.In != "formData" || d.Type == "file" {
					continue
				}
				for _, v := range r.Sent[i].Vals {
					if err := mw.WriteField(d.Name, string(v)); err != nil {
						return nil, nil, err
					}
				}
				for _, v := range r.Sent[i].Decoy {
					if err := mw.WriteField(decoyName(d.Name), string(v)); err != nil {
						return nil, nil, err
					}
				}
			}
			for i, d := range c.Decls {
				if d.In != "query" {
					continue
				}
				for _, v := range r.Sent[i].Cross {
					if err := mw.WriteField(d.Name, string(v)); err != nil {
						return nil, nil, err
					}
				}
			}
			for _, fe := range files {
				w, err := mw.CreateFormFile(fe.field, fe.f.Filename)
				if err != nil {
					return nil, nil, err
				}
				if _, err := w.Write([]byte(fe.f.Content)); err != nil {
					return nil, nil, err
				}
			}
			if err := mw.Close(); err != nil {
				return nil, nil, err
			}
			if r.CutTail > 0 && r.CutTail < b.Len() {
				b.Truncate(b.Len() - r.CutTail)
			}
			body, ctype = &b, mw.FormDataContentType()
		} else {
			body, ctype = strings.NewReader(form.Encode()), "application/x-www-form-urlencoded"
		}
	}
	var req *http.Request
	if body != nil {
		req = httptest.NewRequest(http.MethodPost, target, body)
		if r.UpperCT {
			// the media type in capitals, the parameters (a boundary is case-sensitive) as they are
			if i := strings.IndexByte(ctype, ';'); i >= 0 {
				ctype = strings.ToUpper(ctype[:1]) + ctype[1:strings.IndexByte(ctype, '/')+1] + strings.ToUpper(ctype[strings.IndexByte(ctype, '/')+1:i]) + ctype[i:]
			} else {
				ctype = strings.ToUpper(ctype[:1]) + ctype[1:strings.IndexByte(ctype, '/')+1] + strings.ToUpper(ctype[strings.IndexByte(ctype, '/')+1:])
			}
		}
		req.Header.Set("Content-Type", ctype)
	} else {
		req = httptest.NewRequest(http.MethodPost, target, nil)
	}
	if r.PreParsed {
		_ = req.ParseForm()
	}
	for i, d := range c.Decls {
		if d.In != "header" {
			continue
		}
		name := r.Sent[i].HName
		if name == "" {
			name = d.Name
		}
		for _, v := range r.Sent[i].Vals {
			req.Header.Add(name, string(v)) // Add canonicalises the name, as a server does
		}
	}
	return req, rp, nil
}

var reItemIndex = regexp.MustCompile(`\.[0-9]+$`)

// named collects the parameter names carried by the validation errors inside err. Leaves that are not a
// 422 (parse errors, plain errors) are collected under "!<status>:<name>".
func named(err error, out map[string]bool) {
	if err == nil {
		return
	}
	if ce, ok := err.(*errors.CompositeError); ok {
		for _, e := range ce.Errors {
			named(e, out)
		}
		return
	}
	switch e := err.(type) {
	case *errors.Validation:
		if e.Code() != http.StatusUnprocessableEntity && e.Code() < 600 {
			out[fmt.Sprintf("!%d:%s", e.Code(), e.Name)] = true
			return
		}
		out[reItemIndex.ReplaceAllString(e.Name, "")] = true
	case *errors.ParseError:
		out[fmt.Sprintf("!%d:%s", e.Code(), e.Name)] = true
	default:
		var coded errors.Error
		if stderrors.As(err, &coded) {
			out[fmt.Sprintf("!%d:?", coded.Code())] = true
			return
		}
		out["!?:"+err.Error()] = true
	}
}

func (c Case) verdicts(r Req) []verdict {
	vs := make([]verdict, len(c.Decls))
	for i, d := range c.Decls {
		if d.Type == "file" {
			vs[i] = fileVerdict(d, r.Sent[i])
			continue
		}
		vs[i] = Model(d, r.Sent[i].vals())
	}
	return vs
}

func fileVerdict(d Decl, s Sent) verdict {
	vd := verdict{typ: d.goType()}
	if s.File == nil {
		if d.Required {
			vd.errOK, vd.why = true, "required file absent"
			return vd
		}
		vd.why = "optional file absent"
		vd.missingOK = true
		vd.exps = []expect{{scalar: runtime.File{}}}
		return vd
	}
	vd.why = "file"
	vd.anyVal = true // content and file name are compared separately
	return vd
}

func checkFile(d Decl, s Sent, got interface{}) string {
	f, ok := got.(runtime.File)
	if !ok {
		return fmt.Sprintf("bound %T, want runtime.File", got)
	}
	if s.File == nil {
		if f.Data != nil || f.Header != nil {
			return "a file was bound although none was sent"
		}
		return ""
	}
	if f.Data == nil || f.Header == nil {
		return "file sent but no data bound"
	}
	if f.Header.Filename != s.File.Filename {
		return fmt.Sprintf("file name %q, sent %q", f.Header.Filename, s.File.Filename)
	}
	if _, err := f.Data.Seek(0, io.SeekStart); err != nil {
		return "cannot rewind the bound file: " + err.Error()
	}
	b, err := io.ReadAll(f.Data)
	if err != nil {
		return "cannot read the bound file: " + err.Error()
	}
	if string(b) != string(s.File.Content) {
		return fmt.Sprintf("file content %q, sent %q", clipS(string(b)), clipS(string(s.File.Content)))
	}
	return ""
}

func clipS(s string) string {
	if len(s) > 80 {
		return s[:80] + "…"
	}
	return s
}

func describeReq(c Case, r Req, i int) string {
	d := c.Decls[i]
	raw, _ := json.Marshal(d.Spec())
	s := r.Sent[i]
	var b strings.Builder
	fmt.Fprintf(&b, "declaration %s; sent ", raw)
	switch {
	case d.Type == "file" && s.File != nil:
		fmt.Fprintf(&b, "file %q (%d bytes)", s.File.Filename, len(s.File.Content))
	case len(s.Vals) == 0:
		b.WriteString("nothing (absent)")
	default:
		for k, v := range s.Vals {
			if k > 0 {
				b.WriteString(", ")
			}
			fmt.Fprintf(&b, "%q", clipS(string(v)))
		}
	}
	if d.In == "header" && s.HName != "" && s.HName != d.Name {
		fmt.Fprintf(&b, " under the name %q", s.HName)
	}
	if d.In == "formData" {
		if r.Multipart {
			b.WriteString(" (multipart)")
		} else {
			b.WriteString(" (urlencoded)")
		}
	}
	if len(s.Decoy) > 0 {
		fmt.Fprintf(&b, "; decoy %q=%q", decoyName(d.Name), clipS(string(s.Decoy[len(s.Decoy)-1])))
	}
	return b.String()
}

// judgeBound compares a successful binding with the verdicts.
func judgeBound(c Case, r Req, vs []verdict, got map[string]interface{}, level string) *kit.Violation {
	for i, d := range c.Decls {
		v := vs[i]
		g, has := got[d.Name]
		if v.mustFail() {
			return kit.Failf("%s: request accepted although parameter %q must be rejected (%s): bound %s; %s",
				level, d.Name, v.describe(), show(g), describeReq(c, r, i))
		}
		if !has || g == nil {
			if v.missingOK {
				continue
			}
			return kit.Failf("%s: parameter %q missing from the bound data, want %s; %s", level, d.Name, v.describe(), describeReq(c, r, i))
		}
		if d.Type == "file" {
			if msg := checkFile(d, r.Sent[i], g); msg != "" {
				return kit.Failf("%s: parameter %q: %s; %s", level, d.Name, msg, describeReq(c, r, i))
			}
			continue
		}
		if v.typ != nil && reflect.TypeOf(g) != v.typ {
			return kit.Failf("%s: parameter %q bound as %T, the declared type denotes %s; %s", level, d.Name, g, v.typ, describeReq(c, r, i))
		}
		if !v.matches(g) {
			return kit.Failf("%s: parameter %q bound to %s, want %s; %s", level, d.Name, show(g), v.describe(), describeReq(c, r, i))
		}
	}
	return nil
}

// judgeRejected checks a rejection: at least one parameter must admit it, and every name the rejection
// carries must belong to a parameter that admits it.
func judgeRejected(c Case, r Req, vs []verdict, names map[string]bool, text, level string) *kit.Violation {
	anyOK := false
	for _, v := range vs {
		anyOK = anyOK || v.errOK
	}
	if !anyOK {
		var b strings.Builder
		for i := range c.Decls {
			fmt.Fprintf(&b, "\n  %q want %s; %s", c.Decls[i].Name, vs[i].describe(), describeReq(c, r, i))
		}
		return kit.Failf("%s: request rejected (%s) although every parameter denotes a value:%s", level, clipS(strings.ReplaceAll(text, "\n", " | ")), b.String())
	}
	for _, n := range sortedKeys(names) {
		if strings.HasPrefix(n, "!") {
			return kit.Failf("%s: rejection is not a 422 validation error: status and parameter %s (%s)\n%s", level, n[1:], clipS(strings.ReplaceAll(text, "\n", " | ")), describeAll(c, r))
		}
		idx := -1
		n = reItemIndex.ReplaceAllString(n, "") // item errors are named <parameter>.<index>
		for i, d := range c.Decls {
			if d.Name == n || fmt.Sprintf("F%d", i) == n {
				idx = i
			}
		}
		if idx < 0 {
			return kit.Failf("%s: rejection names %q, which is no declared parameter (%s)", level, n, clipS(strings.ReplaceAll(text, "\n", " | ")))
		}
		if !vs[idx].errOK {
			return kit.Failf("%s: rejection names parameter %q, which denotes a value (%s): want %s; %s",
				level, n, clipS(strings.ReplaceAll(text, "\n", " | ")), vs[idx].describe(), describeReq(c, r, idx))
		}
	}
	return nil
}

// CheckDirect drives middleware.UntypedRequestBinder: map target against the model, struct target against
// the map target.
// scribble overwrites, in place, every slice a handler was handed (what a handler that sorts or normalises its
// arguments does): values bound for one request must not be shared with what later requests are bound to.
func scribble(v interface{}) {
	rv := reflect.ValueOf(v)
	switch rv.Kind() {
	case reflect.Map:
		for _, k := range rv.MapKeys() {
			scribble(rv.MapIndex(k).Interface())
		}
	case reflect.Slice:
		for i := 0; i < rv.Len(); i++ {
			if e := rv.Index(i); e.CanSet() {
				switch e.Kind() {
				case reflect.String:
					e.SetString("scribbled-by-an-earlier-request")
				case reflect.Int, reflect.Int8, reflect.Int16, reflect.Int32, reflect.Int64:
					e.SetInt(-77)
				case reflect.Float32, reflect.Float64:
					e.SetFloat(-77.5)
				case reflect.Bool:
					e.SetBool(!e.Bool())
				default:
					e.Set(reflect.Zero(e.Type()))
				}
			}
		}
	case reflect.Ptr, reflect.Interface:
		if !rv.IsNil() {
			scribble(rv.Elem().Interface())
		}
	case reflect.Struct:
		for i := 0; i < rv.NumField(); i++ {
			if f := rv.Field(i); f.CanInterface() && f.Kind() == reflect.Slice {
				scribble(f.Interface())
			}
		}
	}
}

// noValueForEmptyText: the Go type of the declaration reads itself from text and has no value for the empty text
// (durations, the application's colour format): the binder leaves the target of such a parameter alone when the
// parameter is absent, which the statement allows.
func noValueForEmptyText(t reflect.Type) bool {
	if t.Kind() == reflect.Ptr || t.Kind() == reflect.Interface {
		return false
	}
	u, ok := reflect.New(t).Interface().(encoding.TextUnmarshaler)
	return ok && u.UnmarshalText(nil) != nil
}

// cutForm: the request carries a multipart body whose end is missing.
func cutForm(c Case, r Req) bool {
	if r.CutTail == 0 || !r.Multipart {
		return false
	}
	for _, d := range c.Decls {
		if d.In == "formData" {
			return true
		}
	}
	return false
}

func CheckDirect(c Case) *kit.Violation {
	if err := c.wellFormed(); err != nil {
		return kit.Failf("malformed case: %v", err)
	}
	params := map[string]spec.Parameter{}
	var fields []reflect.StructField
	for i, d := range c.Decls {
		raw, err := json.Marshal(d.Spec())
		if err != nil {
			return kit.Failf("harness: %v", err)
		}
		var p spec.Parameter
		if err := json.Unmarshal(raw, &p); err != nil {
			return kit.Failf("harness: declaration %s does not load: %v", raw, err)
		}
		key := fmt.Sprintf("F%d", i)
		params[key] = p
		fields = append(fields, reflect.StructField{Name: key, Type: d.goType()})
	}
	structType := reflect.StructOf(fields)
	var mapBinder, structBinder *middleware.UntypedRequestBinder
	if v := kit.Guard("NewUntypedRequestBinder", func() {
		reg := strfmt.NewFormats()
		if !c.LateFormat {
			addColorFormat(reg)
		}
		mapBinder = middleware.NewUntypedRequestBinder(params, new(spec.Swagger), reg)
		structBinder = middleware.NewUntypedRequestBinder(params, new(spec.Swagger), reg)
		if c.LateFormat {
			addColorFormat(reg)
		}
	}); v != nil {
		return v
	}
	var pooled reflect.Value
	for ri, r := range c.Reqs {
		level := fmt.Sprintf("binder-direct, request %d", ri)
		if c.ReuseTarget && ri > 0 {
			level += " (struct target reused from the previous request)"
		}
		vs := c.verdicts(r)

		req, rp, err := buildRequest(c, r, false)
		if err != nil {
			return kit.Failf("harness: %v", err)
		}
		got := map[string]interface{}{}
		var bindErr error
		if v := kit.Guard("UntypedRequestBinder.Bind (map target)", func() { bindErr = mapBinder.Bind(req, rp, nil, &got) }); v != nil {
			return kit.Failf("%s: %s\n%s", level, v.Msg, describeAll(c, r))
		}
		if bindErr != nil && cutForm(c, r) {
			// the damaged body was refused as a whole: admissible, nothing to name
		} else if bindErr != nil {
			names := map[string]bool{}
			named(bindErr, names)
			if v := judgeRejected(c, r, vs, names, bindErr.Error(), level); v != nil {
				return v
			}
			// binder-direct reports every failing parameter: those that must fail have to be among the names
			for i, d := range c.Decls {
				if vs[i].mustFail() && !names[d.Name] {
					return kit.Failf("%s: parameter %q must be rejected (%s) but the rejection names only %v; %s",
						level, d.Name, vs[i].describe(), sortedKeys(names), describeReq(c, r, i))
				}
			}
		} else if v := judgeBound(c, r, vs, got, level); v != nil {
			return v
		}

		// differential: the same request into a struct whose fields have the declared Go types
		req2, rp2, err := buildRequest(c, r, false)
		if err != nil {
			return kit.Failf("harness: %v", err)
		}
		target := reflect.New(structType)
		if c.ReuseTarget {
			if pooled.IsValid() {
				target = pooled
				// file fields are put back to nil by the pool: the binder does not touch the target of an optional file
				// that was not sent, and the statement does not make it (tolerance, DESIGN.md section 6)
				for i, d := range c.Decls {
					if d.Type == "file" || noValueForEmptyText(d.goType()) {
						target.Elem().Field(i).Set(reflect.Zero(target.Elem().Field(i).Type()))
					}
				}
			}
			pooled = target
		}
		var bindErr2 error
		if v := kit.Guard("UntypedRequestBinder.Bind (struct target)", func() { bindErr2 = structBinder.Bind(req2, rp2, nil, target.Interface()) }); v != nil {
			return kit.Failf("%s: %s\n%s", level, v.Msg, describeAll(c, r))
		}
		if (bindErr == nil) != (bindErr2 == nil) {
			return kit.Failf("%s: map target and struct target disagree: map err=%v, struct err=%v\n%s", level, flat(bindErr), flat(bindErr2), describeAll(c, r))
		}
		if bindErr == nil {
			for i, d := range c.Decls {
				fv := target.Elem().Field(i).Interface()
				mv, has := got[d.Name]
				if !has {
					mv = reflect.Zero(d.goType()).Interface()
				}
				if d.Type == "file" {
					if msg := checkFile(d, r.Sent[i], fv); msg != "" {
						return kit.Failf("%s (struct target): parameter %q: %s; %s", level, d.Name, msg, describeReq(c, r, i))
					}
					continue
				}
				if !sameBound(mv, fv) {
					return kit.Failf("%s: map target bound %q to %s, struct target to %s; %s", level, d.Name, show(mv), show(fv), describeReq(c, r, i))
				}
			}
		} else if !cutForm(c, r) {
			n1, n2 := map[string]bool{}, map[string]bool{}
			named(bindErr, n1)
			named(bindErr2, n2)
			// the struct target names binder errors by field key and validation errors by parameter name
			norm := map[string]bool{}
			for n := range n2 {
				for i, d := range c.Decls {
					if n == fmt.Sprintf("F%d", i) {
						n = d.Name
					}
				}
				norm[n] = true
			}
			if !reflect.DeepEqual(sortedKeys(n1), sortedKeys(norm)) {
				return kit.Failf("%s: map target rejects %v, struct target rejects %v\n%s", level, sortedKeys(n1), sortedKeys(norm), describeAll(c, r))
			}
		}
		// the next request of the case goes through the same binders: nothing of this one may survive in them
		scribble(got)
		scribble(target.Interface())
	}
	return nil
}

func flat(err error) string {
	if err == nil {
		return "<nil>"
	}
	return clipS(strings.ReplaceAll(err.Error(), "\n", " | "))
}

func describeAll(c Case, r Req) string {
	var b strings.Builder
	for i := range c.Decls {
		fmt.Fprintf(&b, "  %s\n", describeReq(c, r, i))
	}
	return b.String()
}

// sameBound compares the values two binding targets received (slices element-wise, NaN equal to NaN, nil
// and empty slices alike).
func sameBound(a, b interface{}) bool {
	if a == nil || b == nil {
		return a == nil && b == nil
	}
	if reflect.TypeOf(a) != reflect.TypeOf(b) {
		return false
	}
	av, bv := reflect.ValueOf(a), reflect.ValueOf(b)
	if av.Kind() == reflect.Slice && av.Type().Elem().Kind() != reflect.Uint8 {
		if av.Len() != bv.Len() {
			return false
		}
		for i := 0; i < av.Len(); i++ {
			if !sameScalar(av.Index(i).Interface(), bv.Index(i).Interface()) {
				return false
			}
		}
		return true
	}
	return sameScalar(a, b)
}

// Full stack ------------------------------------------------------------------------------------------

type probe struct {
	ran bool
	got map[string]interface{}
}

func nameToken(name string) *regexp.Regexp {
	return regexp.MustCompile(`(^|[^A-Za-z0-9_-])` + regexp.QuoteMeta(name) + `([^A-Za-z0-9_-]|$)`)
}

// CheckFull serves the requests of the case through one API built from the description.
func CheckFull(c Case) *kit.Violation {
	if err := c.wellFormed(); err != nil {
		return kit.Failf("malformed case: %v", err)
	}
	var ps []map[string]interface{}
	template := "/op"
	hasForm := false
	for _, d := range c.Decls {
		ps = append(ps, d.Spec())
		if d.In == "path" {
			template += "/{" + d.Name + "}"
		}
		hasForm = hasForm || d.In == "formData"
	}
	op := map[string]interface{}{
		"operationId": "op",
		"parameters":  ps,
		"responses":   map[string]interface{}{"200": map[string]interface{}{"description": "ok"}},
	}
	if hasForm {
		op["consumes"] = []string{"application/x-www-form-urlencoded", "multipart/form-data"}
	}
	doc := map[string]interface{}{
		"swagger":  "2.0",
		"info":     map[string]interface{}{"title": "c03", "version": "1"},
		"basePath": "/",
		"produces": []string{"application/json"},
		"paths":    map[string]interface{}{template: map[string]interface{}{"post": op}},
	}
	raw, err := json.Marshal(doc)
	if err != nil {
		return kit.Failf("harness: %v", err)
	}
	var handler http.Handler
	pr := &probe{}
	var loadErr error
	if v := kit.Guard("building the API from the description", func() {
		var d *loads.Document
		d, loadErr = loads.Analyzed(json.RawMessage(raw), "")
		if loadErr != nil {
			return
		}
		api := untyped.NewAPI(d)
		if !c.LateFormat {
			addColorFormat(api.Formats())
		}
		api.RegisterConsumer("application/x-www-form-urlencoded", runtime.DiscardConsumer)
		api.RegisterConsumer("multipart/form-data", runtime.DiscardConsumer)
		api.RegisterProducer("application/json", runtime.JSONProducer())
		api.RegisterOperation("post", template, runtime.OperationHandlerFunc(func(data interface{}) (interface{}, error) {
			pr.ran = true
			pr.got, _ = data.(map[string]interface{})
			return map[string]string{"handler": "ran"}, nil
		}))
		handler = middleware.NewContext(d, api, nil).APIHandler(nil)
		if c.LateFormat {
			addColorFormat(api.Formats())
		}
	}); v != nil {
		return kit.Failf("full stack: %s\ndescription: %s", v.Msg, raw)
	}
	if loadErr != nil {
		return kit.Failf("harness: description does not load: %v\n%s", loadErr, raw)
	}
	for ri, r := range c.Reqs {
		level := fmt.Sprintf("full stack, request %d", ri)
		vs := c.verdicts(r)
		req, _, err := buildRequest(c, r, true)
		if err != nil {
			return kit.Failf("harness: %v", err)
		}
		pr.ran, pr.got = false, nil
		rec := httptest.NewRecorder()
		if v := kit.Guard("APIHandler.ServeHTTP", func() { handler.ServeHTTP(rec, req) }); v != nil {
			return kit.Failf("%s: %s\n%s", level, v.Msg, describeAll(c, r))
		}
		body := rec.Body.String()
		switch {
		case rec.Code == http.StatusOK:
			if !pr.ran || pr.got == nil {
				return kit.Failf("%s: status 200 but the handler did not receive the bound parameters (ran=%v)\n%s", level, pr.ran, describeAll(c, r))
			}
			if v := judgeBound(c, r, vs, pr.got, level); v != nil {
				return v
			}
			scribble(pr.got) // a handler may do what it likes with its arguments: later requests must not notice
		case rec.Code == http.StatusUnprocessableEntity:
			if pr.ran {
				return kit.Failf("%s: answer 422 but the handler ran\n%s", level, describeAll(c, r))
			}
			names := map[string]bool{}
			for _, d := range c.Decls {
				if nameToken(d.Name).MatchString(body) {
					names[d.Name] = true
				}
			}
			if len(names) == 0 {
				return kit.Failf("%s: the 422 body names none of the declared parameters: %s\n%s", level, clipS(body), describeAll(c, r))
			}
			// the body may quote a sent text that happens to contain another parameter's name: demand that at
			// least one named parameter admits the rejection
			ok := false
			for i, d := range c.Decls {
				if names[d.Name] && vs[i].errOK {
					ok = true
				}
			}
			if !ok {
				if v := judgeRejected(c, r, vs, names, body, level); v != nil {
					return v
				}
			}
		default:
			if cutForm(c, r) && rec.Code >= 400 && !pr.ran {
				continue // the damaged body was refused as a whole
			}
			anyErr := false
			for _, v := range vs {
				anyErr = anyErr || v.mustFail()
			}
			want := "200"
			if anyErr {
				want = "422"
			}
			return kit.Failf("%s: status %d (%s), want %s\n%s", level, rec.Code, clipS(body), want, describeAll(c, r))
		}
	}
	return nil
}
