package c03

import (
	"fmt"
	"math/big"
	"net/http"
	"strings"

	"verif/harness/kit"
)

// Classification --------------------------------------------------------------------------------------

var boundarySet = func() map[string]int {
	m := map[string]int{}
	for _, w := range intWidths {
		for _, s := range intBoundaries(w) {
			if _, dup := m[s]; !dup {
				m[s] = w
			}
		}
	}
	return m
}()

var floatEdges = func() map[string]bool {
	m := map[string]bool{}
	for _, s := range []string{"3.4028234663852886e38", "3.4028235e38", "3.40282356e38", "3.4028235677973366e38", "3.4028236e38", "3.5e38", "1e39", "-3.4028235e38", "-3.5e38",
		"1e-45", "1.4e-45", "7e-46", "1e-46", "1.1754944e-38", "1.1754942e-38", "1.7976931348623157e308", "1.7976931348623158e308", "1.7976931348623159e308",
		"1e308", "1e309", "-1e309", "4.9e-324", "2e-324", "1e-400", "2.2250738585072014e-308", "16777217", "9007199254740993"} {
		m[s] = true
	}
	return m
}()

func typeLabel(tpe, format string) string {
	if format == "" {
		return tpe
	}
	return tpe + "/" + format
}

// isBoundary: the text is one of the width boundaries (integers) or range/rounding edges (numbers).
func isBoundary(tpe, text string) (string, bool) {
	text = strings.TrimSpace(text)
	switch tpe {
	case "integer":
		if w, ok := boundarySet[text]; ok {
			return fmt.Sprintf("text: boundary of int%d", w), true
		}
		if bi, ok := new(big.Int).SetString(text, 10); ok && bi.BitLen() > 64 {
			return "text: integer beyond 64 bits", true
		}
	case "number":
		if floatEdges[text] {
			return "text: float range/rounding edge", true
		}
	}
	return "", false
}

func Classify(c Case) (bool, []string) {
	set := map[string]bool{}
	nt := false
	if c.ReuseTarget && len(c.Reqs) > 1 {
		set["struct target reused for the next request"] = true
	}
	for i, d := range c.Decls {
		set["in="+d.In] = true
		if d.isArray() {
			cf := "(none)"
			if d.HasCF {
				cf = d.CF
			}
			set["array cf="+cf] = true
			set["array cf="+cf+" in "+d.In] = true
			set["items="+typeLabel(d.ItemType, d.ItemFormat)] = true
		} else {
			set["type="+typeLabel(d.Type, d.Format)] = true
		}
		if d.Required && d.In != "path" {
			set["decl: required"] = true
		}
		if d.AllowEmpty {
			set["decl: allowEmptyValue"] = true
		}
		if d.Default != "" {
			if d.isArray() {
				set["decl: array default"] = true
			} else if d.Type == "string" && d.Format != "" && d.Format != "x-unregistered" {
				set["decl: format-typed default"] = true
			} else {
				set["decl: scalar default"] = true
			}
		}
		if !d.V.empty() || !d.ItemV.empty() || d.MinItems != nil || d.MaxItems != nil {
			set["decl: validations"] = true
		}
		if d.In == "header" && !canonical(d.Name) {
			set["header: declared in non-canonical case"] = true
			nt = true
		}
		for _, r := range c.Reqs {
			s := r.Sent[i]
			if d.In == "formData" && r.PreParsed {
				set["form: ParseForm already called by a middleware in front"] = true
			}
			if d.In == "formData" && cutForm(c, r) {
				set[fmt.Sprintf("form: multipart body with its last %d byte(s) missing", r.CutTail)] = true
			}
			if d.In == "formData" {
				if r.Multipart {
					set["form: multipart"] = true
				} else {
					set["form: urlencoded"] = true
				}
			}
			if d.Type == "file" {
				if s.File != nil {
					set["file sent"] = true
				} else {
					set["file absent"] = true
				}
				continue
			}
			vals := s.vals()
			if d.In == "header" && s.HName != "" && http.CanonicalHeaderKey(s.HName) != s.HName {
				set["header: sent in non-canonical case"] = true
				nt = true
			}
			if len(s.Decoy) > 0 {
				set["decoy under another letter case"] = true
			}
			if len(s.Cross) > 0 {
				set["same name sent in the other location (query vs form body)"] = true
				nt = true
			}
			switch {
			case len(vals) == 0:
				set["text: absent"] = true
				if d.Default != "" {
					set["text: absent with default"] = true
					nt = true
				}
			case last(vals) == "":
				set["text: empty"] = true
				if d.Default != "" {
					set["text: empty with default"] = true
					nt = true
				}
			}
			if len(vals) > 1 {
				set["text: repeated key"] = true
				nt = true
			}
			itemType := d.Type
			var items []string
			if d.isArray() {
				itemType = d.ItemType
				if d.multi() {
					items = vals
					for _, v := range vals {
						if v == "" {
							set["array: empty item"] = true
							nt = true
						}
					}
				} else if len(vals) > 0 {
					items = splitItems(last(vals), d.sep())
					raw := strings.Split(last(vals), d.sep())
					if len(raw) > len(items) && last(vals) != "" {
						set["array: empty item"] = true
						nt = true
					}
				}
				switch {
				case len(items) >= 2:
					set["array: >=2 items"] = true
					nt = true
				case len(items) == 1:
					set["array: 1 item"] = true
				case len(vals) > 0:
					set["array: present without items"] = true
				}
			} else if len(vals) > 0 {
				items = []string{last(vals)}
			}
			for _, it := range items {
				if l, ok := isBoundary(itemType, it); ok {
					set[l] = true
					nt = true
				}
			}
			vd := Model(d, vals)
			switch {
			case vd.mustFail():
				set["model: must be rejected (422)"] = true
			case vd.mustBind():
				set["model: must bind"] = true
			default:
				set["model: either outcome admissible"] = true
			}
			if vd.loose {
				set["model: tolerant clause used"] = true
			}
			if strings.Contains(vd.why, "validation fails") || strings.Contains(vd.why, "minItems") {
				set["model: validation fails"] = true
			}
		}
	}
	return nt, sortedKeys(set)
}

// Known findings --------------------------------------------------------------------------------------

// findKindStringItems is the one finding of this property that is recorded as known (not repaired): arrays
// whose items declare a registered string format whose Go type has kind string (uuid, email, ipv4, password
// ...). The items validator of go-openapi/validate never checks the item format, so an invalid item text is
// bound instead of rejected. Exclude is honoured by the kit only while known_findings.json lists it as known.
const findKindStringItems = "F36"

func findingClass(c Case) string {
	for _, d := range c.Decls {
		if d.isArray() && kindStringFormat(d.ItemType, d.ItemFormat) {
			return findKindStringItems
		}
	}
	return ""
}

const ruleCommon = "declarations over {path, query, header, formData urlencoded+multipart} x {string (+date, date-time, byte, uuid, duration, email, ipv4, password, unregistered format), integer (none, int8..int64), number (none, float, double), boolean, arrays of those with csv/ssv/tsv/pipes/none and multi (query, formData), file} x required x default x allowEmptyValue x min/max/enum/length/items validations; per request and parameter: absent / empty / 1-3 occurrences from literal tables (every integer width: +-2^(n-1) and +-1 around, signs, leading zeros, blanks, 1_0, 0x10, 1e3, fullwidth digits, 23 digits; floats: decimal/hex/exponent forms, inf/NaN, float32 and float64 range and rounding edges, subnormals), header names in canonical/lower/upper/mixed case, decoy keys in another letter case; non-trivial = a boundary literal, or absent/empty with a default, or a repeated key, or an array with >= 2 items or an empty item, or a non-canonical header name"

func Props() []kit.Runner {
	return []kit.Runner{
		kit.Prop[Case]{ID: "C03", Name: "direct", Rule: "binder-direct (map target vs model, struct target vs map target), 1-4 declarations x 1-3 requests; " + ruleCommon,
			Quick: 20000, Thorough: 120000, Gen: GenDirect, Check: CheckDirect, Classify: Classify, Exclude: findingClass, SampleLimit: 1200},
		kit.Prop[Case]{ID: "C03", Name: "full", Rule: "full stack (description -> untyped API -> Context.APIHandler), 1-5 declarations x 8 requests per loaded API; " + ruleCommon,
			Quick: 1500, Thorough: 6000, Gen: GenFull, Check: CheckFull, Classify: Classify, Exclude: findingClass, SampleLimit: 1200},
	}
}
