package c03

import (
	"encoding/json"
	"fmt"
	"math/big"
	"strconv"
	"strings"

	"pgregory.net/rapid"

	"verif/harness/kit"
)

// Literal tables --------------------------------------------------------------------------------------

func pow2(n int) *big.Int { return new(big.Int).Lsh(big.NewInt(1), uint(n)) }

// intBoundaries: for a width of b bits, +-2^(b-1) and +-1 around it, plain and with signs / leading zeros.
func intBoundaries(b int) []string {
	lim := pow2(b - 1)
	one := big.NewInt(1)
	var out []string
	for _, x := range []*big.Int{
		new(big.Int).Sub(lim, one), lim, new(big.Int).Add(lim, one),
		new(big.Int).Neg(lim), new(big.Int).Neg(new(big.Int).Add(lim, one)), new(big.Int).Neg(new(big.Int).Sub(lim, one)),
		new(big.Int).Sub(lim, big.NewInt(2)),
	} {
		out = append(out, x.String())
	}
	max := new(big.Int).Sub(lim, one).String()
	out = append(out, "+"+max, "000"+max, "+"+lim.String(), "-000"+lim.String(), "0"+lim.String())
	return out
}

var intWidths = []int{8, 16, 32, 64}

var intCommon = []string{"0", "1", "-1", "7", "42", "007", "+5", "-0", "+0", "00", "-007", " 5", "5 ", "\t5", "1_0", "0x10", "0X1F", "0b1", "0o7",
	"1e3", "1E3", "1.0", "1.", ".0", "abc", "９", "٣", "+", "-", "--1", "+-1", "1-", "1 2", "1,2", "NaN", "inf", "null", "true",
	"99999999999999999999999", "-99999999999999999999999", "18446744073709551616", "18446744073709551615", "1000000", "2000000", "123456789",
	"9007199254740992", "9007199254740993", "-9007199254740993"}

var numTexts = []string{"0", "1.5", "-2.25", "1e10", "1E-3", ".5", "5.", "+1", "-0", "007.5", "0.1", "16777217", "9007199254740993", "123456789.5",
	"1_0", "0x1p-2", "0x10", "0x1_0p0", "inf", "+Inf", "-inf", "Infinity", "-Infinity", "NaN", "nan", "nAn", "infinit",
	// float32 edges: largest finite, the next decimals up to and beyond the rounding midpoint, subnormals
	"3.4028234663852886e38", "3.4028235e38", "3.40282356e38", "3.4028235677973366e38", "3.4028236e38", "3.5e38", "1e39", "-3.4028235e38", "-3.5e38",
	"1e-45", "1.4e-45", "7e-46", "1e-46", "1.1754944e-38", "1.1754942e-38",
	// float64 edges
	"1.7976931348623157e308", "1.7976931348623158e308", "1.7976931348623159e308", "1e308", "1e309", "-1e309", "4.9e-324", "2e-324", "1e-400", "2.2250738585072014e-308",
	"abc", "1,5", " 1", "1 ", "1f", "1d", "-", "+", ".", "e5", "1e", "1e+", "1.5.2", "١.٥", "1e5000", "0.000000000000000000000000000001", "100000000000000000000000000000"}

var boolTexts = []string{"true", "false", "TRUE", "True", "FALSE", "False", "1", "0", "yes", "no", "on", "off", "t", "f", "y", "n", "Y", "checked", "enabled",
	"selected", "ok", "OK", "tru", " true", "true ", "2", "null", "-1", "nope"}

var strTexts = []string{"abc", "dflt", " a b ", "x,y", "a|b", "a b", "a\tb", "ü€", "😀", "\xff\xfe", "0", "%41", "%", "%zz", "a+b", "a&b=c", "a;b", "a=b",
	"#frag", "?q", "\"quoted\"", "'", "\\", "null", "a,b|c d\te", ",", "|", " ", "\t", " x ", "line\nbreak", "cr\rlf", "\x00", "\x7f",
	strings.Repeat("long", 80), "abcd", "ab", "abcde"}

var fmtTexts = map[string][]string{
	"date":      {"2020-01-02", "2020-02-29", "0001-01-01", "9999-12-31", "2020-13-01", "2021-02-29", "2020-1-2", "garbage", "2020-01-02T00:00:00Z", " 2020-01-02", "20200102"},
	"date-time": {"2020-01-02T03:04:05Z", "2020-01-02T03:04:05.678+01:00", "2020-01-02T03:04:05.123456789Z", "2020-01-02t03:04:05z", "2020-01-02T03:04:05", "2020-01-02T03:04:05+0100", "2020-01-02 03:04:05Z", "2020-01-02", "garbage", "2020-01-02T25:00:00Z"},
	"byte":      {"aGVsbG8=", "aGVsbG8", "!!!!", "_-8=", "/+8=", "AA==", "QQ==", "QUJD", "/w==", "+/+/", "a b=", "YQ==\n"},
	"duration":  {"3s", "1h2m", "1.5h", "-4ms", "0", "1 minute", "3 weeks", "2d", "abc", "1", "1e3s"},
	"uuid":      {"a8098c1a-f86e-11da-bd1a-00112444be1e", "A8098C1A-F86E-11DA-BD1A-00112444BE1E", "a8098c1af86e11dabd1a00112444be1e", "not-a-uuid", "a8098c1a-f86e-11da-bd1a-00112444be1", "{a8098c1a-f86e-11da-bd1a-00112444be1e}"},
	"email":     {"a@b.example", "first.last@sub.example.org", "zzz", "a@", "@b", "A <a@b.example>", "a b@c.example"},
	"ipv4":      {"10.0.0.1", "255.255.255.255", "0.0.0.0", "256.0.0.1", "1.2.3", "01.2.3.4", "::1", "1.2.3.4 "},
	"password":  {"s3cret", "p w", "ü", "a,b"},
	"x-color":   {"#00ff7f", "#00FF7F", "#AbCdEf", "00ff7f", "#00ff7", "#gggggg", "red"},
}

var fmtDefaults = map[string]string{
	"date": "2020-01-02", "date-time": "2020-01-02T03:04:05Z", "byte": "aGVsbG8=", "duration": "3s",
	"uuid": "a8098c1a-f86e-11da-bd1a-00112444be1e", "email": "a@b.example", "ipv4": "10.0.0.1", "password": "s3cret", "x-color": "#00ff7f",
}

var stringFormats = []string{"date", "date", "date-time", "date-time", "byte", "byte", "uuid", "uuid", "duration", "email", "ipv4", "password", "x-unregistered", "x-color", "x-color"}

// genScalarType draws a scalar type and format.
func genScalarType(t *rapid.T) (string, string) {
	switch rapid.IntRange(0, 11).Draw(t, "ty") {
	case 0, 1:
		return "string", ""
	case 2, 10, 11:
		return "string", rapid.SampledFrom(stringFormats).Draw(t, "sfmt")
	case 3, 4, 5:
		return "integer", rapid.SampledFrom([]string{"", "int8", "int16", "int32", "int64", "int8", "int16", "int32", "int64", "x-unregistered"}).Draw(t, "ifmt")
	case 6, 7:
		return "number", rapid.SampledFrom([]string{"", "", "float", "float", "double", "x-unregistered"}).Draw(t, "nfmt")
	default:
		f := ""
		if rapid.IntRange(0, 9).Draw(t, "bfmt") == 0 {
			f = "x-unregistered"
		}
		return "boolean", f
	}
}

func jsonString(s string) string {
	b, _ := json.Marshal(s)
	return string(b)
}

// genDefaultScalar draws a conforming default as JSON text.
func genDefaultScalar(t *rapid.T, tpe, format string) string {
	switch tpe {
	case "string":
		if d, ok := fmtDefaults[format]; ok {
			return jsonString(d)
		}
		return jsonString(rapid.SampledFrom([]string{"dflt", "d e", "x,y", "a|b", " pad ", "ü", "abc"}).Draw(t, "sdef"))
	case "integer":
		b := intBits(format)
		c := []string{"0", "1", "-1", "7", "42", new(big.Int).Sub(pow2(b-1), big.NewInt(1)).String(), new(big.Int).Neg(pow2(b - 1)).String()}
		if b >= 32 {
			c = append(c, "1000000", "2000000", "123456789", "-1000000", "999999")
		}
		if b == 64 {
			c = c[:5]
			c = append(c, "1000000", "123456789", "9007199254740992", "-9007199254740992", "4294967296", "2147483648")
		}
		return rapid.SampledFrom(c).Draw(t, "idef")
	case "number":
		if format == "float" {
			return rapid.SampledFrom([]string{"0", "1.5", "-2.25", "1e10", "0.5", "0.1", "3.4028234663852886e38", "1e-7", "1000000"}).Draw(t, "fdef")
		}
		return rapid.SampledFrom([]string{"0", "1.5", "-2.25", "1e10", "0.1", "1e21", "1e-7", "123456789.5", "1e300", "1000000"}).Draw(t, "ndef")
	case "boolean":
		return strconv.FormatBool(rapid.Bool().Draw(t, "bdef"))
	}
	return ""
}

func intp(i int) *int { return &i }

// genValid draws validations for a scalar type. fallback is the value an absent parameter denotes: the
// validations are kept only if it passes them, except in one case out of ten (the tolerant class).
func genValid(t *rapid.T, tpe, format string, fallback interface{}) Valid {
	var v Valid
	switch tpe {
	case "integer":
		b := intBits(format)
		switch rapid.IntRange(0, 3).Draw(t, "vkind") {
		case 0:
			v.Min = rapid.SampledFrom([]string{"-1", "0", "-128", "1", "-5"}).Draw(t, "min")
			v.ExclMin = rapid.Bool().Draw(t, "exclMin")
		case 1:
			c := []string{"0", "1", "127", "5", "100"}
			if b >= 32 {
				c = append(c, "2147483647", "1000000")
			}
			v.Max = rapid.SampledFrom(c).Draw(t, "max")
			v.ExclMax = rapid.Bool().Draw(t, "exclMax")
		case 2:
			v.Min = rapid.SampledFrom([]string{"-5", "0", "-1"}).Draw(t, "min")
			v.Max = rapid.SampledFrom([]string{"5", "7", "100"}).Draw(t, "max")
			v.ExclMin = rapid.Bool().Draw(t, "exclMin")
			v.ExclMax = rapid.Bool().Draw(t, "exclMax")
		default:
			v.Enum = rapid.SampledFrom([][]string{{"0", "1", "7"}, {"-1", "0"}, {"0", "127", "-128"}, {"42"}, {"0", "5"}}).Draw(t, "enum")
		}
	case "number":
		switch rapid.IntRange(0, 2).Draw(t, "vkind") {
		case 0:
			v.Min = rapid.SampledFrom([]string{"-2.25", "0", "-1e10", "-0.5"}).Draw(t, "min")
			v.ExclMin = rapid.Bool().Draw(t, "exclMin")
		case 1:
			v.Max = rapid.SampledFrom([]string{"1.5", "0", "1e10", "0.5"}).Draw(t, "max")
			v.ExclMax = rapid.Bool().Draw(t, "exclMax")
		default:
			v.Enum = rapid.SampledFrom([][]string{{"0", "1.5", "-2.25"}, {"0", "0.5"}, {"1e10", "0"}}).Draw(t, "enum")
		}
	case "string":
		if format != "" && format != "x-unregistered" {
			return v
		}
		switch rapid.IntRange(0, 2).Draw(t, "vkind") {
		case 0:
			v.MinLen = intp(rapid.SampledFrom([]int{0, 1, 2, 3}).Draw(t, "minLen"))
		case 1:
			v.MaxLen = intp(rapid.SampledFrom([]int{0, 3, 4, 5, 300}).Draw(t, "maxLen"))
		default:
			v.Enum = rapid.SampledFrom([][]string{{`"abc"`, `"x,y"`, `""`}, {`"dflt"`, `"abc"`, `"d e"`}, {`"a|b"`, `""`, `"ü€"`}}).Draw(t, "enum")
		}
	case "boolean":
		if rapid.IntRange(0, 3).Draw(t, "benum") == 0 {
			v.Enum = rapid.SampledFrom([][]string{{"true"}, {"false"}, {"true", "false"}}).Draw(t, "enum")
		}
	}
	if fallback != nil && validate(tpe, format, v, fallback) != pass {
		if rapid.IntRange(0, 9).Draw(t, "keepViolated") != 0 {
			return Valid{}
		}
	}
	return v
}

// declName: names carry the location and the index; header names come in three spellings.
func declName(in string, i, hcase int) string {
	switch in {
	case "query":
		return fmt.Sprintf("Kq%d", i)
	case "formData":
		return fmt.Sprintf("Kf%d", i)
	case "path":
		return fmt.Sprintf("Kp%d", i)
	}
	switch hcase {
	case 0:
		return fmt.Sprintf("x-kh%d", i)
	case 1:
		return fmt.Sprintf("X-kH%d-ID", i)
	default:
		return fmt.Sprintf("X-Kh%d", i)
	}
}

// genDecl draws one declaration.
func genDecl(t *rapid.T) Decl {
	allowFile := true
	d := Decl{}
	d.In = rapid.SampledFrom([]string{"query", "query", "query", "header", "header", "formData", "formData", "path"}).Draw(t, "in")
	d.Name = "?" // set by genCase from the position
	if d.In == "header" {
		d.Name = []string{"?0", "?1", "?2", "?2"}[rapid.IntRange(0, 3).Draw(t, "hcaseDecl")]
	}
	kind := rapid.IntRange(0, 11).Draw(t, "shape")
	switch {
	case kind <= 3:
		d.Type = "array"
		d.ItemType, d.ItemFormat = genScalarType(t)
		if kindStringFormat(d.ItemType, d.ItemFormat) && rapid.IntRange(0, 3).Draw(t, "keepKindStringItems") != 0 {
			d.ItemFormat = "" // class of known finding F36: keep it rare so that few cases are excluded as a whole
		}
		cfs := []string{"", "csv", "ssv", "tsv", "pipes"}
		if d.In == "query" || d.In == "formData" {
			cfs = append(cfs, "multi", "multi")
		}
		cf := rapid.SampledFrom(cfs).Draw(t, "cf")
		if cf != "" {
			d.HasCF, d.CF = true, cf
		}
	case kind == 4 && allowFile && d.In == "formData":
		d.Type = "file"
		d.Required = rapid.Bool().Draw(t, "req")
		return d
	default:
		d.Type, d.Format = genScalarType(t)
	}
	d.Required = d.In == "path" || rapid.Bool().Draw(t, "req")
	if d.In == "query" || d.In == "formData" {
		d.AllowEmpty = rapid.IntRange(0, 3).Draw(t, "allowEmpty") == 0
	}
	if d.In != "path" && rapid.IntRange(0, 2).Draw(t, "hasDefault") == 0 {
		if d.isArray() {
			n := rapid.IntRange(0, 3).Draw(t, "ndef")
			items := []string{}
			for i := 0; i < n; i++ {
				items = append(items, genDefaultScalar(t, d.ItemType, d.ItemFormat))
			}
			d.Default = "[" + strings.Join(items, ",") + "]"
		} else {
			d.Default = genDefaultScalar(t, d.Type, d.Format)
		}
	}
	if rapid.IntRange(0, 9).Draw(t, "hasValid") < 4 {
		if d.isArray() {
			switch rapid.IntRange(0, 2).Draw(t, "avkind") {
			case 0:
				d.MinItems = intp(rapid.SampledFrom([]int{0, 1, 2}).Draw(t, "minItems"))
			case 1:
				d.MaxItems = intp(rapid.SampledFrom([]int{1, 2, 3}).Draw(t, "maxItems"))
			default:
				d.ItemV = genValid(t, d.ItemType, d.ItemFormat, nil)
			}
			// keep the array validations only if the fallback passes them (nine times out of ten)
			if vd := Model(d, nil); vd.loose && rapid.IntRange(0, 9).Draw(t, "keepViolatedA") != 0 {
				d.MinItems, d.MaxItems, d.ItemV = nil, nil, Valid{}
			}
		} else {
			fb := zeroValue(d.Type, d.Format)
			if def, ok := defaultValue(d); ok {
				fb = def
			}
			d.V = genValid(t, d.Type, d.Format, fb)
		}
	}
	return d
}

// Texts ---------------------------------------------------------------------------------------------

func genScalarText(t *rapid.T, tpe, format string, v Valid) string {
	// aim at the declared validation bounds now and then
	if !v.empty() && rapid.IntRange(0, 2).Draw(t, "aimValid") == 0 {
		var c []string
		for _, b := range []string{v.Min, v.Max} {
			if b == "" {
				continue
			}
			c = append(c, b)
			if bi, ok := new(big.Int).SetString(b, 10); ok {
				c = append(c, new(big.Int).Add(bi, big.NewInt(1)).String(), new(big.Int).Sub(bi, big.NewInt(1)).String())
			} else if f, err := strconv.ParseFloat(b, 64); err == nil {
				c = append(c, strconv.FormatFloat(f+0.25, 'g', -1, 64), strconv.FormatFloat(f-0.25, 'g', -1, 64))
			}
		}
		for _, e := range v.Enum {
			var s string
			if tpe == "string" && json.Unmarshal([]byte(e), &s) == nil {
				c = append(c, s)
			} else if tpe != "string" {
				c = append(c, e)
			}
		}
		if v.MinLen != nil {
			c = append(c, strings.Repeat("ü", *v.MinLen), strings.Repeat("x", max0(*v.MinLen-1)), strings.Repeat("\xff", *v.MinLen))
		}
		if v.MaxLen != nil && *v.MaxLen < 50 {
			c = append(c, strings.Repeat("€", *v.MaxLen), strings.Repeat("x", *v.MaxLen+1))
		}
		if len(c) > 0 {
			return rapid.SampledFrom(c).Draw(t, "vtext")
		}
	}
	switch tpe {
	case "string":
		if ft, ok := fmtTexts[format]; ok {
			if rapid.IntRange(0, 5).Draw(t, "fmtOther") == 0 {
				return rapid.SampledFrom(strTexts).Draw(t, "stext")
			}
			return rapid.SampledFrom(ft).Draw(t, "ftext")
		}
		if rapid.IntRange(0, 4).Draw(t, "rndStr") == 0 {
			return rapid.StringN(0, 12, 40).Draw(t, "rstr")
		}
		return rapid.SampledFrom(strTexts).Draw(t, "stext")
	case "integer":
		switch rapid.IntRange(0, 5).Draw(t, "iclass") {
		case 0, 1, 2:
			return rapid.SampledFrom(intBoundaries(intBits(format))).Draw(t, "ibound")
		case 3:
			w := rapid.SampledFrom(intWidths).Draw(t, "iwidth")
			return rapid.SampledFrom(intBoundaries(w)).Draw(t, "iboundAny")
		default:
			return rapid.SampledFrom(intCommon).Draw(t, "itext")
		}
	case "number":
		if rapid.IntRange(0, 7).Draw(t, "nInt") == 0 {
			return rapid.SampledFrom(intCommon).Draw(t, "ntextI")
		}
		return rapid.SampledFrom(numTexts).Draw(t, "ntext")
	case "boolean":
		return rapid.SampledFrom(boolTexts).Draw(t, "btext")
	}
	return ""
}

func max0(i int) int {
	if i < 0 {
		return 0
	}
	return i
}

// forLocation applies the documented restriction of the location to a text.
func forLocation(in, s string) string {
	switch in {
	case "header":
		b := []byte(s)
		for i := range b {
			if (b[i] < 0x20 && b[i] != '\t') || b[i] == 0x7f {
				b[i] = '_'
			}
		}
		return strings.Trim(string(b), " \t")
	case "path":
		s = strings.ReplaceAll(s, "/", "_")
		if s == "" || s == "." || s == ".." {
			return "0"
		}
	}
	return s
}

// genOccurrence draws the text of one occurrence of the parameter.
func genOccurrence(t *rapid.T, d Decl) string {
	if !d.isArray() {
		return genScalarText(t, d.Type, d.Format, d.V)
	}
	if d.multi() {
		if rapid.IntRange(0, 11).Draw(t, "emptyOcc") == 0 {
			return ""
		}
		return genScalarText(t, d.ItemType, d.ItemFormat, d.ItemV)
	}
	n := rapid.SampledFrom([]int{0, 1, 1, 2, 2, 3, 4}).Draw(t, "nitems")
	var its []string
	for i := 0; i < n; i++ {
		it := genScalarText(t, d.ItemType, d.ItemFormat, d.ItemV)
		switch rapid.IntRange(0, 9).Draw(t, "itemDress") {
		case 0:
			it = " " + it + " "
		case 1:
			its = append(its, "") // an empty item
		case 2:
			its = append(its, " ") // a blank item
		}
		its = append(its, it)
	}
	return strings.Join(its, d.sep())
}

func genSent(t *rapid.T, d Decl, full bool) Sent {
	var s Sent
	if d.Type == "file" {
		if rapid.IntRange(0, 3).Draw(t, "fileAbsent") != 0 {
			s.File = &FileSent{
				Filename: rapid.SampledFrom([]string{"up.bin", "report 1.txt", "x"}).Draw(t, "fname"),
				Content: kit.BStr(rapid.SampledFrom([]string{"", "hello", "line1\r\nline2\r\n", "--not-a-boundary\r\n", "\x00\xff\xfe binary", strings.Repeat("0123456789", 30)}).
					Draw(t, "fcontent")),
			}
		}
		return s
	}
	k := rapid.SampledFrom([]int{0, 0, 1, 1, 1, 1, 1, 2, 2, 3}).Draw(t, "occurrences")
	if d.In == "path" {
		k = 1
	}
	for j := 0; j < k; j++ {
		var text string
		if rapid.IntRange(0, 7).Draw(t, "emptyText") == 0 && d.In != "path" {
			text = ""
		} else {
			text = genOccurrence(t, d)
		}
		text = forLocation(d.In, text)
		if d.In == "path" && !full && rapid.IntRange(0, 19).Draw(t, "emptyPath") == 0 {
			text = "" // binder-direct only: a router never produces an empty path parameter
		}
		s.Vals = append(s.Vals, kit.BStr(text))
	}
	if d.In == "header" {
		switch rapid.IntRange(0, 3).Draw(t, "hcaseSent") {
		case 0:
			s.HName = strings.ToLower(d.Name)
		case 1:
			s.HName = strings.ToUpper(d.Name)
		case 2:
			s.HName = d.Name
		default:
			s.HName = ""
		}
	}
	if (d.In == "query" || d.In == "formData") && rapid.IntRange(0, 5).Draw(t, "decoy") == 0 {
		s.Decoy = []kit.BStr{kit.BStr(forLocation(d.In, genOccurrence(t, d)))}
	}
	if (d.In == "query" || d.In == "formData") && d.Type != "file" && rapid.IntRange(0, 3).Draw(t, "cross") == 0 {
		s.Cross = []kit.BStr{kit.BStr(forLocation(d.In, genOccurrence(t, d)))}
	}
	return s
}

func genCase(t *rapid.T, maxDecls, nreqs int, full bool) Case {
	var c Case
	hasFile := false
	for i, d := range rapid.SliceOfN(rapid.Custom(genDecl), 1, maxDecls).Draw(t, "decls") {
		hcase := 2
		if len(d.Name) == 2 {
			hcase = int(d.Name[1] - '0')
		}
		d.Name = declName(d.In, i, hcase)
		hasFile = hasFile || d.Type == "file"
		c.Decls = append(c.Decls, d)
	}
	for r := 0; r < nreqs; r++ {
		req := Req{Multipart: rapid.Bool().Draw(t, "multipart"), UpperCT: rapid.IntRange(0, 3).Draw(t, "content-type-capitals") == 0}
		for _, d := range c.Decls {
			req.Sent = append(req.Sent, genSent(t, d, full))
			if req.Sent[len(req.Sent)-1].File != nil {
				req.Multipart = true // a file travels in a multipart body; a request that sends none may be urlencoded (r7)
			}
		}
		req.PreParsed = rapid.IntRange(0, 4).Draw(t, "form-parsed-by-a-middleware-in-front") == 0
		if req.Multipart && rapid.IntRange(0, 5).Draw(t, "multipart-body-cut") == 0 {
			req.CutTail = rapid.IntRange(1, 8).Draw(t, "cut-bytes")
		}
		c.Reqs = append(c.Reqs, req)
	}
	c.LateFormat = rapid.Bool().Draw(t, "format-registered-late")
	c.ReuseTarget = !full && nreqs > 1 && rapid.Bool().Draw(t, "struct-target-reused")
	return c
}

func GenDirect(t *rapid.T) Case {
	return genCase(t, 4, rapid.IntRange(1, 3).Draw(t, "nreqs"), false)
}

func GenFull(t *rapid.T) Case {
	return genCase(t, 5, rapid.SampledFrom([]int{1, 2, 4, 8, 8, 8, 8, 8, 8, 8, 8, 8}).Draw(t, "nreqs"), true)
}
