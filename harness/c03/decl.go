// Package c03 decides property C03 (declared non-body parameters are bound to exactly the value their text
// denotes, or 422; binding never panics) by comparing go-openapi/runtime's untyped binder with a reference
// model made of literal grammars written from the property statement.
//
// Two entry levels share the declarations, the request texts and the model:
//
//	direct  middleware.NewUntypedRequestBinder(...).Bind into a map and, differentially, into a struct whose
//	        type is built with reflect.StructOf from the declared Go types
//	full    description -> loads.Analyzed -> untyped API -> middleware.Context.APIHandler: 422 mapping, the
//	        body names the parameter, the handler does not run, nothing panics
package c03

import (
	"encoding/json"
	"fmt"
	"github.com/go-openapi/strfmt"
	"net/http"
	"regexp"
	"sort"
	"strings"

	"verif/harness/kit"
)

// Valid holds the declared validations of a scalar parameter or of the items of an array parameter.
// Numbers are kept as their JSON text, exactly as they appear in the description.
type Valid struct {
	Min     string   `json:"min,omitempty"`
	Max     string   `json:"max,omitempty"`
	ExclMin bool     `json:"exclMin,omitempty"`
	ExclMax bool     `json:"exclMax,omitempty"`
	Enum    []string `json:"enum,omitempty"` // JSON texts
	MinLen  *int     `json:"minLen,omitempty"`
	MaxLen  *int     `json:"maxLen,omitempty"`
}

func (v Valid) empty() bool {
	return v.Min == "" && v.Max == "" && len(v.Enum) == 0 && v.MinLen == nil && v.MaxLen == nil
}

// Decl is one non-body parameter declaration.
type Decl struct {
	Name       string `json:"name"`
	In         string `json:"in"`   // path | query | header | formData
	Type       string `json:"type"` // string | integer | number | boolean | array | file
	Format     string `json:"format,omitempty"`
	HasCF      bool   `json:"hasCF,omitempty"` // collectionFormat is written into the declaration
	CF         string `json:"cf,omitempty"`    // csv | ssv | tsv | pipes | multi
	ItemType   string `json:"itemType,omitempty"`
	ItemFormat string `json:"itemFormat,omitempty"`
	Required   bool   `json:"required,omitempty"`
	AllowEmpty bool   `json:"allowEmpty,omitempty"`
	Default    string `json:"default,omitempty"` // JSON text of the declared default, "" = none
	V          Valid  `json:"v,omitempty"`       // validations of the parameter (scalars)
	ItemV      Valid  `json:"itemV,omitempty"`   // validations of the items (arrays)
	MinItems   *int   `json:"minItems,omitempty"`
	MaxItems   *int   `json:"maxItems,omitempty"`
}

func (d Decl) isArray() bool { return d.Type == "array" }

// sep is the separator of the declared collection format ("" for multi).
func (d Decl) sep() string {
	switch d.CF {
	case "ssv":
		return " "
	case "tsv":
		return "\t"
	case "pipes":
		return "|"
	case "multi":
		return ""
	}
	return ","
}

func (d Decl) multi() bool { return d.isArray() && d.HasCF && d.CF == "multi" }

func addValid(m map[string]interface{}, v Valid) {
	if v.Min != "" {
		m["minimum"] = json.RawMessage(v.Min)
		if v.ExclMin {
			m["exclusiveMinimum"] = true
		}
	}
	if v.Max != "" {
		m["maximum"] = json.RawMessage(v.Max)
		if v.ExclMax {
			m["exclusiveMaximum"] = true
		}
	}
	if len(v.Enum) > 0 {
		var e []json.RawMessage
		for _, x := range v.Enum {
			e = append(e, json.RawMessage(x))
		}
		m["enum"] = e
	}
	if v.MinLen != nil {
		m["minLength"] = *v.MinLen
	}
	if v.MaxLen != nil {
		m["maxLength"] = *v.MaxLen
	}
}

// Spec renders the declaration as it is written in a Swagger 2.0 document.
func (d Decl) Spec() map[string]interface{} {
	m := map[string]interface{}{"name": d.Name, "in": d.In, "type": d.Type}
	if d.Format != "" {
		m["format"] = d.Format
	}
	if d.isArray() {
		it := map[string]interface{}{"type": d.ItemType}
		if d.ItemFormat != "" {
			it["format"] = d.ItemFormat
		}
		addValid(it, d.ItemV)
		m["items"] = it
		if d.HasCF {
			m["collectionFormat"] = d.CF
		}
		if d.MinItems != nil {
			m["minItems"] = *d.MinItems
		}
		if d.MaxItems != nil {
			m["maxItems"] = *d.MaxItems
		}
	} else {
		addValid(m, d.V)
	}
	if d.Required || d.In == "path" {
		m["required"] = true
	}
	if d.AllowEmpty {
		m["allowEmptyValue"] = true
	}
	if d.Default != "" {
		m["default"] = json.RawMessage(d.Default)
	}
	return m
}

// FileSent is an uploaded file (type: file parameters).
type FileSent struct {
	Filename string   `json:"filename"`
	Content  kit.BStr `json:"content"`
}

// Sent is what the client sends for one declaration.
type Sent struct {
	Vals  []kit.BStr `json:"vals,omitempty"`  // the occurrences in order; none = the parameter is absent
	HName string     `json:"hname,omitempty"` // header parameters: the spelling of the name on the wire
	// Decoy: query / formData only. Values sent under the declared name in another letter case: names of these
	// locations are case-sensitive, so the values must never be bound.
	Decoy []kit.BStr `json:"decoy,omitempty"`
	// Cross: query / formData only. Values sent under the declared name in the *other* of the two locations (a
	// formData parameter's name as a URL query key, a query parameter's name as a form field of the body, when the
	// request has one): a parameter is looked up under the rules of its own location, so these never count.
	Cross []kit.BStr `json:"cross,omitempty"`
	File  *FileSent  `json:"file,omitempty"`
}

func (s Sent) vals() []string {
	if len(s.Vals) == 0 {
		return nil
	}
	out := make([]string, len(s.Vals))
	for i, v := range s.Vals {
		out[i] = string(v)
	}
	return out
}

// Req is one request: parallel to Case.Decls.
type Req struct {
	Multipart bool   `json:"multipart,omitempty"` // formData parameters travel as multipart/form-data instead of urlencoded
	Sent      []Sent `json:"sent"`
	// UpperCT: the media type of the form's Content-Type header is spelled with capitals
	// ("Application/X-WWW-Form-Urlencoded", "Multipart/Form-Data; boundary=..."): media types are case-insensitive.
	UpperCT bool `json:"upper_ct,omitempty"`
	// CutTail: that many bytes are missing at the end of a multipart body (the connection broke inside the closing
	// delimiter). The request may be refused as a whole; if it is accepted, the handler receives what the client sent
	// in the parts that arrived - never defaults in their place. (r6)
	CutTail int `json:"cut_tail,omitempty"`
	// PreParsed: a middleware in front has called ParseForm on the request (to read a query flag) before the
	// parameters are bound. (r9)
	PreParsed bool `json:"pre_parsed,omitempty"`
}

type Case struct {
	Decls []Decl `json:"decls"`
	Reqs  []Req  `json:"reqs"`
	// LateFormat: the application's own string format "x-color" is added to the format registry after the binder /
	// the handler has been built (it is registered in either case before the first request arrives).
	LateFormat bool `json:"late_format,omitempty"`
	// ReuseTarget (binder-direct): the struct the requests are bound into is the same object for every request of the case
	// (a pooled parameter struct): what a request leaves absent is the declared default or zero, not what the previous
	// request sent. (r6)
	ReuseTarget bool `json:"reuse_target,omitempty"`
}

// hexColor is the Go type of the application-defined string format "x-color": '#' and six hex digits, kept in lower case.
type hexColor string

var reHexColor = regexp.MustCompile(`^#[0-9a-fA-F]{6}$`)

func (c hexColor) String() string               { return string(c) }
func (c hexColor) MarshalText() ([]byte, error) { return []byte(c), nil }
func (c *hexColor) UnmarshalText(b []byte) error {
	if !reHexColor.Match(b) {
		return fmt.Errorf("%q is not a colour", b)
	}
	*c = hexColor(strings.ToLower(string(b)))
	return nil
}

// addColorFormat registers "x-color" the way an application registers a format of its own.
func addColorFormat(reg strfmt.Registry) {
	var c hexColor
	reg.Add("x-color", &c, func(s string) bool { return reHexColor.MatchString(s) })
}

func decoyName(name string) string {
	up := strings.ToUpper(name)
	if up != name {
		return up
	}
	return strings.ToLower(name)
}

// wellFormed keeps hand-written replay cases inside the domain the property quantifies over.
func (c Case) wellFormed() error {
	if len(c.Decls) == 0 || len(c.Decls) > 12 {
		return fmt.Errorf("1..12 declarations expected")
	}
	seen := map[string]bool{}
	hasForm := false
	_ = hasForm
	for i, d := range c.Decls {
		key := strings.ToLower(d.Name)
		if d.Name == "" || seen[key] {
			return fmt.Errorf("declaration %d: empty or duplicate name %q", i, d.Name)
		}
		seen[key] = true
		for _, r := range d.Name {
			if !(r >= 'a' && r <= 'z' || r >= 'A' && r <= 'Z' || r >= '0' && r <= '9' || r == '-' || r == '_') {
				return fmt.Errorf("declaration %d: name %q outside [A-Za-z0-9_-]", i, d.Name)
			}
		}
		switch d.In {
		case "path", "query", "header", "formData":
		default:
			return fmt.Errorf("declaration %d: location %q", i, d.In)
		}
		hasForm = hasForm || d.In == "formData"
		switch d.Type {
		case "string", "integer", "number", "boolean":
			if _, ok := goType(d.Type, d.Format); !ok {
				return fmt.Errorf("declaration %d: unsupported type/format", i)
			}
		case "array":
			if _, ok := goType(d.ItemType, d.ItemFormat); !ok || d.ItemType == "file" || d.ItemType == "array" {
				return fmt.Errorf("declaration %d: unsupported item type", i)
			}
			if d.HasCF {
				switch d.CF {
				case "csv", "ssv", "tsv", "pipes":
				case "multi":
					if d.In != "query" && d.In != "formData" {
						return fmt.Errorf("declaration %d: multi is for query and formData only", i)
					}
				default:
					return fmt.Errorf("declaration %d: collection format %q", i, d.CF)
				}
			}
		case "file":
			if d.In != "formData" {
				return fmt.Errorf("declaration %d: file parameters live in formData", i)
			}
			_ = d
		default:
			return fmt.Errorf("declaration %d: type %q", i, d.Type)
		}
		if d.AllowEmpty && d.In != "query" && d.In != "formData" {
			return fmt.Errorf("declaration %d: allowEmptyValue is for query and formData only", i)
		}
		if d.Default != "" {
			if !json.Valid([]byte(d.Default)) {
				return fmt.Errorf("declaration %d: default is not JSON", i)
			}
			if d.In == "path" || d.Type == "file" {
				return fmt.Errorf("declaration %d: default on a path or file parameter", i)
			}
			if _, ok := defaultValue(d); !ok {
				return fmt.Errorf("declaration %d: default %s does not conform to the declared type", i, d.Default)
			}
		}
	}
	if len(c.Reqs) == 0 || len(c.Reqs) > 16 {
		return fmt.Errorf("1..16 requests expected")
	}
	for ri, r := range c.Reqs {
		if len(r.Sent) != len(c.Decls) {
			return fmt.Errorf("request %d: %d texts for %d declarations", ri, len(r.Sent), len(c.Decls))
		}
		for _, snt := range r.Sent {
			if snt.File != nil && !r.Multipart {
				return fmt.Errorf("request %d: a file needs a multipart body", ri)
			}
		}
		for i, s := range r.Sent {
			d := c.Decls[i]
			if s.File != nil && d.Type != "file" {
				return fmt.Errorf("request %d: file content for non-file parameter %d", ri, i)
			}
			if d.Type == "file" && len(s.Vals) > 0 {
				return fmt.Errorf("request %d: text for file parameter %d", ri, i)
			}
			if d.In == "path" {
				if len(s.Vals) != 1 {
					return fmt.Errorf("request %d: a path parameter has exactly one occurrence", ri)
				}
			}
			if len(s.Decoy) > 0 && d.In != "query" && d.In != "formData" {
				return fmt.Errorf("request %d: decoys are for query and formData", ri)
			}
			if d.In == "header" {
				hn := s.HName
				if hn == "" {
					hn = d.Name
				}
				if !strings.EqualFold(hn, d.Name) {
					return fmt.Errorf("request %d: header sent as %q for %q", ri, hn, d.Name)
				}
				for _, v := range s.Vals {
					if !headerSafe(string(v)) {
						return fmt.Errorf("request %d: header value %q is not a legal field value", ri, string(v))
					}
				}
			}
		}
	}
	return nil
}

// headerSafe: no control bytes, no leading/trailing optional whitespace (a server never sees those).
func headerSafe(v string) bool {
	if v != strings.Trim(v, " \t") {
		return false
	}
	for i := 0; i < len(v); i++ {
		if (v[i] < 0x20 && v[i] != '\t') || v[i] == 0x7f {
			return false
		}
	}
	return true
}

func canonical(name string) bool { return http.CanonicalHeaderKey(name) == name }

func sortedKeys(m map[string]bool) []string {
	var k []string
	for x := range m {
		k = append(k, x)
	}
	sort.Strings(k)
	return k
}
