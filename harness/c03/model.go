package c03

import (
	"bytes"
	"encoding/base64"
	"encoding/json"
	"math"
	"math/big"
	"net"
	"reflect"
	"regexp"
	"strconv"
	"strings"
	"time"
	"unicode/utf8"

	"github.com/go-openapi/runtime"
	"github.com/go-openapi/strfmt"
)

// The reference model. Everything here is written from the statement of C03: literal grammars per declared
// type (math/big for integer ranges, strconv.ParseFloat / time.Parse / encoding/base64 of the standard
// library as trusted base), last occurrence for scalars, split-trim-drop-empties or repeated values for
// arrays, default when absent or empty, 422 for an invalid literal / a missing required parameter / a failed
// validation. It never calls the binder.

// goType is the Go type the handler must receive for a declared type+format.
func goType(tpe, format string) (reflect.Type, bool) {
	switch tpe {
	case "string":
		switch format {
		case "date":
			return reflect.TypeOf(strfmt.Date{}), true
		case "date-time":
			return reflect.TypeOf(strfmt.DateTime{}), true
		case "byte":
			return reflect.TypeOf(strfmt.Base64{}), true
		case "duration":
			return reflect.TypeOf(strfmt.Duration(0)), true
		case "uuid":
			return reflect.TypeOf(strfmt.UUID("")), true
		case "email":
			return reflect.TypeOf(strfmt.Email("")), true
		case "password":
			return reflect.TypeOf(strfmt.Password("")), true
		case "ipv4":
			return reflect.TypeOf(strfmt.IPv4("")), true
		case "x-color":
			return reflect.TypeOf(hexColor("")), true
		case "", "x-unregistered":
			return reflect.TypeOf(""), true
		}
		return nil, false
	case "integer":
		switch format {
		case "int8":
			return reflect.TypeOf(int8(0)), true
		case "int16":
			return reflect.TypeOf(int16(0)), true
		case "int32":
			return reflect.TypeOf(int32(0)), true
		case "int64", "", "x-unregistered":
			return reflect.TypeOf(int64(0)), true
		}
		return nil, false
	case "number":
		switch format {
		case "float":
			return reflect.TypeOf(float32(0)), true
		case "double", "", "x-unregistered":
			return reflect.TypeOf(float64(0)), true
		}
		return nil, false
	case "boolean":
		if format == "" || format == "x-unregistered" {
			return reflect.TypeOf(false), true
		}
		return nil, false
	case "file":
		return reflect.TypeOf(runtime.File{}), true
	}
	return nil, false
}

// kindString reports whether the declared format binds to a Go type of kind string that is not string itself.
func kindStringFormat(tpe, format string) bool {
	if tpe != "string" {
		return false
	}
	switch format {
	case "uuid", "email", "password", "ipv4", "x-color":
		return true
	}
	return false
}

func (d Decl) goType() reflect.Type {
	if d.isArray() {
		it, ok := goType(d.ItemType, d.ItemFormat)
		if !ok {
			return nil
		}
		return reflect.SliceOf(it)
	}
	t, _ := goType(d.Type, d.Format)
	return t
}

func intBits(format string) int {
	switch format {
	case "int8":
		return 8
	case "int16":
		return 16
	case "int32":
		return 32
	}
	return 64
}

func intOfWidth(v int64, format string) interface{} {
	switch format {
	case "int8":
		return int8(v)
	case "int16":
		return int16(v)
	case "int32":
		return int32(v)
	}
	return v
}

var (
	reInteger = regexp.MustCompile(`^[+-]?[0-9]+$`)
	reDecimal = regexp.MustCompile(`^[+-]?([0-9]+\.?[0-9]*|\.[0-9]+)([eE][+-]?[0-9]+)?$`)
	reUUID    = regexp.MustCompile(`^[0-9a-fA-F]{8}-[0-9a-fA-F]{4}-[0-9a-fA-F]{4}-[0-9a-fA-F]{4}-[0-9a-fA-F]{12}$`)
	reEmail   = regexp.MustCompile(`^[a-z0-9.]+@[a-z0-9]+(\.[a-z0-9]+)+$`)
	reIPv4    = regexp.MustCompile(`^(0|[1-9][0-9]{0,2})(\.(0|[1-9][0-9]{0,2})){3}$`)
)

var truthy = map[string]bool{"true": true, "1": true, "yes": true, "ok": true, "y": true, "on": true, "selected": true, "checked": true, "t": true, "enabled": true}

// lit is the set of admissible outcomes for one literal of a scalar type.
type lit struct {
	vals  []interface{} // admissible values, each of the declared Go type
	errOK bool          // rejecting the literal (422) is admissible
	any   bool          // any value of the declared Go type is admissible (the statement does not fix the value)
	loose bool          // the statement leaves the literal open (section 6 of DESIGN.md): label only
}

func mustVal(v interface{}) lit { return lit{vals: []interface{}{v}} }
func mustErr() lit              { return lit{errOK: true} }

// literal judges a non-empty text against the declared scalar type.
func literal(tpe, format, text string) lit {
	switch tpe {
	case "string":
		return stringLiteral(format, text)
	case "boolean":
		low := strings.ToLower(text)
		switch {
		case truthy[low]:
			return mustVal(true)
		case low == "false":
			return mustVal(false)
		}
		// neither the documented truthy set nor "false": the documented conversion says false, the statement's
		// "not a valid literal" says 422
		return lit{vals: []interface{}{false}, errOK: true, loose: !(low == "0" || low == "no" || low == "off" || low == "f" || low == "n")}
	case "integer":
		if !reInteger.MatchString(text) {
			return mustErr()
		}
		bi, ok := new(big.Int).SetString(text, 10)
		if !ok {
			return mustErr()
		}
		lim := new(big.Int).Lsh(big.NewInt(1), uint(intBits(format)-1))
		if bi.Cmp(lim) >= 0 || bi.Cmp(new(big.Int).Neg(lim)) < 0 {
			return mustErr()
		}
		return mustVal(intOfWidth(bi.Int64(), format))
	case "number":
		v64, err := strconv.ParseFloat(text, 64)
		if !reDecimal.MatchString(text) {
			// inf, NaN, hex floats, underscores ...: either 422 or the value strconv denotes
			if err != nil {
				return mustErr()
			}
			if format == "float" {
				return lit{vals: []interface{}{float32(v64)}, errOK: true, loose: true}
			}
			return lit{vals: []interface{}{v64}, errOK: true, loose: true}
		}
		if format != "float" {
			if err != nil { // out of the float64 range
				return mustErr()
			}
			return mustVal(v64)
		}
		// float32: rounding the decimal directly, and rounding to float64 first and narrowing then, are both admissible
		var l lit
		if err != nil || math.Abs(v64) > math.MaxFloat32 {
			l.errOK = true
		} else {
			l.vals = append(l.vals, float32(v64))
		}
		v32, err32 := strconv.ParseFloat(text, 32)
		if err32 != nil {
			l.errOK = true
		} else if len(l.vals) == 0 || l.vals[0].(float32) != float32(v32) {
			l.vals = append(l.vals, float32(v32))
		}
		l.loose = l.errOK && len(l.vals) > 0
		return l
	}
	return lit{errOK: true, any: true}
}

func stringLiteral(format, text string) lit {
	switch format {
	case "", "x-unregistered":
		return mustVal(text)
	case "date":
		t, err := time.Parse("2006-01-02", text)
		if err != nil {
			return mustErr()
		}
		return mustVal(strfmt.Date(t))
	case "date-time":
		if t, err := time.Parse(time.RFC3339Nano, text); err == nil {
			return mustVal(strfmt.DateTime(t))
		}
		if _, err := strfmt.ParseDateTime(text); err == nil || strfmt.IsDateTime(text) {
			// other ISO 8601 spellings the registered format knows (no zone, +0100, lower-case t): not RFC 3339
			// literals, but the registered format is what the declaration names - the statement does not fix them
			return lit{errOK: true, any: true, loose: true}
		}
		return mustErr()
	case "byte":
		if b, err := base64.StdEncoding.DecodeString(text); err == nil {
			return mustVal(strfmt.Base64(b))
		}
		if b, err := base64.URLEncoding.DecodeString(text); err == nil {
			// the URL-safe alphabet is not what "byte" names, but the code documents it as a fallback
			return lit{vals: []interface{}{strfmt.Base64(b)}, errOK: true, loose: true}
		}
		return mustErr()
	case "duration":
		if d, err := time.ParseDuration(text); err == nil {
			return mustVal(strfmt.Duration(d))
		}
		if _, err := strfmt.ParseDuration(text); err == nil {
			return lit{errOK: true, any: true, loose: true}
		}
		return mustErr()
	case "uuid":
		if reUUID.MatchString(text) {
			return mustVal(strfmt.UUID(text))
		}
		if strfmt.IsUUID(text) {
			return lit{vals: []interface{}{strfmt.UUID(text)}, errOK: true, loose: true}
		}
		return mustErr()
	case "email":
		if reEmail.MatchString(text) {
			return mustVal(strfmt.Email(text))
		}
		if strfmt.IsEmail(text) {
			return lit{vals: []interface{}{strfmt.Email(text)}, errOK: true, loose: true}
		}
		return mustErr()
	case "ipv4":
		if reIPv4.MatchString(text) && net.ParseIP(text) != nil {
			return mustVal(strfmt.IPv4(text))
		}
		if strfmt.Default.Validates("ipv4", text) {
			return lit{vals: []interface{}{strfmt.IPv4(text)}, errOK: true, loose: true}
		}
		return mustErr()
	case "password":
		return mustVal(strfmt.Password(text))
	case "x-color":
		if reHexColor.MatchString(text) {
			return mustVal(hexColor(strings.ToLower(text)))
		}
		return mustErr()
	}
	return lit{errOK: true, any: true}
}

// zeroValue is what an absent or empty parameter without default denotes.
func zeroValue(tpe, format string) interface{} {
	t, ok := goType(tpe, format)
	if !ok {
		return nil
	}
	return reflect.Zero(t).Interface()
}

// zeroExpects: the admissible readings of "no value" for a type. The format library documents the Unix epoch
// as the zero value of date-time; Go's zero time is the other reading.
func zeroExpects(tpe, format string) []expect {
	out := []expect{{scalar: zeroValue(tpe, format)}}
	if tpe == "string" && format == "date-time" {
		out = append(out, expect{scalar: strfmt.DateTime(time.Unix(0, 0).UTC())})
	}
	return out
}

// zeroInvalid: the zero value of the Go type is not a valid literal of the declared format.
func zeroInvalid(tpe, format string) bool {
	return tpe == "string" && (format == "uuid" || format == "email" || format == "ipv4" || format == "x-color")
}

func zeroLit(tpe, format string) lit {
	var l lit
	if zeroInvalid(tpe, format) {
		l.errOK, l.loose = true, true
	}
	for _, e := range zeroExpects(tpe, format) {
		l.vals = append(l.vals, e.scalar)
	}
	return l
}

// jsonScalar converts a JSON default / enum member to the declared Go type. ok is false when the JSON value
// does not conform to the type (such declarations are outside the generated domain).
func jsonScalar(tpe, format, raw string) (interface{}, bool) {
	raw = strings.TrimSpace(raw)
	switch tpe {
	case "boolean":
		switch raw {
		case "true":
			return true, true
		case "false":
			return false, true
		}
		return nil, false
	case "integer":
		// JSON numbers travel as float64: integers beyond 2^53 are not representable in the description
		bi, ok := new(big.Int).SetString(raw, 10)
		if !ok {
			return nil, false
		}
		lim := new(big.Int).Lsh(big.NewInt(1), uint(intBits(format)-1))
		lim53 := new(big.Int).Lsh(big.NewInt(1), 53)
		if bi.Cmp(lim) >= 0 || bi.Cmp(new(big.Int).Neg(lim)) < 0 || new(big.Int).Abs(bi).Cmp(lim53) > 0 {
			return nil, false
		}
		return intOfWidth(bi.Int64(), format), true
	case "number":
		if !reDecimal.MatchString(raw) {
			return nil, false
		}
		v, err := strconv.ParseFloat(raw, 64)
		if err != nil {
			return nil, false
		}
		if format == "float" {
			if math.Abs(v) > math.MaxFloat32 {
				return nil, false
			}
			return float32(v), true
		}
		return v, true
	case "string":
		var s string
		if err := json.Unmarshal([]byte(raw), &s); err != nil {
			return nil, false
		}
		if s == "" {
			return zeroValue(tpe, format), format == "" || format == "x-unregistered"
		}
		l := stringLiteral(format, s)
		if len(l.vals) != 1 || l.errOK || l.any {
			return nil, false
		}
		return l.vals[0], true
	}
	return nil, false
}

// defaultValue is the declared default as the handler must receive it.
func defaultValue(d Decl) (interface{}, bool) {
	if d.Default == "" {
		return nil, false
	}
	if !d.isArray() {
		return jsonScalar(d.Type, d.Format, d.Default)
	}
	var raws []json.RawMessage
	if err := json.Unmarshal([]byte(d.Default), &raws); err != nil {
		return nil, false
	}
	it, ok := goType(d.ItemType, d.ItemFormat)
	if !ok {
		return nil, false
	}
	out := reflect.MakeSlice(reflect.SliceOf(it), 0, len(raws))
	for _, r := range raws {
		v, ok := jsonScalar(d.ItemType, d.ItemFormat, string(r))
		if !ok {
			return nil, false
		}
		out = reflect.Append(out, reflect.ValueOf(v))
	}
	return out.Interface(), true
}

// Validation ------------------------------------------------------------------------------------------

type tri int

const (
	pass tri = iota
	fail
	unsure // the statement does not decide (NaN against a bound, invalid UTF-8 against a length ...)
)

func ratOf(v interface{}) (*big.Rat, bool) {
	switch x := v.(type) {
	case int8:
		return new(big.Rat).SetInt64(int64(x)), true
	case int16:
		return new(big.Rat).SetInt64(int64(x)), true
	case int32:
		return new(big.Rat).SetInt64(int64(x)), true
	case int64:
		return new(big.Rat).SetInt64(x), true
	case float32:
		f := float64(x)
		if math.IsNaN(f) || math.IsInf(f, 0) {
			return nil, false
		}
		return new(big.Rat).SetFloat64(f), true
	case float64:
		if math.IsNaN(x) || math.IsInf(x, 0) {
			return nil, false
		}
		return new(big.Rat).SetFloat64(x), true
	}
	return nil, false
}

func ratOfJSON(raw string) (*big.Rat, bool) {
	f, err := strconv.ParseFloat(strings.TrimSpace(raw), 64)
	if err != nil || math.IsNaN(f) || math.IsInf(f, 0) {
		return nil, false
	}
	return new(big.Rat).SetFloat64(f), true
}

// validate judges a bound value against the declared validations.
func validate(tpe, format string, v Valid, val interface{}) tri {
	if v.empty() {
		return pass
	}
	res := pass
	worse := func(t tri) {
		if t == fail || (t == unsure && res == pass) {
			res = t
		}
	}
	switch tpe {
	case "integer", "number":
		r, ok := ratOf(val)
		if v.Min != "" || v.Max != "" {
			if !ok {
				worse(unsure)
			} else {
				if v.Min != "" {
					if b, ok := ratOfJSON(v.Min); ok {
						c := r.Cmp(b)
						if c < 0 || (c == 0 && v.ExclMin) {
							worse(fail)
						}
					} else {
						worse(unsure)
					}
				}
				if v.Max != "" {
					if b, ok := ratOfJSON(v.Max); ok {
						c := r.Cmp(b)
						if c > 0 || (c == 0 && v.ExclMax) {
							worse(fail)
						}
					} else {
						worse(unsure)
					}
				}
			}
		}
		if len(v.Enum) > 0 {
			if !ok {
				worse(unsure)
			} else {
				found := false
				for _, e := range v.Enum {
					if b, ok := ratOfJSON(e); ok && b.Cmp(r) == 0 {
						found = true
					}
				}
				if !found {
					worse(fail)
				}
			}
		}
	case "string":
		s, isString := val.(string)
		if !isString {
			// validations of format-typed strings are outside the generated domain
			return unsure
		}
		if v.MinLen != nil || v.MaxLen != nil {
			n := utf8.RuneCountInString(s)
			if !utf8.ValidString(s) {
				// characters of an ill-formed string: bytes or replacement runes, both defensible
				nb := len(s)
				lo, hi := n, nb
				if v.MinLen != nil && (lo < *v.MinLen) != (hi < *v.MinLen) {
					worse(unsure)
				}
				if v.MaxLen != nil && (lo > *v.MaxLen) != (hi > *v.MaxLen) {
					worse(unsure)
				}
			}
			if v.MinLen != nil && n < *v.MinLen {
				worse(fail)
			}
			if v.MaxLen != nil && n > *v.MaxLen {
				worse(fail)
			}
		}
		if len(v.Enum) > 0 {
			found := false
			for _, e := range v.Enum {
				var es string
				if json.Unmarshal([]byte(e), &es) == nil && es == s {
					found = true
				}
			}
			if !found {
				worse(fail)
			}
		}
	case "boolean":
		if len(v.Enum) > 0 {
			b, _ := val.(bool)
			found := false
			for _, e := range v.Enum {
				if strings.TrimSpace(e) == strconv.FormatBool(b) {
					found = true
				}
			}
			if !found {
				worse(fail)
			}
		}
	}
	return res
}

// Verdict ---------------------------------------------------------------------------------------------

// expect is one admissible bound value: a scalar, or an array given as the admissible values per position.
type expect struct {
	scalar  interface{}
	isArr   bool
	items   [][]interface{}
	anyItem []bool // position i: any value of the item type
}

// verdict is the set of admissible outcomes for one parameter of one request.
type verdict struct {
	typ       reflect.Type // dynamic type the handler must see
	errOK     bool         // a 422 naming this parameter is admissible
	exps      []expect     // admissible values (empty: the request must be rejected)
	anyVal    bool         // any value of typ is admissible
	missingOK bool         // the key may be missing from the bound map (absent optional parameter without default)
	// classification
	why   string // short reason, for messages
	loose bool   // a tolerant clause was used
}

func (v verdict) mustFail() bool { return v.errOK && len(v.exps) == 0 && !v.anyVal }
func (v verdict) mustBind() bool { return !v.errOK }

func last(vals []string) string {
	if len(vals) == 0 {
		return ""
	}
	return vals[len(vals)-1]
}

// splitItems is the documented contract of the non-multi collection formats: split at the separator, trim,
// drop empty items.
func splitItems(text, sep string) []string {
	if text == "" {
		return nil
	}
	var out []string
	for _, s := range strings.Split(text, sep) {
		if ts := strings.TrimSpace(s); ts != "" {
			out = append(out, ts)
		}
	}
	return out
}

// Model gives the verdict for declaration d when the client sent the occurrences vals (nil: absent).
func Model(d Decl, vals []string) verdict {
	present := len(vals) > 0
	vd := verdict{typ: d.goType()}
	def, hasDef := defaultValue(d)

	if !d.isArray() {
		text := last(vals)
		if (!present || (text == "" && !d.AllowEmpty)) && d.Required && !hasDef {
			vd.errOK, vd.why = true, "required parameter absent or empty"
			return vd
		}
		if text == "" {
			// absent or empty: the declared default, else the zero value
			fb := zeroValue(d.Type, d.Format)
			vd.why = "absent or empty -> zero value"
			if hasDef {
				fb, vd.why = def, "absent or empty -> default"
			} else if !present {
				vd.missingOK = true
			}
			switch validate(d.Type, d.Format, d.V, fb) {
			case pass:
				vd.exps = []expect{{scalar: fb}}
				if !hasDef {
					vd.exps = zeroExpects(d.Type, d.Format)
					if zeroInvalid(d.Type, d.Format) {
						// the zero value "" is itself no literal of the declared format (uuid, email, ipv4): like a zero
						// value that violates a declared validation, either outcome is admissible
						vd.errOK, vd.loose = true, true
					}
				}
			default:
				// the fallback value violates a declared validation: the statement does not say whether the
				// validation applies to a value the client did not send
				vd.exps = []expect{{scalar: fb}}
				vd.errOK, vd.loose = true, true
				vd.why += " (violates a validation: either outcome)"
			}
			return vd
		}
		l := literal(d.Type, d.Format, text)
		vd.errOK, vd.anyVal, vd.loose = l.errOK, l.any, l.loose
		vd.why = "literal"
		for _, v := range l.vals {
			switch validate(d.Type, d.Format, d.V, v) {
			case pass:
				vd.exps = append(vd.exps, expect{scalar: v})
			case fail:
				vd.errOK = true
				vd.why = "validation fails"
			case unsure:
				vd.exps = append(vd.exps, expect{scalar: v})
				vd.errOK, vd.loose = true, true
			}
		}
		if l.any && !d.V.empty() {
			vd.errOK = true
		}
		return vd
	}

	// arrays
	var items []string
	if d.multi() {
		items = vals
	} else if present {
		items = splitItems(last(vals), d.sep())
	}
	sz := len(items)
	if (!present || (sz == 0 && !d.AllowEmpty)) && d.Required && !hasDef {
		vd.errOK, vd.why = true, "required array absent or empty"
		return vd
	}
	countOK := func(n int) tri {
		if d.MinItems != nil && n < *d.MinItems {
			return fail
		}
		if d.MaxItems != nil && n > *d.MaxItems {
			return fail
		}
		return pass
	}
	fallback := func() {
		it, _ := goType(d.ItemType, d.ItemFormat)
		var fb interface{} = reflect.MakeSlice(reflect.SliceOf(it), 0, 0).Interface()
		vd.why = "absent or empty -> empty array"
		if hasDef {
			fb, vd.why = def, "absent or empty -> default"
		} else if !present {
			vd.missingOK = true
		}
		fv := reflect.ValueOf(fb)
		e := expect{isArr: true}
		ok := countOK(fv.Len())
		for i := 0; i < fv.Len(); i++ {
			x := fv.Index(i).Interface()
			e.items = append(e.items, []interface{}{x})
			e.anyItem = append(e.anyItem, false)
			if validate(d.ItemType, d.ItemFormat, d.ItemV, x) != pass {
				ok = unsure
			}
		}
		vd.exps = append(vd.exps, e)
		if ok != pass {
			vd.errOK, vd.loose = true, true
			vd.why += " (violates a validation: either outcome)"
		}
	}
	if sz == 0 {
		fallback()
		return vd
	}
	hasEmpty := false
	for _, it := range items {
		if it == "" {
			hasEmpty = true
		}
	}
	// build judges one reading of the item texts; ok is false when that reading must be rejected
	build := func(texts []string) (e expect, ok bool) {
		e.isArr, ok = true, true
		for _, it := range texts {
			var l lit
			if it == "" {
				l = zeroLit(d.ItemType, d.ItemFormat)
			} else {
				l = literal(d.ItemType, d.ItemFormat, it)
			}
			if l.errOK {
				vd.errOK = true
			}
			if l.loose {
				vd.loose = true
			}
			var adm []interface{}
			for _, v := range l.vals {
				switch validate(d.ItemType, d.ItemFormat, d.ItemV, v) {
				case pass:
					adm = append(adm, v)
				case fail:
					vd.errOK = true
					vd.why = "item validation fails"
				case unsure:
					adm = append(adm, v)
					vd.errOK, vd.loose = true, true
				}
			}
			if l.any && !d.ItemV.empty() {
				vd.errOK = true
			}
			if len(adm) == 0 && !l.any {
				ok = false
			}
			e.items = append(e.items, adm)
			e.anyItem = append(e.anyItem, l.any)
		}
		if countOK(len(texts)) == fail {
			vd.errOK, ok = true, false
			vd.why = "minItems/maxItems fails"
		}
		return e, ok
	}
	vd.why = "items"
	if !hasEmpty {
		if e, ok := build(items); ok {
			vd.exps = append(vd.exps, e)
		}
		return vd
	}
	// Empty occurrences among the repeated values of a multi array (`p=` alone, or `p=1&p=&p=2`): the statement
	// does not say whether an empty occurrence is an item (then it denotes the zero value, as an empty scalar
	// does), is dropped like the empty items of the split formats, or makes the request invalid. All three
	// readings are admissible.
	vd.errOK, vd.loose = true, true
	vd.why = "empty occurrence among repeated values (open: zero-value item, dropped, or 422)"
	if e, ok := build(items); ok {
		vd.exps = append(vd.exps, e)
	}
	var kept []string
	for _, it := range items {
		if it != "" {
			kept = append(kept, it)
		}
	}
	if len(kept) == 0 {
		why := vd.why
		fallback()
		vd.why = why
		vd.missingOK = false
	} else if e, ok := build(kept); ok {
		vd.exps = append(vd.exps, e)
	}
	return vd
}

// Matching --------------------------------------------------------------------------------------------

func sameScalar(got, want interface{}) bool {
	if got == nil || want == nil {
		return got == nil && want == nil
	}
	if reflect.TypeOf(got) != reflect.TypeOf(want) {
		return false
	}
	switch w := want.(type) {
	case float64:
		g := got.(float64)
		return g == w || (math.IsNaN(g) && math.IsNaN(w))
	case float32:
		g := got.(float32)
		return g == w || (g != g && w != w)
	case strfmt.Date:
		return time.Time(got.(strfmt.Date)).Equal(time.Time(w))
	case strfmt.DateTime:
		return time.Time(got.(strfmt.DateTime)).Equal(time.Time(w))
	case strfmt.Base64:
		return bytes.Equal(got.(strfmt.Base64), w)
	}
	return reflect.DeepEqual(got, want)
}

// matches reports whether the bound value got is admissible under the verdict.
func (v verdict) matches(got interface{}) bool {
	if got == nil {
		return false
	}
	if v.typ != nil && reflect.TypeOf(got) != v.typ {
		return false
	}
	if v.anyVal {
		return true
	}
	for _, e := range v.exps {
		if !e.isArr {
			if sameScalar(got, e.scalar) {
				return true
			}
			continue
		}
		gv := reflect.ValueOf(got)
		if gv.Kind() != reflect.Slice || gv.Len() != len(e.items) {
			continue
		}
		all := true
		for i := range e.items {
			if e.anyItem[i] {
				continue
			}
			one := false
			for _, w := range e.items[i] {
				if sameScalar(gv.Index(i).Interface(), w) {
					one = true
					break
				}
			}
			if !one {
				all = false
				break
			}
		}
		if all {
			return true
		}
	}
	return false
}

func (v verdict) describe() string {
	var b strings.Builder
	b.WriteString(v.why)
	b.WriteString(": ")
	if v.errOK {
		b.WriteString("422")
	}
	if v.anyVal {
		if v.errOK {
			b.WriteString(" or ")
		}
		b.WriteString("any " + typeName(v.typ))
	}
	for i, e := range v.exps {
		if i > 0 || v.errOK || v.anyVal {
			b.WriteString(" or ")
		}
		if !e.isArr {
			b.WriteString(show(e.scalar))
			continue
		}
		b.WriteString("[")
		for j, it := range e.items {
			if j > 0 {
				b.WriteString(", ")
			}
			if e.anyItem[j] {
				b.WriteString("*")
				continue
			}
			for k, x := range it {
				if k > 0 {
					b.WriteString("|")
				}
				b.WriteString(show(x))
			}
		}
		b.WriteString("] of " + typeName(v.typ))
	}
	return b.String()
}

func typeName(t reflect.Type) string {
	if t == nil {
		return "?"
	}
	return t.String()
}
