package c01

import "verif/harness/kit"

const rule = "API descriptions (base path none, '/', plain, with trailing slash, two levels; templates of literal and whole-segment {name} segments, " +
	"many derived from one another so that static/parameterised siblings and shared prefixes are common; sparse method subsets) " +
	"x request lines parsed by http.ReadRequest (instantiations with hostile values escaped fully/minimally/raw/mixed-case, mutations: dropped, doubled, " +
	"appended segments, trailing and duplicate slashes, dot segments, %2e, a literal byte percent-encoded, reserved bytes stuck on, sibling literals; free targets, " +
	"'*', absolute form, query strings) x methods in any letter case incl. unregistered ones; " +
	"oracle = reference matcher on the lexically cleaned EscapedPath (literal over placeholder, PathUnescape of the instantiating texts, exact Allow set, 404), " +
	"demanded of RoutesHandler, of APIHandler and of LookupRoute/AllowedMethods; " +
	"non-trivial = some request fits >=1 template and (>=2 templates fit under one method, or a value has a reserved/escaped byte, or the path needed cleaning, " +
	"or the method is not upper case, or the answer is 405); distinct by hash of the whole case"

// Props lists the generated checks of C01.
func Props() []kit.Runner {
	return []kit.Runner{
		kit.Prop[Case]{ID: "C01", Name: "dispatch", Rule: rule + "; 1-6 templates, 8 requests per description", Quick: 1500, Thorough: 2500,
			Gen: GenDispatch, Check: Check, Classify: Classify},
		kit.Prop[Case]{ID: "C01", Name: "catalogue", Rule: rule + "; a fixed catalogue of 10 descriptions (built once per process), 16 requests per case", Quick: 20000, Thorough: 30000,
			Gen: GenCatalogue, Check: Check, Classify: Classify},
		kit.Prop[Case]{ID: "C01", Name: "composite", Rule: rule + "; positive-only subclass: templates with in-segment placeholders ('{x}.{y}', '{id}.json'), judged only on requests " +
			"whose texts for such segments are non-empty and free of the segment's separators as sent and decoded", Quick: 1200, Thorough: 800,
			Gen: GenComposite, Check: Check, Classify: Classify},
		kit.Prop[Case]{ID: "C01", Name: "large", Rule: rule + "; tables of 50-300 templates over a 36-literal vocabulary, 30 requests per table", Quick: 60, Thorough: 50,
			Gen: GenLarge, Check: Check, Classify: Classify, SampleLimit: 600},
	}
}
