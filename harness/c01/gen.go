package c01

import (
	"fmt"
	"sort"
	"strings"

	"pgregory.net/rapid"

	"verif/harness/kit"
)

// Generators --------------------------------------------------------------------------------------------

var bases = []string{"", "", "/", "/api", "/api/", "/api/v1", "/a", "/a/", "/v.1/x-y/", "/api//v1", "/api/./v1/", "//a"} // the last three need cleaning (r6)

// a tiny literal vocabulary, so that templates share prefixes and collide with each other and with values
var lits = []string{"a", "b", "ab", "pets", "v.1", "x-y", "~", "a_b", "..a", "a.", "0", "api"}

// literal text with the punctuation a path segment may carry unescaped (sub-delims, a spelled-out escape): a request
// line delivers these bytes as they are, so the template's literal has to be matched as it is written (r7)
var punctLits = []string{"a", "b", "ab", "a,b", "m;v", "f(x)", "it's", "a!b", "5%25", "$a", "a&b", "a+b", "@a"}

var largeLits = []string{"a", "ab", "abc", "abd", "api", "apis", "v1", "v2", "v10", "user", "users", "u", "b", "ba",
	"item", "items", "x.y", "x.z", "x", "-", "_", "~", "0", "00", "01", "pets", "pet", "p", "z", "zz", "a.b", "a.", ".a",
	"long-literal-segment", "long-literal-segment-2", "long-literal"}

// hostile decoded values (DESIGN.md section 3 "Alphabets", and the bytes the trie router reserves)
var hostile = []string{":", "*", "#", "=", ";k=v", "a:b", ":a", "a*", "*a", "#a", "a#", "x#y", ":id", "a=b", "=a", "a=", ";", "a;b=c",
	"%", "/", "a/b", "/a", "a/", "..", ".", "...", "..a", "ü", "€", "😀", "\xff", "\xc3", " ", "a b", " a", "+", "a+b", "@", "$", "!", "'",
	"(", ")", ",", "{x}", "{p0}", "?", "a?b", "\\", "\"", "<", ">", "|", "^", "`", "[", "]", "%2F", "%25", "%2e%2e", "%zz",
	"a", "b", "ab", "pets", "x", "0", "&", "a&b", "~", "-", "_", "\t", "\x7f", "\x01", "::", "**", "##", ":*#=", "a:b*c#d=e"}

func genValue(t *rapid.T) string {
	switch rapid.IntRange(0, 9).Draw(t, "valsrc") {
	case 0, 1, 2, 3, 4, 5:
		return rapid.SampledFrom(hostile).Draw(t, "hostile")
	case 6, 7:
		return rapid.StringN(1, 5, -1).Draw(t, "runes")
	default:
		n := rapid.IntRange(1, 4).Draw(t, "nbytes")
		b := make([]byte, n)
		for i := range b {
			switch rapid.IntRange(0, 3).Draw(t, "bytecls") {
			case 0:
				b[i] = rapid.SampledFrom([]byte(":*#=/;%.")).Draw(t, "rb")
			case 1:
				b[i] = rapid.SampledFrom([]byte("ab0")).Draw(t, "pb")
			default:
				b[i] = rapid.Byte().Draw(t, "anyb")
			}
		}
		return string(b)
	}
}

// mustEncode: bytes that cannot travel raw inside one path segment of a request line.
func mustEncode(b byte) bool {
	return b <= 0x20 || b >= 0x7f || strings.IndexByte("/?%", b) >= 0
}

func customarilyEncoded(b byte) bool {
	return mustEncode(b) || strings.IndexByte("#\"<>\\^`{|}[]", b) >= 0
}

func pct(b byte, lower bool) string {
	if lower {
		return fmt.Sprintf("%%%02x", b)
	}
	return fmt.Sprintf("%%%02X", b)
}

// encodeValue writes a decoded value as one path segment: fully escaped, minimally escaped (what a careful
// client sends), raw wherever the request line tolerates it, or a per-byte mix with mixed-case hex digits.
func encodeValue(t *rapid.T, v string) string {
	mode := rapid.IntRange(0, 3).Draw(t, "encmode")
	var b strings.Builder
	for i := 0; i < len(v); i++ {
		c := v[i]
		switch mode {
		case 0: // full
			b.WriteString(pct(c, false))
		case 1: // minimal
			if customarilyEncoded(c) {
				b.WriteString(pct(c, false))
			} else {
				b.WriteByte(c)
			}
		case 2: // raw where possible
			if mustEncode(c) && !(c >= 0x80 && rapid.Bool().Draw(t, "rawhigh")) {
				b.WriteString(pct(c, false))
			} else {
				b.WriteByte(c)
			}
		default: // mixed
			if customarilyEncoded(c) || rapid.IntRange(0, 2).Draw(t, "encthis") == 0 {
				b.WriteString(pct(c, rapid.Bool().Draw(t, "lowerhex")))
			} else {
				b.WriteByte(c)
			}
		}
	}
	return b.String()
}

func genMethods(t *rapid.T) []string {
	var ms []string
	// sparse subsets, so that 405 answers are common
	p := rapid.IntRange(1, 4).Draw(t, "mdensity")
	for _, me := range swaggerMethods {
		if rapid.IntRange(0, 5).Draw(t, "hasm") < p {
			ms = append(ms, me)
		}
	}
	if len(ms) == 0 {
		ms = []string{rapid.SampledFrom(swaggerMethods).Draw(t, "onem")}
	}
	return ms
}

func rename(segs []string) string {
	n := 0
	out := make([]string, len(segs))
	for i, s := range segs {
		if s == "{}" {
			out[i] = fmt.Sprintf("{p%d}", n)
			// placeholder names are the description's business: dots, colons and non-ASCII letters occur (r9)
			switch (len(segs) + i) % 5 {
			case 1:
				out[i] = fmt.Sprintf("{user.id%d}", n)
			case 3:
				out[i] = fmt.Sprintf("{order:no%d}", n)
			case 4:
				out[i] = fmt.Sprintf("{größe%d}", n)
			}
			n++
		} else {
			out[i] = s
		}
	}
	return "/" + strings.Join(out, "/")
}

// genShape draws a template as a list of literals and "{}" marks; half of the time it is derived from an
// earlier template (flip one segment between literal and placeholder, change a literal, extend, shorten), which
// is what produces static/parameterised siblings and shared prefixes.
func genShape(t *rapid.T, prev [][]string, vocab []string, maxSeg int) []string {
	if len(prev) > 0 && rapid.IntRange(0, 9).Draw(t, "derive") < 6 {
		src := prev[rapid.IntRange(0, len(prev)-1).Draw(t, "src")]
		s := append([]string{}, src...)
		i := rapid.IntRange(0, len(s)-1).Draw(t, "at")
		switch rapid.IntRange(0, 4).Draw(t, "how") {
		case 0, 1:
			if s[i] == "{}" {
				s[i] = rapid.SampledFrom(vocab).Draw(t, "lit")
			} else {
				s[i] = "{}"
			}
		case 2:
			s[i] = rapid.SampledFrom(vocab).Draw(t, "lit")
		case 3:
			if len(s) < maxSeg {
				if rapid.Bool().Draw(t, "extp") {
					s = append(s, "{}")
				} else {
					s = append(s, rapid.SampledFrom(vocab).Draw(t, "lit"))
				}
			}
		default:
			if len(s) > 1 {
				s = s[:len(s)-1]
			}
		}
		return s
	}
	n := rapid.IntRange(1, maxSeg).Draw(t, "nseg")
	var s []string
	for j := 0; j < n; j++ {
		if rapid.IntRange(0, 2).Draw(t, "isp") == 0 {
			s = append(s, "{}")
		} else {
			s = append(s, rapid.SampledFrom(vocab).Draw(t, "lit"))
		}
	}
	return s
}

func genTemplates(t *rapid.T, want int, vocab []string, maxSeg int, rootOK bool) []Tmpl {
	seen := map[string]bool{}
	var shapes [][]string
	var out []Tmpl
	if rootOK && rapid.IntRange(0, 7).Draw(t, "root") == 0 {
		out = append(out, Tmpl{Path: "/", Methods: genMethods(t)})
		seen[""] = true
	}
	// a derived shape often collides with an existing one: large tables keep drawing until they are full
	tries := want
	if want >= 20 {
		tries = 6 * want
	}
	for i := 0; i < tries && len(shapes) < want; i++ {
		s := genShape(t, shapes, vocab, maxSeg)
		key := "/" + strings.Join(s, "/")
		if seen[key] {
			continue
		}
		seen[key] = true
		shapes = append(shapes, s)
		out = append(out, Tmpl{Path: rename(s), Methods: genMethods(t)})
	}
	// a parameter-free template whose last segment carries a literal ':' ("/files:upload", the custom-verb style): the
	// trie router reserves that byte in parameterised patterns only, a purely literal template is matched as it stands
	if rapid.IntRange(0, 4).Draw(t, "colon-literal") == 0 {
		var segs []string
		for i, n := 0, rapid.IntRange(0, 1).Draw(t, "colon-prefix-segments"); i < n; i++ {
			segs = append(segs, rapid.SampledFrom(vocab).Draw(t, "colon-prefix"))
		}
		segs = append(segs, rapid.SampledFrom(vocab).Draw(t, "colon-stem")+":"+rapid.SampledFrom([]string{"b", "upload", "x", "a"}).Draw(t, "colon-verb"))
		key := "/" + strings.Join(segs, "/")
		if !seen[key] {
			seen[key] = true
			out = append(out, Tmpl{Path: key, Methods: genMethods(t)})
		}
	}
	if len(out) == 0 {
		out = append(out, Tmpl{Path: "/a", Methods: []string{"get"}})
	}
	return out
}

var oddMethods = []string{"TRACE", "trace", "FOO", "PROPFIND", "GETS", "GE", "QUERY"}

func genMethod(t *rapid.T, own []string) string {
	var me string
	switch rapid.IntRange(0, 9).Draw(t, "msrc") {
	case 0:
		return rapid.SampledFrom(oddMethods).Draw(t, "odd")
	case 1, 2, 3:
		me = rapid.SampledFrom(swaggerMethods).Draw(t, "anym")
	default:
		me = rapid.SampledFrom(own).Draw(t, "ownm")
	}
	switch rapid.IntRange(0, 5).Draw(t, "mcase") {
	case 0:
		return me // lower
	case 1:
		return strings.ToUpper(me[:1]) + me[1:]
	case 2:
		u := strings.ToUpper(me)
		i := rapid.IntRange(0, len(u)-1).Draw(t, "flip")
		return u[:i] + strings.ToLower(u[i:i+1]) + u[i+1:]
	default:
		return strings.ToUpper(me)
	}
}

func instantiate(t *rapid.T, segs []seg) []string {
	var out []string
	for _, s := range segs {
		switch {
		case s.literal():
			out = append(out, s.Parts[0].Lit)
		case s.whole():
			out = append(out, encodeValue(t, genValue(t)))
		default:
			out = append(out, instantiateComposite(t, s))
		}
	}
	return out
}

// genTarget draws a request target for the API: an instantiation of one of its templates, a mutation of an
// instantiation, or free segments; then optionally decorated in ways that must not matter (query string,
// absolute form).
func genTarget(t *rapid.T, api parsedAPI, vocab []string) string {
	mode := rapid.IntRange(0, 19).Draw(t, "tmode")
	var segs []string
	if mode == 19 {
		if rapid.IntRange(0, 3).Draw(t, "star") == 0 {
			return rapid.SampledFrom([]string{"*", "/", "//", "/.", "/..", "http://example.test", "http://example.test/"}).Draw(t, "special")
		}
		n := rapid.IntRange(0, 5).Draw(t, "nfree")
		for i := 0; i < n; i++ {
			if rapid.Bool().Draw(t, "freelit") {
				segs = append(segs, rapid.SampledFrom(vocab).Draw(t, "fl"))
			} else {
				segs = append(segs, encodeValue(t, genValue(t)))
			}
		}
	} else {
		ti := rapid.IntRange(0, len(api.Tmpls)-1).Draw(t, "pick")
		segs = append(segs, api.Base...)
		segs = append(segs, instantiate(t, api.Tmpls[ti])...)
		if mode >= 10 {
			segs = mutate(t, segs, vocab)
		}
	}
	target := "/" + strings.Join(segs, "/")
	switch rapid.IntRange(0, 11).Draw(t, "decor") {
	case 0:
		target += "?" + rapid.SampledFrom([]string{"", "x=1", "a=b&c=d", "/a/b", "p0=z", "%2F"}).Draw(t, "query")
	case 1:
		target = "http://example.test" + target
	}
	return target
}

func mutate(t *rapid.T, segs []string, vocab []string) []string {
	if len(segs) == 0 {
		return append(segs, rapid.SampledFrom([]string{"", ".", "..", "a"}).Draw(t, "rootmut"))
	}
	i := rapid.IntRange(0, len(segs)-1).Draw(t, "mutat")
	for j, sg := range segs {
		// a segment with a literal ':' is the interesting one to damage: keep the stem, change what follows
		if k := strings.IndexByte(sg, ':'); k > 0 && !strings.Contains(sg, "%") && rapid.Bool().Draw(t, "colon-tail") {
			segs[j] = sg[:k] + rapid.SampledFrom([]string{"", ":", ":c", "b", "system", ":" + sg[k+1:] + "x", "-2"}).Draw(t, "tail")
			return segs
		}
	}
	switch rapid.IntRange(0, 9).Draw(t, "mut") {
	case 0: // drop a segment
		return append(segs[:i:i], segs[i+1:]...)
	case 1: // duplicate a segment
		return append(segs[:i+1:i+1], segs[i:]...)
	case 2: // trailing slash(es)
		segs = append(segs, "")
		if rapid.Bool().Draw(t, "two") {
			segs = append(segs, "")
		}
		return segs
	case 3, 4: // noise that cleaning removes: "//", "/./", "/x/../", or that it does not: "/../", "/%2e/"
		j := rapid.IntRange(0, len(segs)).Draw(t, "insat")
		ins := rapid.SampledFrom([]string{"", ".", "zz/..", "a/..", "./.", "", ".", "..", "%2e", "%2E%2E", "extra", "a/../.."}).Draw(t, "ins")
		return append(segs[:j:j], append([]string{ins}, segs[j:]...)...)
	case 5: // replace by a literal of the vocabulary (a sibling's literal)
		segs[i] = rapid.SampledFrom(vocab).Draw(t, "repl")
		return segs
	case 6: // replace by a value
		segs[i] = encodeValue(t, genValue(t))
		return segs
	case 7: // percent-encode one byte of the segment (for a literal: "%61" is not "a")
		s := segs[i]
		if s != "" && !strings.Contains(s, "%") {
			k := rapid.IntRange(0, len(s)-1).Draw(t, "encat")
			segs[i] = s[:k] + pct(s[k], rapid.Bool().Draw(t, "lowerhex")) + s[k+1:]
		}
		return segs
	case 8: // append a segment
		return append(segs, rapid.SampledFrom(vocab).Draw(t, "app"))
	default: // stick a reserved byte to a segment
		c := string(rapid.SampledFrom([]byte(":*#=;")).Draw(t, "resv"))
		if rapid.Bool().Draw(t, "front") {
			segs[i] = c + segs[i]
		} else {
			segs[i] += c
		}
		return segs
	}
}

func allMethodsOf(ts []Tmpl) []string {
	set := map[string]bool{}
	for _, t := range ts {
		for _, me := range t.Methods {
			set[me] = true
		}
	}
	var out []string
	for me := range set {
		out = append(out, me)
	}
	sort.Strings(out)
	return out
}

func genReqs(t *rapid.T, c Case, n int, vocab []string) []Req {
	api, _ := parseAPI(c)
	own := allMethodsOf(c.Tmpls)
	var out []Req
	for i := 0; i < n; i++ {
		// a draw that shrinks towards "leave this request out", so that minimal cases carry few requests
		if rapid.IntRange(0, 15).Draw(t, "keepreq") == 0 {
			continue
		}
		r := Req{Method: genMethod(t, own), Target: kit.BStr(genTarget(t, api, vocab))}
		if rapid.IntRange(0, 4).Draw(t, "foreign-accept") == 0 {
			r.Accept = rapid.SampledFrom([]string{"text/csv", "image/png", "application/xml;q=0.5", "text/html, image/*"}).Draw(t, "accept")
		}
		if rapid.IntRange(0, 7).Draw(t, "context-over") == 0 {
			r.Ctx = rapid.SampledFrom([]string{"cancelled", "expired"}).Draw(t, "context")
		}
		if _, err := readRequest(r); err != nil {
			continue // only request lines net/http can deliver
		}
		out = append(out, r)
	}
	return out
}

// GenDispatch: a small API (1-6 templates over a tiny vocabulary) and 8 requests.
func GenDispatch(t *rapid.T) Case {
	c := Case{Base: rapid.SampledFrom(bases).Draw(t, "base")}
	vocab := lits
	if rapid.IntRange(0, 3).Draw(t, "punctuated-literals") == 0 {
		vocab = punctLits
	}
	c.Tmpls = genTemplates(t, rapid.IntRange(1, 6).Draw(t, "ntmpl"), vocab, 4, len(baseSegs(c.Base)) == 0)
	c.Reqs = genReqs(t, c, 8, vocab)
	return c
}

// GenCatalogue: one of the fixed API descriptions (built once per process) and 16 requests: volume on the
// request side of the product.
func GenCatalogue(t *rapid.T) Case {
	src := Catalogue[rapid.IntRange(0, len(Catalogue)-1).Draw(t, "api")]
	c := Case{Base: src.Base, Tmpls: src.Tmpls}
	c.Reqs = genReqs(t, c, 16, lits)
	return c
}

// GenLarge: a table of 50-300 templates with shared prefixes and 30 requests.
func GenLarge(t *rapid.T) Case {
	c := Case{Base: rapid.SampledFrom(bases).Draw(t, "base")}
	c.Tmpls = genTemplates(t, rapid.IntRange(50, 300).Draw(t, "ntmpl"), largeLits, 5, false)
	c.Reqs = genReqs(t, c, 30, largeLits)
	return c
}

// Composite subclass -------------------------------------------------------------------------------------

var midSeps = []string{".", "-", ":", ",", "_", ";", "="}
var tailSeps = []string{".json", ".xml", ":cancel", "-v2", ".", "_x"}

// genCompositeSeg draws "{pN}<sep>{pN+1}…[<suffix>]" with at least one separator.
func genCompositeSeg(t *rapid.T, next *int) string {
	n := rapid.IntRange(1, 3).Draw(t, "cparts")
	var b strings.Builder
	for i := 0; i < n; i++ {
		if i > 0 {
			b.WriteString(rapid.SampledFrom(midSeps).Draw(t, "midsep"))
		}
		fmt.Fprintf(&b, "{p%d}", *next)
		*next++
	}
	if n == 1 || rapid.Bool().Draw(t, "hastail") {
		b.WriteString(rapid.SampledFrom(tailSeps).Draw(t, "tailsep"))
	}
	return b.String()
}

var compositeSafe = []string{"x", "ab", "a b", "/", "a/b", "ü", "€", "\xff", "%", "?", "#", "*", "+", "@", "0", "pets", "{x}", "\\", "\"", "a", "b", "~", "(", "!", "$", "&", "'"}

// instantiateComposite fills a composite segment with separator-free values (as sent and after decoding).
func instantiateComposite(t *rapid.T, s seg) string {
	// "{name}<literal>": the value may itself contain the literal (reports/q1.json.json)
	if len(s.Parts) == 2 && s.Parts[0].Name != "" && s.Parts[1].Name == "" && rapid.IntRange(0, 2).Draw(t, "cinlit") == 0 {
		lit := s.Parts[1].Lit
		v := rapid.SampledFrom([]string{"q1" + lit, lit, "x" + lit + ".bak", "data" + lit + "l", lit + lit}).Draw(t, "cinlitv")
		return encodeValue(t, v) + lit
	}
	seps := s.seps()
	var b strings.Builder
	for _, p := range s.Parts {
		if p.Name == "" {
			b.WriteString(p.Lit)
			continue
		}
		enc := "x"
		for try := 0; try < 8; try++ {
			v := rapid.SampledFrom(compositeSafe).Draw(t, "cval")
			if rapid.IntRange(0, 3).Draw(t, "crunes") == 0 {
				v = rapid.StringN(1, 4, -1).Draw(t, "crune")
			}
			e := encodeValue(t, v)
			if rapid.IntRange(0, 3).Draw(t, "cplain") == 0 {
				// the plain texts a literal sibling ("/a.json" next to "/{id}.json") is made of
				v = rapid.SampledFrom([]string{"a", "b"}).Draw(t, "cplainv")
				e = v
			}
			ok := v != ""
			for _, sp := range seps {
				if strings.Contains(v, sp) || strings.Contains(e, sp) {
					ok = false
				}
			}
			if ok {
				enc = e
				break
			}
		}
		b.WriteString(enc)
	}
	return b.String()
}

// GenComposite: an API with one to three templates that carry a composite segment, plus ordinary templates,
// and 8 requests that are mostly instantiations of the composite templates.
func GenComposite(t *rapid.T) Case {
	c := Case{Base: rapid.SampledFrom(bases).Draw(t, "base")}
	seen := map[string]bool{}
	var shapes [][]string
	want := rapid.IntRange(1, 5).Draw(t, "ntmpl")
	ncomp := 0
	for i := 0; i < want; i++ {
		s := genShape(t, shapes, lits, 3)
		key := "/" + strings.Join(s, "/")
		if seen[key] {
			continue
		}
		seen[key] = true
		shapes = append(shapes, s)
		// turn placeholders into composite segments: always for the first template that has one
		next := 100
		out := make([]string, len(s))
		n := 0
		for j, x := range s {
			switch {
			case x != "{}":
				out[j] = x
			case ncomp == 0 || rapid.Bool().Draw(t, "mkcomp"):
				out[j] = genCompositeSeg(t, &next)
				ncomp++
			default:
				out[j] = fmt.Sprintf("{p%d}", n)
				n++
			}
		}
		c.Tmpls = append(c.Tmpls, Tmpl{Path: "/" + strings.Join(out, "/"), Methods: genMethods(t)})
	}
	if ncomp == 0 {
		next := 100
		p := "/" + genCompositeSeg(t, &next)
		if !seen["/{}"] {
			c.Tmpls = append(c.Tmpls, Tmpl{Path: p, Methods: genMethods(t)})
		} else {
			c.Tmpls = []Tmpl{{Path: p, Methods: genMethods(t)}}
		}
	}
	// a literal sibling of a composite template: the same template with one composite segment spelled out
	if rapid.IntRange(0, 2).Draw(t, "litsibling") == 0 {
		ti := rapid.IntRange(0, len(c.Tmpls)-1).Draw(t, "sibof")
		segs, _ := parseTemplate(c.Tmpls[ti].Path)
		for j, sg := range segs {
			if !sg.composite() {
				continue
			}
			var b strings.Builder
			for _, p := range sg.Parts {
				if p.Name == "" {
					b.WriteString(p.Lit)
				} else {
					b.WriteString(rapid.SampledFrom([]string{"a", "b"}).Draw(t, "sibval"))
				}
			}
			lit := b.String()
			if strings.Trim(lit, "abcdefghijklmnopqrstuvwxyz0123456789._~-") != "" {
				break // ':' ',' ';' '=' cannot be written literally in a template (the router's own pattern syntax)
			}
			raw := strings.Split(strings.TrimPrefix(c.Tmpls[ti].Path, "/"), "/")
			raw[j] = lit
			sib := Tmpl{Path: "/" + strings.Join(raw, "/"), Methods: genMethods(t)}
			if rapid.Bool().Draw(t, "sibsame") {
				sib.Methods = append([]string{}, c.Tmpls[ti].Methods...)
			}
			probe := Case{Base: c.Base, Tmpls: append(append([]Tmpl{}, c.Tmpls...), sib)}
			if _, why := InDomain(probe); why == "" {
				c.Tmpls = probe.Tmpls
			}
			break
		}
	}
	api, _ := parseAPI(c)
	own := allMethodsOf(c.Tmpls)
	var comp []int
	for i, ts := range api.Tmpls {
		for _, s := range ts {
			if s.composite() {
				comp = append(comp, i)
				break
			}
		}
	}
	for i := 0; i < 8; i++ {
		if rapid.IntRange(0, 15).Draw(t, "keepreq") == 0 {
			continue
		}
		var target string
		if len(comp) > 0 && rapid.IntRange(0, 9).Draw(t, "poscomp") < 7 {
			ti := comp[rapid.IntRange(0, len(comp)-1).Draw(t, "cpick")]
			segs := append(append([]string{}, api.Base...), instantiate(t, api.Tmpls[ti])...)
			if rapid.IntRange(0, 4).Draw(t, "cnoise") == 0 {
				j := rapid.IntRange(0, len(segs)).Draw(t, "cinsat")
				ins := rapid.SampledFrom([]string{"", ".", "zz/.."}).Draw(t, "cins")
				segs = append(segs[:j:j], append([]string{ins}, segs[j:]...)...)
			}
			target = "/" + strings.Join(segs, "/")
			if rapid.IntRange(0, 5).Draw(t, "ctrail") == 0 {
				target += "/"
			}
		} else {
			target = genTarget(t, api, lits)
		}
		me := genMethod(t, own)
		if len(comp) > 0 && rapid.Bool().Draw(t, "cown") {
			me = strings.ToUpper(rapid.SampledFrom(c.Tmpls[comp[0]].Methods).Draw(t, "cm"))
		}
		r := Req{Method: me, Target: kit.BStr(target)}
		if _, err := readRequest(r); err != nil {
			continue
		}
		c.Reqs = append(c.Reqs, r)
	}
	return c
}

// Classification ------------------------------------------------------------------------------------------

func hasReservedOrEscaped(vals map[string]string, path []string) bool {
	for _, v := range vals {
		if strings.ContainsAny(v, ":*#;=/%?") {
			return true
		}
		for i := 0; i < len(v); i++ {
			if v[i] >= 0x80 || v[i] <= 0x20 {
				return true
			}
		}
	}
	for _, s := range path {
		if strings.Contains(s, "%") {
			return true
		}
	}
	return false
}

// Classify implements the non-trivial rule of DESIGN.md C01 per request; a case is non-trivial when one of
// its requests is. Labels say which classes of the product the case touches.
func Classify(c Case) (bool, []string) {
	labels := map[string]bool{}
	api, why := InDomain(c)
	if why != "" {
		return false, []string{"outside the domain: " + why}
	}
	nt := false
	hasComposite := false
	for _, ts := range api.Tmpls {
		for _, s := range ts {
			if s.composite() {
				hasComposite = true
			}
		}
	}
	switch {
	case len(api.Base) == 0 && c.Base == "":
		labels["base: none"] = true
	case len(api.Base) == 0:
		labels["base: /"] = true
	case strings.HasSuffix(c.Base, "/"):
		labels["base: with trailing slash"] = true
	default:
		labels["base: plain"] = true
	}
	if strings.Contains(c.Base, "//") || strings.Contains(c.Base, "/./") {
		labels["base: spelled with duplicate slashes or a '.' segment"] = true
	}
	if len(c.Tmpls) >= 50 {
		labels["table ≥50 templates"] = true
	}
	for _, tm := range c.Tmpls {
		if strings.ContainsAny(tm.Path, ",;()'!%$&+@") {
			labels["template literal with sub-delimiters or a spelled-out escape"] = true
		}
		if strings.Contains(tm.Path, ":") {
			labels["parameter-free template with a literal ':'"] = true
		}
	}
	if len(c.Reqs) == 0 {
		labels["no deliverable request"] = true
	}
	for _, r := range c.Reqs {
		req, err := readRequest(r)
		if err != nil {
			labels["undeliverable request line"] = true
			continue
		}
		r.Method = req.Method
		e := expect(c, api, r.Method, req.URL.EscapedPath())
		if !e.Judged {
			labels["composite: not judged (outside the positive class)"] = true
			continue
		}
		if r.Accept != "" && e.Winner < 0 {
			labels["miss with an Accept header that names nothing the API produces"] = true
		}
		if r.Ctx != "" {
			labels["request whose context is already cancelled or past its deadline"] = true
		}
		upper := r.Method == strings.ToUpper(r.Method)
		if !upper {
			labels["method not upper case"] = true
		}
		cleaned := e.Cleaned != e.Escaped
		if cleaned {
			labels["path needed cleaning"] = true
		}
		if strings.Contains(string(r.Target), "?") {
			labels["target with query"] = true
		}
		if strings.HasPrefix(string(r.Target), "http://") {
			labels["absolute-form target"] = true
		}
		if !isSwaggerMethod(strings.ToLower(r.Method)) {
			labels["method outside Swagger's seven"] = true
		}
		var path []string
		if strings.HasPrefix(e.Cleaned, "/") && e.Cleaned != "/" {
			path = strings.Split(e.Cleaned[1:], "/")
		}
		switch {
		case e.Winner >= 0:
			labels["answer: operation runs"] = true
			if e.NFitsOwn >= 2 {
				labels["≥2 templates fit under the request's method"] = true
			}
			if len(e.Params) == 0 {
				labels["winner is parameter-free"] = true
			}
			if len(e.Params) >= 2 {
				labels["winner has ≥2 parameters"] = true
			}
			if hasComposite {
				for _, s := range api.Tmpls[e.Winner] {
					if s.composite() {
						labels["composite: winner instantiated positively"] = true
					}
				}
			}
			if c.Tmpls[e.Winner].Path == "/" {
				labels["root template wins"] = true
			}
		case len(e.Allow) > 0:
			labels["answer: 405"] = true
			if len(e.Allow) >= 2 {
				labels["405 with ≥2 allowed methods"] = true
			}
		default:
			labels["answer: 404"] = true
		}
		resv := hasReservedOrEscaped(e.Params, path)
		if e.Winner >= 0 && resv {
			labels["value with reserved/escaped byte"] = true
			for _, v := range e.Params {
				if strings.ContainsAny(v, ":*#") {
					labels["value with a trie-reserved byte (: * #)"] = true
				}
				if strings.Contains(v, "/") {
					labels["value with %2F"] = true
				}
				if strings.Contains(v, "%") {
					labels["value with %25"] = true
				}
			}
		}
		if e.NFitsAny >= 1 && (e.MaxPerM >= 2 || resv || cleaned || !upper || e.Winner < 0) {
			nt = true
		}
	}
	var out []string
	for l := range labels {
		out = append(out, l)
	}
	sort.Strings(out)
	return nt, out
}
