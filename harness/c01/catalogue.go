package c01

// Catalogue is the fixed list of API descriptions used by the "catalogue" sub-check and by the native fuzz
// target: each is loaded once per process, so that the request side of the product gets the volume.
var Catalogue = []Case{
	{Base: "", Tmpls: []Tmpl{
		{Path: "/a/{p0}", Methods: []string{"get", "delete"}},
	}},
	{Base: "/", Tmpls: []Tmpl{
		{Path: "/a/{p0}", Methods: []string{"get"}},
		{Path: "/a/b", Methods: []string{"get", "post"}},
		{Path: "/{p0}/b", Methods: []string{"put", "get"}},
		{Path: "/{p0}", Methods: []string{"head"}},
	}},
	{Base: "/api", Tmpls: []Tmpl{
		{Path: "/pets", Methods: []string{"get", "post"}},
		{Path: "/pets/{p0}", Methods: []string{"get", "delete", "patch"}},
		{Path: "/pets/{p0}/photos/{p1}", Methods: []string{"get", "put"}},
		{Path: "/pets/findByStatus", Methods: []string{"get"}},
		{Path: "/{p0}/{p1}", Methods: []string{"options"}},
	}},
	{Base: "/api/", Tmpls: []Tmpl{
		{Path: "/a/b/c", Methods: []string{"get"}},
		{Path: "/a/b/{p0}", Methods: []string{"get", "post"}},
		{Path: "/a/{p0}/c", Methods: []string{"get", "put"}},
		{Path: "/{p0}/b/c", Methods: []string{"get", "delete"}},
		{Path: "/{p0}/{p1}/{p2}", Methods: []string{"patch"}},
	}},
	{Base: "/api/v1", Tmpls: []Tmpl{
		{Path: "/{p0}", Methods: []string{"get"}},
		{Path: "/{p0}/{p1}", Methods: []string{"post"}},
		{Path: "/{p0}/{p1}/{p2}", Methods: []string{"put"}},
		{Path: "/{p0}/{p1}/{p2}/{p3}", Methods: []string{"delete", "get"}},
	}},
	{Base: "/a", Tmpls: []Tmpl{
		{Path: "/a", Methods: []string{"get"}},
		{Path: "/a/{p0}", Methods: []string{"get", "head"}},
		{Path: "/ab/{p0}", Methods: []string{"get"}},
		{Path: "/a.", Methods: []string{"post"}},
		{Path: "/..a/{p0}", Methods: []string{"get"}},
	}},
	{Base: "", Tmpls: []Tmpl{
		{Path: "/", Methods: []string{"get", "options"}},
		{Path: "/{p0}", Methods: []string{"get", "put"}},
		{Path: "/~", Methods: []string{"delete"}},
	}},
	{Base: "/v.1/x-y/", Tmpls: []Tmpl{
		{Path: "/users/{p0}", Methods: []string{"get", "put", "delete"}},
		{Path: "/users/{p0}/items", Methods: []string{"get", "post"}},
		{Path: "/users/{p0}/items/{p1}", Methods: []string{"get", "patch"}},
		{Path: "/users/me", Methods: []string{"get"}},
		{Path: "/users/me/items/{p0}", Methods: []string{"head"}},
	}},
	{Base: "/", Tmpls: []Tmpl{
		{Path: "/a/{p0}/b/{p1}/0/{p2}", Methods: []string{"get", "put", "post", "delete", "options", "head", "patch"}},
		{Path: "/a/a/b/b/0/0", Methods: []string{"get"}},
	}},
	{Base: "/api", Tmpls: []Tmpl{
		{Path: "/x-y/{p0}", Methods: []string{"post"}},
		{Path: "/x-y/{p0}/a_b", Methods: []string{"get"}},
		{Path: "/{p0}/pets", Methods: []string{"get"}},
		{Path: "/{p0}/pets/{p1}", Methods: []string{"put", "post"}},
		{Path: "/api/{p0}", Methods: []string{"get"}},
		{Path: "/api", Methods: []string{"get", "delete"}},
	}},
}
