package c01

import (
	"net/url"
	"sort"
	"strings"
)

// The reference model of C01, written from the property statement only: lexical cleaning of the still
// percent-encoded path, segment-wise instantiation of "base path + template", literal-over-parameter
// preference, percent-decoding of the instantiating texts, and the 404/405 decision.

// part is a piece of a template segment: a placeholder (Name != "") or literal text.
type part struct {
	Name string
	Lit  string
}

// seg is a parsed template segment.
type seg struct {
	Raw   string
	Parts []part
}

func (s seg) literal() bool { return len(s.Parts) == 1 && s.Parts[0].Name == "" }
func (s seg) whole() bool   { return len(s.Parts) == 1 && s.Parts[0].Name != "" }
func (s seg) composite() bool {
	return len(s.Parts) > 1
}

// seps are the literal pieces of a composite segment.
func (s seg) seps() []string {
	var out []string
	for _, p := range s.Parts {
		if p.Name == "" {
			out = append(out, p.Lit)
		}
	}
	return out
}

func parseSeg(raw string) (seg, bool) {
	s := seg{Raw: raw}
	rest := raw
	for rest != "" {
		i := strings.IndexByte(rest, '{')
		if i < 0 {
			if strings.ContainsAny(rest, "{}") {
				return s, false
			}
			s.Parts = append(s.Parts, part{Lit: rest})
			break
		}
		if i > 0 {
			if strings.ContainsAny(rest[:i], "{}") {
				return s, false
			}
			s.Parts = append(s.Parts, part{Lit: rest[:i]})
		}
		j := strings.IndexByte(rest[i:], '}')
		if j < 2 {
			return s, false
		}
		name := rest[i+1 : i+j]
		if strings.ContainsAny(name, "{}/") {
			return s, false
		}
		s.Parts = append(s.Parts, part{Name: name})
		rest = rest[i+j+1:]
	}
	if len(s.Parts) == 0 {
		return s, false
	}
	return s, true
}

// parseTemplate splits "/a/{p0}/{x}.{y}" into segments. The root template "/" has no segments.
func parseTemplate(path string) ([]seg, bool) {
	if !strings.HasPrefix(path, "/") {
		return nil, false
	}
	if path == "/" {
		return nil, true
	}
	var out []seg
	for _, raw := range strings.Split(path[1:], "/") {
		s, ok := parseSeg(raw)
		if !ok {
			return nil, false
		}
		out = append(out, s)
	}
	return out, true
}

// baseSegs are the non-empty segments of the base path ("", "/", "/api", "/api/", "/api/v1").
func baseSegs(base string) []string {
	var out []string
	for _, s := range strings.Split(base, "/") {
		if s != "" && s != "." { // the base path is served cleaned: duplicate slashes and "." segments drop out
			out = append(out, s)
		}
	}
	return out
}

// norm is the template up to placeholder names; a composite segment counts as a placeholder (the statement
// cannot tell "/{a}.json" and "/{b}" apart on a path like "/x.json" either).
func norm(segs []seg) string {
	var b strings.Builder
	for _, s := range segs {
		b.WriteByte('/')
		if s.literal() {
			b.WriteString(s.Parts[0].Lit)
		} else {
			b.WriteString("{}")
		}
	}
	return b.String()
}

// cleanEscaped is the lexical cleaning of the statement, on the escaped text: duplicate slashes, "." and ".."
// segments and a trailing slash disappear; "%2F" is not a separator and "%2e%2e" is not a dot segment.
func cleanEscaped(p string) string {
	if p == "" {
		return "."
	}
	rooted := strings.HasPrefix(p, "/")
	var out []string
	for _, s := range strings.Split(p, "/") {
		switch s {
		case "", ".":
		case "..":
			switch {
			case len(out) > 0 && out[len(out)-1] != "..":
				out = out[:len(out)-1]
			case !rooted:
				out = append(out, "..")
			}
		default:
			out = append(out, s)
		}
	}
	r := strings.Join(out, "/")
	if rooted {
		return "/" + r
	}
	if r == "" {
		return "."
	}
	return r
}

func unescape(s string) string {
	v, err := url.PathUnescape(s)
	if err != nil {
		return s // cannot happen for a target net/http delivered
	}
	return v
}

type fitKind int

const (
	noFit    fitKind = iota
	fits             // the path instantiates the template; values are decided by the statement
	unjudged         // a composite segment is met by a text that is not a plain, separator-free instantiation
)

// fitSegs decides whether the cleaned path segments instantiate base+template.
func fitSegs(base []string, tmpl []seg, path []string) (fitKind, map[string]string) {
	if len(path) != len(base)+len(tmpl) {
		return noFit, nil
	}
	for i, b := range base {
		if path[i] != b {
			return noFit, nil
		}
	}
	vals := map[string]string{}
	kind := fits
	for i, s := range tmpl {
		text := path[len(base)+i]
		switch {
		case s.literal():
			if text != s.Parts[0].Lit {
				return noFit, nil
			}
		case s.whole():
			vals[s.Parts[0].Name] = unescape(text)
		default:
			pv, ok := splitComposite(s, text)
			if !ok {
				kind = unjudged
				continue
			}
			for k, v := range pv {
				vals[k] = v
			}
		}
	}
	return kind, vals
}

// splitComposite decomposes the still-encoded text of a composite segment ("{x}.{y}", "{id}.json"). It
// succeeds only for the positive class of DESIGN.md: every placeholder text is non-empty and free of every
// separator of the segment, both as sent and after decoding, so that the decomposition is unique whichever
// way it is carried out.
func splitComposite(s seg, text string) (map[string]string, bool) {
	// "{name}<literal>" (one placeholder, then a literal that ends the segment, e.g. "{name}.json"): the
	// placeholder's text is everything in front of the literal that ends the segment, so the decomposition is
	// unique even when the value itself contains the literal ("q1.json.json" -> "q1.json").
	if len(s.Parts) == 2 && s.Parts[0].Name != "" && s.Parts[1].Name == "" && s.Parts[1].Lit != "" {
		lit := s.Parts[1].Lit
		dec := unescape(text)
		if strings.HasSuffix(text, lit) && strings.HasSuffix(dec, lit) && len(text) > len(lit) && len(dec) > len(lit) &&
			unescape(text[:len(text)-len(lit)]) == dec[:len(dec)-len(lit)] {
			return map[string]string{s.Parts[0].Name: dec[:len(dec)-len(lit)]}, true
		}
		return nil, false
	}
	vals := map[string]string{}
	seps := s.seps()
	rest := text
	for i := 0; i < len(s.Parts); i++ {
		p := s.Parts[i]
		if p.Name == "" {
			if !strings.HasPrefix(rest, p.Lit) {
				return nil, false
			}
			rest = rest[len(p.Lit):]
			continue
		}
		var piece string
		if i+1 < len(s.Parts) {
			if s.Parts[i+1].Name != "" {
				return nil, false // adjacent placeholders: never decidable
			}
			j := strings.Index(rest, s.Parts[i+1].Lit)
			if j < 0 {
				return nil, false
			}
			piece, rest = rest[:j], rest[j:]
		} else {
			piece, rest = rest, ""
		}
		dec := unescape(piece)
		if piece == "" {
			return nil, false
		}
		for _, sp := range seps {
			if strings.Contains(piece, sp) || strings.Contains(dec, sp) {
				return nil, false
			}
		}
		vals[p.Name] = dec
	}
	if rest != "" {
		return nil, false
	}
	return vals, true
}

// before reports whether template a is preferred to template b when both fit one path: at the first
// segment where exactly one of them is literal, the literal one wins.
func before(a, b []seg) bool {
	for i := 0; i < len(a) && i < len(b); i++ {
		al, bl := a[i].literal(), b[i].literal()
		if al != bl {
			return al
		}
	}
	return false
}

// expectation is what the statement demands for one request.
type expectation struct {
	Escaped  string
	Cleaned  string
	Judged   bool              // false: a composite template is met outside its positive class
	Winner   int               // index into Case.Tmpls, -1 when no template fits under the method
	Params   map[string]string // decoded values by name
	Allow    []string          // sorted upper-case methods under which some template fits
	NFitsOwn int               // templates fitting under the request's method
	NFitsAny int               // templates fitting under any method
	MaxPerM  int               // largest number of templates fitting under one and the same method
}

type parsedAPI struct {
	Base  []string
	Tmpls [][]seg
}

func parseAPI(c Case) (parsedAPI, bool) {
	p := parsedAPI{Base: baseSegs(c.Base)}
	for _, t := range c.Tmpls {
		s, ok := parseTemplate(t.Path)
		if !ok {
			return p, false
		}
		p.Tmpls = append(p.Tmpls, s)
	}
	return p, true
}

// expect evaluates the reference model for a request method and the escaped path net/http reports.
func expect(c Case, api parsedAPI, method, escaped string) expectation {
	e := expectation{Escaped: escaped, Cleaned: cleanEscaped(escaped), Judged: true, Winner: -1}
	var path []string
	if strings.HasPrefix(e.Cleaned, "/") {
		if e.Cleaned != "/" {
			path = strings.Split(e.Cleaned[1:], "/")
		}
	} else {
		// "*" (OPTIONS *) or an empty path: nothing under a base path is instantiated by it
		return e
	}
	um := strings.ToUpper(method)
	allow := map[string]bool{}
	perMethod := map[string]int{}
	var own []int
	ownVals := map[int]map[string]string{}
	for i, t := range c.Tmpls {
		kind, vals := fitSegs(api.Base, api.Tmpls[i], path)
		switch kind {
		case noFit:
			continue
		case unjudged:
			e.Judged = false
			continue
		}
		e.NFitsAny++
		isOwn := false
		for _, m := range t.Methods {
			if strings.ToUpper(m) == um {
				isOwn = true
			}
			allow[strings.ToUpper(m)] = true
			perMethod[strings.ToUpper(m)]++
			if perMethod[strings.ToUpper(m)] > e.MaxPerM {
				e.MaxPerM = perMethod[strings.ToUpper(m)]
			}
		}
		if isOwn {
			own = append(own, i)
			ownVals[i] = vals
		}
	}
	e.NFitsOwn = len(own)
	for m := range allow {
		e.Allow = append(e.Allow, m)
	}
	sort.Strings(e.Allow)
	if len(own) > 0 {
		best := own[0]
		for _, i := range own[1:] {
			if before(api.Tmpls[i], api.Tmpls[best]) {
				best = i
			}
		}
		e.Winner = best
		e.Params = ownVals[best]
	}
	return e
}
