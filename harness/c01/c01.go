// Package c01 decides property C01 (spec-driven dispatch: path + method select exactly the designated
// operation, else 405 with the exact Allow set, else 404) by differential testing of the middleware router of
// go-openapi/runtime against a reference matcher written from the property statement (model.go).
//
// Every request of a case is driven through three entry points that the statement says must agree with the
// reference: Context.RoutesHandler, Context.APIHandler (documentation paths moved out of the way) and the pair
// Context.LookupRoute / Context.AllowedMethods.
package c01

import (
	"bufio"
	"context"
	"encoding/json"
	"fmt"
	"net/http"
	"net/http/httptest"
	"path"
	"sort"
	"strings"
	"time"

	"github.com/go-openapi/loads"
	"github.com/go-openapi/runtime"
	"github.com/go-openapi/runtime/middleware"
	"github.com/go-openapi/runtime/middleware/untyped"

	"verif/harness/kit"
)

// Tmpl is one path template of the API description with the methods it is registered under.
type Tmpl struct {
	Path    string   `json:"path"`    // "/a/{p0}/b"; composite subclass: "/{p0}.{p1}", "/{p0}.json"
	Methods []string `json:"methods"` // lower-case Swagger method names
}

// Req is one request: the method token and the request target exactly as they appear on the request line.
type Req struct {
	Method string   `json:"method"`
	Target kit.BStr `json:"target"`
	// Accept: an Accept header that names nothing the API produces ("" for none). It is sent only with requests that no
	// template fits under their method: what it does to a routed request is another property's business (406), a miss
	// stays a 404 or 405.
	Accept string `json:"accept,omitempty"`
	// Ctx: "cancelled" or "expired" - the request's context is already over when it is dispatched (the client went away,
	// a deadline set further out has passed). Which handler runs is decided by description, method and path alone. (r6)
	Ctx string `json:"ctx,omitempty"`
}

func overContext(kind string) (context.Context, context.CancelFunc) {
	if kind == "expired" {
		return context.WithDeadline(context.Background(), time.Unix(1, 0))
	}
	ctx, cancel := context.WithCancel(context.Background())
	cancel()
	return ctx, cancel
}

// Case is an API description and a batch of requests against it.
type Case struct {
	Base  string `json:"base"`
	Tmpls []Tmpl `json:"tmpls"`
	Reqs  []Req  `json:"reqs"`
}

var swaggerMethods = []string{"get", "put", "post", "delete", "options", "head", "patch"}

func isSwaggerMethod(m string) bool {
	for _, s := range swaggerMethods {
		if s == m {
			return true
		}
	}
	return false
}

// InDomain says whether the case lies in the domain the property quantifies over and DESIGN.md generates:
// parseable templates without trailing slash, no two templates equal up to placeholder names, distinct
// placeholder names per template, base path empty or rooted, Swagger methods.
func InDomain(c Case) (parsedAPI, string) {
	api, ok := parseAPI(c)
	if !ok {
		return api, "unparseable template"
	}
	if c.Base != "" && !strings.HasPrefix(c.Base, "/") {
		return api, "base path not rooted"
	}
	if strings.ContainsAny(c.Base, "{}%?#") {
		return api, "base path outside the generated alphabet"
	}
	for _, s := range strings.Split(c.Base, "/") {
		if s == ".." {
			return api, "dot segment in base path"
		}
	}
	if len(c.Tmpls) == 0 {
		return api, "no templates"
	}
	seen := map[string]bool{}
	for i, t := range c.Tmpls {
		if len(t.Path) > 1 && strings.HasSuffix(t.Path, "/") {
			return api, "template with trailing slash"
		}
		if t.Path == "/" && len(api.Base) > 0 {
			return api, "root template under a base path" // same defect class as the trailing slash: never routable
		}
		n := norm(api.Tmpls[i])
		if seen[n] {
			return api, "templates equal up to placeholder names"
		}
		seen[n] = true
		names := map[string]bool{}
		for _, s := range api.Tmpls[i] {
			if s.literal() && (s.Raw == "." || s.Raw == "..") {
				return api, "dot segment in template"
			}
			for _, p := range s.Parts {
				if p.Name != "" {
					if names[p.Name] {
						return api, "duplicate placeholder name"
					}
					names[p.Name] = true
				}
			}
		}
		if len(t.Methods) == 0 {
			return api, "template without methods"
		}
		ms := map[string]bool{}
		for _, m := range t.Methods {
			if !isSwaggerMethod(m) || ms[m] {
				return api, "bad method list"
			}
			ms[m] = true
		}
	}
	return api, ""
}

func opID(tmpl int, method string) string { return fmt.Sprintf("op%d_%s", tmpl, method) }

type hit struct {
	Op     string
	Params map[string]interface{}
	Other  bool // the handler received something that is not a parameter map
}

type seenRoute struct {
	Op      string
	Pattern string
	Params  middleware.RouteParams
}

// built is a loaded API with its three entry points and the per-request observation slots.
type built struct {
	ctx      *middleware.Context
	routes   http.Handler
	apiH     http.Handler
	docPaths []string
	hits     []hit
	seen     []seenRoute
}

type m = map[string]interface{}

const (
	movedDocs = "verif-docs-moved-away"
	movedSpec = "/verif-spec-moved-away/swagger.json"
)

func specJSON(c Case, api parsedAPI) []byte {
	paths := m{}
	for i, t := range c.Tmpls {
		item := m{}
		var ps []m
		for _, s := range api.Tmpls[i] {
			for _, p := range s.Parts {
				if p.Name != "" {
					ps = append(ps, m{"name": p.Name, "in": "path", "required": true, "type": "string"})
				}
			}
		}
		for _, me := range t.Methods {
			o := m{"operationId": opID(i, me), "responses": m{"200": m{"description": "ok"}}}
			if ps != nil {
				o["parameters"] = ps
			}
			item[me] = o
		}
		paths[t.Path] = item
	}
	doc := m{"swagger": "2.0", "info": m{"title": "c01", "version": "1"}, "paths": paths,
		"consumes": []string{"application/json"}, "produces": []string{"application/json"}}
	if c.Base != "" {
		doc["basePath"] = c.Base
	}
	raw, _ := json.Marshal(doc)
	return raw
}

func build(c Case, api parsedAPI) (b *built, v *kit.Violation) {
	b = &built{}
	var err error
	v = kit.Guard("loading the API and building its handlers", func() {
		var doc *loads.Document
		doc, err = loads.Analyzed(json.RawMessage(specJSON(c, api)), "")
		if err != nil {
			return
		}
		uapi := untyped.NewAPI(doc)
		for i, t := range c.Tmpls {
			for _, me := range t.Methods {
				id := opID(i, me)
				uapi.RegisterOperation(me, t.Path, runtime.OperationHandlerFunc(func(data interface{}) (interface{}, error) {
					h := hit{Op: id}
					if mp, ok := data.(map[string]interface{}); ok {
						h.Params = mp
					} else {
						h.Other = true
					}
					b.hits = append(b.hits, h)
					return "ok", nil
				}))
			}
		}
		b.ctx = middleware.NewContext(doc, uapi, nil)
		spy := func(next http.Handler) http.Handler {
			return http.HandlerFunc(func(rw http.ResponseWriter, r *http.Request) {
				if mr := middleware.MatchedRouteFrom(r); mr != nil {
					s := seenRoute{Pattern: mr.PathPattern, Params: append(middleware.RouteParams(nil), mr.Params...)}
					if mr.Operation != nil {
						s.Op = mr.Operation.ID
					}
					b.seen = append(b.seen, s)
				} else {
					b.seen = append(b.seen, seenRoute{Op: "<no matched route in the request context>"})
				}
				next.ServeHTTP(rw, r)
			})
		}
		b.routes = b.ctx.RoutesHandler(spy)
		b.apiH = b.ctx.APIHandler(spy, middleware.WithUIPath(movedDocs), middleware.WithUISpecURL(movedSpec))
	})
	if v != nil {
		return nil, v
	}
	if err != nil {
		return nil, kit.Failf("the API description was rejected: %v\n%s", err, specJSON(c, api))
	}
	base := c.Base
	if base == "" {
		base = "/"
	}
	b.docPaths = []string{path.Join(base, movedDocs), movedSpec}
	return b, nil
}

// memo keeps the handlers of recently built API descriptions: the catalogue sub-check and the native fuzz
// target drive many requests through few descriptions. Check stays a pure function of the case: the entry is
// keyed by the whole description and the observation slots are reset per request.
var memo = map[string]*built{}

func builtFor(c Case, api parsedAPI) (*built, *kit.Violation) {
	keyRaw, _ := json.Marshal(struct {
		B string
		T []Tmpl
	}{c.Base, c.Tmpls})
	key := string(keyRaw)
	if b, ok := memo[key]; ok {
		return b, nil
	}
	b, v := build(c, api)
	if v != nil {
		return nil, v
	}
	if len(memo) >= 48 {
		memo = map[string]*built{}
	}
	if len(c.Tmpls) <= 12 {
		memo[key] = b
	}
	return b, nil
}

func readRequest(r Req) (*http.Request, error) {
	return http.ReadRequest(bufio.NewReader(strings.NewReader(r.Method + " " + string(r.Target) + " HTTP/1.1\r\nHost: example.test\r\n\r\n")))
}

func describe(c Case, r Req, e expectation) string {
	var ts []string
	for i, t := range c.Tmpls {
		if i == 12 {
			ts = append(ts, fmt.Sprintf("…(%d more)", len(c.Tmpls)-12))
			break
		}
		ts = append(ts, fmt.Sprintf("%s%v", t.Path, t.Methods))
	}
	return fmt.Sprintf("request %q %q (escaped path %q, cleaned %q) base=%q templates=%v", r.Method, string(r.Target), e.Escaped, e.Cleaned, c.Base, ts)
}

func allowSet(h http.Header) []string {
	set := map[string]bool{}
	for _, line := range h.Values("Allow") {
		for _, a := range strings.Split(line, ",") {
			if a = strings.TrimSpace(a); a != "" {
				set[a] = true
			}
		}
	}
	var out []string
	for a := range set {
		out = append(out, a)
	}
	sort.Strings(out)
	return out
}

func sameStrings(a, b []string) bool {
	if len(a) != len(b) {
		return false
	}
	for i := range a {
		if a[i] != b[i] {
			return false
		}
	}
	return true
}

func routeParamsMatch(got middleware.RouteParams, want map[string]string) bool {
	if len(got) != len(want) {
		return false
	}
	seen := map[string]bool{}
	for _, p := range got {
		w, ok := want[p.Name]
		if !ok || seen[p.Name] || w != p.Value {
			return false
		}
		seen[p.Name] = true
	}
	return true
}

func handlerParamsMatch(got map[string]interface{}, want map[string]string) bool {
	if len(got) != len(want) {
		return false
	}
	for k, w := range want {
		g, ok := got[k].(string)
		if !ok || g != w {
			return false
		}
	}
	return true
}

// patternOK accepts the two spellings of "its pattern": the template as written in the description, or the
// template under the base path (which is what the router stores).
func patternOK(c Case, api parsedAPI, winner int, got string) bool {
	if got == c.Tmpls[winner].Path {
		return true
	}
	joined := "/" + strings.Join(append(append([]string{}, api.Base...), strings.Split(strings.TrimPrefix(c.Tmpls[winner].Path, "/"), "/")...), "/")
	if c.Tmpls[winner].Path == "/" {
		joined = "/" + strings.Join(api.Base, "/")
	}
	return got == joined
}

// judgeServed compares what one of the two handlers did with the expectation.
func judgeServed(level string, c Case, api parsedAPI, r Req, e expectation, b *built, rec *httptest.ResponseRecorder) *kit.Violation {
	um := strings.ToUpper(r.Method)
	if e.Winner >= 0 {
		want := opID(e.Winner, strings.ToLower(um))
		if len(b.hits) != 1 || b.hits[0].Op != want {
			return kit.Failf("%s WRONG-OPERATION: want exactly one run of %s (%s) with %q; handlers that ran: %v, status %d, body %q; %s",
				level, want, c.Tmpls[e.Winner].Path, e.Params, hitNames(b.hits), rec.Code, clipBody(rec), describe(c, r, e))
		}
		if b.hits[0].Other || !handlerParamsMatch(b.hits[0].Params, e.Params) {
			return kit.Failf("%s WRONG-PARAMS: %s received %q, want %q; %s", level, want, b.hits[0].Params, e.Params, describe(c, r, e))
		}
		if rec.Code != http.StatusOK {
			return kit.Failf("%s STATUS: %s ran but the status is %d; %s", level, want, rec.Code, describe(c, r, e))
		}
		if len(b.seen) != 1 || b.seen[0].Op != want {
			return kit.Failf("%s MATCHED-ROUTE: MatchedRouteFrom reports %+v, want operation %s; %s", level, b.seen, want, describe(c, r, e))
		}
		if !patternOK(c, api, e.Winner, b.seen[0].Pattern) {
			return kit.Failf("%s MATCHED-ROUTE: MatchedRouteFrom reports pattern %q, want %q (optionally under the base path); %s", level, b.seen[0].Pattern, c.Tmpls[e.Winner].Path, describe(c, r, e))
		}
		if !routeParamsMatch(b.seen[0].Params, e.Params) {
			return kit.Failf("%s MATCHED-ROUTE: MatchedRouteFrom reports params %v, want %q; %s", level, b.seen[0].Params, e.Params, describe(c, r, e))
		}
		return nil
	}
	if len(b.hits) != 0 || len(b.seen) != 0 {
		return kit.Failf("%s RAN-WITHOUT-FIT: no template fits under %s, yet handlers %v ran (matched routes %+v), status %d; %s",
			level, um, hitNames(b.hits), b.seen, rec.Code, describe(c, r, e))
	}
	if len(e.Allow) > 0 {
		if rec.Code != http.StatusMethodNotAllowed {
			return kit.Failf("%s WANT-405: templates fit under %v but not under %s; status %d, body %q; %s", level, e.Allow, um, rec.Code, clipBody(rec), describe(c, r, e))
		}
		if got := allowSet(rec.Result().Header); !sameStrings(got, e.Allow) {
			return kit.Failf("%s ALLOW: Allow lists %v, want exactly %v; %s", level, got, e.Allow, describe(c, r, e))
		}
		return nil
	}
	if rec.Code != http.StatusNotFound {
		return kit.Failf("%s WANT-404: no template fits under any method; status %d (Allow %v), body %q; %s", level, rec.Code, allowSet(rec.Result().Header), clipBody(rec), describe(c, r, e))
	}
	return nil
}

func hitNames(hs []hit) []string {
	out := []string{}
	for _, h := range hs {
		out = append(out, fmt.Sprintf("%s%q", h.Op, h.Params))
	}
	return out
}

func clipBody(rec *httptest.ResponseRecorder) string {
	s := rec.Body.String()
	if len(s) > 200 {
		s = s[:200] + "…"
	}
	return s
}

// judgeDirect compares Context.LookupRoute and Context.AllowedMethods with the expectation.
func judgeDirect(c Case, api parsedAPI, r Req, e expectation, route *middleware.MatchedRoute, found bool, allowed []string) *kit.Violation {
	um := strings.ToUpper(r.Method)
	if e.Winner >= 0 {
		want := opID(e.Winner, strings.ToLower(um))
		if !found || route == nil {
			return kit.Failf("LookupRoute NOT-FOUND: want %s (%s) with %q; %s", want, c.Tmpls[e.Winner].Path, e.Params, describe(c, r, e))
		}
		got := "<nil operation>"
		if route.Operation != nil {
			got = route.Operation.ID
		}
		if got != want {
			return kit.Failf("LookupRoute WRONG-OPERATION: %s (%s), want %s (%s); %s", got, route.PathPattern, want, c.Tmpls[e.Winner].Path, describe(c, r, e))
		}
		if !patternOK(c, api, e.Winner, route.PathPattern) {
			return kit.Failf("LookupRoute PATTERN: %q, want %q (optionally under the base path); %s", route.PathPattern, c.Tmpls[e.Winner].Path, describe(c, r, e))
		}
		if !routeParamsMatch(route.Params, e.Params) {
			return kit.Failf("LookupRoute WRONG-PARAMS: %v, want %q; %s", route.Params, e.Params, describe(c, r, e))
		}
	} else if found {
		p := "<nil>"
		if route != nil {
			p = route.PathPattern
		}
		return kit.Failf("LookupRoute FOUND-WITHOUT-FIT: no template fits under %s, got %s; %s", um, p, describe(c, r, e))
	}
	// AllowedMethods: the statement fixes the set for a request whose own method does not fit (it is the Allow
	// header). For a request that is routed it says nothing about the own method, so that one entry is free:
	// the set, the own method left aside, must be exactly the other methods under which a template fits, and
	// the own method may appear only if it fits too.
	got := map[string]bool{}
	for _, a := range allowed {
		got[a] = true
	}
	want := map[string]bool{}
	for _, a := range e.Allow {
		want[a] = true
	}
	for a := range got {
		if !want[a] {
			return kit.Failf("AllowedMethods UNSOUND: %v lists %s, but templates fit only under %v; %s", allowed, a, e.Allow, describe(c, r, e))
		}
	}
	for a := range want {
		if a != um && !got[a] {
			return kit.Failf("AllowedMethods INCOMPLETE: %v lacks %s, templates fit under %v; %s", allowed, a, e.Allow, describe(c, r, e))
		}
	}
	return nil
}

// Check drives every request of the case through the three entry points.
func Check(c Case) *kit.Violation {
	api, why := InDomain(c)
	if why != "" {
		return nil // outside the quantifier (only reachable through a hand-written replay file)
	}
	b, v := builtFor(c, api)
	if v != nil {
		return v
	}
	var served *http.Request // the request object the caller handed to RoutesHandler in the previous iteration
	for _, r := range c.Reqs {
		req, err := readRequest(r)
		if err != nil {
			continue // net/http cannot deliver this request line
		}
		r.Method = req.Method // what net/http parsed is the request's method (identical for generated cases)
		e := expect(c, api, r.Method, req.URL.EscapedPath())
		if !e.Judged {
			continue
		}
		// the documentation handlers in front of the API handler match on the cleaned, decoded path
		docHit := false
		for _, d := range b.docPaths {
			if path.Clean(req.URL.Path) == d {
				docHit = true
			}
		}
		for _, level := range []string{"RoutesHandler", "APIHandler"} {
			h := b.routes
			if level == "APIHandler" {
				if docHit {
					continue
				}
				h = b.apiH
			}
			req, _ := readRequest(r)
			if r.Accept != "" && e.Winner < 0 {
				req.Header.Set("Accept", r.Accept)
			}
			if r.Ctx != "" {
				ctx, cancel := overContext(r.Ctx)
				defer cancel()
				req = req.WithContext(ctx)
			}
			b.hits, b.seen = nil, nil
			rec := httptest.NewRecorder()
			if v := kit.Guard(level+".ServeHTTP", func() { h.ServeHTTP(rec, req) }); v != nil {
				return kit.Failf("%s; %s", v.Msg, describe(c, r, e))
			}
			if v := judgeServed(level, c, api, r, e, b, rec); v != nil {
				return v
			}
			if level == "RoutesHandler" {
				// a caller may dispatch a request object again after changing where it points (internal redirect, batch
				// endpoint): nothing of the earlier dispatch may decide the new one
				if served != nil {
					again := served.Clone(served.Context())
					again.Method, again.URL, again.RequestURI, again.Host = req.Method, req.URL, req.RequestURI, req.Host
					again.Header = req.Header.Clone() // the new request's own headers (an Accept header of the earlier one is not its business)
					b.hits, b.seen = nil, nil
					rec2 := httptest.NewRecorder()
					if v := kit.Guard("RoutesHandler.ServeHTTP (request object dispatched again)", func() { h.ServeHTTP(rec2, again) }); v != nil {
						return kit.Failf("%s; %s", v.Msg, describe(c, r, e))
					}
					if v := judgeServed("RoutesHandler (request object of the previous request dispatched again)", c, api, r, e, b, rec2); v != nil {
						return v
					}
				}
				served = req
			}
		}
		req, _ = readRequest(r)
		var route *middleware.MatchedRoute
		var found bool
		var allowed []string
		if v := kit.Guard("Context.LookupRoute/AllowedMethods", func() {
			route, found = b.ctx.LookupRoute(req)
			allowed = b.ctx.AllowedMethods(req)
		}); v != nil {
			return kit.Failf("%s; %s", v.Msg, describe(c, r, e))
		}
		if v := judgeDirect(c, api, r, e, route, found, allowed); v != nil {
			return v
		}
	}
	return nil
}
