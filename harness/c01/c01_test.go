package c01

import (
	"testing"

	"verif/harness/kit"
)

func TestVerif(t *testing.T) { kit.Main(t, Props()...) }

// FuzzDispatch is the native coverage-guided target of the thorough tier: a raw method token and request
// target against the fixed catalogue of API descriptions, with the same oracle inside the target.
func FuzzDispatch(f *testing.F) {
	for i, c := range Catalogue {
		api, _ := parseAPI(c)
		for ti, ts := range api.Tmpls {
			for _, v := range []string{"x", ":", "x%23y", "%2F", "%2e%2e", "%ff"} {
				segs := append([]string{}, api.Base...)
				for _, s := range ts {
					if s.literal() {
						segs = append(segs, s.Raw)
					} else {
						segs = append(segs, v)
					}
				}
				target := "/"
				for k, s := range segs {
					if k > 0 {
						target += "/"
					}
					target += s
				}
				f.Add(byte(i), c.Tmpls[ti].Methods[0], target)
				if v == "x" {
					f.Add(byte(i), "TRACE", target+"/")
					f.Add(byte(i), "Get", "/"+target+"/./x/..")
				}
			}
		}
	}
	f.Fuzz(func(t *testing.T, idx byte, method, target string) {
		src := Catalogue[int(idx)%len(Catalogue)]
		c := Case{Base: src.Base, Tmpls: src.Tmpls, Reqs: []Req{{Method: method, Target: kit.BStr(target)}}}
		if v := Check(c); v != nil {
			p := kit.WriteReplay("C01", "catalogue", "fuzz", c, v.Msg)
			t.Fatalf("VIOLATION property=C01 replay=%s\n%s", p, v.Msg)
		}
	})
}
