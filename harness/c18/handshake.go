package c18

import (
	"bytes"
	"crypto/tls"
	"io"
	"net"
	"sync"
	"sync/atomic"
	"time"

	"verif/harness/kit"
)

// memConn is one end of an in-process full-duplex connection with unbounded buffers. net.Pipe is synchronous: a
// client that aborts while the server is still writing its flight leaves both sides blocked in Write until a
// deadline fires. With buffered halves a failing handshake ends as soon as one side gives up, so the only clock
// left is a watchdog that never fires on a healthy run.
type half struct {
	mu     sync.Mutex
	cond   *sync.Cond
	buf    bytes.Buffer
	closed bool
}

func newHalf() *half { h := &half{}; h.cond = sync.NewCond(&h.mu); return h }

func (h *half) close() {
	h.mu.Lock()
	h.closed = true
	h.mu.Unlock()
	h.cond.Broadcast()
}

type memConn struct{ r, w *half }

func memPipe() (*memConn, *memConn) {
	a, b := newHalf(), newHalf()
	return &memConn{r: a, w: b}, &memConn{r: b, w: a}
}

func (c *memConn) Read(p []byte) (int, error) {
	c.r.mu.Lock()
	defer c.r.mu.Unlock()
	for c.r.buf.Len() == 0 && !c.r.closed {
		c.r.cond.Wait()
	}
	if c.r.buf.Len() > 0 {
		return c.r.buf.Read(p)
	}
	return 0, io.EOF
}

func (c *memConn) Write(p []byte) (int, error) {
	c.w.mu.Lock()
	defer c.w.mu.Unlock()
	if c.w.closed {
		return 0, io.ErrClosedPipe
	}
	n, err := c.w.buf.Write(p)
	c.w.cond.Broadcast()
	return n, err
}

func (c *memConn) Close() error { c.r.close(); c.w.close(); return nil }

type memAddr struct{}

func (memAddr) Network() string { return "mem" }
func (memAddr) String() string  { return "mem" }

func (c *memConn) LocalAddr() net.Addr              { return memAddr{} }
func (c *memConn) RemoteAddr() net.Addr             { return memAddr{} }
func (c *memConn) SetDeadline(time.Time) error      { return nil }
func (c *memConn) SetReadDeadline(time.Time) error  { return nil }
func (c *memConn) SetWriteDeadline(time.Time) error { return nil }

type hsResult struct {
	ok        bool
	clientErr error
	serverErr error
	peer      [][]byte // the client certificates the server saw
	version   uint16
	hung      bool
}

const watchdog = 20 * time.Second

// handshake runs a complete TLS handshake (plus one byte of application data from the server, so that both sides
// have processed the other's last flight) between a clone of cfg and the named in-process server.
func handshake(m *material, cfg *tls.Config, server string) hsResult {
	scfg := &tls.Config{
		ClientAuth:             tls.RequestClientCert, // ask for the client certificate, accept its absence
		SessionTicketsDisabled: true,
		MinVersion:             tls.VersionTLS10,
	}
	switch server {
	case "good":
		scfg.Certificates = []tls.Certificate{m.servers["good"]}
	case "rogue":
		scfg.Certificates = []tls.Certificate{m.servers["rogue"]}
	case "tls11":
		scfg.Certificates = []tls.Certificate{m.servers["good"]}
		scfg.MaxVersion = tls.VersionTLS11
	}
	cc := cfg.Clone() // the configuration under test is not touched
	if cc.ServerName == "" {
		cc.ServerName = dialledHost // what http.Transport does with the host of the URL
	}

	cEnd, sEnd := memPipe()
	var hung int32
	timer := time.AfterFunc(watchdog, func() { atomic.StoreInt32(&hung, 1); cEnd.Close(); sEnd.Close() })
	defer timer.Stop()

	var res hsResult
	srv := tls.Server(sEnd, scfg)
	done := make(chan error, 1)
	go func() {
		err := srv.Handshake()
		if err == nil {
			st := srv.ConnectionState()
			for _, pc := range st.PeerCertificates {
				res.peer = append(res.peer, pc.Raw)
			}
			res.version = st.Version
			_, err = srv.Write([]byte{1})
		}
		if err != nil {
			sEnd.Close()
		}
		done <- err
	}()
	cli := tls.Client(cEnd, cc)
	cerr := cli.Handshake()
	if cerr == nil {
		var b [1]byte
		_, cerr = io.ReadFull(cli, b[:])
	}
	if cerr != nil {
		cEnd.Close()
	}
	res.serverErr = <-done
	res.clientErr = cerr
	cEnd.Close()
	sEnd.Close()
	res.hung = atomic.LoadInt32(&hung) == 1
	res.ok = res.clientErr == nil && res.serverErr == nil
	return res
}

func contains(set []string, x string) bool {
	for _, s := range set {
		if s == x {
			return true
		}
	}
	return false
}

// handshakeAccepts is the model: does a client configured as the statement demands complete a handshake with
// that server?
func (c Case) handshakeAccepts(e expectation, roots []string) (bool, string) {
	if c.Handshake == "tls11" {
		return false, "the server speaks at most TLS 1.1"
	}
	if c.Callback == "reject" {
		return false, "the verification callback rejects every peer"
	}
	if e.insecure {
		return true, "verification was switched off explicitly and no server name overrides that"
	}
	name := c.ServerName
	if name == "" {
		name = dialledHost
	}
	switch {
	case c.Handshake == "rogue":
		return false, "the server certificate comes from an authority no option names"
	case !contains(roots, "ca"):
		return false, "the authority of the server certificate is not among the trusted roots"
	case name != "server.test":
		return false, "the server certificate is not valid for " + name
	}
	return true, "the server certificate chains to a supplied root and matches the name"
}

func (c Case) judgeHandshake(m *material, e expectation, l *live, cfg *tls.Config, roots []string) *kit.Violation {
	what := "handshake with the " + c.Handshake + " server, options " + c.describe()
	var res hsResult
	atomic.StoreInt32(l.cbCalls, 0)
	if v := kit.Guard("TLS handshake", func() { res = handshake(m, cfg, c.Handshake) }); v != nil {
		return v
	}
	if res.hung {
		return kit.Failf("%s: did not finish within %s (client: %v, server: %v)", what, watchdog, res.clientErr, res.serverErr)
	}
	want, why := c.handshakeAccepts(e, roots)
	calls := atomic.LoadInt32(l.cbCalls)
	if res.ok != want {
		if want {
			return kit.Failf("%s: must succeed (%s) but failed: client: %v, server: %v", what, why, res.clientErr, res.serverErr)
		}
		return kit.Failf("%s: must fail (%s) but succeeded (negotiated %#x, callback calls %d)", what, why, res.version, calls)
	}
	if !res.ok {
		return nil
	}
	if res.version < tls.VersionTLS12 {
		return kit.Failf("%s: negotiated %#x, below TLS 1.2", what, res.version)
	}
	if c.Callback != "" && calls != 1 {
		return kit.Failf("%s: the supplied verification callback ran %d times during a successful handshake, want once", what, calls)
	}
	if e.leaf == "" {
		if len(res.peer) != 0 {
			return kit.Failf("%s: no client certificate supplied, the server saw %d", what, len(res.peer))
		}
	} else if wantN := map[bool]int{false: 1, true: 2}[e.chain]; len(res.peer) != wantN || !bytes.Equal(res.peer[0], m.certs[e.leaf].Raw) || (e.chain && !bytes.Equal(res.peer[1], m.cas["ca"].Raw)) {
		return kit.Failf("%s: the server must see exactly the supplied %s client certificate, it saw %d certificate(s)", what, e.leaf, len(res.peer))
	}
	return nil
}
