package c18

import (
	"pgregory.net/rapid"

	"verif/harness/kit"
)

// identities are the coherent ways of supplying (or not supplying) a usable client identity; the handshake
// corner uses only these, because an unusable identity yields no configuration to handshake with.
var identities = []Case{
	{},
	{CertFile: "rsa", KeyFile: "rsa"},
	{CertFile: "ec", KeyFile: "ec"},
	{CertFile: "ecchain", KeyFile: "ec"},
	{LoadedCert: "rsa", LoadedKey: "rsa"},
	{LoadedCert: "ec", LoadedKey: "ec"},
}

// Gen samples the lattice. Half of the cases start from a coherent identity so that configurations (not only
// errors) are judged; roughly one case in five also runs a handshake (always from a coherent identity).
func Gen(t *rapid.T) Case {
	var c Case
	// (rapid favours the ends of a range: the frequent classes sit there)
	handshaking := rapid.IntRange(0, 7).Draw(t, "handshaking") == 7
	if handshaking || rapid.Bool().Draw(t, "coherent") {
		id := rapid.SampledFrom(identities).Draw(t, "identity")
		c.CertFile, c.KeyFile, c.LoadedCert, c.LoadedKey = id.CertFile, id.KeyFile, id.LoadedCert, id.LoadedKey
		if c.CertFile != "" && rapid.IntRange(0, 3).Draw(t, "shadowed") == 3 {
			// the in-memory slots are filled as well; the file pair must win
			c.LoadedCert = rapid.SampledFrom(loadedCerts).Draw(t, "loaded_cert")
			c.LoadedKey = rapid.SampledFrom(loadedKeys).Draw(t, "loaded_key")
		}
	} else {
		c.CertFile = rapid.SampledFrom(certFiles).Draw(t, "cert_file")
		c.KeyFile = rapid.SampledFrom(keyFiles).Draw(t, "key_file")
		c.LoadedCert = rapid.SampledFrom(loadedCerts).Draw(t, "loaded_cert")
		c.LoadedKey = rapid.SampledFrom(loadedKeys).Draw(t, "loaded_key")
	}
	switch rapid.IntRange(0, 5).Draw(t, "roots") {
	case 0, 5: // any combination of the three slots
		c.CAFile = rapid.SampledFrom(caFiles).Draw(t, "ca_file")
		c.LoadedCA = rapid.SampledFrom(loadedCAs).Draw(t, "loaded_ca")
		c.Pool = rapid.SampledFrom(pools).Draw(t, "pool")
	case 1:
		c.CAFile = rapid.SampledFrom(caFiles[1:]).Draw(t, "ca_file")
	case 2:
		c.LoadedCA = rapid.SampledFrom(loadedCAs[1:]).Draw(t, "loaded_ca")
	case 3:
		c.Pool = rapid.SampledFrom(pools[1:]).Draw(t, "pool")
	case 4: // no root at all: the system pool
	}
	if (c.CertFile != "" || c.KeyFile != "" || c.CAFile != "") && rapid.IntRange(0, 3).Draw(t, "paths-read-before") == 0 {
		c.Prev = &Prev{
			CertFile: rapid.SampledFrom(certFiles).Draw(t, "prev_cert_file"),
			KeyFile:  rapid.SampledFrom(keyFiles).Draw(t, "prev_key_file"),
			CAFile:   rapid.SampledFrom(caFiles).Draw(t, "prev_ca_file"),
		}
	}
	if c.Prev == nil && rapid.IntRange(0, 7).Draw(t, "blank-path") == 0 {
		c.Blank = rapid.SampledFrom([]string{"cert", "ca"}).Draw(t, "blank-which")
	}
	c.ServerName = rapid.SampledFrom(serverNames).Draw(t, "server_name")
	c.Insecure = rapid.Bool().Draw(t, "insecure")
	c.Callback = rapid.SampledFrom(callbacks).Draw(t, "callback")
	c.NoTickets = rapid.Bool().Draw(t, "no_tickets")
	c.Cache = rapid.Bool().Draw(t, "cache")
	c.Wrappers = rapid.IntRange(0, 3).Draw(t, "wrappers") == 3
	if handshaking {
		c.Handshake = rapid.SampledFrom(servers).Draw(t, "server")
		if rapid.Bool().Draw(t, "friendly") {
			// lean towards the configurations that must be accepted: the server's authority among the roots, no
			// rejecting callback
			switch rapid.IntRange(0, 2).Draw(t, "trusted_via") {
			case 0:
				c.LoadedCA = "ca"
			case 1:
				if c.LoadedCA == "" {
					c.CAFile = "ca"
				} else {
					c.Pool = "ca"
				}
			case 2:
				c.Pool = "ca"
			}
			if c.Callback == "reject" {
				c.Callback = "accept"
			}
			if c.ServerName == "other.test" && rapid.Bool().Draw(t, "rename") {
				c.ServerName = "server.test"
			}
		}
	}
	return c
}

// Enumerate sweeps the lattice completely: every combination of slot contents for TLSClientAuth (every fourth
// one also through TLSTransport and TLSClient), then the security-relevant corner with a handshake each: every coherent identity x every root combination x server
// name x insecure flag x callback x server kind, judged through all three entry points.
func Enumerate(yield func(Case) bool) {
	i := 0
	for _, cf := range certFiles {
		for _, kf := range keyFiles {
			for _, lc := range loadedCerts {
				for _, lk := range loadedKeys {
					for _, caf := range caFiles {
						for _, lca := range loadedCAs[:3] { // the pinned non-CA root is left to the second sweep and the random tier
							for _, pl := range pools {
								for _, sn := range serverNames {
									for _, ins := range []bool{false, true} {
										for _, cb := range callbacks {
											for _, nt := range []bool{false, true} {
												for _, ca := range []bool{false, true} {
													i++
													c := Case{CertFile: cf, KeyFile: kf, LoadedCert: lc, LoadedKey: lk, CAFile: caf, LoadedCA: lca, Pool: pl,
														ServerName: sn, Insecure: ins, Callback: cb, NoTickets: nt, Cache: ca, Wrappers: i%4 == 0}
													if !yield(c) {
														return
													}
												}
											}
										}
									}
								}
							}
						}
					}
				}
			}
		}
	}
	for _, id := range identities {
		for _, caf := range []string{"", "ca", "ca2", "garbage"} {
			for _, lca := range loadedCAs {
				for _, pl := range pools {
					for _, sn := range serverNames {
						for _, ins := range []bool{false, true} {
							for _, cb := range callbacks {
								for _, srv := range servers {
									c := id
									c.CAFile, c.LoadedCA, c.Pool, c.ServerName, c.Insecure, c.Callback = caf, lca, pl, sn, ins, cb
									c.Wrappers, c.Handshake = true, srv
									if !yield(c) {
										return
									}
								}
							}
						}
					}
				}
			}
		}
	}
}

func Classify(c Case) (bool, []string) {
	e := c.expect()
	var labels []string
	groups := 0
	invalid := false
	if c.Prev != nil {
		labels = append(labels, "file paths read by an earlier call")
		if c.CAFile != "" && c.Prev.CAFile != "" && c.Prev.CAFile != c.CAFile {
			labels = append(labels, "CA file content changed since an earlier call ("+c.Prev.CAFile+" -> "+c.CAFile+")")
		}
		if c.CertFile != "" && c.Prev.CertFile != "" && (c.Prev.CertFile != c.CertFile || c.Prev.KeyFile != c.KeyFile) {
			labels = append(labels, "certificate/key file content changed since an earlier call")
		}
	}

	switch {
	case c.CertFile == "" && c.KeyFile == "" && c.LoadedCert == "" && c.LoadedKey == "":
		labels = append(labels, "identity:none")
	case e.mustErr != "":
		labels = append(labels, "identity:unusable ("+e.mustErr+")")
		groups++
		invalid = true
	case e.leaf != "" && c.CertFile != "":
		labels = append(labels, "identity:file pair "+e.leaf)
		groups++
	case e.leaf != "":
		labels = append(labels, "identity:loaded pair "+e.leaf)
		groups++
	default:
		labels = append(labels, "identity:key without certificate")
		groups++
		invalid = true
	}
	if e.leaf != "" && e.mayErr != "" {
		labels = append(labels, "identity:usable pair next to stray material")
	}

	n := 0
	for _, s := range []string{c.CAFile, c.LoadedCA, c.Pool} {
		if s != "" {
			n++
		}
	}
	switch {
	case n == 0:
		labels = append(labels, "roots:none (system pool)")
	case n == 1 && c.CAFile != "":
		labels = append(labels, "roots:file only")
	case n == 1 && c.LoadedCA != "":
		labels = append(labels, "roots:loaded only")
	case n == 1:
		labels = append(labels, "roots:pool only")
	default:
		labels = append(labels, "roots:combination")
	}
	if n > 0 {
		groups++
	}
	if c.CAFile == "missing" || c.CAFile == "garbage" {
		labels = append(labels, "roots:CA file "+c.CAFile)
		invalid = true
	}
	if c.Pool == "empty" {
		labels = append(labels, "roots:empty pool")
	}

	if c.ServerName != "" {
		groups++
		labels = append(labels, "server-name:set")
	}
	if c.Insecure {
		groups++
		if c.ServerName != "" {
			labels = append(labels, "insecure:requested, overridden by server name")
		} else {
			labels = append(labels, "insecure:requested, effective")
		}
	}
	if c.Callback != "" {
		groups++
		labels = append(labels, "callback:"+c.Callback)
	}
	if c.NoTickets || c.Cache {
		groups++
		labels = append(labels, "session:set")
	}
	if c.Wrappers {
		labels = append(labels, "via:TLSTransport+TLSClient too")
	}
	switch {
	case e.mustErr != "":
		labels = append(labels, "model:error required")
	case e.mayErr != "":
		labels = append(labels, "model:configuration, error admitted")
	default:
		labels = append(labels, "model:configuration required")
	}
	if c.Handshake != "" && e.mustErr == "" {
		acc := "rejects"
		// the label uses the narrowest admissible root set; the verdict uses what the configuration holds
		var roots []string
		if !e.rootsNil {
			roots = e.rootSets[0]
		}
		if ok, _ := c.handshakeAccepts(e, roots); ok {
			acc = "accepts"
		}
		labels = append(labels, "handshake:"+c.Handshake+" server, model "+acc)
	} else if c.Handshake != "" {
		labels = append(labels, "handshake:requested but no configuration")
	}
	return groups >= 2 || invalid, labels
}

const rule = "option lattice of client.TLSClientOptions: certificate {file rsa/ec, missing, garbage, none} x key file {rsa, ec, missing, garbage, none} x loaded certificate {rsa, ec, none} x loaded key {rsa, ec, ed25519, none} x CA file {ca, ca2, missing, garbage, none} x loaded CA {ca, ca2, none} x pool {ca, ca2, empty, none} x server name {unset, matching, other} x insecure flag x callback x session tickets x session cache; a corner of it with a real handshake against a good / rogue / TLS-1.1-only server; non-trivial = at least two option groups set, or any invalid material"

func Props() []kit.Runner {
	return []kit.Runner{
		kit.Prop[Case]{ID: "C18", Name: "lattice", Rule: rule, Quick: 6000, Thorough: 20000,
			Gen: Gen, Check: Check, Classify: Classify, Enumerate: Enumerate},
	}
}
