package c18

import (
	"crypto"
	"crypto/ecdsa"
	"crypto/ed25519"
	"crypto/elliptic"
	"crypto/rand"
	"crypto/rsa"
	"crypto/tls"
	"crypto/x509"
	"crypto/x509/pkix"
	"encoding/pem"
	"fmt"
	"math/big"
	"os"
	"path/filepath"
	"sync"
	"time"
)

// material is everything the option slots can hold. It is generated once per process: two certification
// authorities the options may name ("ca" signs the good server, "ca2" signs nothing the server uses), a third
// one no option ever names ("rogue"), a server certificate with subject alternative names from "ca" and one
// from "rogue", an RSA and an EC client pair signed by "ca", and an ed25519 key (a key type TLSClientAuth does
// not support). Key bytes are fresh on every run; a Case only names slots, so no verdict depends on them.
type material struct {
	dir     string
	cas     map[string]*x509.Certificate // ca, ca2
	certs   map[string]*x509.Certificate // rsa, ec
	keys    map[string]crypto.PrivateKey // rsa, ec, ed25519
	files   map[string]string            // cert:rsa cert:ec key:rsa key:ec ca:ca ca:ca2 garbage missing
	servers map[string]tls.Certificate   // good, rogue
}

var (
	mat     *material
	matErr  error
	matOnce sync.Once
)

// Setup generates the material (idempotent). The test binary calls it from TestMain so that a failure is a
// harness failure (exit 2), never a verdict.
func Setup() error {
	matOnce.Do(func() { mat, matErr = newMaterial() })
	return matErr
}

// Cleanup removes the temporary PEM directory.
func Cleanup() {
	if mat != nil && mat.dir != "" {
		_ = os.RemoveAll(mat.dir)
	}
}

func mustMaterial() *material {
	if err := Setup(); err != nil {
		// only reachable when a package user skipped TestMain; report loudly
		panic("c18 harness: cannot generate key material: " + err.Error())
	}
	return mat
}

func newMaterial() (m *material, err error) {
	m = &material{cas: map[string]*x509.Certificate{}, certs: map[string]*x509.Certificate{}, keys: map[string]crypto.PrivateKey{},
		files: map[string]string{}, servers: map[string]tls.Certificate{}}
	if m.dir, err = os.MkdirTemp("", "verif-c18-"); err != nil {
		return nil, err
	}
	defer func() {
		if err != nil {
			_ = os.RemoveAll(m.dir)
		}
	}()
	now := time.Now()
	serial := int64(0)
	tmpl := func(cn string) *x509.Certificate {
		serial++
		return &x509.Certificate{SerialNumber: big.NewInt(serial), Subject: pkix.Name{CommonName: cn, Organization: []string{"verif"}},
			NotBefore: now.Add(-time.Hour), NotAfter: now.Add(48 * time.Hour)}
	}
	issue := func(t, parent *x509.Certificate, pub crypto.PublicKey, signer crypto.PrivateKey) (*x509.Certificate, error) {
		der, err := x509.CreateCertificate(rand.Reader, t, parent, pub, signer)
		if err != nil {
			return nil, err
		}
		return x509.ParseCertificate(der)
	}
	caKeys := map[string]*ecdsa.PrivateKey{}
	authorities := map[string]*x509.Certificate{}
	for _, name := range []string{"ca", "ca2", "rogue"} {
		k, err := ecdsa.GenerateKey(elliptic.P256(), rand.Reader)
		if err != nil {
			return nil, err
		}
		t := tmpl("verif authority " + name)
		t.IsCA, t.BasicConstraintsValid, t.KeyUsage = true, true, x509.KeyUsageCertSign|x509.KeyUsageDigitalSignature
		c, err := issue(t, t, &k.PublicKey, k)
		if err != nil {
			return nil, err
		}
		caKeys[name], authorities[name] = k, c
	}
	m.cas["ca"], m.cas["ca2"] = authorities["ca"], authorities["ca2"]
	// an authority with the subject of "ca" and a key of its own: the root before it was re-keyed
	{
		k, err := ecdsa.GenerateKey(elliptic.P256(), rand.Reader)
		if err != nil {
			return nil, err
		}
		t := tmpl("verif authority ca")
		t.IsCA, t.BasicConstraintsValid, t.KeyUsage = true, true, x509.KeyUsageCertSign|x509.KeyUsageDigitalSignature
		if m.cas["caold"], err = issue(t, t, &k.PublicKey, k); err != nil {
			return nil, err
		}
		// the authorities that pad the big trust bundle share one key: only their number matters
		for _, name := range fillerNames {
			ft := tmpl("verif filler authority " + name)
			ft.IsCA, ft.BasicConstraintsValid, ft.KeyUsage = true, true, x509.KeyUsageCertSign|x509.KeyUsageDigitalSignature
			if m.cas[name], err = issue(ft, ft, &k.PublicKey, k); err != nil {
				return nil, err
			}
		}
	}

	// a self-signed end-entity certificate that a client pins as its only trust anchor (IsCA is false)
	{
		k, err := ecdsa.GenerateKey(elliptic.P256(), rand.Reader)
		if err != nil {
			return nil, err
		}
		t := tmpl("pinned server")
		t.DNSNames = []string{"pinned.test"}
		t.KeyUsage = x509.KeyUsageDigitalSignature
		t.ExtKeyUsage = []x509.ExtKeyUsage{x509.ExtKeyUsageServerAuth}
		if m.cas["pinned"], err = issue(t, t, &k.PublicKey, k); err != nil {
			return nil, err
		}
	}
	for _, s := range []struct{ name, issuer string }{{"good", "ca"}, {"rogue", "rogue"}} {
		k, err := ecdsa.GenerateKey(elliptic.P256(), rand.Reader)
		if err != nil {
			return nil, err
		}
		t := tmpl("server " + s.name)
		t.DNSNames = []string{"server.test"}
		t.KeyUsage = x509.KeyUsageDigitalSignature
		t.ExtKeyUsage = []x509.ExtKeyUsage{x509.ExtKeyUsageServerAuth}
		c, err := issue(t, authorities[s.issuer], &k.PublicKey, caKeys[s.issuer])
		if err != nil {
			return nil, err
		}
		m.servers[s.name] = tls.Certificate{Certificate: [][]byte{c.Raw}, PrivateKey: k, Leaf: c}
	}

	rsaKey, err := rsa.GenerateKey(rand.Reader, 2048)
	if err != nil {
		return nil, err
	}
	ecKey, err := ecdsa.GenerateKey(elliptic.P256(), rand.Reader)
	if err != nil {
		return nil, err
	}
	_, edKey, err := ed25519.GenerateKey(rand.Reader)
	if err != nil {
		return nil, err
	}
	m.keys["rsa"], m.keys["ec"], m.keys["ed25519"] = rsaKey, ecKey, edKey
	// keys of the same algorithms that belong to no certificate of this material
	rsaKey2, err := rsa.GenerateKey(rand.Reader, 2048)
	if err != nil {
		return nil, err
	}
	ecKey2, err := ecdsa.GenerateKey(elliptic.P256(), rand.Reader)
	if err != nil {
		return nil, err
	}
	m.keys["rsa2"], m.keys["ec2"] = rsaKey2, ecKey2
	ec2DER, err := x509.MarshalECPrivateKey(ecKey2)
	if err != nil {
		return nil, err
	}
	for _, cl := range []struct {
		name string
		pub  crypto.PublicKey
	}{{"rsa", &rsaKey.PublicKey}, {"ec", &ecKey.PublicKey}} {
		t := tmpl(cl.name + " client")
		t.KeyUsage = x509.KeyUsageDigitalSignature
		t.ExtKeyUsage = []x509.ExtKeyUsage{x509.ExtKeyUsageClientAuth}
		if m.certs[cl.name], err = issue(t, authorities["ca"], cl.pub, caKeys["ca"]); err != nil {
			return nil, err
		}
	}

	write := func(slot, file, typ string, der []byte) error {
		p := filepath.Join(m.dir, file)
		m.files[slot] = p
		return os.WriteFile(p, pem.EncodeToMemory(&pem.Block{Type: typ, Bytes: der}), 0o600)
	}
	ecDER, err := x509.MarshalECPrivateKey(ecKey)
	if err != nil {
		return nil, err
	}
	for _, w := range []struct {
		slot, file, typ string
		der             []byte
	}{
		{"cert:rsa", "rsa.crt", "CERTIFICATE", m.certs["rsa"].Raw},
		{"cert:ec", "ec.crt", "CERTIFICATE", m.certs["ec"].Raw},
		{"key:rsa", "rsa.key", "RSA PRIVATE KEY", x509.MarshalPKCS1PrivateKey(rsaKey)},
		{"key:ec", "ec.key", "EC PRIVATE KEY", ecDER},
		{"ca:ca", "ca.pem", "CERTIFICATE", m.cas["ca"].Raw},
		{"ca:ca2", "ca2.pem", "CERTIFICATE", m.cas["ca2"].Raw},
		{"key:rsa2", "rsa2.key", "RSA PRIVATE KEY", x509.MarshalPKCS1PrivateKey(rsaKey2)},
		{"key:ec2", "ec2.key", "EC PRIVATE KEY", ec2DER},
	} {
		if err = write(w.slot, w.file, w.typ, w.der); err != nil {
			return nil, err
		}
	}
	// a certificate file that holds the ec certificate followed by its issuer
	m.files["cert:ecchain"] = filepath.Join(m.dir, "ec-fullchain.crt")
	fullchain := append(pem.EncodeToMemory(&pem.Block{Type: "CERTIFICATE", Bytes: m.certs["ec"].Raw}), pem.EncodeToMemory(&pem.Block{Type: "CERTIFICATE", Bytes: m.cas["ca"].Raw})...)
	if err = os.WriteFile(m.files["cert:ecchain"], fullchain, 0o600); err != nil {
		return nil, err
	}
	// a CA file that holds two authorities
	m.files["ca:bundle"] = filepath.Join(m.dir, "bundle.pem")
	bundle := append(pem.EncodeToMemory(&pem.Block{Type: "CERTIFICATE", Bytes: m.cas["ca"].Raw}), pem.EncodeToMemory(&pem.Block{Type: "CERTIFICATE", Bytes: m.cas["ca2"].Raw})...)
	if err = os.WriteFile(m.files["ca:bundle"], bundle, 0o600); err != nil {
		return nil, err
	}
	// a trust bundle of distribution size: well over 64 KiB, the authority that matters at its very end
	m.files["ca:bigbundle"] = filepath.Join(m.dir, "bigbundle.pem")
	var bigBundle []byte
	for _, name := range fillerNames {
		bigBundle = append(bigBundle, pem.EncodeToMemory(&pem.Block{Type: "CERTIFICATE", Bytes: m.cas[name].Raw})...)
	}
	bigBundle = append(bigBundle, pem.EncodeToMemory(&pem.Block{Type: "CERTIFICATE", Bytes: m.cas["ca"].Raw})...)
	if len(bigBundle) <= 64<<10 {
		return nil, fmt.Errorf("the big bundle has only %d bytes", len(bigBundle))
	}
	if err = os.WriteFile(m.files["ca:bigbundle"], bigBundle, 0o600); err != nil {
		return nil, err
	}
	m.files["garbage"] = filepath.Join(m.dir, "garbage.pem")
	if err = os.WriteFile(m.files["garbage"], []byte("-----BEGIN NOTHING-----\nthis is not PEM material\n"), 0o600); err != nil {
		return nil, err
	}
	m.files["missing"] = filepath.Join(m.dir, "does-not-exist.pem")
	if _, serr := os.Stat(m.files["missing"]); serr == nil {
		return nil, fmt.Errorf("%s exists", m.files["missing"])
	}
	return m, nil
}
