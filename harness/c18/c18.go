// Package c18 decides property C18 (TLS client options never weaken verification or silently drop the client
// identity) over the full lattice of client.TLSClientOptions: a model written from the property statement says
// what the returned *tls.Config must look like, and for the security-relevant corner a real TLS handshake
// against an in-process server confirms what the configuration does.
package c18

import (
	"bytes"
	"crypto"
	"crypto/tls"
	"crypto/x509"
	"errors"
	"fmt"
	"net/http"
	"os"
	"path/filepath"
	"reflect"
	"sort"
	"strings"
	"sync/atomic"

	"github.com/go-openapi/runtime/client"

	"verif/harness/kit"
)

// Case names what each option slot holds. It never carries key material.
type Case struct {
	CertFile   string `json:"cert_file,omitempty"`   // "", rsa, ec, missing, garbage
	KeyFile    string `json:"key_file,omitempty"`    // "", rsa, ec, missing, garbage
	LoadedCert string `json:"loaded_cert,omitempty"` // "", rsa, ec
	LoadedKey  string `json:"loaded_key,omitempty"`  // "", rsa, ec, ed25519
	CAFile     string `json:"ca_file,omitempty"`     // "", ca, ca2, missing, garbage
	LoadedCA   string `json:"loaded_ca,omitempty"`   // "", ca, ca2
	Pool       string `json:"pool,omitempty"`        // "", ca, ca2, empty
	ServerName string `json:"server_name,omitempty"` // "", server.test, other.test
	Insecure   bool   `json:"insecure,omitempty"`
	Callback   string `json:"callback,omitempty"` // "", accept, reject
	NoTickets  bool   `json:"no_tickets,omitempty"`
	Cache      bool   `json:"cache,omitempty"`
	Wrappers   bool   `json:"wrappers,omitempty"`  // judge TLSTransport and TLSClient as well
	Handshake  string `json:"handshake,omitempty"` // "", good, rogue, tls11: handshake against that server
	// Prev: the file slots name paths that held other material when an earlier call read them (a rotated CA bundle,
	// a renewed certificate, a file that has since been removed or has appeared).
	Prev *Prev `json:"prev,omitempty"`

	rot map[string]string // kind -> path of the rotating file (set by Check when Prev is given)
	// Blank: "cert" / "ca": the Certificate / CA path option (otherwise unset in the case) is set to a string of white
	// space (an environment variable with a trailing line break and nothing else): a path like any other that cannot be
	// read, never "not set". (r9)
	Blank string `json:"blank,omitempty"`
}

// Prev is what the three file paths held during the earlier call ("" : the slot was not set in that call).
type Prev struct {
	CertFile string `json:"cert_file,omitempty"`
	KeyFile  string `json:"key_file,omitempty"`
	CAFile   string `json:"ca_file,omitempty"`
}

var (
	certFiles   = []string{"", "rsa", "ec", "missing", "garbage", "ecchain"}     // ecchain: the ec certificate followed by its issuer (a "fullchain" file) (r8)
	keyFiles    = []string{"", "rsa", "ec", "missing", "garbage", "rsa2", "ec2"} // rsa2/ec2: valid keys of the same algorithm that belong to no certificate here
	loadedCerts = []string{"", "rsa", "ec"}
	loadedKeys  = []string{"", "rsa", "ec", "ed25519", "rsa2", "ec2"}
	caFiles     = []string{"", "ca", "ca2", "missing", "garbage", "bundle", "bigbundle"} // bundle: one file holding ca and ca2; bigbundle: a trust bundle of more than 64 KiB with ca at its end
	loadedCAs   = []string{"", "ca", "ca2", "pinned"}                                    // pinned: a self-signed end-entity certificate (not a CA) used as trust anchor (r9)
	pools       = []string{"", "ca", "ca2", "empty", "caold"}                            // caold: an authority with the subject of ca and another key (a root that was re-keyed)
	serverNames = []string{"", "server.test", "other.test", "10.1.2.3", "::1"}           // a server name may be an IP literal
	callbacks   = []string{"", "accept", "reject"}
	servers     = []string{"good", "rogue", "tls11"}
)

// fillerNames are the authorities that pad the big trust bundle.
var fillerNames = func() []string {
	var out []string
	for i := 0; i < 160; i++ {
		out = append(out, fmt.Sprintf("f%03d", i))
	}
	return out
}()

const dialledHost = "server.test" // the host a transport would fill in when no server name is configured

func in(s string, set []string) bool {
	for _, x := range set {
		if x == s {
			return true
		}
	}
	return false
}

func (c Case) valid() error {
	switch {
	case !in(c.CertFile, certFiles), !in(c.KeyFile, keyFiles), !in(c.LoadedCert, loadedCerts), !in(c.LoadedKey, loadedKeys),
		!in(c.CAFile, caFiles), !in(c.LoadedCA, loadedCAs), !in(c.Pool, pools), !in(c.ServerName, serverNames),
		!in(c.Callback, callbacks), c.Handshake != "" && !in(c.Handshake, servers):
		return fmt.Errorf("bad case %+v", c)
	}
	return nil
}

// live is one instantiation of a case: the options plus the observers behind them.
type live struct {
	opts      client.TLSClientOptions
	cbCalls   *int32
	cbErr     error
	cache     tls.ClientSessionCache
	cbPointer uintptr
}

var errRejected = errors.New("c18: callback rejects the peer")

func file(m *material, kind, slot string) string {
	switch slot {
	case "":
		return ""
	case "missing", "garbage":
		return m.files[slot]
	}
	return m.files[kind+":"+slot]
}

// place puts the material of a slot at the rotating path of its kind and returns the path ("" for an unset slot).
func place(m *material, rot map[string]string, kind, slot string) (string, error) {
	if slot == "" {
		return "", nil
	}
	path := rot[kind]
	_ = os.Remove(path)
	if slot == "missing" {
		return path, nil
	}
	raw, err := os.ReadFile(file(m, kind, slot))
	if err != nil {
		return "", err
	}
	return path, os.WriteFile(path, raw, 0o600)
}

func (c Case) slotPath(m *material, kind, slot string) string {
	if c.rot != nil && slot != "" {
		return c.rot[kind]
	}
	return file(m, kind, slot)
}

func (c Case) instantiate(m *material) *live {
	l := &live{cbCalls: new(int32)}
	o := &l.opts
	o.Certificate = c.slotPath(m, "cert", c.CertFile)
	o.Key = c.slotPath(m, "key", c.KeyFile)
	if c.LoadedCert != "" {
		o.LoadedCertificate = m.certs[c.LoadedCert]
	}
	if c.LoadedKey != "" {
		o.LoadedKey = m.keys[c.LoadedKey]
	}
	o.CA = c.slotPath(m, "ca", c.CAFile)
	if c.Blank == "cert" && c.CertFile == "" {
		o.Certificate = " \t\n"
	}
	if c.Blank == "ca" && c.CAFile == "" {
		o.CA = " \n"
	}
	if c.LoadedCA != "" {
		o.LoadedCA = m.cas[c.LoadedCA]
	}
	switch c.Pool {
	case "empty":
		o.LoadedCAPool = x509.NewCertPool()
	case "ca", "ca2", "caold":
		o.LoadedCAPool = x509.NewCertPool() // a fresh pool every time: TLSClientAuth may add to it
		o.LoadedCAPool.AddCert(m.cas[c.Pool])
	}
	o.ServerName = c.ServerName
	o.InsecureSkipVerify = c.Insecure
	calls := l.cbCalls
	switch c.Callback {
	case "accept":
		o.VerifyPeerCertificate = func([][]byte, [][]*x509.Certificate) error { atomic.AddInt32(calls, 1); return nil }
	case "reject":
		l.cbErr = errRejected
		o.VerifyPeerCertificate = func([][]byte, [][]*x509.Certificate) error { atomic.AddInt32(calls, 1); return errRejected }
	}
	if o.VerifyPeerCertificate != nil {
		l.cbPointer = reflect.ValueOf(o.VerifyPeerCertificate).Pointer()
	}
	o.SessionTicketsDisabled = c.NoTickets
	if c.Cache {
		l.cache = tls.NewLRUClientSessionCache(4)
		o.ClientSessionCache = l.cache
	}
	return l
}

// Model (from the statement) --------------------------------------------------------------------------

type expectation struct {
	mustErr  string     // non-empty: the client certificate or key material is unusable, an error is required
	mayErr   string     // non-empty: an error is admissible (the statement leaves the situation open)
	leaf     string     // the client certificate the configuration must present ("" none)
	chain    bool       // ... followed by its issuer, as the certificate file holds both
	rootsNil bool       // no root supplied: RootCAs nil (system pool)
	rootSets [][]string // admissible sets of trusted roots when rootsNil is false
	insecure bool       // InsecureSkipVerify
}

func (c Case) expect() expectation {
	var e expectation
	if c.Blank == "cert" && c.CertFile == "" {
		c.CertFile = "missing" // judged like a path at which nothing can be read
	}
	if c.Blank == "ca" && c.CAFile == "" {
		c.CAFile = "missing"
	}
	// client identity. The documentation decides which slot counts when both are filled (the file wins).
	switch {
	case c.CertFile != "":
		switch {
		case c.CertFile == "missing" || c.CertFile == "garbage":
			e.mustErr = "certificate file is " + c.CertFile
		case c.KeyFile == "":
			e.mustErr = "certificate file without key file"
		case c.KeyFile == "missing" || c.KeyFile == "garbage":
			e.mustErr = "key file is " + c.KeyFile
		case c.KeyFile != strings.TrimSuffix(c.CertFile, "chain"):
			e.mustErr = "key file does not match the certificate file"
		default:
			e.leaf = strings.TrimSuffix(c.CertFile, "chain")
			e.chain = strings.HasSuffix(c.CertFile, "chain")
		}
		if c.LoadedCert != "" || c.LoadedKey != "" {
			e.mayErr = "certificate supplied both as file and in memory"
		}
	case c.LoadedCert != "":
		switch {
		case c.LoadedKey == "":
			e.mustErr = "loaded certificate without loaded key"
		case c.LoadedKey == "ed25519":
			e.mustErr = "unsupported key type"
		case c.LoadedKey != c.LoadedCert:
			e.mustErr = "loaded key does not match the loaded certificate"
		default:
			e.leaf = c.LoadedCert
		}
		if c.KeyFile != "" {
			e.mayErr = "key file without certificate file"
		}
	default:
		if c.KeyFile != "" || c.LoadedKey != "" {
			e.mayErr = "key without any certificate"
		}
	}

	// roots
	pool := []string{}
	if c.Pool == "ca" || c.Pool == "ca2" || c.Pool == "caold" {
		pool = []string{c.Pool}
	}
	fileRoots := []string{}
	if c.CAFile == "ca" || c.CAFile == "ca2" {
		fileRoots = []string{c.CAFile}
	}
	if c.CAFile == "bundle" {
		fileRoots = []string{"ca", "ca2"}
	}
	if c.CAFile == "bigbundle" {
		fileRoots = append(append([]string{}, fillerNames...), "ca")
	}
	unreadable := c.CAFile == "missing" || c.CAFile == "garbage"
	switch {
	case c.LoadedCA != "":
		// documented: the CA file is ignored when LoadedCA is set. The statement says "exactly the supplied roots":
		// trusting the readable file's certificate as well is admitted too.
		e.rootSets = [][]string{union(pool, []string{c.LoadedCA})}
		if len(fileRoots) > 0 {
			e.rootSets = append(e.rootSets, union(pool, []string{c.LoadedCA}, fileRoots))
		}
		if unreadable && e.mayErr == "" {
			e.mayErr = "CA file is " + c.CAFile + " (next to a loaded CA)"
		}
	case c.CAFile != "":
		e.rootSets = [][]string{union(pool, fileRoots)}
		if unreadable && e.mayErr == "" {
			// an error, or a pool without that root; never the system pool
			e.mayErr = "CA file is " + c.CAFile
		}
	case c.Pool != "":
		e.rootSets = [][]string{pool}
	default:
		e.rootsNil = true
	}
	e.insecure = c.Insecure && c.ServerName == ""
	return e
}

func union(sets ...[]string) []string {
	seen := map[string]bool{}
	out := []string{}
	for _, s := range sets {
		for _, x := range s {
			if !seen[x] {
				seen[x] = true
				out = append(out, x)
			}
		}
	}
	sort.Strings(out)
	return out
}

// Check ---------------------------------------------------------------------------------------------

func Check(c Case) *kit.Violation {
	if err := c.valid(); err != nil {
		return kit.Failf("%v", err)
	}
	m := mustMaterial()
	e := c.expect()

	var (
		cfg *tls.Config
		err error
	)
	if c.Prev != nil {
		if !in(c.Prev.CertFile, certFiles) || !in(c.Prev.KeyFile, keyFiles) || !in(c.Prev.CAFile, caFiles) {
			return kit.Failf("bad case %+v", c)
		}
		dir, derr := os.MkdirTemp(m.dir, "rot")
		if derr != nil {
			return kit.Failf("harness: %v", derr)
		}
		defer os.RemoveAll(dir)
		c.rot = map[string]string{"cert": filepath.Join(dir, "cert.pem"), "key": filepath.Join(dir, "key.pem"), "ca": filepath.Join(dir, "ca.pem")}
		var po client.TLSClientOptions
		var perr error
		if po.Certificate, perr = place(m, c.rot, "cert", c.Prev.CertFile); perr == nil {
			if po.Key, perr = place(m, c.rot, "key", c.Prev.KeyFile); perr == nil {
				po.CA, perr = place(m, c.rot, "ca", c.Prev.CAFile)
			}
		}
		if perr != nil {
			return kit.Failf("harness: %v", perr)
		}
		// the earlier call: whatever it returns, it must not influence what a later call makes of the same paths
		if v := kit.Guard("client.TLSClientAuth (earlier call)", func() { _, _ = client.TLSClientAuth(po) }); v != nil {
			return v
		}
		for _, ks := range [][2]string{{"cert", c.CertFile}, {"key", c.KeyFile}, {"ca", c.CAFile}} {
			if ks[1] == "" {
				_ = os.Remove(c.rot[ks[0]])
				continue
			}
			if _, perr := place(m, c.rot, ks[0], ks[1]); perr != nil {
				return kit.Failf("harness: %v", perr)
			}
		}
	}
	l := c.instantiate(m)
	if v := kit.Guard("client.TLSClientAuth", func() { cfg, err = client.TLSClientAuth(l.opts) }); v != nil {
		return v
	}
	roots, v := judge("TLSClientAuth", c, e, m, l, cfg, err)
	if v != nil {
		return v
	}

	if c.Wrappers {
		var (
			rt   http.RoundTripper
			hc   *http.Client
			e1   error
			e2   error
			l1   = c.instantiate(m)
			l2   = c.instantiate(m)
			cfg1 *tls.Config
			cfg2 *tls.Config
		)
		if v := kit.Guard("client.TLSTransport", func() { rt, e1 = client.TLSTransport(l1.opts) }); v != nil {
			return v
		}
		if v := kit.Guard("client.TLSClient", func() { hc, e2 = client.TLSClient(l2.opts) }); v != nil {
			return v
		}
		if e1 == nil {
			tr, ok := rt.(*http.Transport)
			if !ok || tr == nil {
				return kit.Failf("%s: TLSTransport returned %T without error", c.describe(), rt)
			}
			cfg1 = tr.TLSClientConfig
		} else if rt != nil && !reflect.ValueOf(rt).IsNil() {
			return kit.Failf("%s: TLSTransport returned an error (%v) and a transport", c.describe(), e1)
		}
		if e2 == nil {
			if hc == nil {
				return kit.Failf("%s: TLSClient returned nil without error", c.describe())
			}
			tr, ok := hc.Transport.(*http.Transport)
			if !ok || tr == nil {
				return kit.Failf("%s: TLSClient returned a client with transport %T", c.describe(), hc.Transport)
			}
			cfg2 = tr.TLSClientConfig
		} else if hc != nil {
			return kit.Failf("%s: TLSClient returned an error (%v) and a client", c.describe(), e2)
		}
		if _, v := judge("TLSTransport", c, e, m, l1, cfg1, e1); v != nil {
			return v
		}
		if _, v := judge("TLSClient", c, e, m, l2, cfg2, e2); v != nil {
			return v
		}
		if (err == nil) != (e1 == nil) || (err == nil) != (e2 == nil) {
			return kit.Failf("%s: the entry points disagree: TLSClientAuth err=%v, TLSTransport err=%v, TLSClient err=%v", c.describe(), err, e1, e2)
		}
	}

	if c.Handshake != "" && cfg != nil {
		return c.judgeHandshake(m, e, l, cfg, roots)
	}
	return nil
}

func (c Case) describe() string {
	var parts []string
	add := func(k, v string) {
		if v != "" {
			parts = append(parts, k+"="+v)
		}
	}
	add("Certificate", c.CertFile)
	add("Key", c.KeyFile)
	add("LoadedCertificate", c.LoadedCert)
	add("LoadedKey", c.LoadedKey)
	add("CA", c.CAFile)
	add("LoadedCA", c.LoadedCA)
	add("LoadedCAPool", c.Pool)
	add("ServerName", c.ServerName)
	if c.Insecure {
		add("InsecureSkipVerify", "true")
	}
	add("VerifyPeerCertificate", c.Callback)
	if c.NoTickets {
		add("SessionTicketsDisabled", "true")
	}
	if c.Cache {
		add("ClientSessionCache", "set")
	}
	if c.Prev != nil {
		add("[earlier call read the same paths holding: Certificate", c.Prev.CertFile+" Key="+c.Prev.KeyFile+" CA="+c.Prev.CAFile+"]")
	}
	if len(parts) == 0 {
		return "{no option}"
	}
	return "{" + strings.Join(parts, " ") + "}"
}

// judge compares one returned configuration with the model. It returns the root set the configuration trusts
// (nil for the system pool).
func judge(entry string, c Case, e expectation, m *material, l *live, cfg *tls.Config, err error) ([]string, *kit.Violation) {
	what := entry + c.describe()
	if err != nil {
		if cfg != nil {
			return nil, kit.Failf("%s: returned both an error (%v) and a configuration", what, err)
		}
		if e.mustErr == "" && e.mayErr == "" {
			return nil, kit.Failf("%s: every supplied slot is usable, yet the call failed: %v", what, err)
		}
		return nil, nil
	}
	if cfg == nil {
		return nil, kit.Failf("%s: returned neither a configuration nor an error", what)
	}
	if e.mustErr != "" {
		return nil, kit.Failf("%s: unusable client material (%s) must yield an error; got a configuration with %d client certificate(s)", what, e.mustErr, len(cfg.Certificates))
	}

	// protocol floor
	if cfg.MinVersion < tls.VersionTLS12 {
		return nil, kit.Failf("%s: MinVersion is %#x, below TLS 1.2 (%#x)", what, cfg.MinVersion, tls.VersionTLS12)
	}
	if cfg.MaxVersion != 0 && cfg.MaxVersion < tls.VersionTLS12 {
		return nil, kit.Failf("%s: MaxVersion is %#x, below TLS 1.2", what, cfg.MaxVersion)
	}
	// verification switch
	if cfg.InsecureSkipVerify != e.insecure {
		return nil, kit.Failf("%s: InsecureSkipVerify=%v, want %v (requested=%v, server name %q)", what, cfg.InsecureSkipVerify, e.insecure, c.Insecure, c.ServerName)
	}
	// pass-through settings
	if cfg.ServerName != c.ServerName {
		return nil, kit.Failf("%s: ServerName is %q, want %q", what, cfg.ServerName, c.ServerName)
	}
	switch {
	case c.Callback == "" && cfg.VerifyPeerCertificate != nil:
		return nil, kit.Failf("%s: a VerifyPeerCertificate callback appeared that was not supplied", what)
	case c.Callback != "":
		if cfg.VerifyPeerCertificate == nil {
			return nil, kit.Failf("%s: the VerifyPeerCertificate callback was dropped", what)
		}
		if p := reflect.ValueOf(cfg.VerifyPeerCertificate).Pointer(); p != l.cbPointer {
			return nil, kit.Failf("%s: VerifyPeerCertificate is not the supplied function (different code pointer)", what)
		}
		before := atomic.LoadInt32(l.cbCalls)
		got := cfg.VerifyPeerCertificate(nil, nil)
		if atomic.LoadInt32(l.cbCalls) != before+1 || got != l.cbErr {
			return nil, kit.Failf("%s: calling the configured VerifyPeerCertificate did not reach the supplied callback (calls %d -> %d, result %v, want %v)", what, before, atomic.LoadInt32(l.cbCalls), got, l.cbErr)
		}
		atomic.StoreInt32(l.cbCalls, before)
	}
	if cfg.SessionTicketsDisabled != c.NoTickets {
		return nil, kit.Failf("%s: SessionTicketsDisabled=%v, want %v", what, cfg.SessionTicketsDisabled, c.NoTickets)
	}
	if cfg.ClientSessionCache != l.cache {
		return nil, kit.Failf("%s: ClientSessionCache is not the supplied one (configured: %v, supplied: %v)", what, cfg.ClientSessionCache != nil, l.cache != nil)
	}

	// client identity
	if e.leaf == "" {
		if len(cfg.Certificates) != 0 || cfg.GetClientCertificate != nil {
			return nil, kit.Failf("%s: no client certificate supplied, the configuration carries %d (GetClientCertificate set: %v)", what, len(cfg.Certificates), cfg.GetClientCertificate != nil)
		}
	} else {
		want := m.certs[e.leaf]
		if len(cfg.Certificates) != 1 {
			return nil, kit.Failf("%s: want exactly the %s client certificate, the configuration carries %d certificates", what, e.leaf, len(cfg.Certificates))
		}
		got := cfg.Certificates[0]
		if e.chain {
			if len(got.Certificate) != 2 || !bytes.Equal(got.Certificate[0], want.Raw) || !bytes.Equal(got.Certificate[1], m.cas["ca"].Raw) {
				return nil, kit.Failf("%s: the certificate file holds the %s certificate followed by its issuer; the configuration presents a chain of %d element(s), want exactly those two", what, e.leaf, len(got.Certificate))
			}
		} else if len(got.Certificate) != 1 || !bytes.Equal(got.Certificate[0], want.Raw) {
			return nil, kit.Failf("%s: the client certificate chain (%d elements) is not exactly the supplied %s certificate", what, len(got.Certificate), e.leaf)
		}
		signer, ok := got.PrivateKey.(crypto.Signer)
		if !ok {
			return nil, kit.Failf("%s: the client certificate has no usable private key (%T)", what, got.PrivateKey)
		}
		type equaler interface{ Equal(crypto.PublicKey) bool }
		if pub, ok := signer.Public().(equaler); !ok || !pub.Equal(want.PublicKey) {
			return nil, kit.Failf("%s: the private key next to the client certificate does not belong to it", what)
		}
		if cfg.GetClientCertificate != nil {
			return nil, kit.Failf("%s: GetClientCertificate is set and would override the supplied certificate", what)
		}
	}

	// roots
	if e.rootsNil {
		if cfg.RootCAs != nil {
			return nil, kit.Failf("%s: no root supplied, RootCAs must stay nil (system pool); got a pool", what)
		}
		return nil, nil
	}
	if cfg.RootCAs == nil {
		return nil, kit.Failf("%s: roots were supplied, RootCAs is nil (the system pool would be trusted instead)", what)
	}
	for _, set := range e.rootSets {
		exp := x509.NewCertPool()
		for _, name := range set {
			exp.AddCert(m.cas[name])
		}
		if cfg.RootCAs.Equal(exp) {
			return set, nil
		}
	}
	return nil, kit.Failf("%s: RootCAs is not exactly the supplied roots: admissible %v, got a pool with %d subject(s)%s", what, e.rootSets, len(cfg.RootCAs.Subjects()), poolNames(m, cfg.RootCAs)) //nolint:staticcheck
}

func poolNames(m *material, p *x509.CertPool) string {
	var names []string
	for _, s := range p.Subjects() { //nolint:staticcheck
		name := "?"
		for n, c := range m.cas {
			if bytes.Equal(c.RawSubject, s) {
				name = n
			}
		}
		names = append(names, name)
	}
	sort.Strings(names)
	probe := x509.NewCertPool()
	for _, s := range names {
		if c, ok := m.cas[s]; ok {
			probe.AddCert(c)
		}
	}
	extra := ""
	if !p.Equal(probe) {
		extra = " (plus entries the harness did not supply, or the system pool)"
	}
	return fmt.Sprintf(" %v%s", names, extra)
}
