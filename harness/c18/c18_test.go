package c18

import (
	"fmt"
	"os"
	"testing"

	"verif/harness/kit"
)

// TestMain generates the key material before any check runs (a failure there is a harness failure, exit 2,
// never a verdict) and removes the temporary PEM directory when the test process ends.
func TestMain(m *testing.M) {
	if err := Setup(); err != nil {
		fmt.Printf("c18 harness: cannot generate key material: %v\n", err)
		os.Exit(2)
	}
	code := m.Run()
	Cleanup()
	os.Exit(code)
}

func TestVerif(t *testing.T) { kit.Main(t, Props()...) }
