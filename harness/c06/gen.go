package c06

import (
	"strings"

	"pgregory.net/rapid"

	"verif/harness/kit"
)

// concrete media types that can have a registered consumer
var concrete = []string{"application/json", "text/plain", "text/csv", "application/xml", "a/b", "application/vnd.x+json", "image/png", "application/octet-stream", "application/json-patch+json", "a/bc"} // the last two start with the text of a default media type (r8)

var wildcards = []string{"text/*", "application/*", "*/*", "*/*", "a/*", "image/*"}

var paramEntries = []string{"application/json; charset=utf-8", "text/plain;v=1", "text/csv ; header=present", "text/*;q=0.5", "a/b;x=\"y\""}

var otherTypes = []string{"image/gif", "text/html", "application/x-yaml", "multipart/form-data", "x/y", "text/x", "application/json+x", "applicationx/json", "text", "*/*", "text/*"}

var malformed = []string{"a/b/c", ";;", "/", "text/", "/plain", ";charset=utf-8", "text/plain; charset", "text/plain; =x", "a b/c", "text/plain; charset=utf-8; charset=ascii",
	"text/plain; charset=\"utf-8", "application/json;char*", "application(", "text/plain,text/csv", "text/plain; a=b c", "\"text/plain\"", "text /plain", "text/ plain", "@/b", "a/b;;x=1"}

var paramForms = []string{"; charset=utf-8", ";charset=utf-8", " ;  Charset=\"UTF-8\" ; x=y", ";CHARSET=UTF-8", "; boundary=\"a;b/c,d\"", "; v=1", ";\tcharset=utf-8", "; x=\"a\\\"b\"", ";", "; ",
	"; q=0.1", "; a=1; b=2; c=3", "; title*=utf-8''%e2%82%ac", "; x=\"\""}

var methods = []string{"post", "put", "patch", "delete", "get", "head", "options", "post", "put"}

var bodyKinds = []string{"wire-cl", "wire-cl", "wire-cl", "wire-cl", "wire-chunked", "wire-chunked", "wire-chunked", "direct-sized", "direct-sized", "direct-unsized", "direct-unsized",
	"direct-minus1", "direct-minus1", "wire-none", "wire-cl0", "wire-chunked-empty", "direct-empty", "direct-nobody", "direct-nil"}

var payloads = []string{"{}", `{"a":1}`, "x", "null", "a,b\n1,2\n", "<x/>", " ", "\x00", "0123456789abcdef0123456789", "\xff\xfe"}

// header-safe bytes: visible ASCII, blank, tab, and obs-text
func headerByte(t *rapid.T) byte {
	switch rapid.IntRange(0, 9).Draw(t, "byte-class") {
	case 0:
		return byte(rapid.IntRange(0x80, 0xff).Draw(t, "obs-text"))
	case 1:
		return rapid.SampledFrom([]byte(" \t;=/\"\\*,()<>@:[]?{}")).Draw(t, "special")
	}
	return byte(rapid.IntRange(0x21, 0x7e).Draw(t, "visible"))
}

func mixCase(t *rapid.T, s string) string {
	b := []byte(s)
	for i := range b {
		if b[i] >= 'a' && b[i] <= 'z' && rapid.Bool().Draw(t, "upper") {
			b[i] -= 32
		}
	}
	return string(b)
}

func genConsumes(t *rapid.T) []string {
	n := rapid.SampledFrom([]int{0, 0, 1, 1, 1, 2, 2, 3, 4}).Draw(t, "entries")
	if n == 0 {
		if rapid.Bool().Draw(t, "declared-empty") {
			return []string{}
		}
		return nil
	}
	var out []string
	for i := 0; i < n; i++ {
		switch rapid.IntRange(0, 9).Draw(t, "entry-kind") {
		case 0, 1, 2:
			out = append(out, rapid.SampledFrom(wildcards).Draw(t, "wildcard"))
		case 3, 4:
			out = append(out, rapid.SampledFrom(paramEntries).Draw(t, "param-entry"))
		default:
			out = append(out, rapid.SampledFrom(concrete).Draw(t, "concrete"))
		}
	}
	return out
}

// genHeader draws the Content-Type header relative to the operation.
func genHeader(t *rapid.T, c Case) (bool, string) {
	list := effectiveList(c.Consumes, c.Default)
	// base media type
	var base string
	switch rapid.IntRange(0, 11).Draw(t, "base") {
	case 0, 1, 2: // the type of a list entry; a wildcard entry is instantiated
		if len(list) == 0 {
			base = rapid.SampledFrom(concrete).Draw(t, "concrete")
			break
		}
		e, _ := splitEntry(rapid.SampledFrom(list).Draw(t, "entry"))
		switch {
		case e == "*/*":
			base = rapid.SampledFrom(append(append([]string{}, concrete...), otherTypes...)).Draw(t, "any")
		case strings.HasSuffix(e, "/*"):
			var fits []string
			for _, m := range append(append([]string{}, concrete...), otherTypes...) {
				if covers(e, m) != "" {
					fits = append(fits, m)
				}
			}
			fits = append(fits, e[:len(e)-1]+"zz")
			base = rapid.SampledFrom(fits).Draw(t, "instance")
		default:
			base = e
		}
	case 3, 4: // a type with a registered consumer (admitted or not)
		if len(c.Regs) > 0 {
			base = rapid.SampledFrom(c.Regs).Draw(t, "registered")
		} else {
			base = rapid.SampledFrom(concrete).Draw(t, "concrete")
		}
	case 5:
		base = rapid.SampledFrom(concrete).Draw(t, "concrete")
	case 6:
		base = rapid.SampledFrom(otherTypes).Draw(t, "other")
	case 7:
		return false, "" // absent
	case 8:
		if rapid.Bool().Draw(t, "table") {
			return true, rapid.SampledFrom(malformed).Draw(t, "malformed")
		}
		n := rapid.IntRange(0, 12).Draw(t, "raw-len")
		b := make([]byte, n)
		for i := range b {
			b[i] = headerByte(t)
		}
		return true, strings.Trim(string(b), " \t")
	case 9: // the verbatim text of a list entry (byte-equal, the trivial class) or of a parameter entry
		if len(list) > 0 {
			return true, rapid.SampledFrom(list).Draw(t, "verbatim")
		}
		base = "application/json"
	default:
		if c.Default != "" {
			base = c.Default
		} else {
			base = rapid.SampledFrom(concrete).Draw(t, "concrete")
		}
	}
	// spelling
	switch rapid.IntRange(0, 5).Draw(t, "case") {
	case 0:
		base = strings.ToUpper(base)
	case 1:
		base = mixCase(t, base)
	}
	// parameters
	switch rapid.IntRange(0, 5).Draw(t, "params") {
	case 0, 1:
		base += rapid.SampledFrom(paramForms).Draw(t, "param-form")
	case 2:
		base += rapid.SampledFrom(paramForms).Draw(t, "param-form") + rapid.SampledFrom(paramForms).Draw(t, "param-form-2")
	}
	if rapid.IntRange(0, 9).Draw(t, "blank") == 0 {
		base = " " + base + "\t" // trimmed on the wire, kept by direct construction
	}
	return true, base
}

// Gen draws one operation and 1-12 requests.
func Gen(t *rapid.T) Case {
	c := Case{Consumes: genConsumes(t)}
	if c.Consumes != nil {
		c.Global = rapid.IntRange(0, 3).Draw(t, "global") == 0
	}
	c.Default = rapid.SampledFrom([]string{"", "", "application/json", "application/json", "text/plain", "a/b"}).Draw(t, "default")
	if len(c.Consumes) == 0 && c.Default == "" && rapid.IntRange(0, 2).Draw(t, "keep-empty-list") != 0 {
		c.Default = "application/json" // keep the class "neither entry nor default" (status left open) small
	}
	c.Regs = []string{}
	for _, m := range concrete {
		if rapid.IntRange(0, 2).Draw(t, "registered-"+m) != 0 {
			c.Regs = append(c.Regs, m)
		}
	}
	if rapid.IntRange(0, 4).Draw(t, "consumer-registered-under-a-wildcard") == 0 {
		// a consumer filed under a wildcard key is the consumer of nothing in particular: no body is decoded by it (r8)
		c.Regs = append(c.Regs, rapid.SampledFrom([]string{"application/*", "*/*", "text/*"}).Draw(t, "wildcard-key"))
	}
	c.Method = rapid.SampledFrom(methods).Draw(t, "method")
	c.NoBodyParam = rapid.IntRange(0, 3).Draw(t, "operation-without-body-parameter") == 0
	if rapid.IntRange(0, 2).Draw(t, "sibling-operation") == 0 {
		c.Sibling = genConsumes(t)
		if c.Sibling == nil {
			c.Sibling = []string{"*/*"}
		}
	}
	c.Reqs = rapid.SliceOfN(rapid.Custom(func(t *rapid.T) Req {
		var q Req
		has, ct := genHeader(t, c)
		q.HasCT, q.CT = has, kit.BStr(ct)
		q.Body = rapid.SampledFrom(bodyKinds).Draw(t, "body")
		switch q.Body {
		case "wire-cl", "wire-chunked", "direct-sized", "direct-unsized", "direct-minus1":
			q.Payload = kit.BStr(rapid.SampledFrom(payloads).Draw(t, "payload"))
		}
		if (q.Body == "wire-cl" || q.Body == "wire-cl0") && rapid.IntRange(0, 2).Draw(t, "padded-length") == 0 {
			q.ZeroPad = rapid.IntRange(1, 3).Draw(t, "zero-pad")
		}
		q.Expect = rapid.IntRange(0, 4).Draw(t, "expect-continue") == 0
		q.ViaSibling = c.Sibling != nil && rapid.Bool().Draw(t, "sent-to-the-sibling-first")
		if rapid.IntRange(0, 2).Draw(t, "with-accept") == 0 {
			q.Accept = rapid.SampledFrom(acceptValues).Draw(t, "accept")
		}
		return q
	}), 1, 12).Draw(t, "requests")
	return c
}

var acceptValues = []string{"application/json", "*/*", "application/*", "text/plain, application/json;q=0.5", "application/xml", "text/plain;q=0.5", "image/*"}

// Classify: a request is non-trivial when it carries a body and its header is not byte-equal to a list entry.
func Classify(c Case) (bool, []string) {
	nt := false
	labels := []string{"method:" + c.Method}
	if c.NoBodyParam {
		labels = append(labels, "operation without body parameter")
	}
	for _, r := range c.Regs {
		if strings.Contains(r, "*") {
			labels = append(labels, "a consumer registered under a wildcard key")
		}
	}
	list := effectiveList(c.Consumes, c.Default)
	switch {
	case c.Consumes == nil:
		labels = append(labels, "consumes:not-declared")
	case len(c.Consumes) == 0:
		labels = append(labels, "consumes:empty")
	case c.Global:
		labels = append(labels, "consumes:global")
	default:
		labels = append(labels, "consumes:operation")
	}
	if c.Default != "" {
		labels = append(labels, "default-media-type")
	}
	for _, e := range c.Consumes {
		_, p := splitEntry(e)
		switch {
		case p:
			labels = append(labels, "entry:with-params")
		case e == "*/*":
			labels = append(labels, "entry:*/*")
		case strings.HasSuffix(e, "/*"):
			labels = append(labels, "entry:type/*")
		}
	}
	for _, q := range c.Reqs {
		hdr := q.build(c.Method).Header.Get("Content-Type")
		v := Judge(c.Consumes, c.Default, q.carriesBody(), hdr)
		labels = append(labels, "body:"+q.Body)
		if q.ZeroPad > 0 {
			labels = append(labels, "content-length:leading-zeros")
		}
		if q.Expect {
			labels = append(labels, "expect:100-continue")
			if !q.carriesBody() {
				labels = append(labels, "expect:100-continue without a body")
			}
		}
		if q.ViaSibling && c.Sibling != nil {
			labels = append(labels, "sent to the sibling operation of the path first")
			sv := Judge(c.Sibling, c.Default, q.carriesBody(), hdr)
			if sv.Gate && !sv.ParseErr && sv.Admit != "no" && v.Gate && !v.ParseErr && v.Admit == "no" {
				labels = append(labels, "the sibling operation admits the media type, the judged one does not")
			}
		}
		if q.unsatisfiableAccept() {
			if v.Gate && (v.ParseErr || v.Admit == "no") {
				labels = append(labels, "accept:unsatisfiable+media-type-refused")
			} else {
				labels = append(labels, "accept:unsatisfiable (not judged)")
			}
		} else if q.Accept != "" {
			labels = append(labels, "accept:satisfiable")
		}
		verbatim := false
		for _, e := range list {
			if q.HasCT && e == hdr {
				verbatim = true
			}
		}
		switch {
		case !q.HasCT || hdr == "":
			labels = append(labels, "header:absent")
		case verbatim:
			labels = append(labels, "header:byte-equal-to-entry")
		case strings.Contains(hdr, ";"):
			labels = append(labels, "header:with-params")
		case hdr != strings.ToLower(hdr):
			labels = append(labels, "header:other-case")
		default:
			labels = append(labels, "header:plain")
		}
		switch {
		case !v.Gate:
			labels = append(labels, "expect:no-gate")
		case v.ParseErr:
			labels = append(labels, "expect:400")
		case v.Admit == "no":
			labels = append(labels, "expect:415")
		default:
			reg := isRegistered(c.Regs, v.MT)
			l := "admitted-via:" + v.Admit
			if reg {
				l += "+consumer"
			} else {
				l += "+no-consumer"
			}
			labels = append(labels, l)
		}
		if v.Gate && !verbatim {
			nt = true
			labels = append(labels, "nontrivial-request")
		}
	}
	return nt, labels
}

const ruleText = "consumes list of 0-4 lower-case entries (concrete, type/*, */*, entries with parameters; not declared / empty; operation or global) x API default media type x registered consumers; " +
	"1-12 requests: Content-Type from a grammar (entry/registered/other type, case, parameters, blanks, verbatim, absent, malformed table, raw header-safe bytes) x body by Content-Length / chunked / none / zero / in-process variants x 7 methods; " +
	"optionally a sibling operation on the same path (other method, own consumes list) that requests are sent to first, unjudged; both entry points (BindAndValidate behind APIHandler, BindValidRequest with a recording binder) on the same request; non-trivial: body present and header not byte-equal to a list entry"

func Props() []kit.Runner {
	return []kit.Runner{
		kit.Prop[Case]{ID: "C06", Name: "untyped", Rule: "[untyped API as is] " + ruleText,
			Quick: 1000, Thorough: 4000, Gen: Gen, Check: CheckUntyped, Classify: Classify},
		kit.Prop[Case]{ID: "C06", Name: "wild", Rule: "[RoutableAPI whose ConsumersFor resolves type/* and */* to the registered concrete consumers] " + ruleText,
			Quick: 1000, Thorough: 4000, Gen: Gen, Check: CheckWild, Classify: Classify},
	}
}
