// Package c06 decides property C06 (a body is decoded only by the consumer of an admitted media type, else
// 415/400; the two binding entry points agree) by comparing go-openapi/runtime with an admission model written
// from the property statement, and the two entry points with each other on the same request.
package c06

import (
	"mime"
	"strings"
)

// Verdict is what the statement says about one request against one operation.
type Verdict struct {
	Gate     bool   // the request carries a body, so the check applies
	ParseErr bool   // the Content-Type header cannot be parsed
	MT       string // media type of the request: lower case, parameters dropped
	// Admit: "exact" (a parameter-free entry of the declared list), "default" (only the API default media type),
	// "type/*", "*/*", "param-entry" (only an entry that itself carries parameters matches, up to parameters:
	// tolerated either way), "empty-list" (no entry at all: see the note in Check), "no".
	Admit     string
	ViaParams bool // some entry carrying parameters covers the media type
}

// effectiveList is the operation's consumes list with the API default media type added.
func effectiveList(consumes []string, def string) []string {
	list := append([]string(nil), consumes...)
	if def != "" {
		found := false
		for _, e := range list {
			if strings.EqualFold(e, def) {
				found = true
			}
		}
		if !found {
			list = append(list, def)
		}
	}
	return list
}

func splitEntry(e string) (base string, hasParams bool) {
	i := strings.IndexByte(e, ';')
	if i < 0 {
		return strings.ToLower(strings.TrimSpace(e)), false
	}
	return strings.ToLower(strings.TrimSpace(e[:i])), true
}

// covers: does the parameter-free entry base admit media type mt, and how?
func covers(base, mt string) string {
	switch {
	case base == "*/*":
		return "*/*"
	case strings.HasSuffix(base, "/*"):
		parts := strings.Split(mt, "/")
		if len(parts) == 2 && parts[0] == base[:len(base)-2] {
			return "type/*"
		}
		return ""
	case base == mt:
		return "exact"
	}
	return ""
}

var admitRank = map[string]int{"exact": 5, "default": 4, "type/*": 3, "*/*": 2, "param-entry": 1, "no": 0}

// Judge applies the statement. hasBody says whether the request as built carries a body; header is the
// Content-Type header value the handler sees ("" when absent).
func Judge(consumes []string, def string, hasBody bool, header string) Verdict {
	v := Verdict{Gate: hasBody}
	if !hasBody {
		return v
	}
	if header == "" {
		header = "application/octet-stream" // runtime.DefaultMime: the documented meaning of an absent header
	}
	mt, _, err := mime.ParseMediaType(header) // the standard library is the trusted parser of the header grammar
	if err != nil {
		v.ParseErr = true
		return v
	}
	v.MT = mt
	list := effectiveList(consumes, def)
	if len(list) == 0 {
		v.Admit = "empty-list"
		return v
	}
	v.Admit = "no"
	better := func(a string) {
		if admitRank[a] > admitRank[v.Admit] {
			v.Admit = a
		}
	}
	for i, e := range list {
		base, params := splitEntry(e)
		how := covers(base, mt)
		if how == "" {
			continue
		}
		// an entry that itself carries parameters admits its media type like a parameter-free one ("compared
		// case-insensitively, ignoring parameters"); ViaParams only feeds the labels
		if params {
			v.ViaParams = true
		}
		if how == "exact" && i >= len(consumes) {
			how = "default"
		}
		better(how)
	}
	return v
}

func (v Verdict) String() string {
	switch {
	case !v.Gate:
		return "no body: the check does not apply"
	case v.ParseErr:
		return "unparsable Content-Type: 400"
	}
	return "media type " + v.MT + ", admission: " + v.Admit
}
