package c06

import (
	"bufio"
	"encoding/json"
	"fmt"
	"io"
	"net/http"
	"net/http/httptest"
	"strings"

	oerr "github.com/go-openapi/errors"
	"github.com/go-openapi/loads"
	"github.com/go-openapi/runtime"
	"github.com/go-openapi/runtime/middleware"
	"github.com/go-openapi/runtime/middleware/untyped"
	"github.com/go-openapi/spec"
	"github.com/go-openapi/strfmt"

	"verif/harness/kit"
)

// Req is one request: the Content-Type header and the way the body is (or is not) present.
type Req struct {
	HasCT bool     `json:"has_ct"`
	CT    kit.BStr `json:"ct,omitempty"`
	// Body: how the request is built and how the body is signalled.
	//   wire-*   the request is written as HTTP/1.1 text and parsed by http.ReadRequest (what a server sees):
	//            wire-cl (Content-Length: n + n bytes), wire-chunked, wire-chunked-empty (terminating chunk only),
	//            wire-cl0 (Content-Length: 0), wire-none
	//   direct-* the request is built with http.NewRequest (what a handler test or an in-process caller passes):
	//            direct-sized (ContentLength = n, no header), direct-unsized (ContentLength 0, bytes in Body),
	//            direct-minus1 (ContentLength -1, bytes in Body), direct-empty (empty Body, unknown length),
	//            direct-nobody (http.NoBody), direct-nil (Body == nil)
	Body    string   `json:"body"`
	Payload kit.BStr `json:"payload,omitempty"`
	// ZeroPad: leading zeros in front of the Content-Length digits of the wire-cl / wire-cl0 forms (1*DIGIT admits them).
	ZeroPad int `json:"zero_pad,omitempty"`
	// Accept: the Accept header, "" for none. The operations produce application/json only.
	Accept string `json:"accept,omitempty"`
	// ViaSibling: see Case.Sibling
	ViaSibling bool `json:"via_sibling,omitempty"`
	// Expect: the request announces "Expect: 100-continue" (what curl does for larger uploads); whether it carries a body
	// is decided as for any other request. (r7)
	Expect bool `json:"expect,omitempty"`
}

// unsatisfiableAccept: the Accept header admits nothing the operation produces (a second, independent defect).
func (q Req) unsatisfiableAccept() bool {
	switch q.Accept {
	case "", "application/json", "*/*", "application/*", "text/plain, application/json;q=0.5":
		return false
	}
	return true
}

// Case is one operation with several requests.
type Case struct {
	Consumes []string `json:"consumes"`          // nil: not declared
	Global   bool     `json:"global,omitempty"`  // declared at the top level of the description instead of the operation
	Default  string   `json:"default,omitempty"` // API default media type, "" for none
	Regs     []string `json:"regs"`              // media types that have a registered consumer
	Method   string   `json:"method"`
	Reqs     []Req    `json:"reqs"`
	// Sibling: the path has a second operation under another method with a consumes list of its own (nil: none). A
	// request marked ViaSibling is first sent to that operation, unjudged: what one operation of a path admits says
	// nothing about the other. (r6)
	Sibling []string `json:"sibling,omitempty"`
	// NoBodyParam: the operation declares no body parameter (it reads nothing from the body). A request that carries a
	// body is checked all the same, by both entry points; nothing is decoded. (r7)
	NoBodyParam bool `json:"no_body_param,omitempty"`
}

func (c Case) siblingMethod() string {
	if strings.EqualFold(c.Method, "put") {
		return "post"
	}
	return "put"
}

func (q Req) carriesBody() bool {
	switch q.Body {
	case "wire-cl", "wire-chunked", "direct-sized", "direct-unsized", "direct-minus1":
		return len(q.Payload) > 0
	}
	return false
}

// build constructs the request afresh (the body can be read once).
func (q Req) build(method string) *http.Request {
	m := strings.ToUpper(method)
	if strings.HasPrefix(q.Body, "wire-") {
		var b strings.Builder
		b.WriteString(m + " /p HTTP/1.1\r\nHost: example.test\r\n")
		if q.HasCT {
			b.WriteString("Content-Type: " + string(q.CT) + "\r\n")
		}
		if q.Accept != "" {
			b.WriteString("Accept: " + q.Accept + "\r\n")
		}
		if q.Expect {
			b.WriteString("Expect: 100-continue\r\n")
		}
		switch q.Body {
		case "wire-cl":
			fmt.Fprintf(&b, "Content-Length: %s%d\r\n\r\n%s", strings.Repeat("0", q.ZeroPad), len(q.Payload), string(q.Payload))
		case "wire-cl0":
			b.WriteString("Content-Length: " + strings.Repeat("0", q.ZeroPad) + "0\r\n\r\n")
		case "wire-chunked":
			b.WriteString("Transfer-Encoding: chunked\r\n\r\n")
			p := string(q.Payload)
			for len(p) > 0 {
				n := len(p)
				if n > 7 {
					n = 7
				}
				fmt.Fprintf(&b, "%x\r\n%s\r\n", n, p[:n])
				p = p[n:]
			}
			b.WriteString("0\r\n\r\n")
		case "wire-chunked-empty":
			b.WriteString("Transfer-Encoding: chunked\r\n\r\n0\r\n\r\n")
		default:
			b.WriteString("\r\n")
		}
		req, err := http.ReadRequest(bufio.NewReader(strings.NewReader(b.String())))
		if err != nil {
			panic(fmt.Sprintf("harness: generated request text is not a request: %v\n%q", err, b.String()))
		}
		return req
	}
	var body io.Reader
	switch q.Body {
	case "direct-sized":
		body = strings.NewReader(string(q.Payload))
	case "direct-unsized", "direct-minus1":
		body = io.NopCloser(strings.NewReader(string(q.Payload)))
	case "direct-empty":
		body = io.NopCloser(strings.NewReader(""))
	case "direct-nobody":
		body = http.NoBody
	}
	req, err := http.NewRequest(m, "http://example.test/p", body)
	if err != nil {
		panic("harness: " + err.Error())
	}
	if q.Body == "direct-minus1" {
		req.ContentLength = -1
	}
	if q.HasCT {
		req.Header.Set("Content-Type", string(q.CT))
	}
	if q.Accept != "" {
		req.Header.Set("Accept", q.Accept)
	}
	if q.Expect {
		req.Header.Set("Expect", "100-continue")
	}
	return req
}

type M = map[string]interface{}

func buildSpec(c Case) json.RawMessage {
	op := M{
		"operationId": "o",
		"parameters":  []M{{"name": "b", "in": "body", "schema": M{}}},
		"responses":   M{"200": M{"description": "ok"}},
	}
	if c.NoBodyParam {
		delete(op, "parameters")
	}
	item := M{c.Method: op}
	if c.Sibling != nil {
		item[c.siblingMethod()] = M{
			"operationId": "sibling",
			"consumes":    c.Sibling,
			"parameters":  []M{{"name": "b", "in": "body", "schema": M{}}},
			"responses":   M{"200": M{"description": "ok"}},
		}
	}
	doc := M{"swagger": "2.0", "info": M{"title": "t", "version": "1"}, "basePath": "/", "paths": M{"/p": item}}
	if c.Consumes != nil {
		if c.Global {
			doc["consumes"] = c.Consumes
		} else {
			op["consumes"] = c.Consumes
		}
	}
	raw, err := json.Marshal(doc)
	if err != nil {
		panic(err)
	}
	return raw
}

// consumed is one call of an instrumented consumer.
type consumed struct {
	name  string // media type the consumer was registered under
	bytes string
}

type observation struct {
	calls  []consumed
	ran    int // operation handler (reflective entry point) or RequestBinder (generated-server entry point)
	status int
	err    error
}

func (o observation) String() string {
	var cs []string
	for _, c := range o.calls {
		cs = append(cs, fmt.Sprintf("%s(%q)", c.name, c.bytes))
	}
	return fmt.Sprintf("status %d, ran %d, consumers called [%s]", o.status, o.ran, strings.Join(cs, " "))
}

type rig struct {
	c     Case
	obs   *observation
	ctx   *middleware.Context
	serve http.Handler // the reflective entry point behind APIHandler
}

func (r *rig) newAPI(doc *loads.Document) *untyped.API {
	api := untyped.NewAPI(doc).WithoutJSONDefaults()
	api.DefaultConsumes = r.c.Default
	api.DefaultProduces = "application/json"
	api.RegisterProducer("application/json", runtime.JSONProducer())
	for _, mt := range r.c.Regs {
		mt := mt
		api.RegisterConsumer(mt, runtime.ConsumerFunc(func(rd io.Reader, _ interface{}) error {
			b, _ := io.ReadAll(rd)
			r.obs.calls = append(r.obs.calls, consumed{mt, string(b)})
			return nil
		}))
	}
	return api
}

// newUntypedRig: the untyped API as it is.
func newUntypedRig(c Case) *rig {
	doc, err := loads.Analyzed(buildSpec(c), "")
	if err != nil {
		panic("harness: generated spec does not load: " + err.Error())
	}
	r := &rig{c: c, obs: &observation{}}
	api := r.newAPI(doc)
	api.RegisterOperation(c.Method, "/p", runtime.OperationHandlerFunc(func(interface{}) (interface{}, error) {
		r.obs.ran++
		return M{"ok": true}, nil
	}))
	if c.Sibling != nil {
		api.RegisterOperation(c.siblingMethod(), "/p", runtime.OperationHandlerFunc(func(interface{}) (interface{}, error) { return M{"sibling": true}, nil }))
	}
	r.ctx = middleware.NewContext(doc, api, nil)
	r.serve = r.ctx.APIHandler(nil)
	return r
}

// wildAPI is a RoutableAPI over the untyped registrations whose ConsumersFor resolves `type/*` and `*/*`
// entries to every registered concrete consumer they cover, and whose handler is the reflective binding entry
// point (Context.BindAndValidate) followed by the operation.
type wildAPI struct {
	api *untyped.API
	rig *rig
}

func (w *wildAPI) HandlerFor(method, path string) (http.Handler, bool) {
	if path != "/p" || !(strings.EqualFold(method, w.rig.c.Method) || w.rig.c.Sibling != nil && strings.EqualFold(method, w.rig.c.siblingMethod())) {
		return nil, false
	}
	return http.HandlerFunc(func(rw http.ResponseWriter, r *http.Request) {
		ctx := w.rig.ctx
		route, rCtx, _ := ctx.RouteInfo(r)
		if rCtx != nil {
			r = rCtx
		}
		_, r, err := ctx.BindAndValidate(r, route)
		if err != nil {
			ctx.Respond(rw, r, route.Produces, route, err)
			return
		}
		w.rig.obs.ran++
		ctx.Respond(rw, r, route.Produces, route, M{"ok": true})
	}), true
}

func (w *wildAPI) ConsumersFor(mediaTypes []string) map[string]runtime.Consumer {
	all := w.api.ConsumersFor(w.rig.c.Regs)
	out := map[string]runtime.Consumer{}
	for _, e := range mediaTypes {
		e = strings.ToLower(strings.TrimSpace(e))
		for name, cons := range all {
			if covers(e, name) != "" {
				out[name] = cons
			}
		}
	}
	return out
}

func (w *wildAPI) ServeErrorFor(string) func(http.ResponseWriter, *http.Request, error) {
	return oerr.ServeError
}
func (w *wildAPI) ProducersFor(mt []string) map[string]runtime.Producer {
	return w.api.ProducersFor(mt)
}
func (w *wildAPI) AuthenticatorsFor(s map[string]spec.SecurityScheme) map[string]runtime.Authenticator {
	return w.api.AuthenticatorsFor(s)
}
func (w *wildAPI) Authorizer() runtime.Authorizer { return w.api.Authorizer() }
func (w *wildAPI) Formats() strfmt.Registry       { return w.api.Formats() }
func (w *wildAPI) DefaultProduces() string        { return w.api.DefaultProduces }
func (w *wildAPI) DefaultConsumes() string        { return w.api.DefaultConsumes }

func newWildRig(c Case) *rig {
	doc, err := loads.Analyzed(buildSpec(c), "")
	if err != nil {
		panic("harness: generated spec does not load: " + err.Error())
	}
	r := &rig{c: c, obs: &observation{}}
	api := r.newAPI(doc)
	r.ctx = middleware.NewRoutableContext(doc, &wildAPI{api: api, rig: r}, nil)
	r.serve = r.ctx.APIHandler(nil)
	return r
}

type binderFunc func(*http.Request, *middleware.MatchedRoute) error

func (f binderFunc) BindRequest(r *http.Request, m *middleware.MatchedRoute) error { return f(r, m) }

// reflective drives the request through APIHandler (Context.BindAndValidate).
func (r *rig) reflective(q Req) (observation, *kit.Violation) {
	*r.obs = observation{}
	rec := httptest.NewRecorder()
	req := q.build(r.c.Method)
	if v := kit.Guard("APIHandler.ServeHTTP (BindAndValidate)", func() { r.serve.ServeHTTP(rec, req) }); v != nil {
		return observation{}, v
	}
	o := *r.obs
	o.status = rec.Code
	return o, nil
}

// generated drives the same request through Context.BindValidRequest with a recording RequestBinder that, like
// a generated parameter binder, decodes the body with the consumer the context selected.
func (r *rig) generated(q Req) (observation, *kit.Violation) {
	*r.obs = observation{}
	req := q.build(r.c.Method)
	var route *middleware.MatchedRoute
	var rq *http.Request
	var found bool
	var err error
	if v := kit.Guard("Context.RouteInfo", func() { route, rq, found = r.ctx.RouteInfo(req) }); v != nil {
		return observation{}, v
	}
	if !found {
		return observation{}, kit.Failf("the route of the generated operation %s /p was not found", strings.ToUpper(r.c.Method))
	}
	if v := kit.Guard("Context.BindValidRequest", func() {
		err = r.ctx.BindValidRequest(rq, route, binderFunc(func(br *http.Request, m *middleware.MatchedRoute) error {
			r.obs.ran++
			if m.Consumer != nil && !r.c.NoBodyParam {
				var dst interface{}
				return m.Consumer.Consume(br.Body, &dst)
			}
			return nil
		}))
	}); v != nil {
		return observation{}, v
	}
	o := *r.obs
	o.err = err
	o.status = 200
	if err != nil {
		rec := httptest.NewRecorder()
		if v := kit.Guard("Context.Respond", func() { r.ctx.Respond(rec, rq, route.Produces, route, err) }); v != nil {
			return observation{}, v
		}
		o.status = rec.Code
	}
	return o, nil
}

func isRegistered(regs []string, mt string) bool {
	for _, r := range regs {
		if r == mt {
			return true
		}
	}
	return false
}

// judgeOne compares one entry point's observation with the verdict. wild: the API resolves wildcard entries.
func judgeOne(c Case, q Req, v Verdict, o observation, wild bool) string {
	nothingRan := func() string {
		if o.ran != 0 {
			return "the handler/binder ran"
		}
		if len(o.calls) != 0 {
			return "a consumer ran"
		}
		return ""
	}
	// a consumer that runs is the one registered for exactly the request's media type, and it gets the body
	for _, call := range o.calls {
		if !v.Gate {
			return "a consumer ran for a request without body"
		}
		if call.name != v.MT {
			return fmt.Sprintf("the consumer registered for %q decoded a %q body", call.name, v.MT)
		}
		if call.bytes != string(q.Payload) {
			return fmt.Sprintf("the consumer read %q, the body is %q", call.bytes, string(q.Payload))
		}
	}
	if len(o.calls) > 1 {
		return "more than one consumer call"
	}
	decoded := func() string {
		if c.NoBodyParam {
			if o.status != 200 || o.ran != 1 || len(o.calls) != 0 {
				return fmt.Sprintf("admitted, a consumer is registered for %s and the operation reads no body: want 200, the handler/binder once, no consumer", v.MT)
			}
			return ""
		}
		if o.status != 200 || o.ran != 1 || len(o.calls) != 1 {
			return fmt.Sprintf("admitted and a consumer is registered for %s: want 200, the handler/binder once, that consumer once", v.MT)
		}
		return ""
	}
	refused := func() string {
		if o.status < 400 {
			return fmt.Sprintf("want a 4xx/5xx refusal, got %d", o.status)
		}
		return nothingRan()
	}
	switch {
	case !v.Gate:
		if o.status != 200 || o.ran != 1 || len(o.calls) != 0 {
			return "a request without body is not subjected to the check: want 200, the handler/binder once, no consumer"
		}
		return ""
	case v.ParseErr:
		if o.status != 400 {
			return "unparsable Content-Type: want 400"
		}
		return nothingRan()
	case v.Admit == "no":
		if o.status != 415 {
			return "media type not admitted: want 415"
		}
		return nothingRan()
	}
	reg := isRegistered(c.Regs, v.MT)
	switch v.Admit {
	case "exact", "default":
		if reg {
			return decoded()
		}
		return refused() // admitted, but nothing is registered to decode it
	case "type/*", "*/*":
		if !reg {
			return refused()
		}
		if wild {
			return decoded()
		}
		// tolerance (DESIGN.md section 6): the untyped API's route table holds consumers for literal entries only
		if o.status == 200 {
			return decoded()
		}
		return refused()
	case "param-entry":
		// tolerance: an entry that itself carries parameters; admitted or 415, nothing foreign runs
		if o.status == 200 {
			if !reg {
				return "200 although no consumer is registered for " + v.MT
			}
			return decoded()
		}
		return refused()
	case "empty-list":
		// Neither a consumes entry nor a default media type: the statement admits nothing (415); the code lets the type
		// pass its admission test and then fails to find a consumer (500). Nothing runs either way; the status is
		// judged only when strictEmptyList is set (reported, see the package report).
		if strictEmptyList && o.status != 415 {
			return "no consumes entry and no default media type: nothing is admitted, want 415"
		}
		return refused()
	}
	panic("harness: unknown admission " + v.Admit)
}

// strictEmptyList demands 415 (instead of any refusal) when the effective consumes list is empty.
const strictEmptyList = false

func (c Case) describe() string {
	cons := "not declared"
	if c.Consumes != nil {
		cons = fmt.Sprintf("%q", c.Consumes)
		if c.Global {
			cons += " (global)"
		}
	}
	if c.NoBodyParam {
		cons += " (operation without body parameter)"
	}
	return fmt.Sprintf("%s /p consumes %s, default media type %q, consumers registered for %q", strings.ToUpper(c.Method), cons, c.Default, c.Regs)
}

func (q Req) describe() string {
	ct := "absent"
	if q.HasCT {
		ct = fmt.Sprintf("%q", string(q.CT))
	}
	s := fmt.Sprintf("Content-Type %s, body %s %q", ct, q.Body, string(q.Payload))
	if q.ZeroPad > 0 {
		s += fmt.Sprintf(", Content-Length with %d leading zeros", q.ZeroPad)
	}
	if q.Accept != "" {
		s += fmt.Sprintf(", Accept %q", q.Accept)
	}
	return s
}

func check(c Case, r *rig, wild bool) *kit.Violation {
	for i, q := range c.Reqs {
		probe := q.build(c.Method)
		v := Judge(c.Consumes, c.Default, q.carriesBody(), probe.Header.Get("Content-Type"))
		if q.ViaSibling && c.Sibling != nil {
			for pass := 0; pass < 2; pass++ { // once through either entry point
				sreq := q.build(c.siblingMethod())
				if pass == 0 {
					if viol := kit.Guard("APIHandler.ServeHTTP (sibling operation)", func() { r.serve.ServeHTTP(httptest.NewRecorder(), sreq) }); viol != nil {
						return viol
					}
					continue
				}
				if viol := kit.Guard("BindValidRequest (sibling operation)", func() {
					if route, rq, ok := r.ctx.RouteInfo(sreq); ok {
						_ = r.ctx.BindValidRequest(rq, route, binderFunc(func(*http.Request, *middleware.MatchedRoute) error { return nil }))
					}
				}); viol != nil {
					return viol
				}
			}
		}
		ro, viol := r.reflective(q)
		if viol != nil {
			viol.Msg = fmt.Sprintf("%s: request %d (%s): %s", c.describe(), i, q.describe(), viol.Msg)
			return viol
		}
		gobs, viol := r.generated(q)
		if viol != nil {
			viol.Msg = fmt.Sprintf("%s: request %d (%s): %s", c.describe(), i, q.describe(), viol.Msg)
			return viol
		}
		if q.unsatisfiableAccept() && !(v.Gate && (v.ParseErr || v.Admit == "no")) {
			// The request passes (or is exempt from) the media type check; what its Accept header then leads to is not this
			// property's business (and the entry points differ there by design: BindValidRequest offers the request's own
			// media type as the default offer, validateRequest answers 406). Only the refusals of the media type check are
			// judged under an unsatisfiable Accept header: they must stay 415/400.
			continue
		}
		if why := judgeOne(c, q, v, ro, wild); why != "" {
			return kit.Failf("%s: request %d (%s): %s; reflective entry point (BindAndValidate): %s; observed %s", c.describe(), i, q.describe(), v, why, ro)
		}
		if why := judgeOne(c, q, v, gobs, wild); why != "" {
			return kit.Failf("%s: request %d (%s): %s; generated-server entry point (BindValidRequest): %s; observed %s (err %v)", c.describe(), i, q.describe(), v, why, gobs, gobs.err)
		}
		// the two entry points accept or refuse the same requests and pick the same consumer
		// (where the statement fixes the status - 400, 415, no gate - judgeOne has already pinned it for both)
		if (ro.status == 200) != (gobs.status == 200) || ro.ran != gobs.ran || fmt.Sprint(ro.calls) != fmt.Sprint(gobs.calls) {
			return kit.Failf("%s: request %d (%s): %s; the entry points disagree: BindAndValidate %s, BindValidRequest %s (err %v)", c.describe(), i, q.describe(), v, ro, gobs, gobs.err)
		}
	}
	return nil
}

// CheckUntyped: the untyped API as it is.
func CheckUntyped(c Case) *kit.Violation { return check(c, newUntypedRig(c), false) }

// CheckWild: the wildcard-resolving RoutableAPI.
func CheckWild(c Case) *kit.Violation { return check(c, newWildRig(c), true) }
