// Package c09 decides property C09: per-request state stays private under concurrency (schedules) and stage
// results are reused within one request (histories).
package c09

import (
	"context"
	"encoding/json"
	"fmt"
	"io"
	"net/http"
	"regexp"
	"sort"
	"strings"
	"sync"
	"sync/atomic"
	"time"

	"github.com/go-openapi/errors"
	"github.com/go-openapi/loads"
	rt "github.com/go-openapi/runtime"
	"github.com/go-openapi/runtime/middleware"
	"github.com/go-openapi/runtime/middleware/untyped"
	"github.com/go-openapi/runtime/security"
)

type M = map[string]interface{}

var reAvail = regexp.MustCompile(`only \[[^\]]*\]`)

// gate makes every request of a batch reach a stage before any of them leaves it (or gives up after a short wait),
// so that state parked on a shared structure is overwritten by the last arrival before anybody uses it.
type gate struct {
	mu      sync.Mutex
	need    int
	arrived int
	ch      chan struct{}
	wait    time.Duration
}

func newGate(need int) *gate {
	return &gate{need: need, ch: make(chan struct{}), wait: 40 * time.Millisecond}
}

func (g *gate) pass() {
	if g == nil || g.need <= 1 {
		return
	}
	g.mu.Lock()
	g.arrived++
	if g.arrived == g.need {
		close(g.ch)
	}
	g.mu.Unlock()
	select {
	case <-g.ch:
	case <-time.After(g.wait):
	}
}

// world is one handler instance with instrumented registrations.
type world struct {
	ctx      *middleware.Context
	handler  http.Handler
	authGate *gate
	consGate *gate
	prodGate *gate
	handGate *gate

	authCalls int64
	consCalls int64
	prodCalls int64
	handCalls int64
}

var ops = []struct{ Method, Path, ID string }{
	{"POST", "/a/{id}", "opA"},
	{"POST", "/b/{id}", "opB"},
	{"PUT", "/b/{id}", "opB2"},
	{"POST", "/c/{id}/x/{sub}", "opC"},
	{"GET", "/a/{id}", "opG"},
	{"POST", "/s", "opS"},
	{"GET", "/s", "opSG"},
	{"PUT", "/s/t", "opT"},
	{"POST", "/w/{id}", "opW"}, // consumes a media range; a consumer is registered under the range itself
}

func specDoc() json.RawMessage {
	pid := M{"name": "id", "in": "path", "type": "string", "required": true}
	psub := M{"name": "sub", "in": "path", "type": "string", "required": true}
	q := M{"name": "q", "in": "query", "type": "string"}
	n := M{"name": "n", "in": "query", "type": "integer", "format": "int32"}
	hx := M{"name": "X-Tok", "in": "header", "type": "string"}
	body := M{"name": "b", "in": "body", "required": true, "schema": M{"type": "object", "required": []string{"t"}, "properties": M{"t": M{"type": "string"}}}}
	mk := func(id string, params []M, withBody bool, sec []M) M {
		op := M{"operationId": id, "parameters": params, "produces": []string{"application/json", "application/x-alt"},
			"security": sec, "responses": M{"200": M{"description": "ok"}}}
		if withBody {
			op["consumes"] = []string{"application/json", "application/x-alt"}
		}
		return op
	}
	k1 := M{"key1": []string{}}
	k2 := M{"key2": []string{}}
	both := M{"key1": []string{}, "key2": []string{}}
	oaR := M{"oa": []string{"read"}}
	oaRW := M{"oa": []string{"write", "read"}}
	spec := M{"swagger": "2.0", "info": M{"title": "c09", "version": "1"}, "basePath": "/",
		"securityDefinitions": M{
			"key1": M{"type": "apiKey", "in": "header", "name": "X-Key"},
			"key2": M{"type": "apiKey", "in": "query", "name": "k2"},
			"oa": M{"type": "oauth2", "flow": "accessCode", "authorizationUrl": "http://example.test/auth", "tokenUrl": "http://example.test/token",
				"scopes": M{"read": "r", "write": "w"}},
		},
		"paths": M{
			"/a/{id}": M{
				"post": mk("opA", []M{pid, q, body}, true, []M{k1, {}}),
				"get":  mk("opG", []M{pid, q, n}, false, []M{k2, oaR}),
			},
			"/b/{id}": M{
				"post": mk("opB", []M{pid, q, hx, body}, true, []M{k2}),
				"put":  mk("opB2", []M{pid, body}, true, []M{both, {}}),
			},
			"/c/{id}/x/{sub}": M{"post": mk("opC", []M{pid, psub, n, body}, true, []M{oaRW, k1})},
			// operations without path parameters: their route has nothing request-specific in its pattern
			"/s": M{
				"post": mk("opS", []M{q, hx, body}, true, []M{k1, {}}),
				"get":  mk("opSG", []M{q, n}, false, []M{k2, oaR, {}}),
			},
			"/s/t": M{"put": mk("opT", []M{q, body}, true, []M{both, k1})},
			"/w/{id}": M{"post": func() M {
				op := mk("opW", []M{pid, q, body}, true, []M{k1, {}})
				op["consumes"] = []string{"application/*"}
				return op
			}()},
		}}
	raw, _ := json.Marshal(spec)
	return raw
}

var specRaw = specDoc()

var (
	docOnce   sync.Once
	sharedDoc *loads.Document
	docErr    error
)

// principalFor yields principals of every shape an application may use; zero values of non-pointer types are
// principals like any other (only nil means "no principal").
func principalFor(scheme, tok string) interface{} {
	switch {
	case strings.HasPrefix(tok, "z0-"):
		return int64(0)
	case strings.HasPrefix(tok, "zs-"):
		return ""
	case strings.HasPrefix(tok, "zf-"):
		return false
	case strings.HasPrefix(tok, "ze-"):
		return struct{}{}
	}
	return &principal{Scheme: scheme, Token: tok}
}

// principal is what an accepting authenticator yields.
type principal struct {
	Scheme string
	Token  string
}

func buildWorld(nAuth, nCons, nProd, nHand int) (*world, error) {
	w := &world{authGate: newGate(nAuth), consGate: newGate(nCons), prodGate: newGate(nProd), handGate: newGate(nHand)}
	docOnce.Do(func() { sharedDoc, docErr = loads.Analyzed(specRaw, "") })
	if docErr != nil {
		return nil, docErr
	}
	doc := sharedDoc // the analysed description is only read by NewAPI/NewContext
	api := untyped.NewAPI(doc)
	mkCons := func(tag string) rt.Consumer {
		return rt.ConsumerFunc(func(r io.Reader, v interface{}) error {
			atomic.AddInt64(&w.consCalls, 1)
			w.consGate.pass()
			if err := rt.JSONConsumer().Consume(r, v); err != nil {
				return err
			}
			switch m := v.(type) {
			case *map[string]interface{}:
				if *m != nil {
					(*m)["_consumer"] = tag
				}
			case *interface{}:
				if mm, ok := (*m).(map[string]interface{}); ok {
					mm["_consumer"] = tag
				}
			}
			return nil
		})
	}
	mkProd := func(tag string) rt.Producer {
		return rt.ProducerFunc(func(wr io.Writer, v interface{}) error {
			atomic.AddInt64(&w.prodCalls, 1)
			w.prodGate.pass()
			if _, err := wr.Write([]byte("[" + tag + "]")); err != nil {
				return err
			}
			return rt.JSONProducer().Produce(wr, v)
		})
	}
	api.RegisterConsumer("application/json", mkCons("json"))
	api.RegisterConsumer("application/x-alt", mkCons("alt"))
	api.RegisterConsumer("application/*", mkCons("range"))
	api.RegisterProducer("application/json", mkProd("json"))
	api.RegisterProducer("application/x-alt", mkProd("alt"))
	mkAuth := func(scheme string) func(string) (interface{}, error) {
		return func(tok string) (interface{}, error) {
			atomic.AddInt64(&w.authCalls, 1)
			w.authGate.pass()
			if strings.HasPrefix(tok, "bad-") {
				return nil, errors.New(http.StatusUnauthorized, "rejected %s", tok)
			}
			return principalFor(scheme, tok), nil
		}
	}
	api.RegisterAuth("key1", security.APIKeyAuth("X-Key", "header", mkAuth("key1")))
	api.RegisterAuth("key2", security.APIKeyAuth("k2", "query", mkAuth("key2")))
	api.RegisterAuth("oa", security.BearerAuth("oa", func(tok string, scopes []string) (interface{}, error) {
		atomic.AddInt64(&w.authCalls, 1)
		w.authGate.pass()
		if strings.HasPrefix(tok, "bad-") {
			return nil, errors.New(http.StatusUnauthorized, "rejected %s", tok)
		}
		return principalFor("oa["+strings.Join(scopes, " ")+"]", tok), nil
	}))
	for _, o := range ops {
		o := o
		api.RegisterOperation(o.Method, o.Path, rt.OperationHandlerFunc(func(d interface{}) (interface{}, error) {
			atomic.AddInt64(&w.handCalls, 1)
			w.handGate.pass()
			return M{"op": o.ID, "got": d}, nil
		}))
	}
	if err := api.Validate(); err != nil {
		return nil, fmt.Errorf("harness API does not validate: %v", err)
	}
	w.ctx = middleware.NewContext(doc, api, nil)
	// observe what a handler can read: the matched route, its parameters, the principal and the scopes
	w.handler = w.ctx.RoutesHandler(func(next http.Handler) http.Handler {
		return http.HandlerFunc(func(rw http.ResponseWriter, r *http.Request) {
			route := middleware.MatchedRouteFrom(r)
			if route != nil {
				rw.Header().Set("X-Seen-Route", route.PathPattern)
				var ps []string
				for _, p := range route.Params {
					ps = append(ps, p.Name+"="+p.Value)
				}
				sort.Strings(ps)
				rw.Header().Set("X-Seen-Params", strings.Join(ps, "&"))
				// the way generated servers use the exported accessor: authorize, and answer with the error if it fails
				// (never go on after a failed Authorize: the route is then marked as having an authenticator)
				_, r2, err := w.ctx.Authorize(r, route)
				if err != nil {
					w.ctx.Respond(rw, r, route.Produces, route, err)
					return
				}
				if r2 != nil {
					r = r2
					switch p := middleware.SecurityPrincipalFrom(r).(type) {
					case *principal:
						if p != nil {
							rw.Header().Set("X-Seen-Principal", p.Token)
						}
					case nil:
					default:
						rw.Header().Set("X-Seen-Principal", fmt.Sprintf("%T(%v)", p, p))
					}
					rw.Header().Set("X-Seen-Scopes", strings.Join(middleware.SecurityScopesFrom(r), ","))
				}
			}
			next.ServeHTTP(rw, r)
		})
	})
	return w, nil
}

// Req is one generated request of a batch. Every position carries the request's own token.
type Req struct {
	Op     int    `json:"op"`     // index into ops
	CT     string `json:"ct"`     // Content-Type of the body
	Accept string `json:"accept"` // Accept header
	Cred   string `json:"cred"`   // key1 | key2 | both | bearer | badbearer | none | bad1 | bad2
	Body   string `json:"body"`   // ok | missing-field | garbage | none
	N      string `json:"n"`      // value of the integer query parameter ("" = absent)
	// CtxDone: the request's context has ended before the accessors run ("cancelled": the client went away,
	// "expired": a deadline passed); histories only. A stage's outcome is stored all the same.
	CtxDone string `json:"ctx_done,omitempty"`
}

func (r Req) build(token string) *http.Request {
	o := ops[r.Op]
	path := strings.NewReplacer("{id}", "id-"+token, "{sub}", "sub-"+token).Replace(o.Path)
	target := path + "?q=q-" + token
	if r.N != "" {
		target += "&n=" + r.N
	}
	switch r.Cred {
	case "key2", "both":
		target += "&k2=k-" + token
	case "bad2", "badboth":
		target += "&k2=bad-" + token
	}
	var body io.Reader
	switch r.Body {
	case "ok":
		body = strings.NewReader(`{"t":"b-` + token + `"}`)
	case "missing-field":
		body = strings.NewReader(`{"u":"b-` + token + `"}`)
	case "garbage":
		body = strings.NewReader(`{"t":"b-` + token)
	}
	if o.Method == "GET" {
		body = nil
	}
	req, _ := http.NewRequest(o.Method, "http://example.test"+target, body)
	if body != nil && r.CT != "" {
		ct := r.CT
		if ct == "range" {
			ct = "application/w-" + token // a type of its own per request, covered only by a media range
		}
		req.Header.Set("Content-Type", ct)
	}
	for _, line := range strings.Split(r.Accept, "\n") { // several Accept header lines are one list
		if line != "" {
			req.Header.Add("Accept", line)
		}
	}
	req.Header.Set("X-Tok", "h-"+token)
	switch r.Cred {
	case "key1", "both":
		req.Header.Set("X-Key", "k-"+token)
	case "bad1", "badboth":
		req.Header.Set("X-Key", "bad-"+token)
	case "zero-int", "zero-string", "zero-bool", "zero-struct":
		req.Header.Set("X-Key", map[string]string{"zero-int": "z0-", "zero-string": "zs-", "zero-bool": "zf-", "zero-struct": "ze-"}[r.Cred]+token)
	case "bearer":
		req.Header.Set("Authorization", "Bearer oa-"+token)
	case "badbearer":
		req.Header.Set("Authorization", "Bearer bad-"+token)
	}
	switch r.CtxDone {
	case "cancelled":
		ctx, cancel := context.WithCancel(req.Context())
		cancel()
		req = req.WithContext(ctx)
	case "expired":
		ctx, cancel := context.WithDeadline(req.Context(), time.Unix(1, 0))
		_ = cancel
		req = req.WithContext(ctx)
	}
	return req
}

type recorder struct {
	code   int
	header http.Header
	body   strings.Builder
}

func (r *recorder) Header() http.Header { return r.header }
func (r *recorder) WriteHeader(c int) {
	if r.code == 0 {
		r.code = c
	}
}
func (r *recorder) Write(b []byte) (int, error) {
	if r.code == 0 {
		r.code = 200
	}
	return r.body.Write(b)
}

// serve runs one request and renders everything observable about its handling.
func serve(h http.Handler, req *http.Request) string {
	rec := &recorder{header: http.Header{}}
	func() {
		defer func() {
			if p := recover(); p != nil {
				rec.code = -1
				rec.body.WriteString(fmt.Sprintf("PANIC: %v", p))
			}
		}()
		h.ServeHTTP(rec, req)
	}()
	body := strings.TrimSpace(rec.body.String())
	// the 406 message lists the route's produces in a map order of the code under test: compare it as a set
	body = reAvail.ReplaceAllStringFunc(body, func(m string) string {
		f := strings.Fields(m[len("only [") : len(m)-1])
		sort.Strings(f)
		return "only [" + strings.Join(f, " ") + "]"
	})
	return fmt.Sprintf("status=%d ct=%q route=%q params=%q principal=%q scopes=%q body=%s", rec.code, rec.header.Get("Content-Type"),
		rec.header.Get("X-Seen-Route"), rec.header.Get("X-Seen-Params"), rec.header.Get("X-Seen-Principal"), rec.header.Get("X-Seen-Scopes"), body)
}
