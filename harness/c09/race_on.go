//go:build race

package c09

import "runtime"

// raceEnabled reports whether the binary was built with the race detector.
const raceEnabled = true

// raceErrors is the number of data races the detector has reported so far in this process.
func raceErrors() int { return runtime.RaceErrors() }
