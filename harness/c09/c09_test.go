package c09

import (
	"testing"

	"verif/harness/kit"
)

func TestVerif(t *testing.T) { kit.Main(t, Props()...) }
