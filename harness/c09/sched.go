package c09

import (
	"fmt"
	"runtime"
	"sort"
	"strings"
	"sync"
	"sync/atomic"

	"pgregory.net/rapid"

	"verif/harness/kit"
)

// Batch is the case of the schedules sub-check: requests served together by one handler instance.
type Batch struct {
	Procs int   `json:"gomaxprocs"`
	Reqs  []Req `json:"reqs"`
}

var (
	refOnce  sync.Once
	refWorld *world
	refErr   error
)

func token(i int) string { return fmt.Sprintf("%03d", i) }

// CheckBatch serves every request alone on a fresh reference instance, then all together on one instance with
// stage gates, and demands identical observations that mention only the request's own token.
func CheckBatch(b Batch) *kit.Violation {
	n := len(b.Reqs)
	// the reference instance serves one request at a time; nothing of a request may survive on it either
	refOnce.Do(func() { refWorld, refErr = buildWorld(1, 1, 1, 1) })
	if refErr != nil {
		return kit.Failf("harness: %v", refErr)
	}
	ref := refWorld
	alone := make([]string, n)
	// how many requests reach each stage decides how many arrivals the gates wait for
	var nAuth, nCons, nProd, nHand int64
	for i, r := range b.Reqs {
		a0, c0, p0, h0 := atomic.LoadInt64(&ref.authCalls), atomic.LoadInt64(&ref.consCalls), atomic.LoadInt64(&ref.prodCalls), atomic.LoadInt64(&ref.handCalls)
		alone[i] = serve(ref.handler, r.build(token(i)))
		if atomic.LoadInt64(&ref.authCalls) > a0 {
			nAuth++
		}
		if atomic.LoadInt64(&ref.consCalls) > c0 {
			nCons++
		}
		if atomic.LoadInt64(&ref.prodCalls) > p0 {
			nProd++
		}
		if atomic.LoadInt64(&ref.handCalls) > h0 {
			nHand++
		}
		if v := ownTokenOnly(alone[i], i, n, "alone"); v != nil {
			return v
		}
	}

	old := runtime.GOMAXPROCS(b.Procs)
	defer runtime.GOMAXPROCS(old)
	races0 := raceErrors()
	w, err := buildWorld(int(nAuth), int(nCons), int(nProd), int(nHand))
	if err != nil {
		return kit.Failf("harness: %v", err)
	}
	crowd := make([]string, n)
	var wg sync.WaitGroup
	start := make(chan struct{})
	for i := range b.Reqs {
		wg.Add(1)
		req := b.Reqs[i].build(token(i))
		go func(i int) {
			defer wg.Done()
			<-start
			crowd[i] = serve(w.handler, req)
		}(i)
	}
	close(start)
	wg.Wait()
	if d := raceErrors() - races0; d > 0 {
		return kit.Failf("DATA-RACE: the race detector reported %d data race(s) while this batch of %d requests was served (GOMAXPROCS=%d); the reports are in the run's log\n batch: %s", d, n, b.Procs, describe(b))
	}
	for i := range b.Reqs {
		if alone[i] != crowd[i] {
			return kit.Failf("request %d of %d (GOMAXPROCS=%d) is handled differently in a crowd:\n alone: %s\n crowd: %s\n request: %+v\n batch: %s", i, n, b.Procs, alone[i], crowd[i], b.Reqs[i], describe(b))
		}
		if v := ownTokenOnly(crowd[i], i, n, "crowd"); v != nil {
			return v
		}
	}
	return nil
}

// ownTokenOnly: the observation of request i mentions no other request's token.
func ownTokenOnly(obs string, i, n int, where string) *kit.Violation {
	for j := 0; j < n; j++ {
		if j == i {
			continue
		}
		for _, pre := range []string{"id-", "sub-", "q-", "b-", "k-", "oa-", "h-", "bad-", "z0-", "zs-", "zf-", "ze-"} {
			if strings.Contains(obs, pre+token(j)) {
				return kit.Failf("request %d (%s) observed a value of request %d (%s%s): %s", i, where, j, pre, token(j), obs)
			}
		}
	}
	return nil
}

func describe(b Batch) string {
	var parts []string
	for i, r := range b.Reqs {
		parts = append(parts, fmt.Sprintf("#%d %s ct=%s accept=%s cred=%s body=%s n=%s", i, ops[r.Op].ID, r.CT, r.Accept, r.Cred, r.Body, r.N))
	}
	return strings.Join(parts, "; ")
}

func genReq(t *rapid.T) Req {
	return Req{
		Op: rapid.IntRange(0, len(ops)-1).Draw(t, "op"),
		CT: rapid.SampledFrom([]string{"application/json", "application/x-alt", "application/json", "application/x-alt", "application/json; charset=utf-8", "text/unknown", "", "range", "range"}).Draw(t, "ct"),
		// only decisive Accept headers: the order of a route's produces list is a map order inside the code under test
		Accept: rapid.SampledFrom([]string{"application/json", "application/x-alt", "application/x-alt, application/json;q=0.5", "application/json, application/x-alt;q=0.1", "text/unknown",
			// two header lines, and the requests that send only the first of them (r6)
			"application/json;q=0.1\napplication/x-alt", "application/json;q=0.1", "application/x-alt;q=0.2\napplication/json", "application/x-alt;q=0.2"}).Draw(t, "accept"),
		Cred: rapid.SampledFrom([]string{"key1", "key2", "both", "bearer", "key1", "key2", "none", "bad1", "bad2", "badbearer", "zero-int", "zero-string", "zero-bool", "zero-struct"}).Draw(t, "cred"),
		Body: rapid.SampledFrom([]string{"ok", "ok", "ok", "ok", "missing-field", "garbage", "none"}).Draw(t, "body"),
		N:    rapid.SampledFrom([]string{"", "1", "7", "x", "2147483648"}).Draw(t, "n"),
	}
}

// at most one binding failure per request: only the first of several 422 causes is served, in a map order
func oneDamage(r Req) Req {
	// an AND alternative evaluates its schemes in a map order of the code under test: a credential that one
	// scheme rejects while the other scheme finds nothing is "rejected" or "not applicable" depending on that order.
	// Operations with an AND alternative get credentials whose outcome does not depend on it.
	if id := ops[r.Op].ID; id == "opB2" || id == "opT" {
		switch r.Cred {
		case "bad1", "bad2":
			r.Cred = "badboth"
		}
	}
	if r.Body != "ok" && ops[r.Op].Method != "GET" {
		if r.N == "x" || r.N == "2147483648" {
			r.N = "7"
		}
	}
	return r
}

func GenBatch(t *rapid.T) Batch {
	max := 16
	if kit.Tier() == "thorough" {
		max = 64
	}
	n := rapid.IntRange(2, max).Draw(t, "n")
	b := Batch{Procs: rapid.SampledFrom([]int{1, 2, 4, 16}).Draw(t, "procs")}
	// a batch concentrates on few operations so that several requests are in flight on one route entry
	focus := rapid.IntRange(0, len(ops)-1).Draw(t, "focus")
	for i := 0; i < n; i++ {
		r := genReq(t)
		if rapid.IntRange(0, 2).Draw(t, "onfocus") != 0 {
			r.Op = focus
		}
		b.Reqs = append(b.Reqs, oneDamage(r))
	}
	return b
}

func ClassifyBatch(b Batch) (bool, []string) {
	labels := map[string]bool{fmt.Sprintf("GOMAXPROCS=%d", b.Procs): true}
	perOp := map[int][]Req{}
	for _, r := range b.Reqs {
		perOp[r.Op] = append(perOp[r.Op], r)
	}
	nt := false
	for _, rs := range perOp {
		if len(rs) < 2 {
			continue
		}
		cts, accs, creds := map[string]bool{}, map[string]bool{}, map[string]bool{}
		for _, r := range rs {
			cts[r.CT], accs[r.Accept], creds[r.Cred] = true, true, true
		}
		if len(cts) > 1 {
			labels["one operation, different consumers in flight"] = true
			nt = true
		}
		if len(accs) > 1 {
			labels["one operation, different producers in flight"] = true
			nt = true
		}
		if len(creds) > 1 {
			labels["one operation, different credentials in flight"] = true
			nt = true
		}
	}
	switch {
	case len(b.Reqs) >= 32:
		labels["batch ≥32"] = true
	case len(b.Reqs) >= 8:
		labels["batch 8-31"] = true
	default:
		labels["batch <8"] = true
	}
	var out []string
	for l := range labels {
		out = append(out, l)
	}
	sort.Strings(out)
	return nt, out
}
