//go:build !race

package c09

const raceEnabled = false

func raceErrors() int { return 0 }
