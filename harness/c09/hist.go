package c09

import (
	"fmt"
	"io"
	"net/http"
	"reflect"
	"sort"
	"strings"
	"sync"
	"sync/atomic"

	"github.com/go-openapi/runtime/middleware"
	"pgregory.net/rapid"

	"verif/harness/kit"
)

// History is the case of the histories sub-check: a sequence of per-request accessors applied to one request,
// threading the request value each accessor returns.
type History struct {
	Req Req      `json:"req"`
	Ops []string `json:"ops"` // RouteInfo ContentType ResponseFormat ResponseFormatOther Authorize BindAndValidate ResetAuth SwapCT
}

type countingBody struct {
	r     io.Reader
	bytes int64
	reads int64
	close int64
}

func (c *countingBody) Read(p []byte) (int, error) {
	n, err := c.r.Read(p)
	atomic.AddInt64(&c.bytes, int64(n))
	atomic.AddInt64(&c.reads, 1)
	return n, err
}
func (c *countingBody) Close() error { atomic.AddInt64(&c.close, 1); return nil }

// CheckHistory replays the accessor sequence against a model of the memo.
func CheckHistory(h History) *kit.Violation {
	// the memo lives on the request, so one Context serves every history; counters are read as deltas
	histOnce.Do(func() { histWorld, histErr = buildWorld(1, 1, 1, 1) })
	if histErr != nil {
		return kit.Failf("harness: %v", histErr)
	}
	w := histWorld
	cons0 := atomic.LoadInt64(&w.consCalls)
	cur := h.Req.build("777")
	var cb *countingBody
	bodyLen := int64(0)
	if cur.Body != nil {
		raw, _ := io.ReadAll(cur.Body)
		bodyLen = int64(len(raw))
		cb = &countingBody{r: newBytesReader(raw)}
		cur.Body = cb
		cur.ContentLength = -1 // chunked: HasBody has to probe the stream
		if len(h.Ops)%2 == 0 {
			cur.ContentLength = bodyLen
		}
	}
	ctx := w.ctx

	var (
		route       *middleware.MatchedRoute
		routeCached bool
		ctCached    bool
		ctMT, ctCS  string
		fmtCached   bool
		fmtVal      string
		prinCached  bool
		prinVal     interface{}
		boundDone   bool
		boundVal    interface{}
		boundErr    string
		trail       []string
		swapped     bool
	)
	fail := func(format string, args ...interface{}) *kit.Violation {
		return kit.Failf("%s\n request: %+v\n history so far: %v", fmt.Sprintf(format, args...), h.Req, trail)
	}
	ensureRoute := func() *kit.Violation {
		if routeCached {
			return nil
		}
		var r *middleware.MatchedRoute
		var nr *http.Request
		var ok bool
		if v := kit.Guard("RouteInfo", func() { r, nr, ok = ctx.RouteInfo(cur) }); v != nil {
			return v
		}
		if !ok || r == nil || nr == nil {
			return fail("RouteInfo does not match a request built for operation %s", ops[h.Req.Op].ID)
		}
		route, cur, routeCached = r, nr, true
		return nil
	}

	for _, op := range h.Ops {
		trail = append(trail, op)
		switch op {
		case "RouteInfo":
			if !routeCached {
				if v := ensureRoute(); v != nil {
					return v
				}
				continue
			}
			var r *middleware.MatchedRoute
			var nr *http.Request
			var ok bool
			if v := kit.Guard("RouteInfo", func() { r, nr, ok = ctx.RouteInfo(cur) }); v != nil {
				return v
			}
			if !ok || nr != cur {
				return fail("RouteInfo on a request that carries the matched route returned a different request value (ok=%v)", ok)
			}
			if r != route {
				return fail("RouteInfo recomputed the matched route: a different *MatchedRoute came back")
			}

		case "ContentType":
			var mt, cs string
			var nr *http.Request
			var err error
			if v := kit.Guard("ContentType", func() { mt, cs, nr, err = ctx.ContentType(cur) }); v != nil {
				return v
			}
			if ctCached {
				if err != nil || nr != cur || mt != ctMT || cs != ctCS {
					return fail("ContentType was recomputed: got (%q,%q,same request=%v,err=%v), cached (%q,%q)", mt, cs, nr == cur, err, ctMT, ctCS)
				}
			} else if err == nil {
				if nr == nil {
					return fail("ContentType succeeded without returning a request")
				}
				cur, ctCached, ctMT, ctCS = nr, true, mt, cs
			}

		case "ResponseFormat", "ResponseFormatOther", "ResponseFormatParams", "ResponseFormatNone":
			if v := ensureRoute(); v != nil {
				return v
			}
			offers := route.Produces
			if op == "ResponseFormatOther" {
				offers = []string{"text/other"}
			}
			if op == "ResponseFormatNone" {
				offers = nil // an asker with no offers of its own (an operation without produces): what was negotiated stands (r9)
			}
			if op == "ResponseFormatParams" {
				// the same offers, spelled with a parameter: what was negotiated first is what every later asker gets
				offers = nil
				for _, o := range route.Produces {
					offers = append(offers, o+"; charset=utf-8")
				}
			}
			var f string
			var nr *http.Request
			if v := kit.Guard("ResponseFormat", func() { f, nr = ctx.ResponseFormat(cur, offers) }); v != nil {
				return v
			}
			if fmtCached {
				if nr != cur || f != fmtVal {
					return fail("ResponseFormat was recomputed: got (%q, same request=%v), cached %q", f, nr == cur, fmtVal)
				}
			} else if f != "" {
				if nr == nil {
					return fail("ResponseFormat negotiated %q without returning a request", f)
				}
				cur, fmtCached, fmtVal = nr, true, f
			}

		case "Authorize":
			if v := ensureRoute(); v != nil {
				return v
			}
			before := atomic.LoadInt64(&w.authCalls)
			var p interface{}
			var nr *http.Request
			var err error
			if v := kit.Guard("Authorize", func() { p, nr, err = ctx.Authorize(cur, route) }); v != nil {
				return v
			}
			after := atomic.LoadInt64(&w.authCalls)
			if prinCached {
				if err != nil || nr != cur || p != prinVal {
					return fail("Authorize on a request that carries a principal: got (principal same=%v, same request=%v, err=%v)", p == prinVal, nr == cur, err)
				}
				if after != before {
					return fail("Authorize consulted an authenticator again (%d more calls) although the request carries the principal of a successful authentication", after-before)
				}
			} else if err == nil && p != nil {
				if nr == nil {
					return fail("Authorize yielded a principal without returning a request")
				}
				if got := middleware.SecurityPrincipalFrom(nr); got != p {
					return fail("the request returned by Authorize carries principal %v, Authorize returned %v", got, p)
				}
				cur, prinCached, prinVal = nr, true, p
			} else if err == nil && nr != nil {
				cur = nr // anonymous access: nothing to reuse
			}

		case "ResetAuthDiscard":
			// somebody derives an anonymous request (for a sub-handler, say) and this asker keeps the value it holds
			var nr *http.Request
			if v := kit.Guard("ResetAuth", func() { nr = ctx.ResetAuth(cur) }); v != nil {
				return v
			}
			if nr == nil {
				return fail("ResetAuth returned no request")
			}
			if middleware.SecurityPrincipalFrom(nr) != nil {
				return fail("ResetAuth left a principal on the request it returned")
			}

		case "ResetAuth":
			var nr *http.Request
			if v := kit.Guard("ResetAuth", func() { nr = ctx.ResetAuth(cur) }); v != nil {
				return v
			}
			if nr == nil {
				return fail("ResetAuth returned no request")
			}
			if middleware.SecurityPrincipalFrom(nr) != nil {
				return fail("ResetAuth left a principal on the request")
			}
			cur, prinCached, prinVal = nr, false, nil

		case "SwapCT":
			// the caller overwrites the Content-Type header of the request value it holds (as the repository's own
			// tests overwrite credentials after Authorize): a parsed content type that was stored must keep deciding
			other := "application/x-alt"
			if strings.HasPrefix(cur.Header.Get("Content-Type"), "application/x-alt") {
				other = "application/json"
			}
			if cur.Body != nil {
				// also when the request came without the header: what ContentType stored then is the default media type
				cur.Header.Set("Content-Type", other)
				swapped = true
			}

		case "BindAndValidate", "BindAndValidateFresh":
			if v := ensureRoute(); v != nil {
				return v
			}
			useRoute := route
			if op == "BindAndValidateFresh" {
				// the asker looked the route up itself: an equal route description, another *MatchedRoute value
				var fr *middleware.MatchedRoute
				var ok bool
				if v := kit.Guard("LookupRoute", func() { fr, ok = ctx.LookupRoute(cur) }); v != nil {
					return v
				}
				if !ok || fr == nil {
					return fail("LookupRoute does not match a request built for operation %s", ops[h.Req.Op].ID)
				}
				useRoute = fr
			}
			consBefore := atomic.LoadInt64(&w.consCalls)
			var readsBefore int64
			if cb != nil {
				readsBefore = atomic.LoadInt64(&cb.reads)
			}
			var bound interface{}
			var nr *http.Request
			var err error
			if v := kit.Guard("BindAndValidate", func() { bound, nr, err = ctx.BindAndValidate(cur, useRoute) }); v != nil {
				return v
			}
			es := ""
			if err != nil {
				es = err.Error()
			}
			if boundDone {
				if nr != cur {
					return fail("BindAndValidate on a request that carries the binding outcome returned a different request value")
				}
				if es != boundErr || !reflect.DeepEqual(bound, boundVal) {
					return fail("BindAndValidate was recomputed: outcome (%v, err=%q) differs from the first (%v, err=%q)", bound, es, boundVal, boundErr)
				}
				if c := atomic.LoadInt64(&w.consCalls); c != consBefore {
					return fail("BindAndValidate ran the consumer again (%d more calls) although the binding outcome is on the request", c-consBefore)
				}
				if cb != nil && atomic.LoadInt64(&cb.reads) != readsBefore {
					return fail("BindAndValidate read the body again although the binding outcome is on the request")
				}
			} else {
				if nr == nil {
					return fail("BindAndValidate returned no request")
				}
				if ctCached && swapped && err == nil {
					// the consumer that decoded the body is the one of the stored content type, not of the overwritten header
					want := map[string]string{"application/json": "json", "application/x-alt": "alt"}[ctMT]
					if m, ok := bound.(map[string]interface{}); ok && want != "" {
						if b, ok := m["b"].(map[string]interface{}); ok {
							if got, _ := b["_consumer"].(string); got != want {
								return fail("BindAndValidate decoded the body with the %q consumer; the request carries the parsed content type %q (stored before the header was overwritten)", got, ctMT)
							}
						}
					}
				}
				if ctCached && swapped && err == nil && ctMT != "application/json" && ctMT != "application/x-alt" {
					// the stored content type is not admitted by the operation: binding must refuse, whatever the header says now
					return fail("BindAndValidate accepted the request although it carries the parsed content type %q, which the operation does not admit (the header was overwritten afterwards)", ctMT)
				}
				cur, boundDone, boundVal, boundErr = nr, true, bound, es
			}
		default:
			return kit.Failf("harness: unknown op %q", op)
		}
		if prinCached {
			if got := middleware.SecurityPrincipalFrom(cur); got != prinVal {
				return fail("the request value held after a successful Authorize lost its principal: it now carries %v", got)
			}
		}
		if c := atomic.LoadInt64(&w.consCalls) - cons0; c > 1 {
			return fail("the consumer ran %d times for one request", c)
		}
		if cb != nil && atomic.LoadInt64(&cb.bytes) > bodyLen {
			return fail("more body bytes were read (%d) than the body holds (%d)", cb.bytes, bodyLen)
		}
	}
	return nil
}

var (
	histOnce  sync.Once
	histWorld *world
	histErr   error
)

type bytesReader struct {
	b   []byte
	pos int
}

func newBytesReader(b []byte) *bytesReader { return &bytesReader{b: b} }
func (r *bytesReader) Read(p []byte) (int, error) {
	if r.pos >= len(r.b) {
		return 0, io.EOF
	}
	n := copy(p, r.b[r.pos:])
	r.pos += n
	return n, nil
}

var histOps = []string{"RouteInfo", "ContentType", "ContentType", "ResponseFormat", "ResponseFormatOther", "Authorize", "Authorize", "BindAndValidate", "BindAndValidate", "ResetAuth", "SwapCT", "ResponseFormatParams", "BindAndValidateFresh", "ResetAuthDiscard", "ResponseFormatNone"}

func GenHistory(t *rapid.T) History {
	h := History{Req: oneDamage(genReq(t))}
	h.Req.CtxDone = rapid.SampledFrom([]string{"", "", "", "", "cancelled", "expired"}).Draw(t, "request-context")
	n := rapid.IntRange(2, 12).Draw(t, "nops")
	for i := 0; i < n; i++ {
		h.Ops = append(h.Ops, rapid.SampledFrom(histOps).Draw(t, "op"))
	}
	return h
}

func ClassifyHistory(h History) (bool, []string) {
	labels := map[string]bool{}
	seen := map[string]int{}
	nt := false
	authSinceReset := 0
	for _, op := range h.Ops {
		key := op
		if op == "ResponseFormatOther" || op == "ResponseFormatParams" {
			key = "ResponseFormat"
		}
		if op == "BindAndValidateFresh" {
			key = "BindAndValidate"
			if seen[key] > 0 {
				labels["BindAndValidate repeated with another *MatchedRoute value"] = true
			}
		}
		if op == "ResponseFormatParams" {
			labels["offers spelled with parameters"] = true
		}
		if op == "ResetAuthDiscard" && seen["Authorize"] > 0 {
			labels["ResetAuth result discarded after Authorize"] = true
		}
		seen[key]++
		if op == "ResetAuth" {
			authSinceReset = 0
			if seen["Authorize"] > 0 {
				labels["ResetAuth after Authorize"] = true
			}
		}
		if op == "Authorize" {
			authSinceReset++
			if authSinceReset > 1 {
				labels["Authorize repeated"] = true
				nt = true
			}
		}
	}
	for k, c := range seen {
		if c > 1 && k != "ResetAuth" && k != "Authorize" {
			labels[k+" repeated"] = true
			nt = true
		}
	}
	if seen["BindAndValidate"] > 1 && ops[h.Req.Op].Method != "GET" && h.Req.Body != "none" {
		labels["BindAndValidate twice with a body"] = true
	}
	ctSeen := false
	for _, op := range h.Ops {
		if op == "ContentType" {
			ctSeen = true
		}
		if op == "SwapCT" && ctSeen {
			labels["Content-Type header overwritten after it was parsed"] = true
			nt = true
		}
	}
	labels["cred "+h.Req.Cred] = true
	if h.Req.CtxDone != "" {
		labels["request context "+h.Req.CtxDone] = true
		if seen["BindAndValidate"] > 1 && h.Req.Body != "ok" {
			labels["invalid binding outcome asked for again under an ended context"] = true
		}
	}
	if strings.HasPrefix(h.Req.Cred, "zero-") && seen["Authorize"] > 1 {
		labels["Authorize repeated with a zero-valued principal"] = true
	}
	if !strings.Contains(ops[h.Req.Op].Path, "{") {
		labels["operation without path parameter"] = true
	}
	labels["body "+h.Req.Body] = true
	var out []string
	for l := range labels {
		out = append(out, l)
	}
	sort.Strings(out)
	return nt, out
}

const ruleSched = "batches of 2-16 (thorough: 2-64) generated requests against one handler instance over 5 operations (different parameters, two consumers, two producers, three security schemes incl. an AND alternative and an anonymous alternative), each request carrying its own token in every position, " +
	"released together at a generated GOMAXPROCS under -race, with stage gates in authenticators, consumers, handlers and producers that hold every request at a stage until all requests of the batch that reach it have arrived; " +
	"oracle: every observation (status, content type, matched route and parameters, principal, scopes, consumer stamp, producer stamp, bound values) equals what the same request produces alone on a fresh instance and mentions no other request's token; any race report fails the run; " +
	"non-trivial = at least two requests in flight on one operation with different consumers, producers or credentials; distinct by hash of the batch"

const ruleHist = "sequences of 2-12 accessor calls (RouteInfo, ContentType, ResponseFormat with the route's offers, with other offers or with offers carrying parameters, Authorize, BindAndValidate with the stored or a freshly looked-up *MatchedRoute, ResetAuth threaded or with its result discarded, Content-Type header overwritten) on one generated request (valid, invalid body, wrong content type, no/bad credentials, anonymous, unacceptable Accept; body length declared or chunked), threading the returned request; " +
	"oracle: a model of the memo - once a stage produced a result it returns the same request value and an equal result, the authenticator call count grows only when no principal is cached (and again after ResetAuth), the consumer runs at most once and the body is never read again; " +
	"non-trivial = an accessor is repeated after it produced a result; distinct by hash of the history"

func Props() []kit.Runner {
	return []kit.Runner{
		kit.Prop[Batch]{ID: "C09", Name: "schedules", Rule: ruleSched, Quick: 100, Thorough: 2000, Gen: GenBatch, Check: CheckBatch, Classify: ClassifyBatch, SampleLimit: 900},
		kit.Prop[History]{ID: "C09", Name: "histories", Rule: ruleHist, Quick: 20000, Thorough: 300000, Gen: GenHistory, Check: CheckHistory, Classify: ClassifyHistory},
	}
}
