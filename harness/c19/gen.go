package c19

import (
	"fmt"
	"sort"
	"strings"

	"pgregory.net/rapid"

	"verif/harness/kit"
)

// Generators --------------------------------------------------------------------------------------

var (
	restrictedPool = []string{"application/json", "text/plain", "text/csv", "application/xml", "application/x-yaml", "application/vnd.api+json", "application/x-www-form-urlencoded", "multipart/form-data"}
	// media types outside the restricted class of the statement's second sentence
	wildPool    = []string{"Text/Plain", "APPLICATION/JSON", "text/plain; charset=utf-8", "application/json;version=1", "text/*", "*/*", "application/*+json"}
	foreignPool = []string{"image/png", "text/html", "application/json", "application/json; charset=utf-8", "*/*", "text/plain", "application/x-yaml"}
	allMethods  = []string{"get", "put", "post", "patch", "delete", "head", "options"}
	literals    = []string{"a", "b", "pets", "items", "v1", "x.y", "Orders"}
	holders     = []string{"{id}", "{name}", "{k}"}
	schemeNames = []string{"k1", "k2", "oauth", "Key"}
	basePaths   = []string{"", "/", "/api", "/api/v1", "/api/", "/a", "/api//v1", "/api/./v1/"}
)

func genTypes(t *rapid.T, label string, pool []string, min, max int) []string {
	n := rapid.IntRange(min, max).Draw(t, label+"-n")
	if n > len(pool) {
		n = len(pool)
	}
	perm := rapid.Permutation(pool).Draw(t, label)
	return append([]string{}, perm[:n]...)
}

func maybeTypes(t *rapid.T, label string, pool []string, pNone int) []string {
	if rapid.IntRange(0, 99).Draw(t, label+"-none") < pNone {
		return nil
	}
	return genTypes(t, label, pool, 1, 3)
}

func genTemplate(t *rapid.T) string {
	n := rapid.IntRange(1, 3).Draw(t, "nseg")
	used := map[string]bool{}
	var segs []string
	for i := 0; i < n; i++ {
		if rapid.IntRange(0, 3).Draw(t, "holder") == 0 {
			h := rapid.SampledFrom(holders).Draw(t, "h")
			if !used[h] {
				used[h] = true
				segs = append(segs, h)
				continue
			}
		}
		segs = append(segs, rapid.SampledFrom(literals).Draw(t, "lit"))
	}
	return "/" + strings.Join(segs, "/")
}

func normTemplate(p string) string { return placeholder.ReplaceAllString(p, "{}") }

func genAlt(t *rapid.T, defs []string) []string {
	if len(defs) == 0 || rapid.IntRange(0, 5).Draw(t, "anon") == 0 {
		return []string{} // the anonymous requirement
	}
	n := 1
	if len(defs) > 1 && rapid.IntRange(0, 2).Draw(t, "and") == 0 {
		n = 2
	}
	alt := append([]string{}, rapid.Permutation(defs).Draw(t, "alt")[:n]...)
	return alt
}

func genSec(t *rapid.T, label string, defs []string, pSet int) Sec {
	if rapid.IntRange(0, 99).Draw(t, label+"-set") >= pSet {
		return Sec{}
	}
	s := Sec{Set: true, Alts: [][]string{}}
	n := rapid.IntRange(0, 2).Draw(t, label+"-nalt")
	for i := 0; i < n; i++ {
		s.Alts = append(s.Alts, genAlt(t, defs))
	}
	return s
}

// genDescription fills the description part of a case.
func genDescription(t *rapid.T, pool []string, serveBias bool) Case {
	c := Case{BasePath: rapid.SampledFrom(basePaths).Draw(t, "base")}
	pNone := 50
	if serveBias {
		pNone = 35
	}
	c.Consumes = maybeTypes(t, "gcons", pool, pNone)
	c.Produces = maybeTypes(t, "gprod", pool, pNone)
	nd := rapid.IntRange(0, 3).Draw(t, "ndefs")
	c.Defs = append([]string{}, rapid.Permutation(schemeNames).Draw(t, "defs")[:nd]...)
	c.Sec = genSec(t, "gsec", c.Defs, 30)

	ntpl := rapid.IntRange(1, 4).Draw(t, "ntpl")
	seen := map[string]bool{}
	for i := 0; i < ntpl && len(c.Ops) < 6; i++ {
		tpl := genTemplate(t)
		if seen[normTemplate(tpl)] {
			continue
		}
		seen[normTemplate(tpl)] = true
		nm := rapid.SampledFrom([]int{1, 1, 1, 2, 2, 3}).Draw(t, "nmeth")
		for _, m := range rapid.Permutation(allMethods).Draw(t, "methods")[:nm] {
			if len(c.Ops) >= 6 {
				break
			}
			op := Op{Method: m, Path: tpl, Deprecated: rapid.IntRange(0, 4).Draw(t, "deprecated") == 0}
			switch m {
			case "put", "post", "patch":
				op.Body = rapid.IntRange(0, 9).Draw(t, "body") < 8
			case "get", "delete":
				op.Body = rapid.IntRange(0, 9).Draw(t, "body") < 1
			case "options":
				op.Body = rapid.IntRange(0, 9).Draw(t, "body") < 3 // an OPTIONS request may carry a payload (RFC 7231 4.3.7)
			}
			op.Consumes = maybeTypes(t, "ocons", pool, pNone)
			op.Produces = maybeTypes(t, "oprod", pool, pNone)
			op.Sec = genSec(t, "osec", c.Defs, 40)
			c.Ops = append(c.Ops, op)
		}
	}
	return c
}

// giveTypes makes every operation own or inherit a media type in each direction it uses (DESIGN.md C19 domain
// note): used when the JSON defaults are stripped.
func giveTypes(t *rapid.T, c *Case, pool []string) {
	for i := range c.Ops {
		op := &c.Ops[i]
		if len(c.effProduces(*op)) == 0 {
			op.Produces = genTypes(t, "fixprod", pool, 1, 2)
		}
		if op.Body && len(c.effConsumes(*op)) == 0 {
			op.Consumes = genTypes(t, "fixcons", pool, 1, 2)
		}
	}
}

func (c *Case) pruneDefs() {
	used := c.requiredSchemes()
	var keep []string
	for _, d := range c.Defs {
		if used[d] {
			keep = append(keep, d)
		}
	}
	c.Defs = keep
}

// exact derives the registration calls that coincide with the description.
func (c *Case) exact() {
	c.RegConsumers = c.requiredConsumes().sorted()
	c.RegProducers = c.requiredProduces().sorted()
	c.RegOps = nil
	for _, op := range c.Ops {
		c.RegOps = append(c.RegOps, RegOp{op.Method, op.Path})
	}
	c.RegAuth = c.requiredSchemes().sorted()
}

func remove(xs []string, x string) []string {
	var out []string
	for _, y := range xs {
		if y != x {
			out = append(out, y)
		}
	}
	return out
}

func flipCase(t *rapid.T, s string) string {
	switch rapid.IntRange(0, 2).Draw(t, "casing") {
	case 0:
		return strings.ToUpper(s)
	case 1:
		if s == "" {
			return s
		}
		return strings.ToUpper(s[:1]) + s[1:]
	}
	if s != strings.ToLower(s) {
		return strings.ToLower(s)
	}
	// upper-case the last letter
	for i := len(s) - 1; i >= 0; i-- {
		if s[i] >= 'a' && s[i] <= 'z' {
			return s[:i] + strings.ToUpper(s[i:i+1]) + s[i+1:]
		}
	}
	return s
}

// editStrings applies one edit to a list of media types or scheme names.
func editStrings(t *rapid.T, kind string, xs []string, foreign []string) []string {
	pick := func() int { return rapid.IntRange(0, len(xs)-1).Draw(t, "which") }
	switch kind {
	case "omit":
		if len(xs) > 0 {
			i := pick()
			return append(append([]string{}, xs[:i]...), xs[i+1:]...)
		}
	case "add":
		return append(append([]string{}, xs...), rapid.SampledFrom(foreign).Draw(t, "foreign"))
	case "case":
		if len(xs) > 0 {
			i := pick()
			out := append([]string{}, xs...)
			out[i] = flipCase(t, out[i])
			return out
		}
	case "dup":
		if len(xs) > 0 {
			return append(append([]string{}, xs...), flipCase(t, xs[pick()]))
		}
	case "swap":
		if len(xs) > 0 {
			i := pick()
			out := append([]string{}, xs...)
			out[i] = rapid.SampledFrom(foreign).Draw(t, "foreign")
			return out
		}
	case "clear":
		return nil
	}
	return xs
}

func editOps(t *rapid.T, kind string, c *Case) {
	xs := c.RegOps
	pick := func() int { return rapid.IntRange(0, len(xs)-1).Draw(t, "which") }
	foreign := func() RegOp {
		var base RegOp
		if len(c.Ops) > 0 {
			o := c.Ops[rapid.IntRange(0, len(c.Ops)-1).Draw(t, "near")]
			base = RegOp{o.Method, o.Path}
		}
		switch rapid.IntRange(0, 6).Draw(t, "foreignop") {
		case 5: // a method the description language does not have, or a misspelt one
			return RegOp{rapid.SampledFrom([]string{"trace", "connect", "pots", "query"}).Draw(t, "odd-method"), base.Path}
		case 6:
			return RegOp{"TRACE", "/zz"}
		case 0:
			return RegOp{"PATCH", "/zz"}
		case 1:
			return RegOp{base.Method, base.Path + "/"}
		case 2:
			return RegOp{rapid.SampledFrom(allMethods).Draw(t, "m"), base.Path}
		case 3:
			return RegOp{base.Method, c.requestPath(Op{Path: base.Path})} // the full path instead of the template
		}
		return RegOp{base.Method, flipCase(t, base.Path)}
	}
	switch kind {
	case "omit":
		if len(xs) > 0 {
			i := pick()
			c.RegOps = append(append([]RegOp{}, xs[:i]...), xs[i+1:]...)
		}
	case "add":
		c.RegOps = append(append([]RegOp{}, xs...), foreign())
	case "case": // method case: the API upper-cases methods, so this changes nothing
		if len(xs) > 0 {
			i := pick()
			out := append([]RegOp{}, xs...)
			out[i].Method = flipCase(t, out[i].Method)
			c.RegOps = out
		}
	case "pathcase": // paths are compared as spelled
		if len(xs) > 0 {
			i := pick()
			out := append([]RegOp{}, xs...)
			out[i].Path = flipCase(t, out[i].Path)
			c.RegOps = out
		}
	case "dup":
		if len(xs) > 0 {
			o := xs[pick()]
			o.Method = flipCase(t, o.Method)
			c.RegOps = append(append([]RegOp{}, xs...), o)
		}
	case "swap":
		if len(xs) > 0 {
			i := pick()
			out := append([]RegOp{}, xs...)
			out[i] = foreign()
			c.RegOps = out
		}
	case "clear":
		c.RegOps = nil
	}
}

// applyEdit performs one generated edit of the registration calls and records its name.
func applyEdit(t *rapid.T, c *Case, harmlessOnly bool) {
	cat := rapid.SampledFrom([]string{"consumes", "produces", "operation", "auth"}).Draw(t, "editcat")
	kinds := []string{"omit", "omit", "add", "add", "case", "dup", "swap", "clear"}
	if harmlessOnly {
		kinds = []string{"case", "dup"}
		if cat == "auth" {
			cat = "operation" // scheme names are case-sensitive: no harmless edit exists
		}
	} else if cat == "operation" {
		kinds = append(kinds, "pathcase")
	}
	kind := rapid.SampledFrom(kinds).Draw(t, "editkind")
	authForeign := append([]string{"ghost"}, schemeNames...)
	switch cat {
	case "consumes":
		c.RegConsumers = editStrings(t, kind, c.RegConsumers, foreignPool)
	case "produces":
		c.RegProducers = editStrings(t, kind, c.RegProducers, foreignPool)
	case "operation":
		editOps(t, kind, c)
	case "auth":
		c.RegAuth = editStrings(t, kind, c.RegAuth, authForeign)
	}
	c.Edits = append(c.Edits, cat+":"+kind)
}

// jsonChoice decides the JSON defaults of the API and whether the exact registration spells the JSON pair out.
func jsonChoice(t *rapid.T, c *Case, pool []string, pKeep, pFix int) {
	c.JSONDefaults = rapid.IntRange(0, 99).Draw(t, "jsondefaults") < pKeep
	c.LateGlobals = rapid.IntRange(0, 3).Draw(t, "globals-set-after-loading") == 0
	c.UntypedDefs = rapid.IntRange(0, 3).Draw(t, "security-definitions-without-type") == 0
	c.EarlyContext = rapid.IntRange(0, 3).Draw(t, "context-created-before-media-types-and-authenticators") == 0
	if c.JSONDefaults {
		if rapid.IntRange(0, 99).Draw(t, "jsonfix") < pFix {
			// a description that names the JSON type in both directions, so that the defaults are required
			if !c.requiredConsumes()[jsonMime] {
				c.Consumes = append(c.Consumes, jsonMime)
			}
			if !c.requiredProduces()[jsonMime] {
				c.Produces = append(c.Produces, jsonMime)
			}
		}
	} else if rapid.IntRange(0, 9).Draw(t, "givetypes") < 9 {
		giveTypes(t, c, pool)
	}
}

func implicitJSON(t *rapid.T, c *Case) {
	if c.JSONDefaults && rapid.Bool().Draw(t, "jsonimplicit") {
		c.RegConsumers = remove(c.RegConsumers, jsonMime)
		c.RegProducers = remove(c.RegProducers, jsonMime)
		c.Edits = append(c.Edits, "json:implicit")
	}
}

// GenEdits draws a description (restricted or not) and registration calls 0-3 edits away from the exact set.
func GenEdits(t *rapid.T) Case {
	pool := restrictedPool
	if rapid.IntRange(0, 4).Draw(t, "wild") == 0 {
		pool = append(append([]string{}, restrictedPool[:3]...), wildPool...)
	}
	c := genDescription(t, pool, false)
	if rapid.IntRange(0, 9).Draw(t, "prune") < 7 {
		c.pruneDefs()
	}
	jsonChoice(t, &c, pool, 40, 75)
	c.exact()
	implicitJSON(t, &c)
	n := rapid.SampledFrom([]int{0, 0, 1, 1, 1, 1, 2, 2, 3}).Draw(t, "nedits")
	for i := 0; i < n; i++ {
		applyEdit(t, &c, false)
	}
	return c
}

// GenServe draws descriptions of the restricted class whose registrations coincide with the description
// (spelled with harmless variations), biased to several media types per operation.
func GenServe(t *rapid.T) Case {
	c := genDescription(t, restrictedPool, true)
	c.pruneDefs()
	jsonChoice(t, &c, restrictedPool, 35, 100)
	c.exact()
	implicitJSON(t, &c)
	n := rapid.SampledFrom([]int{0, 0, 1, 2}).Draw(t, "nedits")
	for i := 0; i < n; i++ {
		applyEdit(t, &c, true)
	}
	return c
}

// Classify ----------------------------------------------------------------------------------------

// Classify implements the non-trivial rule: the registration calls differ from the exact ones (or the
// categories do not coincide), or the API validates, is served, and some operation has >= 2 media types.
func Classify(c Case) (bool, []string) {
	labels := map[string]bool{}
	cats := c.Model()
	ff := FirstFailing(cats)
	nt := len(c.Edits) > 0 || ff >= 0
	if len(c.Edits) == 0 {
		labels["registrations: exact calls"] = true
	}
	if c.LateGlobals && (len(c.Consumes) > 0 || len(c.Produces) > 0) {
		labels["top-level consumes/produces set on the loaded document"] = true
	}
	if c.UntypedDefs && len(c.Defs) > 1 {
		labels["security definitions declared without a type"] = true
	}
	if c.EarlyContext {
		labels["Context created after the handlers and before the media types and authenticators were registered"] = true
	}
	if strings.Contains(c.BasePath, "//") || strings.Contains(c.BasePath, "/./") {
		labels["base path spelled with duplicate slashes or a '.' segment"] = true
	}
	for _, op := range c.Ops {
		if op.Deprecated {
			labels["operation marked deprecated"] = true
		}
		if op.Method == "options" && op.Body {
			labels["OPTIONS operation with a payload"] = true
		}
	}
	for _, e := range c.Edits {
		labels["edit "+e] = true
	}
	if len(c.Edits) >= 2 {
		labels["≥2 edits"] = true
	}
	if c.JSONDefaults {
		labels["json defaults kept"] = true
	} else {
		labels["json defaults stripped"] = true
	}
	if c.Restricted() {
		labels["description: restricted class"] = true
	} else {
		labels["description: media type with upper case/parameter/wildcard"] = true
	}
	if len(minus(set2(c.Defs), c.requiredSchemes())) > 0 {
		labels["description: unused security definition"] = true
	}
	if len(c.Defs) > 0 {
		labels["description: has security definitions"] = true
	}
	if ff >= 0 {
		k := cats[ff]
		labels["verdict: fails in "+k.Name] = true
		failing := 0
		for _, x := range cats {
			if !x.Coincide() {
				failing++
			}
		}
		if failing >= 2 {
			labels["≥2 categories fail"] = true
		}
		if len(k.Missing()) > 0 && len(k.Superfluous()) > 0 {
			labels["first failing category has missing and superfluous names"] = true
		}
		if len(k.Missing()) >= 2 || len(k.Superfluous()) >= 2 {
			labels["a reported list has ≥2 names"] = true
		}
	} else {
		labels["verdict: validates"] = true
		if len(c.Edits) > 0 {
			labels["validates with differently spelled registrations"] = true
		}
		if c.Restricted() {
			shots, skipped := c.Shots()
			if len(shots) > 0 {
				labels["served"] = true
			}
			if len(skipped) > 0 {
				labels["served: operation without media type left out"] = true
			}
			perOp := map[int]int{}
			for _, s := range shots {
				perOp[s.Op]++
			}
			multi := false
			for _, n := range perOp {
				if n >= 2 {
					multi = true
				}
			}
			if multi {
				labels["served: ≥2 media types on an operation"] = true
				nt = true
			}
			for i, op := range c.Ops {
				if perOp[i] == 0 {
					continue
				}
				if op.Body {
					labels["served: operation with body"] = true
				} else {
					labels["served: operation without body"] = true
				}
				if len(c.effProduces(op)) == 0 || (op.Body && len(c.effConsumes(op)) == 0) {
					labels["served: via the JSON default only"] = true
				}
				sec := c.effSec(op)
				d := demanded(sec)
				switch {
				case len(d) >= 2:
					labels["served: AND requirement"] = true
				case len(d) == 1:
					labels["served: single scheme requirement"] = true
				case len(sec.Alts) > 0:
					labels["served: anonymous only"] = true
				}
				if len(d) > 0 && len(sec.Alts[0]) == 0 {
					labels["served: anonymous alternative listed first"] = true
				}
				if strings.Contains(op.Path, "{") {
					labels["served: path placeholder"] = true
				}
			}
			labels[fmt.Sprintf("served: %s requests", bucket(len(shots)))] = true
		}
	}
	var out []string
	for l := range labels {
		out = append(out, l)
	}
	sort.Strings(out)
	return nt, out
}

func set2(xs []string) set {
	s := set{}
	s.add(xs...)
	return s
}

func bucket(n int) string {
	switch {
	case n == 0:
		return "0"
	case n <= 3:
		return "1-3"
	case n <= 9:
		return "4-9"
	case n <= 27:
		return "10-27"
	}
	return ">27"
}

const rule = "Swagger 2.0 descriptions (base path, global and per-operation consumes/produces, 0-3 security definitions some unused, global and per-operation OR-of-ANDs requirements incl. anonymous, 1-6 operations over 7 methods, templates with placeholders) loaded with loads.Analyzed " +
	"x registration calls derived from the exact set by 0-3 generated edits (omit, add a foreign or near name, swap, clear a category, change the case of a media type / method / path / scheme name, register twice, JSON defaults kept or stripped, JSON pair spelled out or implicit); " +
	"oracle = set model per category in the order consumes, produces, operation, auth scheme, security definitions (media types lower-cased and methods upper-cased as registered, required names as spelled): Validate passes iff all five coincide, else it names the first failing category and exactly the model's missing and superfluous names; " +
	"a validated API whose media types are lower-case, parameter-free and wildcard-free is served: each operation x each consumes x each produces (plus one Accept header that prefers a foreign type and settles for a produced one) must answer 200 through its own handler, no panic, no 5xx, no 404/405, and every scheme of the first non-anonymous alternative is consulted; " +
	"non-trivial = the registration calls differ from the exact ones or the categories do not coincide, or the API validates and is served with >=2 media-type combinations on some operation; distinct by hash of the whole case"

// Props lists the generated checks of C19.
func Props() []kit.Runner {
	return []kit.Runner{
		kit.Prop[Case]{ID: "C19", Name: "validate", Rule: rule, Quick: 3000, Thorough: 10000,
			Gen: GenEdits, Check: Check, Classify: Classify, SampleLimit: 1200},
		kit.Prop[Case]{ID: "C19", Name: "serve", Rule: rule + "; this sub-check draws only restricted-class descriptions with coinciding registrations (harmless spelling variations), biased to several media types per operation", Quick: 1200, Thorough: 4000,
			Gen: GenServe, Check: Check, Classify: Classify, SampleLimit: 1200},
	}
}
