// Package c19 decides property C19: untyped.API.Validate passes exactly when the registrations coincide with
// what the API description requires (reporting every missing and superfluous name of the first failing
// category), and a validated API of the restricted class serves every declared operation without failing a
// request for lack of a registered consumer, producer, handler or authenticator.
//
// The oracle is a set model per category written from the statement; it never consults the analyzer or the
// API under test. A case carries the description as data and the registration calls exactly as performed.
package c19

import (
	"encoding/json"
	"errors"
	"fmt"
	"io"
	"net/http"
	"net/http/httptest"
	"path"
	"regexp"
	"sort"
	"strings"

	oerr "github.com/go-openapi/errors"
	"github.com/go-openapi/loads"
	"github.com/go-openapi/runtime"
	"github.com/go-openapi/runtime/middleware"
	"github.com/go-openapi/runtime/middleware/untyped"

	"verif/harness/kit"
)

type M = map[string]interface{}

// Sec is a "security" key of the description: absent, or an OR of ANDs of scheme names. An empty alternative is
// the anonymous requirement {}.
type Sec struct {
	Set  bool       `json:"set,omitempty"`
	Alts [][]string `json:"alts,omitempty"`
}

// Op is one declared operation.
type Op struct {
	Method   string   `json:"method"` // as spelled in the description: get put post patch delete head options
	Path     string   `json:"path"`   // template below the base path
	Body     bool     `json:"body,omitempty"`
	Consumes []string `json:"consumes,omitempty"`
	Produces []string `json:"produces,omitempty"`
	Sec      Sec      `json:"sec,omitempty"`
	// Deprecated: the description marks the operation `deprecated: true` (a note for clients; it is declared all the same) (r7)
	Deprecated bool `json:"deprecated,omitempty"`
}

// RegOp is one RegisterOperation call.
type RegOp struct {
	Method string `json:"method"`
	Path   string `json:"path"`
}

// Case is a description plus the registration calls exactly as they are performed.
type Case struct {
	BasePath string   `json:"basePath"`
	Consumes []string `json:"consumes,omitempty"`
	Produces []string `json:"produces,omitempty"`
	Defs     []string `json:"defs,omitempty"` // names under securityDefinitions
	Sec      Sec      `json:"sec,omitempty"`  // global security
	Ops      []Op     `json:"ops"`

	JSONDefaults bool     `json:"jsonDefaults"` // false: WithoutJSONDefaults()
	RegConsumers []string `json:"regConsumers,omitempty"`
	RegProducers []string `json:"regProducers,omitempty"`
	RegOps       []RegOp  `json:"regOps,omitempty"`
	RegAuth      []string `json:"regAuth,omitempty"`
	Edits        []string `json:"edits,omitempty"` // how the registration calls were derived from the exact set (informational)
	// LateGlobals: the description is loaded without its top-level consumes/produces lists; the application sets them on
	// the loaded document (doc.Spec()) before it builds the API from it
	LateGlobals bool `json:"lateGlobals,omitempty"`
	// EarlyContext: the application registers its operation handlers, creates the middleware Context, and only then
	// registers media types and authenticators (then validates, then asks the Context for its handler) (r6)
	EarlyContext bool `json:"earlyContext,omitempty"`
	// UntypedDefs: every second security definition is declared without a type
	UntypedDefs bool `json:"untypedDefs,omitempty"`
}

const jsonMime = "application/json"

// Description -------------------------------------------------------------------------------------

var placeholder = regexp.MustCompile(`\{([^}/]+)\}`)

func secJSON(s Sec) []M {
	out := []M{}
	for _, alt := range s.Alts {
		m := M{}
		for _, n := range alt {
			m[n] = []string{}
		}
		out = append(out, m)
	}
	return out
}

func defJSON(i int, name string) M {
	switch i % 3 {
	case 0:
		return M{"type": "apiKey", "in": "header", "name": "X-" + name}
	case 1:
		return M{"type": "basic"}
	}
	return M{"type": "apiKey", "in": "query", "name": name}
}

// Document renders the Swagger 2.0 description of the case.
func (c Case) Document() []byte { return c.document(false) }

// document renders the description; asLoaded leaves out what LateGlobals adds after loading.
func (c Case) document(asLoaded bool) []byte {
	paths := M{}
	for i, op := range c.Ops {
		item, _ := paths[op.Path].(M)
		if item == nil {
			item = M{}
			paths[op.Path] = item
		}
		o := M{"operationId": fmt.Sprintf("op%d", i), "responses": M{"200": M{"description": "ok"}}}
		params := []M{}
		for _, m := range placeholder.FindAllStringSubmatch(op.Path, -1) {
			params = append(params, M{"name": m[1], "in": "path", "required": true, "type": "string"})
		}
		if op.Body {
			params = append(params, M{"name": "payload", "in": "body", "schema": M{"type": "object"}})
		}
		if len(params) > 0 {
			o["parameters"] = params
		}
		if len(op.Consumes) > 0 {
			o["consumes"] = op.Consumes
		}
		if len(op.Produces) > 0 {
			o["produces"] = op.Produces
		}
		if op.Sec.Set {
			o["security"] = secJSON(op.Sec)
		}
		if op.Deprecated {
			o["deprecated"] = true
		}
		item[op.Method] = o
	}
	doc := M{"swagger": "2.0", "info": M{"title": "c19", "version": "1"}, "paths": paths}
	if c.BasePath != "" {
		doc["basePath"] = c.BasePath
	}
	if len(c.Consumes) > 0 && !(asLoaded && c.LateGlobals) {
		doc["consumes"] = c.Consumes
	}
	if len(c.Produces) > 0 && !(asLoaded && c.LateGlobals) {
		doc["produces"] = c.Produces
	}
	if len(c.Defs) > 0 {
		defs := M{}
		for i, n := range c.Defs {
			defs[n] = defJSON(i, n)
			if c.UntypedDefs && i%2 == 1 {
				// a definition that does not say its type (an incomplete description): declared all the same (r9)
				defs[n] = M{"description": "declared without a type"}
			}
		}
		doc["securityDefinitions"] = defs
	}
	if c.Sec.Set {
		doc["security"] = secJSON(c.Sec)
	}
	raw, err := json.Marshal(doc)
	if err != nil {
		panic(err)
	}
	return raw
}

// Set model ---------------------------------------------------------------------------------------

type set map[string]bool

func (s set) add(xs ...string) {
	for _, x := range xs {
		s[x] = true
	}
}

func (s set) sorted() []string {
	out := make([]string, 0, len(s))
	for x := range s {
		out = append(out, x)
	}
	sort.Strings(out)
	return out
}

func minus(a, b set) []string {
	out := []string{}
	for x := range a {
		if !b[x] {
			out = append(out, x)
		}
	}
	sort.Strings(out)
	return out
}

// Category is one of the five comparisons, in the order the statement's "first failing category" refers to.
type Category struct {
	Name       string
	Registered set
	Required   set
}

func (k Category) Missing() []string     { return minus(k.Required, k.Registered) }
func (k Category) Superfluous() []string { return minus(k.Registered, k.Required) }
func (k Category) Coincide() bool        { return len(k.Missing()) == 0 && len(k.Superfluous()) == 0 }

// Required sets: what the description names. A media type counts wherever it is declared (globally or on an
// operation), a scheme wherever a requirement names it; names are taken as spelled.
func (c Case) requiredConsumes() set {
	s := set{}
	s.add(c.Consumes...)
	for _, op := range c.Ops {
		s.add(op.Consumes...)
	}
	return s
}

func (c Case) requiredProduces() set {
	s := set{}
	s.add(c.Produces...)
	for _, op := range c.Ops {
		s.add(op.Produces...)
	}
	return s
}

func opKey(method, p string) string { return strings.ToUpper(method) + " " + p }

func (c Case) requiredOps() set {
	s := set{}
	for _, op := range c.Ops {
		s.add(opKey(op.Method, op.Path))
	}
	return s
}

func (c Case) requiredSchemes() set {
	s := set{}
	for _, alt := range c.Sec.Alts {
		s.add(alt...)
	}
	for _, op := range c.Ops {
		for _, alt := range op.Sec.Alts {
			s.add(alt...)
		}
	}
	return s
}

// Model returns the five categories. Registered names are those the API stores: media types lower-cased at
// registration, methods upper-cased (DESIGN.md section 6), the JSON pair present unless stripped.
func (c Case) Model() []Category {
	cons, prod, ops, auth, defs := set{}, set{}, set{}, set{}, set{}
	if c.JSONDefaults {
		cons.add(jsonMime)
		prod.add(jsonMime)
	}
	for _, m := range c.RegConsumers {
		cons.add(strings.ToLower(m))
	}
	for _, m := range c.RegProducers {
		prod.add(strings.ToLower(m))
	}
	for _, o := range c.RegOps {
		ops.add(opKey(o.Method, o.Path))
	}
	auth.add(c.RegAuth...)
	defs.add(c.Defs...)
	req := c.requiredSchemes()
	return []Category{
		{"consumes", cons, c.requiredConsumes()},
		{"produces", prod, c.requiredProduces()},
		{"operation", ops, c.requiredOps()},
		{"auth scheme", auth, req},
		{"security definitions", defs, req},
	}
}

// FirstFailing returns the index of the first category that does not coincide, or -1.
func FirstFailing(cats []Category) int {
	for i, k := range cats {
		if !k.Coincide() {
			return i
		}
	}
	return -1
}

func restrictedType(m string) bool {
	return m != "" && m == strings.ToLower(m) && !strings.ContainsAny(m, ";* ")
}

// Restricted reports whether every media type of the description is lower-case, parameter-free, wildcard-free.
func (c Case) Restricted() bool {
	for m := range c.requiredConsumes() {
		if !restrictedType(m) {
			return false
		}
	}
	for m := range c.requiredProduces() {
		if !restrictedType(m) {
			return false
		}
	}
	return true
}

func (c Case) effConsumes(op Op) []string {
	if len(op.Consumes) > 0 {
		return op.Consumes
	}
	return c.Consumes
}

func (c Case) effProduces(op Op) []string {
	if len(op.Produces) > 0 {
		return op.Produces
	}
	return c.Produces
}

func (c Case) effSec(op Op) Sec {
	if op.Sec.Set {
		return op.Sec
	}
	return c.Sec
}

// Check -------------------------------------------------------------------------------------------

type calls struct {
	handler   []string
	auth      []string
	consumers []string
	producers []string
}

func same(a, b []string) bool {
	if len(a) != len(b) {
		return false
	}
	for i := range a {
		if a[i] != b[i] {
			return false
		}
	}
	return true
}

func sortedCopy(xs []string) []string {
	out := append([]string{}, xs...)
	sort.Strings(out)
	return out
}

func (c Case) brief() string {
	return fmt.Sprintf("description=%s jsonDefaults=%v consumers=%q producers=%q operations=%v auth=%q", c.Document(), c.JSONDefaults, c.RegConsumers, c.RegProducers, c.RegOps, c.RegAuth)
}

// Check validates the API built from the case against the set model, and exercises it when it validated and
// belongs to the restricted class.
func Check(c Case) *kit.Violation {
	doc, err := loads.Analyzed(json.RawMessage(c.document(true)), "")
	if err != nil {
		return kit.Failf("HARNESS: the generated description does not load: %v\n%s", err, c.Document())
	}
	if c.LateGlobals {
		doc.Spec().Consumes = append([]string(nil), c.Consumes...)
		doc.Spec().Produces = append([]string(nil), c.Produces...)
	}
	log := &calls{}
	var api *untyped.API
	var verr, verr2, verr3 error
	revalidate := true
	for _, m := range append(append([]string{}, c.RegConsumers...), c.RegProducers...) {
		if strings.EqualFold(m, "application/json") {
			revalidate = false
		}
	}
	var early *middleware.Context
	registerOps := func() {
		for _, o := range c.RegOps {
			key := opKey(o.Method, o.Path)
			api.RegisterOperation(o.Method, o.Path, runtime.OperationHandlerFunc(func(interface{}) (interface{}, error) {
				log.handler = append(log.handler, key)
				return M{"ok": true}, nil
			}))
		}
	}
	if v := kit.Guard("NewAPI/Register*/Validate", func() {
		api = untyped.NewAPI(doc)
		if !c.JSONDefaults {
			api.WithoutJSONDefaults()
		}
		if c.EarlyContext {
			registerOps()
			early = middleware.NewContext(doc, api, nil)
		}
		for _, m := range c.RegConsumers {
			m := m
			api.RegisterConsumer(m, runtime.ConsumerFunc(func(r io.Reader, v interface{}) error {
				log.consumers = append(log.consumers, m)
				return json.NewDecoder(r).Decode(v)
			}))
		}
		for _, m := range c.RegProducers {
			m := m
			api.RegisterProducer(m, runtime.ProducerFunc(func(w io.Writer, v interface{}) error {
				log.producers = append(log.producers, m)
				return json.NewEncoder(w).Encode(v)
			}))
		}
		if !c.EarlyContext {
			registerOps()
		}
		for _, a := range c.RegAuth {
			a := a
			api.RegisterAuth(a, runtime.AuthenticatorFunc(func(interface{}) (bool, interface{}, error) {
				log.auth = append(log.auth, a)
				return true, "principal-" + a, nil
			}))
		}
		verr = api.Validate()
		// the registrations are changed after a validation and validated again: the verdict follows the tables as
		// they are now (only when the JSON pair is not registered explicitly, so that toggling the defaults is
		// exactly "JSON pair present / absent" and can be undone)
		if revalidate {
			toggle := func(on bool) {
				if on {
					api.WithJSONDefaults()
				} else {
					api.WithoutJSONDefaults()
				}
			}
			toggle(!c.JSONDefaults)
			verr2 = api.Validate()
			toggle(c.JSONDefaults)
			verr3 = api.Validate()
		}
	}); v != nil {
		return kit.Failf("%s\n%s", v.Msg, c.brief())
	}
	if revalidate {
		c2 := c
		c2.JSONDefaults = !c.JSONDefaults
		if want := FirstFailing(c2.Model()) < 0; want != (verr2 == nil) {
			return kit.Failf("REVALIDATE after toggling the JSON defaults (now %v): Validate returned %v, the model says passes=%v\n%s", c2.JSONDefaults, verr2, want, c.brief())
		}
		if (verr == nil) != (verr3 == nil) {
			return kit.Failf("REVALIDATE after toggling the JSON defaults back: Validate returned %v, the first validation returned %v\n%s", verr3, verr, c.brief())
		}
		// the registrations are again what they were: so are the category and the lists (judged against the model) (r10)
		if v := c.judge(verr3, "REVALIDATE after toggling the JSON defaults back: "); v != nil {
			return v
		}
	}

	if v := c.judge(verr, ""); v != nil {
		return v
	}
	cats := c.Model()
	if ff := FirstFailing(cats); ff >= 0 {
		// the usual way on from a failed validation: register what it names as missing and validate again. The verdict is
		// the model's for the registrations as they are now (r10: a second validation must not work from what the first left behind)
		if k := cats[ff]; k.Name == "operation" && len(k.Missing()) > 0 {
			c3 := c
			c3.RegOps = append([]RegOp(nil), c.RegOps...)
			var verr4 error
			if v := kit.Guard("RegisterOperation/Validate after a failed validation", func() {
				for _, name := range k.Missing() {
					method, path, _ := strings.Cut(name, " ")
					api.RegisterOperation(method, path, runtime.OperationHandlerFunc(func(interface{}) (interface{}, error) { return M{"ok": true}, nil }))
					c3.RegOps = append(c3.RegOps, RegOp{Method: method, Path: path})
				}
				verr4 = api.Validate()
			}); v != nil {
				return kit.Failf("%s\n%s", v.Msg, c.brief())
			}
			if v := c3.judge(verr4, fmt.Sprintf("AFTER-REPAIR (the operations %q named as missing by the first validation were registered, then Validate again): ", k.Missing())); v != nil {
				return v
			}
		}
		return nil
	}
	if !c.Restricted() {
		return nil
	}
	return c.serve(doc, api, log, early)
}

// judge compares one verdict of Validate with the model's for the case.
func (c Case) judge(verr error, prefix string) *kit.Violation {
	cats := c.Model()
	ff := FirstFailing(cats)
	if ff >= 0 {
		k := cats[ff]
		want := fmt.Sprintf("want a failure of category %q with missing registrations %q and superfluous registrations %q", k.Name, k.Missing(), k.Superfluous())
		if verr == nil {
			return kit.Failf("%sVALIDATE-PASSES although the registrations do not match: %s\n%s", prefix, want, c.brief())
		}
		var vf *oerr.APIVerificationFailed
		if !errors.As(verr, &vf) {
			return kit.Failf("%sVALIDATE-ERROR of an unexpected kind %T %v: %s\n%s", prefix, verr, verr, want, c.brief())
		}
		if vf.Section != k.Name {
			return kit.Failf("%sVALIDATE-CATEGORY got %q (missing %q, superfluous %q): %s\n%s", prefix, vf.Section, vf.MissingRegistration, vf.MissingSpecification, want, c.brief())
		}
		if !same(sortedCopy(vf.MissingRegistration), k.Missing()) {
			return kit.Failf("%sVALIDATE-MISSING category %q reports missing registrations %q: %s\n%s", prefix, vf.Section, vf.MissingRegistration, want, c.brief())
		}
		if !same(sortedCopy(vf.MissingSpecification), k.Superfluous()) {
			return kit.Failf("%sVALIDATE-SUPERFLUOUS category %q reports superfluous registrations %q: %s\n%s", prefix, vf.Section, vf.MissingSpecification, want, c.brief())
		}
		for _, n := range append(k.Missing(), k.Superfluous()...) {
			if !strings.Contains(verr.Error(), n) {
				return kit.Failf("%sVALIDATE-MESSAGE %q does not name %q: %s\n%s", prefix, verr.Error(), n, want, c.brief())
			}
		}
		return nil
	}
	if verr != nil {
		return kit.Failf("%sVALIDATE-FAILS although all five categories coincide: %v\n%s", prefix, verr, c.brief())
	}
	return nil
}

// Plan of the serving part: which requests are sent to which operation.
type Shot struct {
	Op          int
	ContentType string // "" : no body is sent
	Accept      string
}

// Shots lists each operation x each of its consumes x each of its produces. An operation that lacks a media
// type in a direction it uses is exercised with the JSON default when the API keeps its defaults and is left
// out otherwise (there is nothing that could have been registered for it).
func (c Case) Shots() (shots []Shot, skipped []int) {
	for i, op := range c.Ops {
		prods := c.effProduces(op)
		if len(prods) == 0 {
			if !c.JSONDefaults {
				skipped = append(skipped, i)
				continue
			}
			prods = []string{jsonMime}
		}
		cons := []string{""}
		if op.Body {
			cons = c.effConsumes(op)
			if len(cons) == 0 {
				if !c.JSONDefaults {
					skipped = append(skipped, i)
					continue
				}
				cons = []string{jsonMime}
			}
		}
		for _, ct := range cons {
			for _, acc := range prods {
				shots = append(shots, Shot{i, ct, acc})
			}
		}
		// a client that would rather have a type the operation does not produce and settles for one it does
		pref := jsonMime
		for _, p := range prods {
			if p == jsonMime {
				pref = "application/x-foreign"
			}
		}
		shots = append(shots, Shot{i, cons[0], pref + ", " + prods[0] + ";q=0.5"})
		if cons[0] != "" {
			// the media type of the payload spelled with capitals: media types are case-insensitive
			shots = append(shots, Shot{i, strings.ToUpper(cons[0][:1]) + cons[0][1:strings.IndexByte(cons[0], '/')+1] + strings.ToUpper(cons[0][strings.IndexByte(cons[0], '/')+1:]), prods[0]})
		}
	}
	return shots, skipped
}

func (c Case) requestPath(op Op) string {
	p := placeholder.ReplaceAllString(op.Path, "pv-$1")
	bp := c.BasePath
	if bp == "" {
		bp = "/"
	}
	return path.Join(bp, p)
}

// demanded lists the schemes whose authenticators must run for a request that every authenticator accepts:
// those of the first alternative that is not the anonymous one.
func demanded(s Sec) []string {
	for _, alt := range s.Alts {
		if len(alt) > 0 {
			return alt
		}
	}
	return nil
}

func (c Case) serve(doc *loads.Document, api *untyped.API, log *calls, early *middleware.Context) *kit.Violation {
	var h http.Handler
	if v := kit.Guard("NewContext/RoutesHandler", func() {
		if early != nil {
			h = early.RoutesHandler(nil)
			return
		}
		h = middleware.NewContext(doc, api, nil).RoutesHandler(nil)
	}); v != nil {
		return kit.Failf("%s\n%s", v.Msg, c.brief())
	}
	shots, _ := c.Shots()
	for _, s := range shots {
		op := c.Ops[s.Op]
		*log = calls{}
		var body io.Reader
		if s.ContentType != "" {
			body = strings.NewReader(`{"a":1}`)
		}
		req := httptest.NewRequest(strings.ToUpper(op.Method), "http://c19.test"+c.requestPath(op), body)
		if s.ContentType != "" {
			req.Header.Set("Content-Type", s.ContentType)
		}
		req.Header.Set("Accept", s.Accept)
		rec := httptest.NewRecorder()
		what := fmt.Sprintf("%s %s Content-Type=%q Accept=%q", req.Method, req.URL.Path, s.ContentType, s.Accept)
		if v := kit.Guard("serving "+what, func() { h.ServeHTTP(rec, req) }); v != nil {
			return kit.Failf("SERVE-PANIC validated API: %s\n%s", v.Msg, c.brief())
		}
		answer := fmt.Sprintf("%d %q", rec.Code, strings.TrimSpace(rec.Body.String()))
		switch {
		case rec.Code >= 500:
			return kit.Failf("SERVE-5XX validated API answered %s to %s\n%s", answer, what, c.brief())
		case rec.Code == http.StatusNotFound || rec.Code == http.StatusMethodNotAllowed:
			return kit.Failf("SERVE-NO-ROUTE validated API has no handler for a declared operation: %s to %s\n%s", answer, what, c.brief())
		case rec.Code != http.StatusOK:
			return kit.Failf("SERVE-STATUS validated API answered %s to the well-formed request %s (want 200)\n%s", answer, what, c.brief())
		}
		if !same(log.handler, []string{opKey(op.Method, op.Path)}) {
			return kit.Failf("SERVE-HANDLER %s ran handlers %q, want exactly the handler of %q\n%s", what, log.handler, opKey(op.Method, op.Path), c.brief())
		}
		for _, n := range demanded(c.effSec(op)) {
			ran := false
			for _, a := range log.auth {
				ran = ran || a == n
			}
			if !ran {
				return kit.Failf("SERVE-AUTH-SKIPPED %s: scheme %q of the requirement %q was not consulted (authenticators run: %q)\n%s", what, n, demanded(c.effSec(op)), log.auth, c.brief())
			}
		}
	}
	return nil
}
