// Package c11 decides property C11 (client bodies: the bytes sent are the payload, and what an
// authentication writer saw is what is sent) by building requests with client.Runtime.CreateHttpRequest from
// generated payload descriptions and decoding what comes out with the standard library.
package c11

import (
	"bytes"
	"encoding/xml"
	"fmt"
	"io"
	"mime"
	"mime/multipart"
	"net/http"
	"net/url"
	"os"
	"path/filepath"
	"sort"
	"strings"

	"github.com/go-openapi/runtime"
	"github.com/go-openapi/runtime/client"
	"github.com/go-openapi/strfmt"

	"verif/harness/kit"
)

// Case data ----------------------------------------------------------------------------------------

// Value describes a body value handed to SetBodyParam (not a reader).
type Value struct {
	Kind string            `json:"kind"` // str | bytes | map | list | doc | int | stringer | textm | binm | nilmap | nillist | nildoc
	S    kit.BStr          `json:"s,omitempty"`
	M    map[string]string `json:"m,omitempty"`
	L    []string          `json:"l,omitempty"`
	N    int64             `json:"n,omitempty"`
}

type doc struct {
	XMLName xml.Name `xml:"doc" json:"-" yaml:"-"`
	A       string   `xml:"a" json:"a" yaml:"a"`
	L       []string `xml:"l" json:"l" yaml:"l"`
	N       int64    `xml:"n,attr" json:"n" yaml:"n"`
}

type stringer struct{ s string }

func (s stringer) String() string { return "stringer:" + s.s }

type textM struct{ s string }

func (s textM) MarshalText() ([]byte, error) { return []byte("textm:" + s.s), nil }

type binM struct{ s string }

func (s binM) MarshalBinary() ([]byte, error) { return []byte("binm:" + s.s), nil }

// Build materialises the value.
func (v Value) Build() interface{} {
	switch v.Kind {
	case "str":
		return string(v.S)
	case "bytes":
		return []byte(v.S)
	case "map":
		m := map[string]string{}
		for k, x := range v.M {
			m[k] = x
		}
		return m
	case "list":
		return append([]string{}, v.L...)
	case "doc":
		return doc{A: string(v.S), L: v.L, N: v.N}
	case "int":
		return v.N
	case "stringer":
		return stringer{string(v.S)}
	case "textm":
		return textM{string(v.S)}
	case "binm":
		return binM{string(v.S)}
	case "nilmap": // typed nils are values: a producer encodes them (JSON: null) (r9)
		return map[string]string(nil)
	case "nillist":
		return []string(nil)
	case "nildoc":
		return (*doc)(nil)
	}
	return string(v.S)
}

// Blob is a reader payload.
type Blob struct {
	Data   Content `json:"data"`
	Script Script  `json:"script"`
	// Skip bytes of Data were consumed by the caller before the reader was handed over; the payload is the rest.
	Skip int `json:"skip,omitempty"`
}

// Field is one form field with its values (one SetFormParam call).
type Field struct {
	Name   kit.BStr   `json:"name"`
	Values []kit.BStr `json:"values"`
}

// File is one upload source.
type File struct {
	Name     kit.BStr `json:"name"`
	Declared string   `json:"declared,omitempty"` // "": the source has no ContentType() method
	Data     Content  `json:"data"`
	Script   Script   `json:"script"`
	// Source: "" a plain reader, "seeker" a reader that also implements io.Seeker, "osfile" a real *os.File, "named-osfile" a real *os.File wrapped by runtime.NamedReader under the declared name.
	// Skip bytes of Data were consumed by the caller before the source was handed over (a preamble, a resumed
	// upload): the content of the file is what is left in the source.
	Source string `json:"source,omitempty"`
	Skip   int    `json:"skip,omitempty"`
}

// FileField is one file field with its files (one SetFileParam call).
type FileField struct {
	Name  kit.BStr `json:"name"`
	Files []File   `json:"files"`
}

// Case is one request description.
type Case struct {
	Method    string      `json:"method"`
	PresetCT  string      `json:"preset_ct,omitempty"` // form payloads: Content-Type header parameter set by the parameter writer itself
	Overlap   bool        `json:"overlap,omitempty"`   // uploads: a second multipart request is built and sent while this one is half read
	Kind      string      `json:"kind"`                // nil | value | reader | readcloser | buffer (*bytes.Buffer payload) | bytesreader (*bytes.Reader payload) | seekreader | seekreadcloser (readers that implement io.Seeker) | form
	MediaType string      `json:"media_type"`          // the media type the operation chooses
	Route     string      `json:"route"`               // consumes | empty-then | default: how the choice reaches the runtime
	Value     *Value      `json:"value,omitempty"`
	Body      *Blob       `json:"body,omitempty"`
	Fields    []Field     `json:"fields,omitempty"`
	Files     []FileField `json:"files,omitempty"`
	Auth      int         `json:"auth"`               // -1: no authentication writer; else the number of GetBody calls
	AuthVia   string      `json:"auth_via,omitempty"` // op | default
}

const (
	mtMultipart  = "multipart/form-data"
	mtURLEncoded = "application/x-www-form-urlencoded"
	mtStampA     = "application/x-stamp-a"
	mtStampB     = "application/x-stamp-b"
)

// stamped producers make a wrong producer lookup visible.
func stampProducer(mt string) runtime.Producer {
	return runtime.ProducerFunc(func(w io.Writer, data interface{}) error {
		_, err := fmt.Fprintf(w, "[%s]%#v", mt, data)
		return err
	})
}

func (c Case) hasFiles() bool { return len(c.Files) > 0 }

// streaming reports whether the body reaches the request as a stream rather than as the runtime's buffer.
func (c Case) streaming() bool {
	switch c.Kind {
	case "reader", "readcloser", "buffer", "bytesreader", "osfile", "seekreader", "seekreadcloser":
		return true
	case "form":
		return c.hasFiles() || c.MediaType == mtMultipart
	}
	return false
}

// Check ---------------------------------------------------------------------------------------------

type sentPart struct {
	field, filename, ctype string
	isFile                 bool
	content                []byte
}

func clipB(b []byte) string {
	if len(b) > 120 {
		return fmt.Sprintf("%q…(%d bytes)", b[:120], len(b))
	}
	return fmt.Sprintf("%q", b)
}

// Check builds the request and compares what it carries with the payload description.
func Check(c Case) *kit.Violation {
	rt := client.New("example.test", "/base", []string{"http"})
	rt.Debug = false
	rt.Producers[mtStampA] = stampProducer(mtStampA)
	rt.Producers[mtStampB] = stampProducer(mtStampB)

	other := runtime.TextMime
	if c.MediaType == other {
		other = runtime.JSONMime
	}
	op := &runtime.ClientOperation{ID: "c11", Method: c.Method, PathPattern: "/up"}
	switch c.Route {
	case "default":
		rt.DefaultMediaType = c.MediaType
	case "empty-then":
		rt.DefaultMediaType = other
		op.ConsumesMediaTypes = []string{"", c.MediaType}
	default:
		rt.DefaultMediaType = other
		op.ConsumesMediaTypes = []string{c.MediaType}
	}

	// the payload
	var value interface{}
	var blob []byte
	var bodyStream *stream
	if c.Kind == "value" && c.Value != nil {
		value = c.Value.Build()
	}
	if (c.Kind == "reader" || c.Kind == "readcloser" || c.Kind == "buffer" || c.Kind == "bytesreader" || c.Kind == "osfile" || c.Kind == "seekreader" || c.Kind == "seekreadcloser") && c.Body != nil {
		full := c.Body.Data.Bytes()
		skip := c.Body.Skip
		if skip > len(full) {
			skip = len(full)
		}
		bodyStream = &stream{data: full, sc: c.Body.Script, off: skip}
		blob = full[skip:]
	}
	type wantFile struct {
		field, base, ctype string
		content            []byte
		src                *stream
	}
	var wantFiles []wantFile
	tmpDir := ""
	// a payload that is a real *os.File of which the caller has read the beginning already (r10)
	var bodyFile *os.File
	defer func() {
		if bodyFile != nil {
			_ = bodyFile.Close()
			_ = os.Remove(bodyFile.Name())
		}
	}()
	fileParams := make([][]runtime.NamedReadCloser, len(c.Files))
	for i, ff := range c.Files {
		for _, f := range ff.Files {
			content := f.Data.Bytes()
			skip := f.Skip
			if skip > len(content) {
				skip = len(content)
			}
			s := &stream{data: content, sc: f.Script, off: skip}
			nf := namedFile{s: s, name: string(f.Name)}
			content = content[skip:]
			ct := f.Declared
			if f.Source == "osfile" || f.Source == "named-osfile" {
				if tmpDir == "" {
					var err error
					if tmpDir, err = os.MkdirTemp("", "c11up"); err != nil {
						return kit.Failf("harness: %v", err)
					}
					defer os.RemoveAll(tmpDir)
				}
				of, err := os.CreateTemp(tmpDir, "up*"+filepath.Ext(string(f.Name)))
				if err != nil {
					return kit.Failf("harness: %v", err)
				}
				if _, err = of.Write(f.Data.Bytes()); err == nil {
					_, err = of.Seek(int64(skip), io.SeekStart)
				}
				if err != nil {
					return kit.Failf("harness: %v", err)
				}
				defer of.Close()
				n := len(content)
				if n > 512 {
					n = 512
				}
				if f.Source == "named-osfile" {
					// the file goes out under the name the caller declares for it, not under its name on disk
					fileParams[i] = append(fileParams[i], runtime.NamedReader(string(f.Name), of))
					wantFiles = append(wantFiles, wantFile{string(ff.Name), filepath.Base(string(f.Name)), http.DetectContentType(content[:n]), content, s})
					continue
				}
				fileParams[i] = append(fileParams[i], of)
				wantFiles = append(wantFiles, wantFile{string(ff.Name), filepath.Base(of.Name()), http.DetectContentType(content[:n]), content, s})
				continue
			}
			if f.Source == "seeker" {
				if ct == "" {
					fileParams[i] = append(fileParams[i], seekFile{nf})
					n := len(content)
					if n > 512 {
						n = 512
					}
					ct = http.DetectContentType(content[:n])
				} else {
					fileParams[i] = append(fileParams[i], typedSeekFile{seekFile{nf}, f.Declared})
				}
				wantFiles = append(wantFiles, wantFile{string(ff.Name), filepath.Base(string(f.Name)), ct, content, s})
				continue
			}
			if ct == "" {
				fileParams[i] = append(fileParams[i], nf)
				n := len(content)
				if n > 512 {
					n = 512
				}
				ct = http.DetectContentType(content[:n])
			} else {
				fileParams[i] = append(fileParams[i], typedFile{nf, f.Declared})
			}
			wantFiles = append(wantFiles, wantFile{string(ff.Name), filepath.Base(string(f.Name)), ct, content, s})
		}
	}
	wantFields := url.Values{}
	for _, f := range c.Fields {
		// one SetFormParam call per entry: a later call for the same field replaces what an earlier one set (r7)
		delete(wantFields, string(f.Name))
		for _, v := range f.Values {
			wantFields.Add(string(f.Name), string(v))
		}
	}

	op.Params = runtime.ClientRequestWriterFunc(func(req runtime.ClientRequest, _ strfmt.Registry) error {
		if c.PresetCT != "" && c.Kind == "form" {
			// a parameter writer may set a Content-Type header parameter of its own: the header that goes out still has to
			// describe the body that goes out
			if err := req.SetHeaderParam("Content-Type", c.PresetCT); err != nil {
				return err
			}
		}
		for _, f := range c.Fields {
			vals := make([]string, len(f.Values))
			for i, v := range f.Values {
				vals[i] = string(v)
			}
			if err := req.SetFormParam(string(f.Name), vals...); err != nil {
				return err
			}
		}
		for i, ff := range c.Files {
			if err := req.SetFileParam(string(ff.Name), fileParams[i]...); err != nil {
				return err
			}
		}
		switch c.Kind {
		case "value":
			return req.SetBodyParam(value)
		case "reader":
			return req.SetBodyParam(onlyReader{bodyStream})
		case "readcloser":
			return req.SetBodyParam(readCloser{bodyStream})
		case "seekreader":
			return req.SetBodyParam(seekReader{bodyStream})
		case "seekreadcloser":
			return req.SetBodyParam(seekReadCloser{seekReader{bodyStream}})
		case "buffer":
			// the concrete type the client itself uses for its own buffer: a caller's buffer must not be mistaken for it
			buf := bytes.NewBuffer(append([]byte(nil), bodyStream.data...))
			buf.Next(len(bodyStream.data) - len(blob))
			return req.SetBodyParam(buf)
		case "osfile":
			f, err := os.CreateTemp("", "c11body")
			if err != nil {
				return err
			}
			bodyFile = f
			if _, err := f.Write(bodyStream.data); err != nil {
				return err
			}
			if _, err := f.Seek(int64(len(bodyStream.data)-len(blob)), io.SeekStart); err != nil {
				return err
			}
			return req.SetBodyParam(f)
		case "bytesreader":
			rd := bytes.NewReader(bodyStream.data)
			_, _ = rd.Seek(int64(len(bodyStream.data)-len(blob)), io.SeekStart)
			return req.SetBodyParam(rd)
		}
		return nil
	})

	var seen [][]byte
	if c.Auth >= 0 {
		aw := runtime.ClientAuthInfoWriterFunc(func(req runtime.ClientRequest, _ strfmt.Registry) error {
			for i := 0; i < c.Auth; i++ {
				seen = append(seen, append([]byte{}, req.GetBody()...))
			}
			return nil
		})
		if c.AuthVia == "default" {
			rt.DefaultAuthentication = aw
		} else {
			op.AuthInfo = aw
		}
	}

	// what the producer writes on its own
	var alone []byte
	var aloneErr error
	if c.Kind == "value" {
		p, ok := rt.Producers[c.MediaType]
		if !ok {
			return kit.Failf("harness: no producer registered for %q", c.MediaType)
		}
		var b bytes.Buffer
		aloneErr = p.Produce(&b, c.Value.Build())
		alone = b.Bytes()
	}

	var req *http.Request
	var err error
	if v := kit.Guard("Runtime.CreateHttpRequest", func() { req, err = rt.CreateHttpRequest(op) }); v != nil {
		return v
	}
	if err != nil {
		if c.Kind == "value" && aloneErr != nil {
			return nil // the producer rejects this value: nothing is sent
		}
		return kit.Failf("BUILD-ERROR kind=%s media=%q: CreateHttpRequest failed on a payload it must send: %v", c.Kind, c.MediaType, err)
	}
	var sent []byte
	if req.Body != nil {
		var rerr error
		if v := kit.Guard("reading the request body", func() {
			if c.Overlap && c.hasFiles() {
				// another upload is built and sent while this one is under way (its first byte is out, the rest not yet
				// read): requests in flight at the same time must not see each other's file contents
				first := make([]byte, 1)
				n, _ := io.ReadFull(req.Body, first)
				sent = append(sent, first[:n]...)
				twin := &runtime.ClientOperation{ID: "c11-twin", Method: "POST", PathPattern: "/twin", ConsumesMediaTypes: []string{runtime.MultipartFormMime},
					Params: runtime.ClientRequestWriterFunc(func(req runtime.ClientRequest, _ strfmt.Registry) error {
						return req.SetFileParam("twin", namedFile{s: &stream{data: bytes.Repeat([]byte{0xEE}, 700)}, name: "twin.bin"},
							namedFile{s: &stream{data: bytes.Repeat([]byte("TWIN"), 100)}, name: "twin.txt"})
					})}
				// through a transport of its own: the one under test may carry an auth writer that records what it sees
				if treq, terr := client.New("example.test", "/base", []string{"http"}).CreateHttpRequest(twin); terr == nil && treq.Body != nil {
					_, _ = io.Copy(io.Discard, treq.Body)
					_ = treq.Body.Close()
				}
			}
			var rest []byte
			rest, rerr = io.ReadAll(req.Body)
			sent = append(sent, rest...)
			_ = req.Body.Close()
		}); v != nil {
			return v
		}
		if rerr != nil {
			return kit.Failf("BODY-READ kind=%s media=%q: reading the outgoing body failed after %d bytes: %v", c.Kind, c.MediaType, len(sent), rerr)
		}
	}
	if c.Kind == "value" && aloneErr != nil {
		return kit.Failf("PRODUCER-ERROR-SWALLOWED media=%q: the producer alone fails with %v, but a request with body %s was built", c.MediaType, aloneErr, clipB(sent))
	}

	// what auth saw is what is sent
	for i, s := range seen {
		if !bytes.Equal(s, sent) {
			return kit.Failf("GETBODY kind=%s media=%q: GetBody call #%d of %d returned %d bytes %s, the request sends %d bytes %s",
				c.Kind, c.MediaType, i+1, c.Auth, len(s), clipB(s), len(sent), clipB(sent))
		}
	}
	// net/http sends ContentLength bytes and replays GetBody on a redirect
	if req.ContentLength > 0 && req.ContentLength != int64(len(sent)) {
		return kit.Failf("CONTENT-LENGTH kind=%s: the request announces %d bytes and carries %d", c.Kind, req.ContentLength, len(sent))
	}
	if req.ContentLength == 0 && len(sent) > 0 && (req.Body == nil || req.Body == http.NoBody) {
		return kit.Failf("CONTENT-LENGTH kind=%s: no body announced, %d bytes carried", c.Kind, len(sent))
	}
	if req.GetBody != nil {
		rc, gerr := req.GetBody()
		if gerr != nil {
			return kit.Failf("REPLAY-BODY kind=%s: http.Request.GetBody fails: %v", c.Kind, gerr)
		}
		again, _ := io.ReadAll(rc)
		_ = rc.Close()
		if !bytes.Equal(again, sent) {
			return kit.Failf("REPLAY-BODY kind=%s: a replayed body has %d bytes %s, the first one %d bytes %s", c.Kind, len(again), clipB(again), len(sent), clipB(sent))
		}
	}

	rawCT := req.Header.Get("Content-Type")
	if n := len(req.Header.Values("Content-Type")); n > 1 {
		return kit.Failf("CONTENT-TYPE kind=%s: %d Content-Type values %q", c.Kind, n, req.Header.Values("Content-Type"))
	}
	var mt string
	var params map[string]string
	if rawCT != "" {
		var perr error
		mt, params, perr = mime.ParseMediaType(rawCT)
		if perr != nil {
			return kit.Failf("CONTENT-TYPE kind=%s media=%q: header %q does not parse: %v", c.Kind, c.MediaType, rawCT, perr)
		}
	}

	switch c.Kind {
	case "nil":
		if len(sent) != 0 {
			return kit.Failf("NIL-PAYLOAD: %d bytes sent %s", len(sent), clipB(sent))
		}
		// nothing is sent: an absent header or the chosen type are both descriptions of nothing (tolerance)
		if rawCT != "" && mt != c.MediaType {
			return kit.Failf("NIL-PAYLOAD: Content-Type %q with no payload (chosen %q)", rawCT, c.MediaType)
		}
	case "reader", "readcloser", "buffer", "bytesreader", "osfile", "seekreader", "seekreadcloser":
		if !bytes.Equal(sent, blob) {
			return kit.Failf("READER-PAYLOAD kind=%s script=%+v auth=%d: sent %d bytes %s, payload has %d bytes %s", c.Kind, c.Body.Script, c.Auth, len(sent), clipB(sent), len(blob), clipB(blob))
		}
		if mt != c.MediaType {
			return kit.Failf("CONTENT-TYPE kind=%s: header %q, chosen media type %q", c.Kind, rawCT, c.MediaType)
		}
	case "value":
		if !bytes.Equal(sent, alone) {
			return kit.Failf("VALUE-PAYLOAD media=%q value=%+v: sent %s, the producer registered for that type writes %s", c.MediaType, *c.Value, clipB(sent), clipB(alone))
		}
		if mt != c.MediaType {
			return kit.Failf("CONTENT-TYPE kind=value: header %q, chosen media type %q", rawCT, c.MediaType)
		}
	case "form":
		wantMultipart := c.hasFiles() || c.MediaType == mtMultipart
		wantURLEnc := !c.hasFiles() && c.MediaType == mtURLEncoded
		switch {
		case mt == mtMultipart:
			if wantURLEnc {
				return kit.Failf("FORM-KIND: fields with chosen type %q were sent as %q", c.MediaType, rawCT)
			}
		case mt == mtURLEncoded:
			if wantMultipart {
				return kit.Failf("FORM-KIND: files=%v chosen type %q, but the header says %q", c.hasFiles(), c.MediaType, rawCT)
			}
		default:
			return kit.Failf("FORM-HEADER-MISMATCH: form payload (fields=%d, file fields=%d, chosen %q) sent with Content-Type %q over the body %s: the header describes neither a URL-encoded nor a multipart form",
				len(c.Fields), len(c.Files), c.MediaType, rawCT, clipB(sent))
		}
		if mt == mtURLEncoded {
			got, perr := url.ParseQuery(string(sent))
			if perr != nil {
				return kit.Failf("URLENCODED: body %s does not parse: %v", clipB(sent), perr)
			}
			if v := sameValues(got, wantFields, true); v != "" {
				return kit.Failf("URLENCODED: body %s decodes to %q, fields are %q: %s", clipB(sent), got, wantFields, v)
			}
			break
		}
		boundary := params["boundary"]
		if boundary == "" {
			return kit.Failf("MULTIPART: header %q has no boundary", rawCT)
		}
		parts, perr := decodeMultipart(sent, boundary)
		if perr != nil {
			return kit.Failf("MULTIPART: body does not decode (%v): %s", perr, clipB(sent))
		}
		gotFields := url.Values{}
		var gotFiles []sentPart
		for _, p := range parts {
			if p.isFile {
				gotFiles = append(gotFiles, p)
			} else {
				gotFields.Add(p.field, string(p.content))
			}
		}
		if v := sameValues(gotFields, wantFields, false); v != "" {
			return kit.Failf("MULTIPART-FIELDS: parts carry %q, fields are %q: %s", gotFields, wantFields, v)
		}
		used := make([]bool, len(gotFiles))
		for _, w := range wantFiles {
			found := false
			var near *sentPart
			for i := range gotFiles {
				g := &gotFiles[i]
				if used[i] || g.field != w.field {
					continue
				}
				if g.filename == w.base && bytes.Equal(g.content, w.content) && g.ctype == w.ctype {
					used[i], found = true, true
					break
				}
				if near == nil {
					near = g
				}
			}
			if !found {
				if near != nil {
					return kit.Failf("MULTIPART-FILE: field %q file %q (%d bytes, want part Content-Type %q) has no matching part; closest part of that field: filename %q, %d bytes (content equal: %v), Content-Type %q",
						w.field, w.base, len(w.content), w.ctype, near.filename, len(near.content), bytes.Equal(near.content, w.content), near.ctype)
				}
				return kit.Failf("MULTIPART-FILE: field %q file %q (%d bytes) is missing; file parts sent: %s", w.field, w.base, len(w.content), describeParts(gotFiles))
			}
		}
		for i, g := range gotFiles {
			if !used[i] {
				return kit.Failf("MULTIPART-FILE: extra file part field %q filename %q (%d bytes); %d files were given", g.field, g.filename, len(g.content), len(wantFiles))
			}
		}
	default:
		return kit.Failf("harness: unknown kind %q", c.Kind)
	}
	return nil
}

func describeParts(ps []sentPart) string {
	var b strings.Builder
	for i, p := range ps {
		if i == 6 {
			fmt.Fprintf(&b, " …(%d more)", len(ps)-6)
			break
		}
		fmt.Fprintf(&b, " {field %q filename %q %d bytes %q}", p.field, p.filename, len(p.content), p.ctype)
	}
	return b.String()
}

// decodeMultipart reads the document with mime/multipart and parses every Content-Disposition with mime.
func decodeMultipart(doc []byte, boundary string) ([]sentPart, error) {
	mr := multipart.NewReader(bytes.NewReader(doc), boundary)
	var parts []sentPart
	for {
		p, err := mr.NextRawPart()
		if err == io.EOF {
			return parts, nil
		}
		if err != nil {
			return nil, err
		}
		disp, dparams, err := mime.ParseMediaType(p.Header.Get("Content-Disposition"))
		if err != nil {
			return nil, fmt.Errorf("Content-Disposition %q: %v", p.Header.Get("Content-Disposition"), err)
		}
		if disp != "form-data" {
			return nil, fmt.Errorf("Content-Disposition %q is not form-data", p.Header.Get("Content-Disposition"))
		}
		name, ok := dparams["name"]
		if !ok {
			return nil, fmt.Errorf("Content-Disposition %q has no name", p.Header.Get("Content-Disposition"))
		}
		content, err := io.ReadAll(p)
		if err != nil {
			return nil, err
		}
		sp := sentPart{field: name, content: content, ctype: p.Header.Get("Content-Type")}
		sp.filename, sp.isFile = dparams["filename"]
		parts = append(parts, sp)
	}
}

// sameValues compares two value sets; ordered demands the order of the values of one key, otherwise the values
// of a key are compared as multisets. Keys without values do not count.
func sameValues(got, want url.Values, ordered bool) string {
	keys := map[string]bool{}
	for k, v := range got {
		if len(v) > 0 {
			keys[k] = true
		}
	}
	for k, v := range want {
		if len(v) > 0 {
			keys[k] = true
		}
	}
	names := make([]string, 0, len(keys))
	for k := range keys {
		names = append(names, k)
	}
	sort.Strings(names)
	for _, k := range names {
		g, w := append([]string{}, got[k]...), append([]string{}, want[k]...)
		if !ordered {
			sort.Strings(g)
			sort.Strings(w)
		}
		if len(g) != len(w) {
			return fmt.Sprintf("key %q has %d value(s) %q, want %d %q", k, len(g), g, len(w), w)
		}
		for i := range g {
			if g[i] != w[i] {
				return fmt.Sprintf("key %q carries %q, want %q", k, g, w)
			}
		}
	}
	return ""
}
