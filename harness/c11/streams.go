package c11

import (
	"errors"
	"io"
	"os"

	"verif/harness/kit"
)

// Content describes a byte string compactly: Head, then a deterministic filler up to Len bytes (Head is cut
// when it is longer than Len), optionally with one control byte planted at index Ctl-1.
type Content struct {
	Head kit.BStr `json:"head,omitempty"`
	Len  int      `json:"len"`
	Fill string   `json:"fill,omitempty"` // text (default) | utf8 | bin | zero | space
	Ctl  int      `json:"ctl,omitempty"`  // index+1 of a single 0x01 byte (0: none)
}

const textFill = "The quick brown fox jumps over the lazy dog; 0123456789.\n"
const utf8Fill = "Zwölf Boxkämpfer jagen Viktor quer über den großen Sylter Deich – 日本語 €.\n"

// Bytes materialises the content.
func (c Content) Bytes() []byte {
	if c.Len < 0 {
		return nil
	}
	b := make([]byte, c.Len)
	for k := range b {
		switch c.Fill {
		case "bin":
			b[k] = byte(k*131 + 7)
		case "zero":
			b[k] = 0
		case "space":
			b[k] = " \t\n\r"[k%4]
		case "utf8":
			b[k] = utf8Fill[k%len(utf8Fill)]
		default:
			b[k] = textFill[k%len(textFill)]
		}
	}
	copy(b, c.Head)
	if c.Ctl > 0 && c.Ctl-1 < len(b) {
		b[c.Ctl-1] = 0x01
	}
	return b
}

// Script drives how a stream hands out its bytes: the first reads return at most Chunks[i] bytes (0: an empty,
// non-final read), later reads at most Rest bytes (0: as much as the caller asks for). With EOFWithData the
// read that delivers the last byte also returns io.EOF. The end of the stream is sticky.
type Script struct {
	Chunks      []int `json:"chunks,omitempty"`
	Rest        int   `json:"rest,omitempty"`
	EOFWithData bool  `json:"eof_with_data,omitempty"`
}

// pieces reports in how many non-empty reads a stream of n bytes is delivered to a caller with a large buffer.
func (s Script) pieces(n int) int {
	k, i := 0, 0
	for n > 0 {
		sz := s.Rest
		if i < len(s.Chunks) {
			sz = s.Chunks[i]
			i++
			if sz == 0 {
				continue
			}
		}
		if sz <= 0 || sz > n {
			sz = n
		}
		n -= sz
		k++
	}
	return k
}

// firstRead is the size of the first non-empty read of a stream of n bytes (caller buffer of 512 bytes).
func (s Script) firstRead(n int) int {
	for _, sz := range s.Chunks {
		if sz == 0 {
			continue
		}
		return min3(sz, n, 512)
	}
	if s.Rest > 0 {
		return min3(s.Rest, n, 512)
	}
	return min3(n, n, 512)
}

func min3(a, b, c int) int {
	if b < a {
		a = b
	}
	if c < a {
		a = c
	}
	return a
}

// stream is the scripted source. It deliberately has no Close method: the wrappers below decide which
// interfaces the code under test can see.
type stream struct {
	data   []byte
	off    int
	sc     Script
	i      int
	reads  int
	closed int
}

func (s *stream) Read(p []byte) (int, error) {
	s.reads++
	if s.closed > 0 {
		return 0, os.ErrClosed // like a file or a pipe: closing ends the source, whatever was left in it (r6)
	}
	if s.off >= len(s.data) {
		return 0, io.EOF
	}
	if len(p) == 0 {
		return 0, nil
	}
	n := s.sc.Rest
	if s.i < len(s.sc.Chunks) {
		n = s.sc.Chunks[s.i]
		s.i++
		if n == 0 {
			return 0, nil
		}
	}
	if n <= 0 || n > len(p) {
		n = len(p)
	}
	if rem := len(s.data) - s.off; n > rem {
		n = rem
	}
	copy(p, s.data[s.off:s.off+n])
	s.off += n
	if s.off == len(s.data) && s.sc.EOFWithData {
		return n, io.EOF
	}
	return n, nil
}

// onlyReader is an io.Reader that is not an io.Closer.
type onlyReader struct{ s *stream }

func (r onlyReader) Read(p []byte) (int, error) { return r.s.Read(p) }

// readCloser is an io.ReadCloser.
type readCloser struct{ s *stream }

func (r readCloser) Read(p []byte) (int, error) { return r.s.Read(p) }
func (r readCloser) Close() error               { r.s.closed++; return nil }

// namedFile is a runtime.NamedReadCloser without a declared content type.
type namedFile struct {
	s    *stream
	name string
}

func (f namedFile) Read(p []byte) (int, error) { return f.s.Read(p) }
func (f namedFile) Close() error               { f.s.closed++; return nil }
func (f namedFile) Name() string               { return f.name }

// seekReader is an io.Reader that can be repositioned; seekReadCloser is also an io.Closer.
type seekReader struct{ s *stream }

func (r seekReader) Read(p []byte) (int, error) { return r.s.Read(p) }
func (r seekReader) Seek(offset int64, whence int) (int64, error) {
	return seekFile{namedFile{s: r.s}}.Seek(offset, whence)
}

type seekReadCloser struct{ seekReader }

func (r seekReadCloser) Close() error { r.s.closed++; return nil }

// seekFile is a named source that can also be repositioned, as an *os.File can.
type seekFile struct{ namedFile }

func (f seekFile) Seek(offset int64, whence int) (int64, error) {
	s := f.s
	var base int64
	switch whence {
	case io.SeekStart:
	case io.SeekCurrent:
		base = int64(s.off)
	case io.SeekEnd:
		base = int64(len(s.data))
	default:
		return 0, errors.New("seek: invalid whence")
	}
	if base+offset < 0 {
		return 0, errors.New("seek: negative position")
	}
	s.off = int(base + offset)
	if s.off > len(s.data) {
		s.off = len(s.data)
	}
	return int64(s.off), nil
}

type typedSeekFile struct {
	seekFile
	ct string
}

func (f typedSeekFile) ContentType() string { return f.ct }

// typedFile additionally declares its content type.
type typedFile struct {
	namedFile
	ct string
}

func (f typedFile) ContentType() string { return f.ct }
