package c11

import (
	"fmt"
	"net/http"
	"path/filepath"
	"sort"
	"strings"

	"pgregory.net/rapid"

	"verif/harness/kit"
)

// Alphabets ----------------------------------------------------------------------------------------

// heads are content prefixes that http.DetectContentType recognises (or deliberately does not).
var heads = []string{
	"", "hello world, plain text", "<html><body>", "  \n\t<!DOCTYPE HTML><html>", "<?xml version=\"1.0\"?><a/>",
	"\x89PNG\r\n\x1a\n", "\x89PNG\r\n\x1a", "%PDF-1.4\n", "%!PS-Adobe-3.0", "GIF89a", "GIF87a", "\xff\xd8\xff\xe0",
	"PK\x03\x04", "\x1f\x8b\x08", "Rar!\x1a\x07\x00", "\x00asm\x01", "\xef\xbb\xbfbom text", "\xfe\xff\x00t", "\xff\xfet\x00",
	"RIFF\x00\x00\x00\x00WEBPVP", "RIFF\x00\x00\x00\x00WAVE", "\x00\x00\x00\x18ftypmp42\x00\x00\x00\x00mp42isom", "OggS\x00", "BM", "{\"a\":1}",
	"\x00\x01\x02\x03", "\x1b[0m escape", "wOFF", "\x00\x00\x01\x00", "ID3", "fLaC", "MThd\x00\x00\x00\x06",
}

var specialLens = []int{0, 1, 2, 3, 4, 5, 7, 8, 9, 10, 11, 16, 100, 255, 256, 300, 500, 509, 510, 511, 511, 512, 512, 512, 513, 513, 514, 515, 600, 1000, 1023, 1024, 1025, 1100}

var fileNames = []string{
	"a.txt", "dir/sub/b.bin", `q"uote.txt`, `back\slash.txt`, `C:\dir\file.txt`, "ü.png", "日本語.txt", "sp ace.txt", "semi;colon",
	"trailing/", "/abs/path/x", "..", ".", "", "a/../b", `"`, `\`, `\"`, `a\\b`, "%22.txt", "=?utf-8?q?x?=", "name*=x", "a=b",
	"emoji😀.gif", "\xff\xfe.bin", `x"; filename="evil`, `dir/q"uote\x.txt`, "dir\\sub/ü\".txt", "/", "a//b", " lead", "trail ", "a,b", "<x>",
}

var fieldNames = []string{"a", "fld1", "file", "upload", `q"uote`, `back\slash`, "sp ace", "ü", "a[b]", "semi;colon", "x=y", "a&b", "", `\"`, "日本", "a%20b", "a+b", `n"; filename="x`}

var fieldValues = []string{"", "a", "x y", "a&b=c", "ü", "line1\r\nline2", "--boundary", "100%", "\r\n--", "+", "%2B", "\x00\xff bytes", "a;b", "\"quoted\"", "é=è&ç", "\n"}

var declaredTypes = []string{"image/png", "application/x-custom", "text/plain; charset=utf-8", "TEXT/Weird", `application/x; q="a b"`, "application/octet-stream", "text/plain"}

var nameRunes = []rune(`ab.Z09 "\/;=%*'()<>[]{}?@:,üß€日😀-_~+&#!$^|` + "`")

func genName(t *rapid.T, table []string, label string) string {
	if rapid.IntRange(0, 9).Draw(t, label+"mode") < 7 {
		return rapid.SampledFrom(table).Draw(t, label)
	}
	return rapid.StringOfN(rapid.SampledFrom(nameRunes), 0, 8, -1).Draw(t, label+"free")
}

func genLen(t *rapid.T, label string) int {
	if rapid.IntRange(0, 9).Draw(t, label+"mode") < 6 {
		return rapid.SampledFrom(specialLens).Draw(t, label)
	}
	return rapid.IntRange(0, 1100).Draw(t, label+"free")
}

func genContent(t *rapid.T) Content {
	c := Content{Len: genLen(t, "len")}
	c.Head = kit.BStr(rapid.SampledFrom(heads).Draw(t, "head"))
	c.Fill = rapid.SampledFrom([]string{"text", "text", "text", "utf8", "bin", "zero", "space"}).Draw(t, "fill")
	if rapid.IntRange(0, 5).Draw(t, "ctlmode") == 0 {
		c.Ctl = rapid.SampledFrom([]int{1, 2, 100, 510, 511, 512, 513, 513, 514, 600}).Draw(t, "ctl")
		if c.Len < c.Ctl && rapid.Bool().Draw(t, "ctlgrow") {
			c.Len = c.Ctl + rapid.IntRange(0, 3).Draw(t, "ctlpad")
		}
	}
	return c
}

func genScript(t *rapid.T) Script {
	var s Script
	switch rapid.IntRange(0, 7).Draw(t, "scriptmode") {
	case 0, 1: // one piece
	case 2: // a short first read
		s.Chunks = []int{rapid.SampledFrom([]int{1, 2, 3, 7, 8, 10, 100, 511, 512, 513}).Draw(t, "first")}
	case 3: // byte-wise or tiny pieces throughout
		s.Rest = rapid.SampledFrom([]int{1, 1, 2, 3, 7}).Draw(t, "rest")
	case 4: // medium pieces
		s.Rest = rapid.SampledFrom([]int{100, 255, 256, 511, 512, 513}).Draw(t, "rest")
	case 5: // explicit list incl. empty reads
		n := rapid.IntRange(1, 6).Draw(t, "nchunks")
		for i := 0; i < n; i++ {
			s.Chunks = append(s.Chunks, rapid.SampledFrom([]int{0, 0, 1, 2, 5, 10, 255, 256, 500, 511, 512}).Draw(t, "chunk"))
		}
		s.Rest = rapid.SampledFrom([]int{0, 1, 100, 4096}).Draw(t, "rest")
	case 6: // empty reads first
		s.Chunks = []int{0, 0, rapid.SampledFrom([]int{1, 10, 512}).Draw(t, "first")}
	case 7:
		s.Chunks = []int{rapid.IntRange(1, 600).Draw(t, "first"), rapid.IntRange(0, 600).Draw(t, "second")}
	}
	s.EOFWithData = rapid.IntRange(0, 3).Draw(t, "eofdata") == 0
	return s
}

func genFile(t *rapid.T) File {
	f := File{Name: kit.BStr(genName(t, fileNames, "fname")), Data: genContent(t), Script: genScript(t)}
	if rapid.IntRange(0, 3).Draw(t, "declared") == 0 {
		f.Declared = rapid.SampledFrom(declaredTypes).Draw(t, "ct")
	}
	f.Source = rapid.SampledFrom([]string{"", "", "", "", "seeker", "seeker", "osfile", "named-osfile"}).Draw(t, "source")
	if rapid.IntRange(0, 3).Draw(t, "partly-consumed") == 0 {
		f.Skip = rapid.SampledFrom([]int{1, 3, 16, 511, 512, 513, 700}).Draw(t, "skip")
	}
	return f
}

func genFields(t *rapid.T, min int) []Field {
	n := rapid.IntRange(min, 3).Draw(t, "nfields")
	seen := map[string]bool{}
	var out []Field
	for i := 0; i < n; i++ {
		name := genName(t, fieldNames, "fieldname")
		if seen[name] && rapid.Bool().Draw(t, "skip-repeated-field") {
			continue
		}
		seen[name] = true
		f := Field{Name: kit.BStr(name), Values: []kit.BStr{}}
		nv := rapid.SampledFrom([]int{1, 1, 1, 2, 3, 0}).Draw(t, "nvalues")
		for j := 0; j < nv; j++ {
			var v string
			if rapid.IntRange(0, 9).Draw(t, "valmode") < 7 {
				v = rapid.SampledFrom(fieldValues).Draw(t, "val")
			} else {
				v = string(rapid.SliceOfN(rapid.Byte(), 0, 12).Draw(t, "valbytes"))
			}
			f.Values = append(f.Values, kit.BStr(v))
		}
		out = append(out, f)
	}
	return out
}

func genFileFields(t *rapid.T, min int) []FileField {
	n := rapid.IntRange(min, 2).Draw(t, "nfilefields")
	seen := map[string]bool{}
	var out []FileField
	for i := 0; i < n; i++ {
		name := genName(t, fieldNames, "filefieldname")
		if seen[name] {
			continue
		}
		seen[name] = true
		ff := FileField{Name: kit.BStr(name), Files: []File{}}
		nf := rapid.SampledFrom([]int{1, 1, 1, 2, 3, 0}).Draw(t, "nfiles")
		for j := 0; j < nf; j++ {
			ff.Files = append(ff.Files, genFile(t))
		}
		out = append(out, ff)
	}
	return out
}

var safeStrings = []string{"", "a", "x y", "ü", "<tag>&amp;", "line\nbreak", "\"q\"", "日本", "- yaml: like", "{json}", "123", "true", "null"}

// compatible lists the value kinds a producer accepts.
var compatible = map[string][]string{
	"application/json":         {"str", "map", "list", "doc", "int", "nilmap", "nillist", "nildoc"},
	"application/xml":          {"doc", "str", "int", "list"},
	"application/x-yaml":       {"str", "map", "list", "doc", "int"},
	"text/plain":               {"str", "stringer", "textm", "doc", "list", "bytes"},
	"text/html":                {"str", "stringer", "textm"},
	"application/octet-stream": {"bytes", "str", "binm", "doc", "list"},
	mtStampA:                   {"str", "map", "list", "doc", "int", "bytes", "nilmap", "nillist"},
	mtStampB:                   {"str", "map", "list", "doc", "int", "bytes"},
}

var producerTypes = []string{"application/json", "application/xml", "application/x-yaml", "text/plain", "text/html", "application/octet-stream", mtStampA, mtStampB}

var allKinds = []string{"str", "bytes", "map", "list", "doc", "int", "stringer", "textm", "binm"}

func genValue(t *rapid.T, mt string) *Value {
	kinds := compatible[mt]
	if rapid.IntRange(0, 19).Draw(t, "anykind") == 0 {
		kinds = allKinds // sometimes a value the producer may reject
	}
	v := &Value{Kind: rapid.SampledFrom(kinds).Draw(t, "vkind")}
	switch v.Kind {
	case "str", "stringer", "textm", "binm":
		if rapid.Bool().Draw(t, "sraw") {
			v.S = kit.BStr(rapid.SliceOfN(rapid.Byte(), 0, 20).Draw(t, "sbytes"))
		} else {
			v.S = kit.BStr(rapid.SampledFrom(safeStrings).Draw(t, "s"))
		}
	case "bytes":
		v.S = kit.BStr(rapid.SliceOfN(rapid.Byte(), 0, 40).Draw(t, "sbytes"))
	case "map":
		v.M = map[string]string{}
		n := rapid.IntRange(0, 3).Draw(t, "nm")
		for i := 0; i < n; i++ {
			v.M[rapid.SampledFrom([]string{"k", "a b", "ü", "z", "0"}).Draw(t, "mk")] = rapid.SampledFrom(safeStrings).Draw(t, "mv")
		}
	case "list":
		v.L = rapid.SliceOfN(rapid.SampledFrom(safeStrings), 0, 3).Draw(t, "l")
	case "doc":
		v.S = kit.BStr(rapid.SampledFrom(safeStrings).Draw(t, "s"))
		v.L = rapid.SliceOfN(rapid.SampledFrom(safeStrings), 0, 3).Draw(t, "l")
		v.N = rapid.Int64Range(-5, 5).Draw(t, "n")
	case "int":
		v.N = rapid.Int64().Draw(t, "n")
	}
	return v
}

func genCommon(t *rapid.T, c *Case) {
	c.Method = rapid.SampledFrom([]string{"POST", "POST", "PUT", "PATCH", "DELETE", "GET"}).Draw(t, "method")
	c.Route = rapid.SampledFrom([]string{"consumes", "consumes", "empty-then", "default"}).Draw(t, "route")
	c.Auth = rapid.SampledFrom([]int{-1, 0, 1, 1, 3, 3}).Draw(t, "auth")
	if c.Auth >= 0 {
		c.AuthVia = rapid.SampledFrom([]string{"op", "op", "default"}).Draw(t, "authvia")
	}
}

// formMediaType draws the chosen media type of a form payload. Files together with an explicitly URL-encoded
// type are not generated (DESIGN.md section 6).
func formMediaType(t *rapid.T, files bool) string {
	if files {
		return rapid.SampledFrom([]string{mtMultipart, mtMultipart, mtMultipart, "application/json", "application/octet-stream", "text/plain"}).Draw(t, "formmt")
	}
	return rapid.SampledFrom(formFieldTypes).Draw(t, "formmt")
}

// formFieldTypes are the media types chosen for payloads that consist of form fields only: the two form types
// and, as the statement quantifies over media types, types that describe no form at all (the fields are then
// sent URL-encoded and the header has to say so - finding F18, repaired).
var formFieldTypes = []string{mtMultipart, mtMultipart, mtURLEncoded, mtURLEncoded, "application/json", "text/plain", "application/octet-stream"}

// Gen draws a case over all payload kinds.
func Gen(t *rapid.T) Case {
	var c Case
	genCommon(t, &c)
	switch rapid.IntRange(0, 11).Draw(t, "kind") {
	case 0:
		c.Kind = "nil"
		c.MediaType = rapid.SampledFrom(append([]string{mtMultipart, mtURLEncoded}, producerTypes...)).Draw(t, "mt")
	case 1, 2, 3:
		c.Kind = "value"
		c.MediaType = rapid.SampledFrom(producerTypes).Draw(t, "mt")
		c.Value = genValue(t, c.MediaType)
	case 4, 5:
		c.Kind = rapid.SampledFrom([]string{"reader", "reader", "buffer", "bytesreader", "seekreader", "osfile"}).Draw(t, "readerkind")
	case 6:
		c.Kind = rapid.SampledFrom([]string{"readcloser", "readcloser", "seekreadcloser"}).Draw(t, "closerkind")
	case 7, 8:
		c.Kind = "form"
		c.Fields = genFields(t, 1)
		c.MediaType = formMediaType(t, false)
	case 9:
		c.Kind = "form"
		c.Files = genFileFields(t, 1)
		c.MediaType = formMediaType(t, true)
	default:
		c.Kind = "form"
		c.Fields = genFields(t, 1)
		c.Files = genFileFields(t, 1)
		c.MediaType = formMediaType(t, true)
	}
	if c.Kind == "form" {
		c.Overlap = rapid.IntRange(0, 2).Draw(t, "overlap") == 0
		c.PresetCT = rapid.SampledFrom([]string{"", "", "", "application/json", "text/plain", "multipart/form-data", "application/x-www-form-urlencoded"}).Draw(t, "presetct")
	}
	if c.Kind == "reader" || c.Kind == "readcloser" || c.Kind == "buffer" || c.Kind == "bytesreader" || c.Kind == "osfile" || c.Kind == "seekreader" || c.Kind == "seekreadcloser" {
		c.MediaType = rapid.SampledFrom([]string{"application/octet-stream", "application/octet-stream", "application/json", "text/plain", mtStampA, mtMultipart, mtURLEncoded}).Draw(t, "mt")
		c.Body = &Blob{Data: genContent(t), Script: genScript(t)}
		if rapid.IntRange(0, 3).Draw(t, "partly-consumed") == 0 {
			c.Body.Skip = rapid.SampledFrom([]int{1, 3, 16, 512, 700}).Draw(t, "skip")
		}
	}
	return c
}

// GenUploads concentrates on multipart documents with files.
func GenUploads(t *rapid.T) Case {
	var c Case
	genCommon(t, &c)
	c.Kind = "form"
	if rapid.IntRange(0, 2).Draw(t, "withfields") == 0 {
		c.Fields = genFields(t, 1)
	}
	c.Files = genFileFields(t, 1)
	c.MediaType = formMediaType(t, true)
	c.Overlap = rapid.IntRange(0, 2).Draw(t, "overlap") == 0
	return c
}

// Sweep is a case of the "window" sub-check: one upload description whose content length is swept over every
// value in [From, To] (the whole range 0…1100 unless shrinking narrowed it).
type Sweep struct {
	From int  `json:"from"`
	To   int  `json:"to"`
	Base Case `json:"base"` // a form payload; the length of its first file is replaced by each swept value
}

// GenSweep draws the variant that is swept: content prefix and filler, delivery script, declared type or not,
// file name, companions (fields, a second file), auth writer.
func GenSweep(t *rapid.T) Sweep {
	var c Case
	genCommon(t, &c)
	c.Kind = "form"
	c.MediaType = formMediaType(t, true)
	f := genFile(t)
	if rapid.IntRange(0, 4).Draw(t, "keepdeclared") > 0 {
		f.Declared = "" // mostly sniffed: that is what depends on the length
	}
	ff := FileField{Name: kit.BStr(genName(t, fieldNames, "filefieldname")), Files: []File{f}}
	if rapid.IntRange(0, 3).Draw(t, "second") == 0 {
		ff.Files = append(ff.Files, genFile(t))
	}
	c.Files = []FileField{ff}
	if rapid.IntRange(0, 3).Draw(t, "withfields") == 0 {
		c.Fields = genFields(t, 1)
	}
	lo := rapid.IntRange(0, 1100).Draw(t, "from")
	hi := rapid.IntRange(lo, 1100).Draw(t, "to")
	if rapid.IntRange(0, 9).Draw(t, "full") > 0 {
		lo, hi = 0, 1100
	}
	return Sweep{From: lo, To: hi, Base: c}
}

func (s Sweep) at(n int) Case {
	c := s.Base
	c.Files = []FileField{{Name: s.Base.Files[0].Name, Files: append([]File{}, s.Base.Files[0].Files...)}}
	c.Files[0].Files[0].Data.Len = n
	return c
}

// CheckSweep checks the variant at every length of the range.
func CheckSweep(s Sweep) *kit.Violation {
	if len(s.Base.Files) == 0 || len(s.Base.Files[0].Files) == 0 {
		return kit.Failf("harness: sweep without a file")
	}
	for n := s.From; n <= s.To; n++ {
		if v := Check(s.at(n)); v != nil {
			return kit.Failf("at content length %d: %s", n, v.Msg)
		}
	}
	return nil
}

// ClassifySweep labels the variant; every sweep that reaches below 512 bytes is non-trivial.
func ClassifySweep(s Sweep) (bool, []string) {
	if len(s.Base.Files) == 0 || len(s.Base.Files[0].Files) == 0 {
		return false, nil
	}
	_, lab := Classify(s.at(513))
	out := []string{}
	for _, l := range lab {
		if !strings.HasPrefix(l, "file <") && !strings.HasPrefix(l, "file >") && !strings.HasPrefix(l, "file =") && l != "file empty" {
			out = append(out, l)
		}
	}
	if s.From == 0 && s.To == 1100 {
		out = append(out, "every length 0..1100")
	} else {
		out = append(out, "partial range")
	}
	sort.Strings(out)
	return s.From < 512, out
}

// Classify ------------------------------------------------------------------------------------------

func needsEscaping(s string) bool { return strings.ContainsAny(s, "\"\\") }

func nonASCII(s string) bool {
	for i := 0; i < len(s); i++ {
		if s[i] >= 0x80 {
			return true
		}
	}
	return false
}

// Classify implements the non-trivial rule of DESIGN.md C11: a file shorter than 512 bytes or delivered in at
// least two pieces, or a name that needs escaping, or GetBody called on a streaming body.
func Classify(c Case) (bool, []string) {
	lab := map[string]bool{}
	nt := false
	seenField := map[string]bool{}
	for _, f := range c.Fields {
		if seenField[string(f.Name)] {
			lab["a form field set by two SetFormParam calls"] = true
		}
		seenField[string(f.Name)] = true
	}
	lab["kind "+c.Kind] = true
	switch c.Kind {
	case "form":
		switch {
		case len(c.Fields) > 0 && len(c.Files) > 0:
			lab["form: fields and files"] = true
		case len(c.Files) > 0:
			lab["form: files only"] = true
		default:
			lab["form: fields only"] = true
		}
		switch {
		case c.hasFiles() || c.MediaType == mtMultipart:
			lab["wire multipart"] = true
		default:
			lab["wire urlencoded"] = true
		}
		if c.hasFiles() && c.MediaType != mtMultipart {
			lab["files with a non-form media type"] = true
		}
		if !c.hasFiles() && c.MediaType != mtMultipart && c.MediaType != mtURLEncoded {
			lab["fields with a non-form media type"] = true
		}
	case "value":
		lab["producer "+c.MediaType] = true
	}
	if c.Auth < 0 {
		lab["no auth writer"] = true
	} else {
		lab[fmt.Sprintf("auth GetBody x%d", c.Auth)] = true
		if c.AuthVia == "default" {
			lab["auth via DefaultAuthentication"] = true
		}
	}
	if c.Auth > 0 && c.streaming() {
		lab["GetBody on a streaming body"] = true
		nt = true
	}
	lab["route "+c.Route] = true
	script := func(sc Script, n int, what string) {
		p := sc.pieces(n)
		if p >= 2 {
			lab[what+" in >=2 pieces"] = true
		}
		if n > 0 && sc.firstRead(n) < 512 && sc.firstRead(n) < n {
			lab[what+" short first read"] = true
		}
		for _, k := range sc.Chunks {
			if k == 0 {
				lab[what+" with empty reads"] = true
				break
			}
		}
		if sc.EOFWithData {
			lab[what+" EOF with data"] = true
		}
	}
	if c.Body != nil {
		if c.Body.Skip > 0 {
			lab["reader partly consumed before hand-over ("+c.Kind+")"] = true
			if c.Auth > 0 {
				nt = true
			}
		}
		script(c.Body.Script, c.Body.Data.Len, "reader")
		if c.Body.Data.Len == 0 {
			lab["reader empty"] = true
		}
	}
	fieldSeen := map[string]bool{}
	for _, f := range c.Fields {
		fieldSeen[string(f.Name)] = true
		if needsEscaping(string(f.Name)) {
			lab["field name needs escaping"] = true
			if lab["wire multipart"] {
				nt = true
			}
		}
		switch {
		case len(f.Values) == 0:
			lab["field without values"] = true
		case len(f.Values) >= 2:
			lab["field with >=2 values"] = true
		}
	}
	nfiles := 0
	for _, ff := range c.Files {
		if fieldSeen[string(ff.Name)] {
			lab["field and file share a name"] = true
		}
		if needsEscaping(string(ff.Name)) && len(ff.Files) > 0 {
			lab["file field name needs escaping"] = true
			nt = true
		}
		switch {
		case len(ff.Files) == 0:
			lab["file field without files"] = true
		case len(ff.Files) >= 2:
			lab["file field with >=2 files"] = true
		}
		for _, f := range ff.Files {
			nfiles++
			n := f.Data.Len
			switch {
			case n == 0:
				lab["file empty"] = true
			case n < 512:
				lab["file <512"] = true
			case n == 512:
				lab["file =512"] = true
			default:
				lab["file >512"] = true
			}
			if n < 512 {
				nt = true
			}
			if f.Script.pieces(n) >= 2 {
				nt = true
			}
			script(f.Script, n, "file")
			name := string(f.Name)
			base := filepath.Base(name)
			if needsEscaping(base) {
				lab["file name needs escaping"] = true
				nt = true
			}
			if base != name {
				lab["file name with directory"] = true
			}
			if nonASCII(base) {
				lab["file name non-ASCII"] = true
			}
			if f.Source != "" {
				lab["file source: "+f.Source] = true
			}
			if f.Skip > 0 {
				lab["file source partly consumed before hand-over"] = true
				if f.Source != "" {
					nt = true
				}
			}
			if f.Declared != "" {
				lab["declared content type"] = true
			} else {
				content := f.Data.Bytes()
				if len(content) > 512 {
					content = content[:512]
				}
				ct := http.DetectContentType(content)
				switch {
				case strings.HasPrefix(ct, "text/plain"):
					lab["sniffed text/plain"] = true
				case ct == "application/octet-stream":
					lab["sniffed octet-stream"] = true
				case strings.HasPrefix(ct, "text/"):
					lab["sniffed other text"] = true
				default:
					lab["sniffed binary magic"] = true
				}
				if f.Data.Ctl > 0 && f.Data.Ctl <= n {
					if f.Data.Ctl <= 512 {
						lab["control byte inside the window"] = true
					} else {
						lab["control byte beyond the window"] = true
					}
				}
			}
		}
	}
	if nfiles >= 2 {
		lab["document with >=2 files"] = true
	}
	out := make([]string, 0, len(lab))
	for l := range lab {
		out = append(out, l)
	}
	sort.Strings(out)
	return nt, out
}

const rule = "payload kinds nil / value x registered producer (json, xml, yaml, text, html, bytes, two stamped producers) / io.Reader / io.ReadCloser / form fields / files / both, " +
	"1-3 fields and file fields with 0-3 values or files each, names from a hostile table (quotes, backslashes, directories, non-ASCII, injection attempts) or free runes without control characters, " +
	"contents of length 0..1100 (weighted to 0..11 and 509..515) with text/binary magic prefixes and fillers, delivered by scripted streams (short first read, byte-wise, empty reads, EOF with data), files with and without ContentType(), " +
	"media type conveyed by ConsumesMediaTypes or DefaultMediaType, auth writer absent or calling GetBody 0/1/3 times (operation-level or DefaultAuthentication); files with an explicitly URL-encoded type are not generated; " +
	"oracle = mime/multipart + mime.ParseMediaType decode (every field value and file exactly once, field name, filepath.Base name, content, declared or http.DetectContentType type), url.ParseQuery, reader bytes, the producer's own output, Content-Type header kind, GetBody copies == bytes sent, ContentLength/http GetBody consistency; " +
	"non-trivial = a file shorter than 512 bytes or delivered in >=2 pieces, or a field/file name needing escaping in a multipart document, or GetBody called on a streaming body; distinct by hash of the whole case"

// Props lists the generated checks of C11.
func Props() []kit.Runner {
	return []kit.Runner{
		kit.Prop[Case]{ID: "C11", Name: "bodies", Rule: rule, Quick: 40000, Thorough: 250000,
			Gen: Gen, Check: Check, Classify: Classify},
		kit.Prop[Case]{ID: "C11", Name: "uploads", Rule: rule + "; this sub-check draws multipart documents with files only", Quick: 25000, Thorough: 150000,
			Gen: GenUploads, Check: Check, Classify: Classify},
		kit.Prop[Sweep]{ID: "C11", Name: "window", Rule: rule + "; this sub-check draws one upload variant (content prefix and filler, delivery script, declared type or not, name, companions, auth writer) and checks it at every content length 0..1100 (1101 requests per case); non-trivial = the swept range reaches below 512 bytes", Quick: 60, Thorough: 300,
			Gen: GenSweep, Check: CheckSweep, Classify: ClassifySweep},
	}
}
