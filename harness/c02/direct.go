package c02

import (
	"context"
	"encoding/json"
	"errors"
	"fmt"
	"net/http"
	"net/http/httptest"
	"reflect"
	"strings"
	"sync"

	oerr "github.com/go-openapi/errors"
	"github.com/go-openapi/loads"
	"github.com/go-openapi/runtime"
	"github.com/go-openapi/runtime/middleware"
	"github.com/go-openapi/runtime/middleware/untyped"
	"github.com/go-openapi/runtime/security"

	"verif/harness/kit"
)

// DirectCase drives the exported authenticator types with explicit scheme orders.
type DirectCase struct {
	Alts  []Alt    `json:"alts"`
	Unreg []string `json:"unreg,omitempty"` // schemes without a registered authenticator
	Authz string   `json:"authz"`           // none | allow | deny | deny409 | deny401
	Vecs  []Vec    `json:"vecs"`
}

// callLog records what the scripted doubles saw during one call into the code under test.
type callLog struct {
	auth      []string      // scheme names, in call order
	badParams []string      // authenticator calls that did not receive a *security.ScopedAuthRequest
	badScopes []string      // authenticator calls whose RequiredScopes are not those declared for the scheme in any alternative
	authz     []interface{} // principals handed to the authorizer
}

// scripted is the authenticator double of one scheme: it reads its outcome from the request header X-Out-<name>.
type scripted struct {
	name  string
	log   *callLog
	legal [][]string // the scope lists declared for this scheme in the alternatives
}

func (a *scripted) Authenticate(params interface{}) (bool, interface{}, error) {
	a.log.auth = append(a.log.auth, a.name)
	sar, ok := params.(*security.ScopedAuthRequest)
	if !ok || sar == nil || sar.Request == nil {
		a.log.badParams = append(a.log.badParams, fmt.Sprintf("%s got %T", a.name, params))
		return false, nil, nil
	}
	if a.legal != nil {
		found := false
		for _, l := range a.legal {
			if reflect.DeepEqual(sortedSet(l), sortedSet(sar.RequiredScopes)) {
				found = true
			}
		}
		if !found {
			a.log.badScopes = append(a.log.badScopes, fmt.Sprintf("%s got %v", a.name, sar.RequiredScopes))
		}
	}
	o := sar.Request.Header.Get("X-Out-" + a.name)
	switch {
	case o == "ok":
		return true, principalOf(a.name), nil
	case o == "okempty":
		return true, "", nil
	case o == "okro":
		if admScope(sar.RequiredScopes) {
			return true, nil, oerr.New(http.StatusForbidden, rejMessage(a.name, o))
		}
		return true, principalOf(a.name), nil
	case o == "nil":
		return true, nil, nil
	case o == "plain":
		return true, nil, errors.New(rejMessage(a.name, o))
	case o == "plainctx":
		return true, nil, wrapped{rejMessage(a.name, o), context.Canceled}
	case o == "plaindl":
		return true, nil, wrapped{rejMessage(a.name, o), context.DeadlineExceeded}
	case strings.HasPrefix(o, "rej") && strings.HasSuffix(o, "p"):
		// a rejection that names who was rejected (a locked account): a rejection like any other (r9)
		return true, "rejected-" + a.name, oerr.New(int32(rejStatus(o)), rejMessage(a.name, o))
	case strings.HasPrefix(o, "rej"):
		return true, nil, oerr.New(int32(rejStatus(o)), rejMessage(a.name, o))
	}
	return false, nil, nil
}

// wrapped is a plain error that wraps one of the standard library's sentinel errors.
type wrapped struct {
	msg   string
	inner error
}

func (w wrapped) Error() string { return w.msg }
func (w wrapped) Unwrap() error { return w.inner }

func newAuthorizer(kind string, log *callLog) runtime.Authorizer {
	if kind == "none" {
		return nil
	}
	return runtime.AuthorizerFunc(func(_ *http.Request, p interface{}) error {
		log.authz = append(log.authz, p)
		switch kind {
		case "deny":
			return errors.New("authz-denied")
		case "deny409":
			return oerr.New(409, "authz-denied-409")
		case "deny401":
			return oerr.New(401, "authz-denied-401")
		case "deny400":
			return oerr.New(400, "authz-denied-400")
		case "deny599":
			return oerr.New(599, "authz-denied-599")
		case "denywrap":
			return fmt.Errorf("policy check: %w", oerr.New(409, "authz-denied-409"))
		}
		return nil
	})
}

func legalScopes(alts []Alt, scheme string) [][]string {
	var out [][]string
	for _, a := range alts {
		if !a.Anon && contains(a.Schemes, scheme) {
			out = append(out, a.Scopes[scheme])
		}
	}
	return out
}

var (
	anonOnce sync.Once
	anonRA   middleware.RouteAuthenticator
)

// anonymousAlternative returns the RouteAuthenticator value the router builds for the empty requirement `{}`.
// Its distinguishing field is unexported, so it is taken once from a route built from a one-operation spec.
func anonymousAlternative() middleware.RouteAuthenticator {
	anonOnce.Do(func() {
		raw := `{"swagger":"2.0","info":{"title":"t","version":"1"},"basePath":"/","paths":{"/p":{"get":{"operationId":"o","security":[{}],"responses":{"200":{"description":"ok"}}}}}}`
		doc, err := loads.Analyzed(json.RawMessage(raw), "")
		if err != nil {
			panic("harness: anonymous spec: " + err.Error())
		}
		api := untyped.NewAPI(doc)
		api.RegisterOperation("get", "/p", runtime.OperationHandlerFunc(func(interface{}) (interface{}, error) { return "ok", nil }))
		ctx := middleware.NewContext(doc, api, nil)
		_ = ctx.RoutesHandler(nil) // installs the default router
		route, ok := ctx.LookupRoute(httptest.NewRequest("GET", "/p", nil))
		if !ok || len(route.Authenticators) != 1 || !route.Authenticators[0].AllowsAnonymous() {
			panic("harness: the router did not build an anonymous alternative for `security: [{}]`")
		}
		anonRA = route.Authenticators[0]
	})
	return anonRA
}

// buildRAs builds the alternatives from exported fields with the given explicit orders.
func buildRAs(alts []Alt, orders [][]string, reg map[string]bool, log *callLog) middleware.RouteAuthenticators {
	ras := make(middleware.RouteAuthenticators, 0, len(alts))
	for i, a := range alts {
		if a.Anon {
			ras = append(ras, anonymousAlternative())
			continue
		}
		auths := map[string]runtime.Authenticator{}
		for _, s := range a.Schemes {
			if reg[s] {
				auths[s] = &scripted{name: s, log: log, legal: [][]string{a.Scopes[s]}}
			}
		}
		ras = append(ras, middleware.RouteAuthenticator{
			Authenticator: auths,
			Schemes:       append([]string(nil), orders[i]...),
			Scopes:        a.Scopes,
		})
	}
	return ras
}

func vecRequest(method, target string, vec Vec) *http.Request {
	req := httptest.NewRequest(method, target, nil)
	for _, s := range SchemeNames {
		if o, ok := vec[s]; ok {
			req.Header.Set("X-Out-"+s, o)
		}
	}
	return req
}

func errText(err error) string {
	if err == nil {
		return "<nil>"
	}
	if e, ok := err.(oerr.Error); ok {
		return fmt.Sprintf("%d %q", e.Code(), e.Error())
	}
	return fmt.Sprintf("plain %q", err.Error())
}

// isSchemeError reports whether err is the error the scripted authenticator of scheme s returns for outcome o.
func isSchemeError(err error, s, o string) bool {
	if err == nil || err.Error() != rejMessage(s, o) {
		return false
	}
	e, coded := err.(oerr.Error)
	if isPlain(o) {
		return !coded
	}
	return coded && int(e.Code()) == rejStatus(o)
}

// callsWithin reports the first authenticator call that lies outside the alternatives 0..last.
func callsWithin(alts []Alt, last int, calls []string) string {
	allowed := map[string]bool{}
	for i, a := range alts {
		if i > last {
			break
		}
		for _, s := range a.Schemes {
			allowed[s] = true
		}
	}
	for _, c := range calls {
		if !allowed[c] {
			return c
		}
	}
	return ""
}

func sameOrder(a, b []string) bool {
	if len(a) != len(b) {
		return false
	}
	for i := range a {
		if a[i] != b[i] {
			return false
		}
	}
	return true
}

var directCtx = middleware.NewRoutableContext(nil, nil, nil)

// CheckDirect runs every vector under every combination of scheme orders.
func CheckDirect(c DirectCase) *kit.Violation {
	reg := regMap(c.Unreg)
	for vi, vec := range c.Vecs {
		var v *kit.Violation
		orderCombos(c.Alts, func(orders [][]string) bool {
			v = checkDirectOne(c, reg, vec, orders)
			return v == nil
		})
		if v != nil {
			v.Msg = fmt.Sprintf("vector %d %v: %s", vi, vec, v.Msg)
			return v
		}
	}
	return nil
}

func describe(alts []Alt, orders [][]string, unreg []string) string {
	var parts []string
	for i, a := range alts {
		if a.Anon {
			parts = append(parts, "{}")
		} else {
			parts = append(parts, "{"+strings.Join(orders[i], " AND ")+"}")
		}
	}
	s := strings.Join(parts, " OR ")
	if len(unreg) > 0 {
		s += fmt.Sprintf(" (no authenticator registered for %v)", unreg)
	}
	return s
}

func checkDirectOne(c DirectCase, reg map[string]bool, vec Vec, orders [][]string) *kit.Violation {
	where := describe(c.Alts, orders, c.Unreg)

	// (1) every alternative on its own: the AND
	for i, a := range c.Alts {
		if a.Anon {
			continue
		}
		log := &callLog{}
		ras := buildRAs(c.Alts, orders, reg, log)
		ra := ras[i]
		route := &middleware.MatchedRoute{}
		var applies bool
		var usr interface{}
		var err error
		if v := kit.Guard("RouteAuthenticator.Authenticate", func() { applies, usr, err = ra.Authenticate(vecRequest("GET", "/", vec), route) }); v != nil {
			return v
		}
		want := evalAlt(c.Alts[i], orders[i], reg, vec)
		got := fmt.Sprintf("(applies=%v, principal=%v, err=%s)", applies, usr, errText(err))
		switch want.kind {
		case "na":
			if applies || usr != nil || err != nil {
				return kit.Failf("%s: alternative %d alone: a scheme found no credentials, so the alternative does not apply, but Authenticate returned %s", where, i, got)
			}
		case "err":
			if !isSchemeError(err, want.scheme, vec[want.scheme]) || usr != nil {
				return kit.Failf("%s: alternative %d alone: scheme %s rejects first, want its error and no principal, got %s", where, i, want.scheme, got)
			}
		case "nilp":
			if usr != nil || err != nil { // whether such an alternative "applies" is left open; it must not yield a principal
				return kit.Failf("%s: alternative %d alone: accepted without any principal, want no principal and no error, got %s", where, i, got)
			}
		case "admit":
			p, _ := usr.(string)
			okp := contains(want.princ, p) || (want.mixed && usr == nil)
			if !applies || err != nil || !okp {
				return kit.Failf("%s: alternative %d alone: every scheme accepts, want a principal of %v, got %s", where, i, want.princ, got)
			}
		}
		if len(log.badParams)+len(log.badScopes) > 0 {
			return kit.Failf("%s: alternative %d alone: authenticator arguments: %v %v", where, i, log.badParams, log.badScopes)
		}
	}

	want := evalOrdered(c.Alts, orders, reg, vec)

	// (2) the OR: RouteAuthenticators.Authenticate
	{
		log := &callLog{}
		ras := buildRAs(c.Alts, orders, reg, log)
		route := &middleware.MatchedRoute{}
		route.Authenticators = ras
		var applies bool
		var usr interface{}
		var err error
		if v := kit.Guard("RouteAuthenticators.Authenticate", func() { applies, usr, err = ras.Authenticate(vecRequest("GET", "/", vec), route) }); v != nil {
			return v
		}
		got := fmt.Sprintf("(applies=%v, principal=%v, err=%s), route.Authenticator=%s, authenticators called %v", applies, usr, errText(err), raText(route.Authenticator), log.auth)
		var reasons []string
		matched := false
		for _, o := range want {
			r := ""
			switch o.Kind {
			case "admit":
				p, _ := usr.(string)
				switch {
				case !applies || err != nil || !contains(o.Princ, p):
					r = "result is not an admission with a principal of the alternative"
				case route.Authenticator == nil || route.Authenticator.AllowsAnonymous() || !sameOrder(route.Authenticator.Schemes, orders[o.Alt]):
					r = "route.Authenticator is not the admitting alternative"
				case callsWithin(c.Alts, o.Alt, log.auth) != "":
					r = "authenticator " + callsWithin(c.Alts, o.Alt, log.auth) + " of a later alternative was called after the admitting one"
				}
			case "anon":
				switch {
				case !applies || err != nil || usr != nil:
					r = "result is not (true, nil, nil)"
				case route.Authenticator == nil || !route.Authenticator.AllowsAnonymous():
					r = "route.Authenticator is not the anonymous alternative"
				}
			case "refuse":
				switch {
				case !isSchemeError(err, o.Scheme, vec[o.Scheme]) || usr != nil:
					r = "result is not the error of " + o.Scheme
				case anonRecorded(c.Alts, route):
					r = "the anonymous alternative is recorded as the admitting one although a scheme rejected"
				}
			case "unauth":
				if applies || err != nil || usr != nil {
					r = "result is not (false, nil, nil)"
				}
			}
			if r == "" {
				matched = true
				break
			}
			reasons = append(reasons, o.String()+": "+r)
		}
		if !matched {
			return kit.Failf("%s: RouteAuthenticators.Authenticate returned %s; admissible: %s", where, got, strings.Join(reasons, "; "))
		}
		if len(log.badParams)+len(log.badScopes) > 0 {
			return kit.Failf("%s: authenticator arguments: %v %v", where, log.badParams, log.badScopes)
		}
	}

	// (3) Context.Authorize on a hand-built route: authorizer, 401/403, principal in the request context
	{
		log := &callLog{}
		ras := buildRAs(c.Alts, orders, reg, log)
		route := &middleware.MatchedRoute{}
		route.Authenticators = ras
		route.Authorizer = newAuthorizer(c.Authz, log)
		var usr interface{}
		var rq *http.Request
		var err error
		if v := kit.Guard("Context.Authorize", func() { usr, rq, err = directCtx.Authorize(vecRequest("GET", "/", vec), route) }); v != nil {
			return v
		}
		got := fmt.Sprintf("(principal=%v, request=%v, err=%s), authorizer saw %v, authenticators called %v", usr, rq != nil, errText(err), log.authz, log.auth)
		var reasons []string
		matched := false
		for _, o := range want {
			r := matchAuthorize(c.Alts, o, vec, c.Authz, usr, rq, err, log)
			if r == "" {
				matched = true
				break
			}
			reasons = append(reasons, o.String()+": "+r)
		}
		if !matched {
			return kit.Failf("%s, authorizer %s: Context.Authorize returned %s; admissible: %s", where, c.Authz, got, strings.Join(reasons, "; "))
		}
	}
	return nil
}

// anonRecorded: the route names the anonymous alternative as the admitting one. Judged only when the anonymous
// alternative is not the last of the list: the code records a pointer to its loop variable, which under the
// pre-1.22 loop semantics of the module holds the last element after the loop.
func anonRecorded(alts []Alt, route *middleware.MatchedRoute) bool {
	if len(alts) == 0 || alts[len(alts)-1].Anon {
		return false
	}
	return route.Authenticator != nil && route.Authenticator.AllowsAnonymous()
}

func raText(ra *middleware.RouteAuthenticator) string {
	if ra == nil {
		return "<nil>"
	}
	if ra.AllowsAnonymous() {
		return "{}"
	}
	return fmt.Sprintf("%v", ra.Schemes)
}

// matchAuthorize compares the result of Context.Authorize with one admissible outcome.
func matchAuthorize(alts []Alt, o Outcome, vec Vec, authz string, usr interface{}, rq *http.Request, err error, log *callLog) string {
	switch o.Kind {
	case "admit", "anon":
		if authz != "none" {
			if len(log.authz) != 1 {
				return fmt.Sprintf("the authorizer must be consulted exactly once, was %d times", len(log.authz))
			}
			p, isStr := log.authz[0].(string)
			if o.Kind == "anon" && log.authz[0] != nil || o.Kind == "admit" && (!isStr || !contains(o.Princ, p)) {
				return fmt.Sprintf("the authorizer was handed %v", log.authz[0])
			}
		}
		if o.Kind == "admit" {
			if bad := callsWithin(alts, o.Alt, log.auth); bad != "" {
				return "authenticator " + bad + " of a later alternative was called"
			}
		}
		if authzDenies(authz) {
			st, msg := authzExpect(authz)
			e, coded := err.(oerr.Error)
			if !coded || !authzAnswerOK(authz, int(e.Code()), e.Error()) || usr != nil {
				return fmt.Sprintf("want the authorizer's error %d %q", st, msg)
			}
			return ""
		}
		if err != nil || rq == nil {
			return "want admission (nil error, request with the principal in its context)"
		}
		if o.Kind == "anon" {
			if usr != nil || middleware.SecurityPrincipalFrom(rq) != nil {
				return "the anonymous alternative has no principal"
			}
			return ""
		}
		p, _ := usr.(string)
		if !contains(o.Princ, p) {
			return "returned principal is not one of the alternative"
		}
		if middleware.SecurityPrincipalFrom(rq) != usr {
			return fmt.Sprintf("SecurityPrincipalFrom = %v differs from the returned principal", middleware.SecurityPrincipalFrom(rq))
		}
		if authz != "none" && log.authz[0] != usr {
			return "the authorizer judged a different principal than the one returned"
		}
		return ""
	case "refuse":
		if len(log.authz) != 0 {
			return "the authorizer must not be consulted"
		}
		if !isSchemeError(err, o.Scheme, vec[o.Scheme]) || usr != nil || rq != nil {
			return "want the error of " + o.Scheme
		}
		return ""
	default:
		if len(log.authz) != 0 {
			return "the authorizer must not be consulted"
		}
		e, coded := err.(oerr.Error)
		if !coded || e.Code() != 401 || usr != nil || rq != nil {
			return "want a 401 error"
		}
		return ""
	}
}
