// Package c02 decides property C02 (security requirements are an OR of ANDs; nothing runs unless one is
// satisfied) by comparing go-openapi/runtime with an OR-of-ANDs evaluator written from the property statement.
//
// Three sub-checks share the model of this file:
//
//	direct  middleware.RouteAuthenticator / RouteAuthenticators / Context.Authorize on hand-built values with an
//	        explicit scheme order, every permutation inside every alternative
//	stack   spec -> untyped API -> Context.APIHandler (the order inside an alternative is the code's map order)
//	typed   spec -> own RoutableAPI -> generated-server style handler calling Context.Authorize and reading
//	        SecurityPrincipalFrom / SecurityScopesFrom, plus order-controlled Authorize on the looked-up route
package c02

import (
	"fmt"
	"sort"
	"strings"
)

// SchemeNames is the universe of security scheme names.
var SchemeNames = []string{"a", "b", "c", "d"}

// Alt is one requirement alternative: the empty (anonymous) one, or a set of scheme names with scopes.
type Alt struct {
	// EmptyName: the requirement object also carries an entry under the empty name ({"": [], "a": []}): a scheme
	// nobody defined or registered, skipped like any other such scheme (it does not make the alternative anonymous)
	EmptyName bool                `json:"empty_name,omitempty"`
	Anon      bool                `json:"anon,omitempty"`
	Schemes   []string            `json:"schemes,omitempty"` // a set, kept sorted
	Scopes    map[string][]string `json:"scopes,omitempty"`
}

// Vec is the outcome of each scheme for one request: "na" (no credentials found), "ok" (accepted, principal
// "P-<scheme>"), "nil" (accepted with a nil principal), "rej<status>" (rejected with an error that carries that
// status), "plain" (rejected with a plain error) or "okro" (accepted like "ok" unless the scopes required of the
// scheme name an "adm…" scope: then rejected with 403).
type Vec map[string]string

func isReject(o string) bool { return isPlain(o) || strings.HasPrefix(o, "rej") }

// isPlain: rejected with an error that carries no status. "plainctx" and "plaindl" are such errors that wrap the
// standard library's context.Canceled / context.DeadlineExceeded (a credentials backend that timed out): a
// rejection like any other.
func isPlain(o string) bool { return o == "plain" || o == "plainctx" || o == "plaindl" }

// rejStatus is the status the rejecting scheme's error must be answered with.
func rejStatus(o string) int {
	if isPlain(o) {
		return 500
	}
	if o == "okro" {
		return 403
	}
	n := 0
	fmt.Sscanf(o, "rej%d", &n)
	return n
}

func rejMessage(scheme, o string) string {
	if isPlain(o) {
		return "plain-" + scheme
	}
	return "rej-" + scheme
}

// admScope reports whether a required scope list names an "adm…" scope.
func admScope(scopes []string) bool {
	for _, sc := range scopes {
		if strings.HasPrefix(sc, "adm") {
			return true
		}
	}
	return false
}

func principalOf(scheme string) string { return "P-" + scheme }

// altResult is what one alternative yields under one evaluation order of its schemes.
type altResult struct {
	kind   string   // "na" | "err" | "nilp" | "admit"
	scheme string   // err: the rejecting scheme
	princ  []string // admit: the non-nil principals the schemes yielded (any of them may be the one kept)
	mixed  bool     // admit: some scheme accepted with a nil principal next to a non-nil one (tolerance a)
}

func (r altResult) key() string {
	return fmt.Sprintf("%s|%s|%s|%v", r.kind, r.scheme, strings.Join(r.princ, ","), r.mixed)
}

// evalAlt evaluates the AND of one alternative in the given order. Schemes without a registered authenticator
// are skipped (tolerance b); the first scheme that finds no credentials makes the alternative not applicable,
// the first one that rejects makes it fail with that scheme's error.
func evalAlt(a Alt, order []string, reg map[string]bool, vec Vec) altResult {
	var princ []string
	sawNil, any := false, false
	for _, s := range order {
		if !reg[s] {
			continue
		}
		any = true
		o := vec[s]
		if o == "okro" {
			// a credential that is good for everything but the "adm…" scopes: what the scheme answers depends on the scopes
			// this alternative requires of it
			if admScope(a.Scopes[s]) {
				return altResult{kind: "err", scheme: s}
			}
			o = "ok"
		}
		switch {
		case o == "na":
			return altResult{kind: "na"}
		case isReject(o):
			return altResult{kind: "err", scheme: s}
		case o == "ok":
			princ = append(princ, principalOf(s))
		case o == "okempty":
			// accepted with a principal that is the zero value of its type (the empty user name): a principal like any other
			princ = append(princ, "")
		case o == "nil":
			sawNil = true
		default:
			panic("harness: unknown outcome " + o)
		}
	}
	if !any || len(princ) == 0 {
		return altResult{kind: "nilp"}
	}
	sort.Strings(princ)
	return altResult{kind: "admit", princ: princ, mixed: sawNil}
}

// Outcome is one admissible end state of the authentication stage.
type Outcome struct {
	Kind   string   // "admit" | "anon" | "refuse" | "unauth"
	Alt    int      // admit/anon: index of the admitting alternative
	Princ  []string // admit: admissible principals
	Scheme string   // refuse: the scheme whose error is reported
}

func (o Outcome) key() string {
	return fmt.Sprintf("%s|%d|%s|%s", o.Kind, o.Alt, strings.Join(o.Princ, ","), o.Scheme)
}

func (o Outcome) String() string {
	switch o.Kind {
	case "admit":
		return fmt.Sprintf("admit(alt %d, principal in %v)", o.Alt, o.Princ)
	case "anon":
		return fmt.Sprintf("anonymous(alt %d)", o.Alt)
	case "refuse":
		return "refuse(error of " + o.Scheme + ")"
	}
	return "refuse(401)"
}

func permutations(xs []string) [][]string {
	if len(xs) <= 1 {
		return [][]string{append([]string(nil), xs...)}
	}
	var out [][]string
	for i := range xs {
		rest := append(append([]string(nil), xs[:i]...), xs[i+1:]...)
		for _, p := range permutations(rest) {
			out = append(out, append([]string{xs[i]}, p...))
		}
	}
	return out
}

// combine is the OR over the alternatives in list order, given for every alternative the set of results it can
// yield (one element when the order is fixed, several when it is the code's own map order). The first admitting
// alternative stops the search; the anonymous alternative admits only when nothing was rejected; otherwise the
// error of any rejecting scheme, else 401.
func combine(alts []Alt, perAlt [][]altResult) []Outcome {
	seen := map[string]bool{}
	var out []Outcome
	add := func(o Outcome) {
		if !seen[o.key()] {
			seen[o.key()] = true
			out = append(out, o)
		}
	}
	var walk func(i int, errs []string, anon int)
	walk = func(i int, errs []string, anon int) {
		if i == len(alts) {
			switch {
			case anon >= 0 && len(errs) == 0:
				add(Outcome{Kind: "anon", Alt: anon})
			case len(errs) > 0:
				for _, s := range errs { // tolerance c: any rejecting scheme's error
					add(Outcome{Kind: "refuse", Scheme: s})
				}
			default:
				add(Outcome{Kind: "unauth"})
			}
			return
		}
		if alts[i].Anon {
			walk(i+1, errs, i)
			return
		}
		for _, r := range perAlt[i] {
			switch r.kind {
			case "na", "nilp":
				walk(i+1, errs, anon)
			case "err":
				walk(i+1, append(append([]string(nil), errs...), r.scheme), anon)
			case "admit":
				add(Outcome{Kind: "admit", Alt: i, Princ: r.princ})
				if r.mixed { // tolerance a: the nil principal may be the one kept
					walk(i+1, errs, anon)
				}
			}
		}
	}
	walk(0, nil, -1)
	sort.Slice(out, func(i, j int) bool { return out[i].key() < out[j].key() })
	return out
}

// evalOrdered evaluates the structure with an explicit order for every alternative.
func evalOrdered(alts []Alt, orders [][]string, reg map[string]bool, vec Vec) []Outcome {
	per := make([][]altResult, len(alts))
	for i, a := range alts {
		if a.Anon {
			continue
		}
		per[i] = []altResult{evalAlt(a, orders[i], reg, vec)}
	}
	return combine(alts, per)
}

// evalAnyOrder evaluates the structure over the set of all evaluation orders inside every alternative.
func evalAnyOrder(alts []Alt, reg map[string]bool, vec Vec) []Outcome {
	per := make([][]altResult, len(alts))
	for i, a := range alts {
		if a.Anon {
			continue
		}
		seen := map[string]bool{}
		for _, p := range permutations(a.Schemes) {
			r := evalAlt(a, p, reg, vec)
			if !seen[r.key()] {
				seen[r.key()] = true
				per[i] = append(per[i], r)
			}
		}
	}
	return combine(alts, per)
}

// orderCombos enumerates every combination of per-alternative orders.
func orderCombos(alts []Alt, yield func(orders [][]string) bool) {
	choices := make([][][]string, len(alts))
	for i, a := range alts {
		if a.Anon {
			choices[i] = [][]string{nil}
		} else {
			choices[i] = permutations(a.Schemes)
		}
	}
	cur := make([][]string, len(alts))
	var rec func(i int) bool
	rec = func(i int) bool {
		if i == len(alts) {
			return yield(append([][]string(nil), cur...))
		}
		for _, p := range choices[i] {
			cur[i] = p
			if !rec(i + 1) {
				return false
			}
		}
		return true
	}
	rec(0)
}

// scopesOf is the union of the scopes of an alternative.
func scopesOf(a Alt) []string {
	set := map[string]bool{}
	for _, s := range a.Schemes {
		for _, sc := range a.Scopes[s] {
			set[sc] = true
		}
	}
	out := make([]string, 0, len(set))
	for s := range set {
		out = append(out, s)
	}
	sort.Strings(out)
	return out
}

func sortedSet(in []string) []string {
	set := map[string]bool{}
	for _, s := range in {
		set[s] = true
	}
	out := make([]string, 0, len(set))
	for s := range set {
		out = append(out, s)
	}
	sort.Strings(out)
	return out
}

func regMap(unreg []string) map[string]bool {
	reg := map[string]bool{}
	for _, s := range SchemeNames {
		reg[s] = true
	}
	for _, s := range unreg {
		reg[s] = false
	}
	return reg
}

func contains(xs []string, x string) bool {
	for _, y := range xs {
		if x == y {
			return true
		}
	}
	return false
}

// authzExpect is the answer a denying authorizer must produce: 403 unless its error carries a status.
func authzExpect(authz string) (status int, msg string) {
	switch authz {
	case "deny":
		return 403, "authz-denied"
	case "deny409":
		return 409, "authz-denied-409"
	case "deny401":
		return 401, "authz-denied-401"
	case "deny400":
		return 400, "authz-denied-400" // the ends of the range a status can take (r10)
	case "deny599":
		return 599, "authz-denied-599"
	case "denywrap":
		// an error that wraps one carrying 409: the answer is 403 (the wrapper carries no status itself) or the wrapped
		// status; what it says is not fixed
		return 403, "*"
	}
	return 0, ""
}

// authzAnswerOK: the refusal answered for a denying authorizer.
func authzAnswerOK(authz string, status int, msg string) bool {
	st, want := authzExpect(authz)
	if authz == "denywrap" {
		return status == 403 || status == 409
	}
	return status == st && msg == want
}

func authzDenies(authz string) bool { return strings.HasPrefix(authz, "deny") }

// vecLabels classifies one (structure, vector, authorizer) triple; it implements the non-trivial rule.
func vecLabels(alts []Alt, reg map[string]bool, vec Vec, authz string) (nontrivial bool, labels []string) {
	outs := evalAnyOrder(alts, reg, vec)
	multi, and2, anon := len(alts) >= 2, false, false
	used := map[string]bool{}
	noneRegistered := false
	for _, a := range alts {
		if a.Anon {
			anon = true
			continue
		}
		if len(a.Schemes) >= 2 {
			and2 = true
		}
		nreg := 0
		for _, s := range a.Schemes {
			used[s] = true
			if reg[s] {
				nreg++
			}
		}
		if nreg == 0 {
			noneRegistered = true
		}
	}
	allOK, allNA, anyRej, anyNil, anyUnreg := true, true, false, false, false
	for s := range used {
		if !reg[s] {
			anyUnreg = true
			continue
		}
		o := vec[s]
		if o != "ok" {
			allOK = false
		}
		if o != "na" {
			allNA = false
		}
		if isReject(o) {
			anyRej = true
		}
		if o == "nil" {
			anyNil = true
		}
	}
	kinds := map[string]bool{}
	mixed := false
	for _, o := range outs {
		kinds[o.Kind] = true
	}
	for _, a := range alts {
		if a.Anon || len(a.Schemes) < 2 {
			continue
		}
		r := evalAlt(a, a.Schemes, reg, vec)
		if r.kind == "admit" && r.mixed {
			mixed = true
		}
	}
	if multi {
		labels = append(labels, "alts>=2")
	}
	if and2 {
		labels = append(labels, "and>=2")
	}
	if anon {
		labels = append(labels, "anon-present")
	}
	if anon && anyRej {
		labels = append(labels, "anon+rejecting-scheme")
	}
	if anon && kinds["refuse"] {
		labels = append(labels, "anon-defeated-by-reject")
	}
	if anyNil {
		labels = append(labels, "nil-principal")
	}
	if mixed {
		labels = append(labels, "and-mixed-nil/non-nil")
	}
	if anyUnreg {
		labels = append(labels, "unregistered-scheme")
	}
	if noneRegistered {
		labels = append(labels, "alt-without-registered-scheme")
	}
	if len(outs) > 1 {
		labels = append(labels, "order-sensitive")
	}
	for _, k := range []string{"admit", "anon", "refuse", "unauth"} {
		if kinds[k] {
			labels = append(labels, "expect:"+k)
		}
	}
	for _, o := range outs {
		if o.Kind == "admit" && o.Alt > 0 {
			labels = append(labels, "admit-by-later-alt")
			break
		}
	}
	labels = append(labels, "authz:"+authz)
	if authzDenies(authz) && (kinds["admit"] || kinds["anon"]) {
		labels = append(labels, "authz-denies-admitted")
	}
	nontrivial = ((multi || and2) && !allOK && !allNA) || (anon && anyRej) || authzDenies(authz)
	return nontrivial, labels
}
