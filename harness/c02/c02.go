package c02

import (
	"fmt"
	"sort"

	"pgregory.net/rapid"

	"verif/harness/kit"
)

var outcomes = []string{"na", "na", "na", "ok", "ok", "ok", "ok", "nil", "rej401", "rej403", "rej418", "rej503", "plain", "plainctx", "plaindl", "okro", "okro", "okempty", "rej423p"}

var authzKinds = []string{"none", "none", "allow", "allow", "deny", "deny409", "deny401", "denywrap", "deny400", "deny599"}

func genAlts(t *rapid.T, maxAlts int) []Alt {
	n := rapid.IntRange(1, maxAlts).Draw(t, "alternatives")
	alts := make([]Alt, 0, n)
	for i := 0; i < n; i++ {
		if rapid.IntRange(0, 4).Draw(t, "anonymous") == 4 {
			alts = append(alts, Alt{Anon: true})
			continue
		}
		k := rapid.SampledFrom([]int{1, 1, 2, 2, 3}).Draw(t, "schemes")
		names := rapid.Permutation(SchemeNames).Draw(t, "names")[:k]
		names = append([]string(nil), names...)
		sort.Strings(names)
		a := Alt{Schemes: names, Scopes: map[string][]string{}}
		for _, s := range names {
			ns := rapid.IntRange(0, 2).Draw(t, "scopes")
			sc := []string{}
			for j := 0; j < ns; j++ {
				// a scope is either private to (alternative, scheme) or shared between alternatives
				switch k := rapid.IntRange(0, 5).Draw(t, "shared"); {
				case k == 0:
					sc = append(sc, fmt.Sprintf("shared%d", j))
				case k == 1:
					sc = append(sc, fmt.Sprintf("adm%d", j)) // the scope a read-only credential ("okro") is refused for
				default:
					sc = append(sc, fmt.Sprintf("s%d%s%d", i, s, j))
				}
			}
			a.Scopes[s] = sc
		}
		alts = append(alts, a)
	}
	return alts
}

func genSubset(t *rapid.T, label string, oneIn int) []string {
	var out []string
	for _, s := range SchemeNames {
		if rapid.IntRange(0, oneIn-1).Draw(t, label+"-"+s) == oneIn-1 {
			out = append(out, s)
		}
	}
	return out
}

func genVec(t *rapid.T, alts []Alt) Vec {
	v := Vec{}
	for _, s := range SchemeNames {
		v[s] = rapid.SampledFrom(outcomes).Draw(t, "outcome-"+s)
	}
	// aim at the narrow classes now and then: a fully accepting alternative, or one rejecting scheme next to
	// schemes that find nothing (the situation the anonymous alternative is about)
	switch rapid.IntRange(0, 7).Draw(t, "aim") {
	case 3:
		a := alts[rapid.IntRange(0, len(alts)-1).Draw(t, "aim-alt")]
		for _, s := range a.Schemes {
			v[s] = "ok"
		}
	case 1:
		for _, s := range SchemeNames {
			v[s] = "na"
		}
		v[rapid.SampledFrom(SchemeNames).Draw(t, "aim-rej")] = rapid.SampledFrom([]string{"rej401", "rej418", "plain", "plainctx", "plaindl", "rej423p"}).Draw(t, "aim-rej-kind")
	case 2:
		a := alts[rapid.IntRange(0, len(alts)-1).Draw(t, "aim-alt")]
		for _, s := range a.Schemes {
			v[s] = rapid.SampledFrom([]string{"ok", "nil"}).Draw(t, "aim-ok-nil")
		}
	}
	return v
}

// GenDirect draws a structure, the registrations, the authorizer and 1-4 outcome vectors.
func GenDirect(t *rapid.T) DirectCase {
	c := DirectCase{Alts: genAlts(t, 4)}
	c.Unreg = genSubset(t, "unregistered", 10)
	c.Authz = rapid.SampledFrom(authzKinds).Draw(t, "authorizer")
	c.Vecs = rapid.SliceOfN(rapid.Custom(func(t *rapid.T) Vec { return genVec(t, c.Alts) }), 1, 4).Draw(t, "vectors")
	return c
}

func ClassifyDirect(c DirectCase) (bool, []string) {
	reg := regMap(c.Unreg)
	nt := false
	var labels []string
	for _, v := range c.Vecs {
		n, l := vecLabels(c.Alts, reg, v, c.Authz)
		nt = nt || n
		labels = append(labels, l...)
		if n {
			labels = append(labels, "nontrivial-vector")
		}
	}
	combos := 0
	orderCombos(c.Alts, func([][]string) bool { combos++; return true })
	switch {
	case combos == 1:
		labels = append(labels, "orders:1")
	case combos <= 6:
		labels = append(labels, "orders:2-6")
	default:
		labels = append(labels, "orders:>6")
	}
	return nt, labels
}

// EnumerateDirect is the finite sweep of the thorough tier: every structure of 1-3 alternatives drawn from
// {}, {a}, {b}, {c}, {a,b}, {a,c}, {b,c} x every outcome vector over five outcome kinds for a, b, c x
// authorizer absent / denying, each under every combination of scheme orders.
func EnumerateDirect(yield func(DirectCase) bool) {
	mk := func(names ...string) Alt {
		a := Alt{Schemes: names, Scopes: map[string][]string{}}
		for _, n := range names {
			a.Scopes[n] = []string{"s" + n}
		}
		return a
	}
	options := []Alt{{Anon: true}, mk("a"), mk("b"), mk("c"), mk("a", "b"), mk("a", "c"), mk("b", "c")}
	kinds := []string{"na", "ok", "nil", "rej418", "plain"}
	var vecs []Vec
	for _, a := range kinds {
		for _, b := range kinds {
			for _, c := range kinds {
				vecs = append(vecs, Vec{"a": a, "b": b, "c": c, "d": "na"})
			}
		}
	}
	var structures [][]Alt
	var build func(cur []Alt)
	build = func(cur []Alt) {
		if len(cur) > 0 {
			structures = append(structures, append([]Alt(nil), cur...))
		}
		if len(cur) == 3 {
			return
		}
		for _, o := range options {
			build(append(cur, o))
		}
	}
	build(nil)
	for _, st := range structures {
		for _, az := range []string{"none", "deny"} {
			for i := 0; i < len(vecs); i += 5 {
				if !yield(DirectCase{Alts: st, Authz: az, Vecs: vecs[i : i+5]}) {
					return
				}
			}
		}
	}
}

var methods = []string{"post", "post", "put", "patch", "delete", "options"}

// GenStack draws an API description and 1-10 requests against it.
func GenStack(t *rapid.T) StackCase {
	c := StackCase{Alts: genAlts(t, 4)}
	c.Unreg = genSubset(t, "unregistered", 10)
	c.Undef = genSubset(t, "undefined", 14)
	c.Decl = rapid.SampledFrom([]string{"global", "op", "op", "override"}).Draw(t, "declared")
	if c.Decl == "override" {
		c.DecoyAnon = rapid.Bool().Draw(t, "decoy-anonymous")
	}
	c.Authz = rapid.SampledFrom(authzKinds).Draw(t, "authorizer")
	c.Method = rapid.SampledFrom(methods).Draw(t, "method")
	c.OptOut = c.Decl == "global" && rapid.Bool().Draw(t, "opt-out-sibling")
	c.HandlerErr = rapid.Bool().Draw(t, "handler-observes-request")
	c.LateAuthz = rapid.IntRange(0, 3).Draw(t, "authorizer-registered-late") == 0
	c.TypeNamed = rapid.IntRange(0, 2).Draw(t, "definitions-named-like-their-type") == 0
	c.DebugMode = rapid.IntRange(0, 2).Draw(t, "middleware-debug-on") == 0
	for i := range c.Alts {
		if !c.Alts[i].Anon && rapid.IntRange(0, 7).Draw(t, "empty-named-entry") == 0 {
			c.Alts[i].EmptyName = true
		}
	}
	c.Reqs = rapid.SliceOfN(rapid.Custom(func(t *rapid.T) Req {
		q := Req{Vec: genVec(t, c.Alts)}
		if rapid.IntRange(0, 1).Draw(t, "damaged") == 1 {
			q.MissingQ = rapid.IntRange(0, 2).Draw(t, "missing-q") == 0
			q.BadCT = rapid.IntRange(0, 2).Draw(t, "bad-content-type") == 0
			if q.BadCT {
				q.BadCTText = rapid.SampledFrom([]string{"", "", "application/json; charset", "application(", "/json", "application/json; a=1; a=2"}).Draw(t, "bad-content-type-text")
			}
			q.BadAccept = rapid.IntRange(0, 2).Draw(t, "bad-accept") == 0
			q.BadBody = rapid.IntRange(0, 2).Draw(t, "bad-body") == 0
		}
		for i, n := 0, rapid.SampledFrom([]int{0, 0, 1, 2, 3}).Draw(t, "extra-headers"); i < n; i++ {
			q.Extra = append(q.Extra, rapid.SampledFrom(extraHeaders).Draw(t, "extra-header"))
		}
		return q
	}), 1, 10).Draw(t, "requests")
	return c
}

func ClassifyStack(c StackCase) (bool, []string) {
	reg := c.reg()
	nt := false
	labels := []string{"declared:" + c.Decl}
	if c.LateAuthz && c.Authz != "none" {
		labels = append(labels, "authorizer registered after the Context was created")
	}
	for _, a := range c.Alts {
		if a.EmptyName && !a.Anon {
			labels = append(labels, "requirement object with an entry under the empty name")
			break
		}
	}
	if c.DebugMode {
		labels = append(labels, "middleware.Debug on while the handler is built and served")
	}
	if c.TypeNamed {
		labels = append(labels, "unrequired definitions named like their type, with authenticators")
		if len(c.Unreg) > 0 {
			labels = append(labels, "required scheme without authenticator next to a registered definition named like its type")
		}
	}
	if len(c.Undef) > 0 {
		labels = append(labels, "undefined-scheme-referenced")
	}
	for _, q := range c.Reqs {
		n, l := vecLabels(c.Alts, reg, q.Vec, c.Authz)
		nt = nt || n
		labels = append(labels, l...)
		if n {
			labels = append(labels, "nontrivial-request")
		}
		refused := true
		for _, o := range evalAnyOrder(c.Alts, reg, q.Vec) {
			if o.Kind == "admit" || o.Kind == "anon" {
				refused = false
			}
		}
		refused = refused || authzDenies(c.Authz)
		if q.damaged() {
			labels = append(labels, "damaged-request")
			if refused {
				labels = append(labels, "refused+damaged")
			}
		}
		for _, d := range []struct {
			name string
			on   bool
		}{{"damage:missing-query", q.MissingQ}, {"damage:content-type", q.BadCT}, {"damage:content-type that is no media type", q.BadCT && q.BadCTText != ""}, {"damage:accept", q.BadAccept}, {"damage:body", q.BadBody}} {
			if d.on {
				labels = append(labels, d.name)
			}
		}
	}
	return nt, labels
}

const ruleText = "requirement structure of 1-4 alternatives over schemes a-d (sets of 1-3 schemes with scopes, the empty alternative at any position), " +
	"schemes with/without registered authenticator, authorizer absent/allow/deny/deny with status, outcome vector per scheme from {n/a, ok, nil principal, reject with status, reject plain}; " +
	"non-trivial: (>=2 alternatives or an AND of >=2) and the vector over the used schemes is neither all-accept nor all-n/a, or the empty alternative next to a rejecting scheme, or a denying authorizer"

func Props() []kit.Runner {
	return []kit.Runner{
		kit.Prop[DirectCase]{ID: "C02", Name: "direct",
			Rule:  "[exported RouteAuthenticator(s) and Context.Authorize with explicit scheme orders, every permutation inside every alternative] " + ruleText,
			Quick: 8000, Thorough: 40000, Gen: GenDirect, Check: CheckDirect, Classify: ClassifyDirect, Enumerate: EnumerateDirect},
		kit.Prop[StackCase]{ID: "C02", Name: "stack",
			Rule:  "[spec -> untyped API -> Context.APIHandler, 1-10 requests per API with independent damage: missing required parameter, bad Content-Type, bad Accept, unparsable body] " + ruleText,
			Quick: 1000, Thorough: 4000, Gen: GenStack, Check: CheckStack, Classify: ClassifyStack},
		kit.Prop[StackCase]{ID: "C02", Name: "typed",
			Rule:  "[spec -> own RoutableAPI -> generated-server style handler (Context.Authorize, BindValidRequest, SecurityPrincipalFrom/SecurityScopesFrom) plus Context.Authorize on the looked-up route under every explicit scheme order] " + ruleText,
			Quick: 800, Thorough: 3000, Gen: GenStack, Check: CheckTyped, Classify: ClassifyStack},
	}
}
