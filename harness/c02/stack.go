package c02

import (
	"encoding/json"
	"errors"
	"fmt"
	"io"
	"net/http"
	"net/http/httptest"
	"reflect"
	"strings"

	oerr "github.com/go-openapi/errors"
	"github.com/go-openapi/loads"
	"github.com/go-openapi/runtime"
	"github.com/go-openapi/runtime/middleware"
	"github.com/go-openapi/runtime/middleware/untyped"
	"github.com/go-openapi/spec"
	"github.com/go-openapi/strfmt"

	"verif/harness/kit"
)

// Req is one request against the generated API: the outcome vector plus independent damage.
type Req struct {
	Vec      Vec  `json:"vec"`
	MissingQ bool `json:"missing_q,omitempty"` // required query parameter absent
	BadCT    bool `json:"bad_ct,omitempty"`    // Content-Type not admitted by the operation
	// BadCTText: the header value sent when BadCT is set ("" for the default "text/weird"): a type the operation does
	// not admit, or text that is no media type at all
	BadCTText string `json:"bad_ct_text,omitempty"`
	BadAccept bool   `json:"bad_accept,omitempty"` // Accept the operation cannot satisfy
	BadBody   bool   `json:"bad_body,omitempty"`   // body the consumer cannot parse
	// Extra: request headers that have nothing to do with the security schemes of the API (a CORS preflight marker,
	// proxy and upgrade headers ...): "whatever else is right or wrong with the request", they decide nothing.
	Extra []string `json:"extra,omitempty"`
}

// extraHeaders are the "name: value" pairs Req.Extra draws from.
var extraHeaders = []string{"Access-Control-Request-Method: GET", "Access-Control-Request-Headers: authorization", "Origin: https://elsewhere.example",
	"X-Forwarded-For: 10.0.0.1", "Upgrade: websocket", "Connection: Upgrade", "X-Http-Method-Override: GET", "Expect: 100-continue", "X-Requested-With: XMLHttpRequest"}

func (r Req) damaged() bool { return r.MissingQ || r.BadCT || r.BadAccept || r.BadBody }

// StackCase is one API description with several requests.
type StackCase struct {
	OptOut     bool     `json:"opt_out_sibling,omitempty"` // Decl "global": the API also has operations that opt out with "security": []
	Alts       []Alt    `json:"alts"`
	Unreg      []string `json:"unreg,omitempty"` // defined schemes without a registered authenticator
	Undef      []string `json:"undef,omitempty"` // schemes named by requirements but absent from securityDefinitions
	Decl       string   `json:"decl"`            // global | op | override (operation-level list replaces a global decoy)
	DecoyAnon  bool     `json:"decoy_anon,omitempty"`
	Authz      string   `json:"authz"`
	Method     string   `json:"method"`
	HandlerErr bool     `json:"handler_err,omitempty"` // untyped flavour: the handler returns an error, ServeError observes the request
	// LateAuthz: the authorizer is registered after the Context was created and before the handler is built
	LateAuthz bool `json:"late_authz,omitempty"`
	// TypeNamed: the description also defines schemes that are named like their type ("basic", "apiKey", "oauth2") and
	// that no operation requires; the application registers an always-accepting authenticator for each. They decide
	// nothing: a required scheme without authenticator of its own stays unsatisfiable. (r6)
	TypeNamed bool `json:"type_named,omitempty"`
	// DebugMode: the package variable middleware.Debug is on while the API's handler is built and served (verbose
	// logging to a muted logger): what is admitted does not depend on it. (r9)
	DebugMode bool  `json:"debug_mode,omitempty"`
	Reqs      []Req `json:"reqs"`
}

var typeNamedDefs = []string{"basic", "apiKey", "oauth2"}

// bystander is the authenticator of a definition the operation does not require.
type bystander struct {
	name string
	obs  *observation
}

func (b *bystander) Authenticate(interface{}) (bool, interface{}, error) {
	b.obs.bystanders = append(b.obs.bystanders, b.name)
	return true, "bystander-" + b.name, nil
}

func (c StackCase) reg() map[string]bool {
	reg := regMap(c.Unreg)
	for _, s := range c.Undef {
		reg[s] = false
	}
	return reg
}

type M = map[string]interface{}

func buildSpec(c StackCase) json.RawMessage {
	defs := M{}
	for _, s := range SchemeNames {
		if contains(c.Undef, s) {
			continue
		}
		switch s {
		case "c":
			defs[s] = M{"type": "basic"}
		case "d":
			defs[s] = M{"type": "oauth2", "flow": "implicit", "authorizationUrl": "https://example.invalid/auth", "scopes": M{}}
		default:
			defs[s] = M{"type": "apiKey", "in": "header", "name": "X-Key-" + s}
		}
	}
	if c.TypeNamed {
		defs["basic"] = M{"type": "basic"}
		defs["apiKey"] = M{"type": "apiKey", "in": "header", "name": "X-Key-bystander"}
		defs["oauth2"] = M{"type": "oauth2", "flow": "implicit", "authorizationUrl": "https://example.invalid/auth", "scopes": M{}}
	}
	sec := []M{}
	for _, a := range c.Alts {
		m := M{}
		for _, s := range a.Schemes {
			sc := a.Scopes[s]
			if sc == nil {
				sc = []string{}
			}
			m[s] = sc
		}
		if a.EmptyName && !a.Anon && len(a.Schemes) > 0 {
			m[""] = []string{}
		}
		sec = append(sec, m)
	}
	op := M{
		"operationId": "o",
		"consumes":    []string{"application/json"},
		"produces":    []string{"application/json"},
		"parameters": []M{
			{"name": "q", "in": "query", "type": "integer", "required": true},
			{"name": "b", "in": "body", "schema": M{"type": "object"}},
		},
		"responses": M{"200": M{"description": "ok"}},
	}
	paths := M{"/p": M{c.Method: op}}
	if c.OptOut && c.Decl == "global" {
		// a sibling operation that opts out of the API-level requirements with an explicit empty list: it must not
		// change what the other operations of the API demand (in whichever order the operations are installed)
		for _, p := range []string{"/open", "/a-open", "/z-open"} {
			paths[p] = M{"get": M{"operationId": "open" + strings.ReplaceAll(p, "/", "_"), "security": []M{}, "produces": []string{"application/json"},
				"responses": M{"200": M{"description": "ok"}}}}
		}
	}
	doc := M{"swagger": "2.0", "info": M{"title": "t", "version": "1"}, "basePath": "/", "securityDefinitions": defs,
		"paths": paths}
	switch c.Decl {
	case "global":
		doc["security"] = sec
	case "op":
		op["security"] = sec
	default:
		op["security"] = sec
		if c.DecoyAnon {
			doc["security"] = []M{{}}
		} else {
			doc["security"] = []M{{"d": []string{"decoy"}}}
		}
	}
	raw, err := json.Marshal(doc)
	if err != nil {
		panic(err)
	}
	return raw
}

// observation is what the doubles recorded while one request was served.
type observation struct {
	log       callLog
	consumed  int
	bound     int // typed flavour: calls of the RequestBinder
	ran       int
	seen      bool        // the handler side could read the request context
	princ     interface{} // SecurityPrincipalFrom inside the handler
	scopes    []string    // SecurityScopesFrom inside the handler
	argPrinc  interface{} // typed flavour: the principal returned by Context.Authorize
	status    int
	message   string
	bodyBytes string
	// bystanders: authenticators of definitions the operation does not require that were consulted
	bystanders []string
}

var errHandlerDone = errors.New("c02: handler ran")

type stackRig struct {
	c       StackCase
	obs     *observation
	handler http.Handler
	ctx     *middleware.Context
	last    *http.Request // the request object of the last serve
}

func (r *stackRig) registerCommon(api *untyped.API) {
	api.RegisterConsumer("application/json", runtime.ConsumerFunc(func(rd io.Reader, v interface{}) error {
		r.obs.consumed++
		return runtime.JSONConsumer().Consume(rd, v)
	}))
	reg := r.c.reg()
	for _, s := range SchemeNames {
		if reg[s] { // an undefined scheme never reaches its authenticator; registering one for it would change nothing
			api.RegisterAuth(s, &scripted{name: s, log: &r.obs.log, legal: legalScopes(r.c.Alts, s)})
		}
	}
	if r.c.TypeNamed {
		for _, n := range typeNamedDefs {
			api.RegisterAuth(n, &bystander{name: n, obs: r.obs})
		}
	}
	if !r.c.LateAuthz {
		r.registerAuthorizer(api)
	}
}

func (r *stackRig) registerAuthorizer(api *untyped.API) {
	if az := newAuthorizer(r.c.Authz, &r.obs.log); az != nil {
		api.RegisterAuthorizer(az)
	}
}

// newUntypedRig: spec -> untyped.API -> middleware.NewContext -> APIHandler.
func newUntypedRig(c StackCase) (*stackRig, error) {
	doc, err := loads.Analyzed(buildSpec(c), "")
	if err != nil {
		return nil, err
	}
	r := &stackRig{c: c, obs: &observation{}}
	api := untyped.NewAPI(doc)
	r.registerCommon(api)
	if c.OptOut && c.Decl == "global" {
		for _, p := range []string{"/open", "/a-open", "/z-open"} {
			api.RegisterOperation("get", p, runtime.OperationHandlerFunc(func(interface{}) (interface{}, error) { return M{"open": true}, nil }))
		}
	}
	api.RegisterOperation(c.Method, "/p", runtime.OperationHandlerFunc(func(interface{}) (interface{}, error) {
		r.obs.ran++
		if c.HandlerErr {
			return nil, errHandlerDone
		}
		return M{"ok": true}, nil
	}))
	api.ServeError = func(rw http.ResponseWriter, rq *http.Request, err error) {
		if err == errHandlerDone {
			// the only place of the untyped flow where the request as the handler stage sees it is handed out
			r.obs.seen = true
			r.obs.princ = middleware.SecurityPrincipalFrom(rq)
			r.obs.scopes = middleware.SecurityScopesFrom(rq)
			rw.WriteHeader(http.StatusOK)
			return
		}
		oerr.ServeError(rw, rq, err)
	}
	r.ctx = middleware.NewContext(doc, api, nil)
	if c.LateAuthz {
		r.registerAuthorizer(api)
	}
	r.handler = r.ctx.APIHandler(nil)
	return r, nil
}

// genAPI is a RoutableAPI in the style of a generated server: its operation handler authorizes, binds with its own
// RequestBinder and then reads the principal and the scopes from the request.
type genAPI struct {
	api *untyped.API
	rig *stackRig
}

func (g *genAPI) HandlerFor(method, path string) (http.Handler, bool) {
	if !strings.EqualFold(method, g.rig.c.Method) || path != "/p" {
		return nil, false
	}
	return http.HandlerFunc(func(rw http.ResponseWriter, r *http.Request) {
		ctx, obs := g.rig.ctx, g.rig.obs
		route, rCtx, _ := ctx.RouteInfo(r)
		if rCtx != nil {
			r = rCtx
		}
		princ, aCtx, err := ctx.Authorize(r, route)
		if err != nil {
			ctx.Respond(rw, r, route.Produces, route, err)
			return
		}
		if aCtx != nil {
			r = aCtx
		}
		if err := ctx.BindValidRequest(r, route, binderFunc(func(br *http.Request, m *middleware.MatchedRoute) error {
			obs.bound++
			return m.Binder.Bind(br, m.Params, m.Consumer, map[string]interface{}{})
		})); err != nil {
			ctx.Respond(rw, r, route.Produces, route, err)
			return
		}
		obs.ran++
		obs.seen = true
		obs.argPrinc = princ
		obs.princ = middleware.SecurityPrincipalFrom(r)
		obs.scopes = middleware.SecurityScopesFrom(r)
		ctx.Respond(rw, r, route.Produces, route, M{"ok": true})
	}), true
}

type binderFunc func(*http.Request, *middleware.MatchedRoute) error

func (f binderFunc) BindRequest(r *http.Request, m *middleware.MatchedRoute) error { return f(r, m) }

func (g *genAPI) ServeErrorFor(string) func(http.ResponseWriter, *http.Request, error) {
	return oerr.ServeError
}
func (g *genAPI) ConsumersFor(mt []string) map[string]runtime.Consumer { return g.api.ConsumersFor(mt) }
func (g *genAPI) ProducersFor(mt []string) map[string]runtime.Producer { return g.api.ProducersFor(mt) }
func (g *genAPI) AuthenticatorsFor(s map[string]spec.SecurityScheme) map[string]runtime.Authenticator {
	return g.api.AuthenticatorsFor(s)
}
func (g *genAPI) Authorizer() runtime.Authorizer { return g.api.Authorizer() }
func (g *genAPI) Formats() strfmt.Registry       { return g.api.Formats() }
func (g *genAPI) DefaultProduces() string        { return g.api.DefaultProduces }
func (g *genAPI) DefaultConsumes() string        { return g.api.DefaultConsumes }

// newTypedRig: spec -> genAPI -> middleware.NewRoutableContext -> APIHandler.
func newTypedRig(c StackCase) (*stackRig, error) {
	doc, err := loads.Analyzed(buildSpec(c), "")
	if err != nil {
		return nil, err
	}
	r := &stackRig{c: c, obs: &observation{}}
	api := untyped.NewAPI(doc)
	r.registerCommon(api)
	r.ctx = middleware.NewRoutableContext(doc, &genAPI{api: api, rig: r}, nil)
	if c.LateAuthz {
		r.registerAuthorizer(api)
	}
	r.handler = r.ctx.APIHandler(nil)
	return r, nil
}

func (r *stackRig) request(q Req) *http.Request {
	target := "/p?q=1"
	if q.MissingQ {
		target = "/p"
	}
	body := `{"x":1}`
	if q.BadBody {
		body = `{"x":`
	}
	req := httptest.NewRequest(strings.ToUpper(r.c.Method), target, strings.NewReader(body))
	if q.BadCT {
		ct := q.BadCTText
		if ct == "" {
			ct = "text/weird"
		}
		req.Header.Set("Content-Type", ct)
	} else {
		req.Header.Set("Content-Type", "application/json")
	}
	if q.BadAccept {
		req.Header.Set("Accept", "image/png")
	}
	for _, s := range SchemeNames {
		req.Header.Set("X-Out-"+s, q.Vec[s])
	}
	for _, h := range q.Extra {
		if i := strings.Index(h, ": "); i > 0 {
			req.Header.Set(h[:i], h[i+2:])
		}
	}
	return req
}

func (r *stackRig) serve(q Req) (*observation, *kit.Violation) {
	return r.serveObject(q, r.request(q))
}

// serveObject serves the given request object (its body is what request(q) gave it, or a fresh copy of it).
func (r *stackRig) serveObject(q Req, req *http.Request) (*observation, *kit.Violation) {
	*r.obs = observation{}
	r.last = req
	rec := httptest.NewRecorder()
	if v := kit.Guard("APIHandler.ServeHTTP", func() { r.handler.ServeHTTP(rec, req) }); v != nil {
		return nil, v
	}
	o := *r.obs
	o.status = rec.Code
	o.bodyBytes = rec.Body.String()
	var body struct {
		Message string `json:"message"`
	}
	_ = json.Unmarshal(rec.Body.Bytes(), &body)
	o.message = body.Message
	return &o, nil
}

func (o *observation) String() string {
	s := fmt.Sprintf("status %d message %q, handler ran %d, consumer ran %d, binder ran %d, authenticators called %v, authorizer saw %v",
		o.status, o.message, o.ran, o.consumed, o.bound, o.log.auth, o.log.authz)
	if o.seen {
		s += fmt.Sprintf(", handler read principal=%v scopes=%v", o.princ, o.scopes)
	}
	return s
}

// matchServed compares what was observed for one request with one admissible outcome of the model.
func matchServed(c StackCase, q Req, o Outcome, ob *observation, typed bool) string {
	nothingRan := func() string {
		switch {
		case ob.ran != 0:
			return "the handler ran"
		case ob.consumed != 0:
			return "the body was handed to a consumer"
		case ob.bound != 0:
			return "the request binder ran"
		}
		return ""
	}
	switch o.Kind {
	case "admit", "anon":
		if c.Authz != "none" {
			if len(ob.log.authz) != 1 {
				return fmt.Sprintf("the authorizer must be consulted exactly once, was %d times", len(ob.log.authz))
			}
			p, isStr := ob.log.authz[0].(string)
			if o.Kind == "anon" && ob.log.authz[0] != nil || o.Kind == "admit" && (!isStr || !contains(o.Princ, p)) {
				return fmt.Sprintf("the authorizer was handed %v", ob.log.authz[0])
			}
		}
		if o.Kind == "admit" {
			if bad := callsWithin(c.Alts, o.Alt, ob.log.auth); bad != "" {
				return "authenticator " + bad + " of a later alternative was called"
			}
		}
		if authzDenies(c.Authz) {
			st, msg := authzExpect(c.Authz)
			if !authzAnswerOK(c.Authz, ob.status, ob.message) {
				return fmt.Sprintf("want the authorizer's answer %d %q", st, msg)
			}
			return nothingRan()
		}
		if !q.damaged() {
			if ob.status != 200 || ob.ran != 1 {
				return "admitted and otherwise valid: want 200 and the handler run once"
			}
		}
		// with damage the later stages decide (C03, C06, C07); only what the handler could read is judged
		if ob.ran > 1 {
			return "the handler ran more than once"
		}
		if ob.ran == 1 && ob.seen {
			want := scopesOf(c.Alts[o.Alt])
			if !reflect.DeepEqual(sortedSet(ob.scopes), want) {
				return fmt.Sprintf("scopes must be those of the admitting alternative %v", want)
			}
			if o.Kind == "anon" {
				if ob.princ != nil || ob.argPrinc != nil {
					return "the anonymous alternative has no principal"
				}
				return ""
			}
			p, _ := ob.princ.(string)
			if !contains(o.Princ, p) {
				return fmt.Sprintf("principal must be one of %v", o.Princ)
			}
			if typed && ob.argPrinc != ob.princ {
				return "Authorize returned a different principal than SecurityPrincipalFrom"
			}
			if c.Authz != "none" && ob.log.authz[0] != ob.princ {
				return "the authorizer judged a different principal than the handler reads"
			}
		}
		return ""
	case "refuse":
		if len(ob.log.authz) != 0 {
			return "the authorizer must not be consulted"
		}
		out := q.Vec[o.Scheme]
		if ob.status != rejStatus(out) || ob.message != rejMessage(o.Scheme, out) {
			return fmt.Sprintf("want %d %q", rejStatus(out), rejMessage(o.Scheme, out))
		}
		return nothingRan()
	default:
		if len(ob.log.authz) != 0 {
			return "the authorizer must not be consulted"
		}
		if ob.status != 401 {
			return "want 401"
		}
		return nothingRan()
	}
}

func (c StackCase) describe() string {
	var parts []string
	for _, a := range c.Alts {
		if a.Anon {
			parts = append(parts, "{}")
		} else {
			parts = append(parts, "{"+strings.Join(a.Schemes, " AND ")+"}")
		}
	}
	s := strings.Join(parts, " OR ") + " declared " + c.Decl
	if len(c.Unreg)+len(c.Undef) > 0 {
		s += fmt.Sprintf(" (no authenticator for %v, no definition for %v)", c.Unreg, c.Undef)
	}
	return s + ", authorizer " + c.Authz
}

func checkServed(c StackCase, rig *stackRig, typed bool) *kit.Violation {
	reg := c.reg()
	for i, q := range c.Reqs {
		ob, v := rig.serve(q)
		if v != nil {
			return v
		}
		if len(ob.log.badParams)+len(ob.log.badScopes) > 0 {
			return kit.Failf("%s: request %d %v: authenticator arguments: %v %v", c.describe(), i, q.Vec, ob.log.badParams, ob.log.badScopes)
		}
		if len(ob.bystanders) > 0 {
			return kit.Failf("%s: request %d %+v: BYSTANDER-CONSULTED: the authenticators registered for the definitions %v, which the operation does not require, were consulted; observed %s", c.describe(), i, q, ob.bystanders, ob)
		}
		want := evalAnyOrder(c.Alts, reg, q.Vec)
		var reasons []string
		matched := false
		for _, o := range want {
			r := matchServed(c, q, o, ob, typed)
			if r == "" {
				matched = true
				break
			}
			reasons = append(reasons, o.String()+": "+r)
		}
		if !matched {
			return kit.Failf("%s: request %d %+v: observed %s; admissible over all evaluation orders: %s", c.describe(), i, q, ob, strings.Join(reasons, "; "))
		}
		// the caller hands the very same request object in again (a retry loop, a test that reuses its request): it is
		// authenticated again, not waved through on what the first pass left behind (r7/r8)
		if i == 0 && !q.damaged() {
			same := rig.last
			same.Body = rig.request(q).Body
			ob2, v := rig.serveObject(q, same)
			if v != nil {
				return v
			}
			if ob2.status != ob.status || ob2.ran != ob.ran || len(ob2.log.auth) != len(ob.log.auth) || len(ob2.log.authz) != len(ob.log.authz) {
				return kit.Failf("%s: request %d %+v: SAME-OBJECT-AGAIN: first pass observed %s; the same *http.Request handed in again observed %s", c.describe(), i, q, ob, ob2)
			}
		}
	}
	return nil
}

// CheckStack: untyped API behind Context.APIHandler.
func CheckStack(c StackCase) *kit.Violation {
	if c.DebugMode {
		saved := middleware.Debug
		middleware.Debug = true
		defer func() { middleware.Debug = saved }()
	}
	rig, err := newUntypedRig(c)
	if err != nil {
		panic("harness: generated spec does not load: " + err.Error())
	}
	return checkServed(c, rig, false)
}

// CheckTyped: generated-server style handler, then Context.Authorize on the looked-up route with every
// combination of explicit scheme orders (the route's alternatives are copied, only their Schemes are permuted).
func CheckTyped(c StackCase) *kit.Violation {
	if c.DebugMode {
		saved := middleware.Debug
		middleware.Debug = true
		defer func() { middleware.Debug = saved }()
	}
	rig, err := newTypedRig(c)
	if err != nil {
		panic("harness: generated spec does not load: " + err.Error())
	}
	if v := checkServed(c, rig, true); v != nil {
		return v
	}
	reg := c.reg()
	for i, q := range c.Reqs {
		var v *kit.Violation
		n := 0
		orderCombos(c.Alts, func(orders [][]string) bool {
			n++
			if n > 64 {
				return false
			}
			v = checkPermutedAuthorize(c, rig, reg, q, orders)
			return v == nil
		})
		if v != nil {
			v.Msg = fmt.Sprintf("%s: request %d %v: %s", c.describe(), i, q.Vec, v.Msg)
			return v
		}
	}
	return nil
}

func checkPermutedAuthorize(c StackCase, rig *stackRig, reg map[string]bool, q Req, orders [][]string) *kit.Violation {
	*rig.obs = observation{}
	req := rig.request(q)
	route, ok := rig.ctx.LookupRoute(req)
	if !ok {
		return kit.Failf("the route of the generated operation was not found")
	}
	if len(route.Authenticators) != len(c.Alts) {
		return kit.Failf("the route has %d alternatives, the operation declares %d", len(route.Authenticators), len(c.Alts))
	}
	ras := append(middleware.RouteAuthenticators(nil), route.Authenticators...)
	for i, a := range c.Alts {
		if a.Anon != ras[i].AllowsAnonymous() {
			return kit.Failf("alternative %d: anonymous=%v in the description, %v in the route", i, a.Anon, ras[i].AllowsAnonymous())
		}
		if a.Anon {
			continue
		}
		declared := a.Schemes
		if a.EmptyName {
			declared = append([]string{""}, a.Schemes...) // the entry under the empty name is an entry like any other
		}
		if !reflect.DeepEqual(sortedSet(ras[i].Schemes), sortedSet(declared)) {
			return kit.Failf("alternative %d: schemes %v in the route, %v declared", i, ras[i].Schemes, a.Schemes)
		}
		ras[i].Schemes = append([]string(nil), orders[i]...)
	}
	route.Authenticators = ras
	var usr interface{}
	var rq *http.Request
	var err error
	if v := kit.Guard("Context.Authorize", func() { usr, rq, err = rig.ctx.Authorize(req, route) }); v != nil {
		return v
	}
	log := &rig.obs.log
	if err != nil {
		// a refusal is not turned into an admission by asking again with the request value the caller holds (r6)
		kept := *log
		var usr2 interface{}
		var err2 error
		if v := kit.Guard("Context.Authorize (asked again after a refusal)", func() { usr2, _, err2 = rig.ctx.Authorize(req, route) }); v != nil {
			return v
		}
		if err2 == nil {
			return kit.Failf("explicit order %s: ASKED-AGAIN: Context.Authorize refused the request (%s; authorizer saw %v, authenticators called %v); asked again with the same request value it returned principal=%v and no error (authorizer saw %v, authenticators called %v)",
				describe(c.Alts, orders, nil), errText(err), kept.authz, kept.auth, usr2, log.authz[len(kept.authz):], log.auth[len(kept.auth):])
		}
		*log = kept
	}
	want := evalOrdered(c.Alts, orders, reg, q.Vec)
	got := fmt.Sprintf("(principal=%v, request=%v, err=%s), authorizer saw %v, authenticators called %v", usr, rq != nil, errText(err), log.authz, log.auth)
	var reasons []string
	for _, o := range want {
		r := matchAuthorize(c.Alts, o, q.Vec, c.Authz, usr, rq, err, log)
		if r == "" && (o.Kind == "admit" || o.Kind == "anon") && !authzDenies(c.Authz) {
			if wantSc := scopesOf(c.Alts[o.Alt]); !reflect.DeepEqual(sortedSet(middleware.SecurityScopesFrom(rq)), wantSc) {
				r = fmt.Sprintf("SecurityScopesFrom = %v, the admitting alternative declares %v", middleware.SecurityScopesFrom(rq), wantSc)
			}
		}
		if r == "" {
			return nil
		}
		reasons = append(reasons, o.String()+": "+r)
	}
	return kit.Failf("explicit order %s: Context.Authorize returned %s; admissible: %s", describe(c.Alts, orders, nil), got, strings.Join(reasons, "; "))
}
