package c04

import (
	"bufio"
	"bytes"
	"context"
	"fmt"
	"io"
	"net/http"
	"net/http/httptest"
)

// wire is the wire-fidelity transport of DESIGN.md section 3 (this package's own copy): the client's request is
// serialised with Request.Write, parsed back with http.ReadRequest (what a server sees: canonical header names,
// trimmed values, Content-Length or chunking decided by net/http), served by the handler under test into a
// recorder, and the recorded response is serialised and parsed again with http.ReadResponse. No sockets.
//
// A panic of the handler is not recovered here: it unwinds through http.Client.Do into the kit.Guard around
// Runtime.Submit and is reported as a violation.
type wire struct {
	h      http.Handler
	served int
	// tailEOF: response bodies deliver their last bytes together with io.EOF
	tailEOF bool
	// what the server side saw of the last request (before the handler ran)
	method, requestURI string
	header             http.Header
}

func (w *wire) RoundTrip(r *http.Request) (*http.Response, error) {
	var buf bytes.Buffer
	if err := r.Write(&buf); err != nil {
		return nil, fmt.Errorf("wire: the client request cannot be serialised: %w", err)
	}
	sr, err := http.ReadRequest(bufio.NewReader(&buf))
	if err != nil {
		return nil, fmt.Errorf("wire: a server cannot parse the request (%q): %w", firstLine(buf.Bytes()), err)
	}
	sr.RemoteAddr = "192.0.2.1:49152"
	w.served++
	w.method, w.requestURI, w.header = sr.Method, sr.RequestURI, sr.Header.Clone()
	rec := httptest.NewRecorder()
	w.h.ServeHTTP(rec, sr)
	var rb bytes.Buffer
	if err := rec.Result().Write(&rb); err != nil {
		return nil, fmt.Errorf("wire: the recorded response cannot be serialised: %w", err)
	}
	res, err := http.ReadResponse(bufio.NewReader(&rb), r)
	if err != nil {
		return nil, fmt.Errorf("wire: a client cannot parse the response: %w", err)
	}
	// the context of the request governs the response body as well, as it does with net/http's own transport
	cb := &ctxBody{ctx: r.Context(), ReadCloser: res.Body}
	if w.tailEOF {
		cb.ahead = bufio.NewReader(res.Body)
	}
	res.Body = cb
	return res, nil
}

type ctxBody struct {
	ctx context.Context
	io.ReadCloser
	// ahead: when set, the last bytes of the body are delivered together with io.EOF, as net/http's transport
	// delivers the end of a length-delimited body
	ahead *bufio.Reader
}

func (b *ctxBody) Read(p []byte) (int, error) {
	if err := b.ctx.Err(); err != nil {
		return 0, err
	}
	if b.ahead == nil {
		return b.ReadCloser.Read(p)
	}
	n, err := b.ahead.Read(p)
	if err == nil && n > 0 {
		if _, perr := b.ahead.Peek(1); perr == io.EOF {
			err = io.EOF
		}
	}
	return n, err
}

func firstLine(b []byte) string {
	if i := bytes.Index(b, []byte("\r\n")); i >= 0 {
		b = b[:i]
	}
	if len(b) > 200 {
		b = b[:200]
	}
	return string(b)
}
